"""Common machinery for /verif/bin/check: Coq build + hygiene, extraction/OCaml build, cargo build
of the harness against /repo's working tree, differential runner, evidence and violation output.

Every property module in checklib/props/ exposes `run(ctx)`; see props/C15.py for the template.
"""
import fcntl, glob, hashlib, json, os, re, subprocess, sys, time

ROOT = os.path.dirname(os.path.dirname(os.path.abspath(__file__)))
COQ = os.path.join(ROOT, "coq")
BUILD = os.path.join(ROOT, "build")
HARNESS = os.path.join(ROOT, "harness")
TARGET = os.path.join(ROOT, "target")
REPLAYS = os.path.join(ROOT, "replays")
EVIDENCE = os.path.join(ROOT, "evidence")
CORPUS = os.path.join(ROOT, "corpus")
REPO = os.environ.get("VERIF_REPO", "/repo")

ENV = dict(os.environ, CARGO_NET_OFFLINE="true", CARGO_TARGET_DIR=TARGET)
ENV.pop("RUSTFLAGS", None)  # harness/.cargo/config.toml supplies --cfg grevm_verif

FORBIDDEN = re.compile(
    r"\b(Admitted|admit|Axiom|Axioms|Parameter|Parameters|Conjecture|Conjectures|Abort All)\b"
    r"|Admit Obligations|Unset Guard Checking|Unset Positivity Checking|Unset Universe Checking"
    r"|bypass_check|type-in-type|impredicative-set|native_compute")
TOPLEVEL_HYP = re.compile(r"^\s*(Variable|Variables|Hypothesis|Hypotheses|Context)\b")

ALLOWED_AXIOMS = {
    # axioms the standard library itself declares and that a property theorem may depend on;
    # each one that actually occurs is listed in the evidence trusted_base.
    "functional_extensionality_dep", "FunctionalExtensionality.functional_extensionality_dep",
    "proof_irrelevance", "ProofIrrelevance.proof_irrelevance", "JMeq_eq", "JMeq.JMeq_eq",
    "Eqdep.Eq_rect_eq.eq_rect_eq", "eq_rect_eq", "classic", "Classical_Prop.classic",
}


def log(*a):
    print(*a, flush=True)


def sh(cmd, timeout=1800, cwd=ROOT, env=None, stdin=None, check=False):
    """Run a shell command (list or string); returns (rc, stdout+stderr)."""
    t0 = time.time()
    try:
        p = subprocess.run(cmd, shell=isinstance(cmd, str), cwd=cwd, env=env or ENV,
                           input=stdin, stdout=subprocess.PIPE, stderr=subprocess.STDOUT,
                           timeout=timeout, text=True, errors="replace")
        rc, out = p.returncode, p.stdout
    except subprocess.TimeoutExpired as e:
        so = e.stdout or ""
        if isinstance(so, bytes):
            so = so.decode(errors="replace")
        rc, out = 124, so + "\n[timeout after %ss]" % timeout
    dt = time.time() - t0
    if dt > 0.25 * timeout:
        # visible early warning: a stage that uses a quarter of its time limit on an idle machine
        # will trip it on a loaded one
        log("[slow] %.0fs of a %ss limit: %s" % (dt, timeout, (cmd if isinstance(cmd, str) else " ".join(map(str, cmd)))[:160]))
    if check and rc != 0:
        raise RuntimeError("command failed (%s): %s\n%s" % (rc, cmd, out[-4000:]))
    return rc, out


class FileLock:
    def __init__(self, name):
        os.makedirs(BUILD, exist_ok=True)
        self.path = os.path.join(BUILD, name + ".lock")

    def __enter__(self):
        self.f = open(self.path, "w")
        fcntl.flock(self.f, fcntl.LOCK_EX)
        return self

    def __exit__(self, *a):
        fcntl.flock(self.f, fcntl.LOCK_UN)
        self.f.close()


# ------------------------------------------------------------------------------------------ Coq

def coq_files():
    fs = []
    for p in sorted(glob.glob(os.path.join(COQ, "**", "*.v"), recursive=True)):
        rel = os.path.relpath(p, COQ)
        if rel.startswith("extract" + os.sep) or rel.startswith("cases" + os.sep):
            continue
        fs.append(rel)
    return fs


def coq_makefile():
    files = coq_files()
    proj = "-Q . Grevm\n-arg -w -arg -notation-overridden,-deprecated-hint-without-locality,-deprecated-instance-without-locality\n" + "\n".join(files) + "\n"
    pj = os.path.join(COQ, "_CoqProject")
    old = open(pj).read() if os.path.exists(pj) else None
    if old != proj or not os.path.exists(os.path.join(COQ, "Makefile.coq")):
        open(pj, "w").write(proj)
        sh("coq_makefile -f _CoqProject -o Makefile.coq", cwd=COQ, check=True)
    os.makedirs(os.path.join(COQ, "extract"), exist_ok=True)


def coq_build(targets, timeout=2400):
    """make the given .vo targets (paths relative to coq/). Returns (ok, log)."""
    with FileLock("coq"):
        coq_makefile()
        tgt = " ".join(targets)
        rc, out = sh("timeout %d make -f Makefile.coq -j16 %s" % (timeout, tgt), cwd=COQ, timeout=timeout + 30)
        return rc == 0, out


def coq_closure(vfile):
    """Transitive closure (within the development) of the .v files `vfile` depends on."""
    rc, out = sh("coqdep -Q . Grevm " + " ".join(coq_files()), cwd=COQ)
    deps = {}
    for line in out.splitlines():
        if ":" not in line:
            continue
        lhs, rhs = line.split(":", 1)
        outs = [x for x in lhs.split() if x.endswith(".vo")]
        ins = [x[:-1] for x in rhs.split() if x.endswith(".vo")]
        for o in outs:
            deps[o[:-1]] = ins
    seen, todo = set(), [vfile]
    while todo:
        f = todo.pop()
        if f in seen:
            continue
        seen.add(f)
        todo.extend(deps.get(f, []))
    return sorted(seen)


def strip_comments(src):
    out, depth, i = [], 0, 0
    while i < len(src):
        if src.startswith("(*", i):
            depth += 1; i += 2
        elif src.startswith("*)", i) and depth:
            depth -= 1; i += 2
        else:
            if not depth:
                out.append(src[i])
            i += 1
    return "".join(out)


def coq_hygiene(files):
    """Forbidden vernacular anywhere in `files` (relative to coq/). Returns list of problems."""
    bad = []
    for rel in files:
        src = strip_comments(open(os.path.join(COQ, rel)).read())
        depth = 0
        for n, line in enumerate(src.splitlines(), 1):
            m = FORBIDDEN.search(line)
            if m:
                bad.append("%s:%d: forbidden `%s`" % (rel, n, m.group(0)))
            if re.match(r"^\s*Section\b", line):
                depth += 1
            elif re.match(r"^\s*End\b", line) and depth:
                depth -= 1
            elif depth == 0 and TOPLEVEL_HYP.match(line):
                bad.append("%s:%d: Variable/Hypothesis outside a section" % (rel, n))
    return bad


def count_obligations(files):
    """Number of proof scripts closed by Qed/Defined in the closure = obligations the kernel checked."""
    n = 0
    names = []
    for rel in files:
        src = strip_comments(open(os.path.join(COQ, rel)).read())
        n += len(re.findall(r"\b(Qed|Defined)\s*\.", src))
        names += re.findall(r"^\s*(?:Theorem|Lemma|Corollary|Example|Fact|Proposition|Remark)\s+([A-Za-z0-9_']+)", src, re.M)
    return n, names


def props_file(pid):
    return os.path.join("Props", pid + ".v")


def coq_assumptions(pid):
    """Re-run coqc on Props/<pid>.v capturing `Print Assumptions`; returns (ok, {theorem: [axioms]}, raw)."""
    rel = props_file(pid)
    os.makedirs(os.path.join(BUILD, "pa"), exist_ok=True)
    rc, out = sh("timeout 600 coqc -Q . Grevm -o %s %s" % (os.path.join(BUILD, "pa", pid + ".vo"), rel), cwd=COQ, timeout=700)
    if rc != 0:
        return False, {}, out
    src = strip_comments(open(os.path.join(COQ, rel)).read())
    asked = re.findall(r"Print Assumptions\s+([A-Za-z0-9_'.]+)\s*\.", src)
    thms = re.findall(r"^\s*Theorem\s+([A-Za-z0-9_']+)", src, re.M)
    # split the output into one block per Print Assumptions, in order
    blocks = re.split(r"(?=Closed under the global context|Axioms:)", out)
    blocks = [b for b in blocks if b.startswith("Closed under") or b.startswith("Axioms:")]
    res = {}
    for name, blk in zip(asked, blocks):
        if blk.startswith("Closed under"):
            res[name] = []
        else:
            axs = re.findall(r"^([A-Za-z0-9_'.]+)\s*:", blk[len("Axioms:"):], re.M)
            res[name] = axs
    ok = len(blocks) == len(asked) and set(thms) <= set(asked) and len(thms) > 0
    return ok, res, out


def proof_stage(pid, extra_targets=(), tier="quick"):
    """Stage 1 of DESIGN section 5. Returns dict(ok, problems, obligations, theorems, axioms, files)."""
    t0 = time.time()
    problems = []
    rel = props_file(pid)
    if not os.path.exists(os.path.join(COQ, rel)):
        return dict(ok=False, problems=["missing " + rel], obligations=0, theorems=[], axioms={}, files=[], wall=0)
    ok, out = coq_build([rel + "o"] + [t for t in extra_targets])
    if not ok:
        problems.append("coq build failed:\n" + out[-3000:])
    closure = coq_closure(rel)
    problems += coq_hygiene(closure)
    nobl, names = count_obligations(closure)
    axioms, thms = {}, []
    if ok:
        aok, axioms, raw = coq_assumptions(pid)
        if not aok:
            problems.append("Print Assumptions output incomplete for %s:\n%s" % (rel, raw[-2000:]))
        for th, axs in axioms.items():
            for a in axs:
                if a not in ALLOWED_AXIOMS and a.split(".")[-1] not in ALLOWED_AXIOMS:
                    problems.append("theorem %s depends on non-allowlisted axiom %s" % (th, a))
        thms = sorted(axioms)
        # statement pins
        pins_path = os.path.join(COQ, "Props", "PINS.json")
        pins = json.load(open(pins_path)) if os.path.exists(pins_path) else {}
        h = hashlib.sha256(strip_comments(open(os.path.join(COQ, rel)).read()).encode()).hexdigest()
        if pins.get(pid) and pins[pid] != h:
            problems.append("Props/%s.v differs from its pinned statement hash (run bin/check --pin after a deliberate change)" % pid)
    if tier == "thorough" and ok:
        lib = "Grevm.Props." + pid
        rc, out = sh("timeout 3000 coqchk -silent -o -Q . Grevm %s" % lib, cwd=COQ, timeout=3100)
        if rc != 0:
            problems.append("coqchk failed:\n" + out[-2000:])
        else:
            m = re.search(r"\* Axioms:(.*?)(\n\s*\n|\Z)", out, re.S)
            ax = (m.group(1) if m else "").strip()
            axioms["__coqchk__"] = [l.strip() for l in ax.splitlines() if l.strip() and "<none>" not in l]
    return dict(ok=not problems, problems=problems, obligations=nobl, theorems=thms, axioms=axioms,
                files=closure, lemma_names=names, wall=time.time() - t0)


# ---------------------------------------------------------------------------------- OCaml / cargo

def ocaml_build(group, extracted, driver, exe=None):
    """Build build/<exe> from coq/extract/<extracted>.ml(i) + ocaml/<driver>.ml. Coq must be built first."""
    exe = exe or (group + "_model")
    out_exe = os.path.join(BUILD, exe)
    srcs = [os.path.join(COQ, "extract", extracted + ".mli"), os.path.join(COQ, "extract", extracted + ".ml"),
            os.path.join(ROOT, "ocaml", driver + ".ml")]
    for s in srcs:
        if not os.path.exists(s):
            raise RuntimeError("missing " + s)
    newest = max(os.path.getmtime(s) for s in srcs)
    if os.path.exists(out_exe) and os.path.getmtime(out_exe) >= newest:
        return out_exe
    with FileLock("ocaml-" + group):
        d = os.path.join(BUILD, "ocaml-" + group)
        os.makedirs(d, exist_ok=True)
        for s in srcs:
            sh(["cp", s, d], check=True)
        names = [os.path.basename(s) for s in srcs]
        sh("ocamlfind ocamlopt -O2 -w -a -package str %s -linkpkg -o %s 2>&1 || ocamlfind ocamlopt -w -a -package str -linkpkg %s -o %s"
           % (" ".join(names), out_exe, " ".join(names), out_exe), cwd=d, check=True, timeout=900)
    return out_exe


def cargo_build(bins, release=True, timeout=3000):
    """Build harness binaries against /repo's *current working tree* (path dependency)."""
    with FileLock("cargo"):
        lock_src, lock_dst = os.path.join(REPO, "Cargo.lock"), os.path.join(HARNESS, "Cargo.lock")
        if not os.path.exists(lock_dst):
            sh(["cp", lock_src, lock_dst], check=True)
        args = " ".join("--bin " + b for b in bins)
        rc, out = sh("timeout %d cargo build --offline %s %s" % (timeout, "--release" if release else "", args),
                     cwd=HARNESS, timeout=timeout + 30)
        if rc != 0:
            return False, out, {}
    d = os.path.join(TARGET, "release" if release else "debug")
    return True, out, {b: os.path.join(d, b) for b in bins}


# ------------------------------------------------------------------------------------- reporting

class Ctx:
    def __init__(self, pid, tier, seed, replay=None):
        self.pid, self.tier, self.seed, self.replay = pid, tier, seed, replay
        self.t0 = time.time()
        self.violations = []       # (replay_path, found_input)
        self.known = []
        self.work = os.path.join(BUILD, "work", pid)
        os.makedirs(self.work, exist_ok=True)
        os.makedirs(REPLAYS, exist_ok=True)
        os.makedirs(EVIDENCE, exist_ok=True)

    @property
    def quick(self):
        return self.tier == "quick"

    def known_findings(self):
        p = os.path.join(ROOT, "known_findings.json")
        if not os.path.exists(p):
            return []
        return [f for f in json.load(open(p)).get("known", []) if f.get("property") == self.pid]

    def violation(self, what, replay_obj, found_input):
        """Record a violation; writes the replay file; the VIOLATION line is printed by finish()."""
        blob = json.dumps(replay_obj, sort_keys=True, default=str)
        h = hashlib.sha256(blob.encode()).hexdigest()[:12]
        path = os.path.join(REPLAYS, "%s-%s.json" % (self.pid, h))
        replay_obj = dict(replay_obj, property=self.pid, what=what, failing_input_found=bool(found_input))
        json.dump(replay_obj, open(path, "w"), indent=1, sort_keys=True, default=str)
        self.violations.append((path, found_input, what))
        log("violation: %s (%s)" % (what, path))

    def known_finding(self, what):
        self.known.append(what)

    def finish(self, level, coverage, assumptions):
        wall = time.time() - self.t0
        ev = dict(property_id=self.pid, tier=self.tier, seed=int(self.seed), level=level,
                  coverage=coverage, assumptions=assumptions, wall_s=round(wall, 2),
                  violations=len(self.violations))
        json.dump(ev, open(os.path.join(EVIDENCE, self.pid + ".json"), "w"), indent=1, default=str)
        for k in self.known:
            log("KNOWN-FINDING: property=%s %s" % (self.pid, k))
        if self.violations:
            # one line per check: prefer a violation with a concrete failing input
            vs = sorted(self.violations, key=lambda v: not v[1])
            path, found, what = vs[0]
            log("VIOLATION property=%s replay=%s%s" % (self.pid, path, "" if found else " no-failing-input-found"))
            return 1
        log("OK property=%s tier=%s wall=%.1fs" % (self.pid, self.tier, wall))
        return 0


def run_lines(exe, input_text, timeout=900, args=()):
    rc, out = sh([exe] + list(args), stdin=input_text, timeout=timeout)
    return rc, out


def diff_lines(impl_lines, model_lines):
    """First index where the two differ, or None."""
    n = max(len(impl_lines), len(model_lines))
    for i in range(n):
        a = impl_lines[i] if i < len(impl_lines) else "<missing>"
        b = model_lines[i] if i < len(model_lines) else "<missing>"
        if a != b:
            return i, a, b
    return None


TRUSTED_COMMON = [
    "Coq 8.16.1 kernel (coqc; coqchk in the thorough tier); no native_compute",
    "extraction: Require Extraction + ExtrOcamlBasic only (bool/option/list/prod/unit/sumbool); nat/N/positive/Z stay extracted inductives; hand-written OCaml line driver",
    "correspondence harness (Rust, /verif/harness) and canonicalisation before diffing",
]
