"""C01 - parallel execution equals in-order revm execution (outcomes and bundle)."""
from checklib import core
from checklib.props import stm_common as sc

PID = "C01"
BINS = sc.BINS
setup = sc.setup
PROPS_NOTE = "C01_returned_result_is_in_order, C01_full_parallel_run_exact, C01_invariant_reachable"


def sweeps(ctx):
    q = ctx.quick
    return [
        ("small", 1, 400 if q else 6000, ["txs=2..4", "workers=1,2,3"]),
        ("mid", 2, 300 if q else 6000, ["txs=4..8", "workers=1,2,3,4"]),
        ("large", 3, 60 if q else 2000, ["txs=10..24", "workers=2,4,8", "maxsteps=400000"]),
        ("pct", 4, 150 if q else 3000, ["txs=3..7", "workers=2,3", "strat=pct"]),
        # dependency chains with data-dependent write locations (write sets that change between
        # incarnations, withdrawn writes) under straggler schedules (one worker frozen mid-task)
        # existing-empty fee recipient (a zero reward still touches it), all transaction kinds
        ("emptyben", 7, 250 if q else 4000, ["txs=2..6", "workers=1,2,3", "opts=invalid,destroy,create,ben,shared,emptyben"]),
        # Prague blocks with sponsored EIP-7702 authorisations (set / re-point / clear) and calls to the EOAs
        ("auth", 8, 300 if q else 5000, ["txs=3..7", "workers=2,3", "opts=auth,shared,ben", "strat=mix2"]),
        ("slowdb", 6, 400 if q else 8000, ["txs=3..6", "workers=2,3", "opts=shared,ben,destroy", "strat=slowdb"]),
        ("chain", 5, 1200 if q else 20000, ["txs=3..5", "workers=2,3", "opts=chain", "strat=straggler"]),
    ]


FAMILIES = {
    # property -> [(flatblock kind, quick count, thorough count)]
    "C01": [("destroy", 400, 6000), ("code", 400, 6000)],
    # EIP-7702 blocks: authorisations move a sender's nonce between its own transactions, senders with
    # stale / future nonces (in-order: skipped) next to valid ones
    "C03": [("code", 2500, 40000)],
    # the fee recipient is one of the destroyed / re-created accounts in a quarter of these blocks
    "C07": [("destroy", 1500, 25000)],
}


def family_blocks(ctx, pid="C01"):
    """Block families the conflict-heavy generator does not produce (C01 only): in-block create /
    self-destruct / re-create / EIP-161 deletion with later readers and writers, and in-block code
    changes (CREATE, EIP-7702 set / re-point / clear) - harness/src/bin/flatblock.rs, free-threaded,
    result / outcomes / bundle vs stock revm in order."""
    from checklib.props import flat_common as fc
    ok, out, bins = core.cargo_build(["flatblock"])
    if not ok:
        raise RuntimeError("cargo build failed:\n" + out[-3000:])
    res = []
    for kind, nq, nt in FAMILIES[pid]:
        bl = fc.block_runs(ctx, bins["flatblock"], kind, nq if ctx.quick else nt)
        res.append(dict(kind=kind, cases=bl.get("cases", 0), mismatch_lines=bl["mismatch_lines"]))
    return res


def run(ctx, pid=PID, sweeps_fn=None, what="grevm's result differs from in-order stock revm"):
    proof = core.proof_stage(pid, extra_targets=["Stm/Extract.vo"], tier=ctx.tier)
    for p in proof["problems"]:
        core.log("proof-stage problem:", p)
    agg, bins, model = sc.run_sweeps(ctx, (sweeps_fn or sweeps)(ctx))
    if pid in FAMILIES:
        fam = family_blocks(ctx, pid)
        for f in fam:
            agg["cases"] += f["cases"]
            for l in f["mismatch_lines"][:1]:
                agg["oracle_mismatch"].append(dict(block_seed="flatblock-%s" % f["kind"], sched_seed=l.split()[0] if l.split() else "?",
                                                   opts=["target/release/flatblock %s %d %d <outdir> <case>" % (f["kind"], ctx.seed, f["cases"])],
                                                   detail=l[:2000]))
    if pid == "C03":
        # nonce u64::MAX from a sender at nonce u64::MAX, alone or with an earlier-checked second reason,
        # half of the runs on a database with an injected fault (finding F11): oracle only - the
        # acceptor's nonce rule does not model revm's unconditional rejection of that nonce
        mx, _, _ = sc.run_sweeps(ctx, [("inv-maxn", 35, 600 if ctx.quick else 8000,
                                        ["txs=2..6", "workers=1,2,3", "strat=mix2", "opts=invalid,shared,multi,maxn", "faults=1"])],
                                 want_trace=False)
        agg["cases"] += mx["cases"]
        agg["oracle_mismatch"] += mx["oracle_mismatch"]
        agg["driver_failure"] += mx["driver_failure"]
    free = None
    if not ctx.quick:
        # free-threaded volume (oracle only)
        free, _, _ = sc.run_sweeps(ctx, [("free", 9, 1500, ["txs=16..64", "workers=2,4,8,16", "free=1"])], want_trace=False)
    return finish(ctx, pid, proof, agg, bins, what, free)


def finish(ctx, pid, proof, agg, bins, what, free=None, liveness=False, extra_cov=None):
    broken = []
    if not proof["ok"]:
        broken += proof["problems"]
    mism = list(agg["oracle_mismatch"]) + (free["oracle_mismatch"] if free else [])
    corr_fail = agg["rejected"] + agg["nondet"] + agg["model_vs_oracle"]
    live = agg["driver_failure"] + (free["driver_failure"] if free else [])
    if mism:
        c = mism[0]
        ctx.violation(what, dict(replay=sc.replay_cmd(c), case=c, detail=open(c["file"]).read()[:4000] if c.get("file") else c.get("detail", ""), seed=ctx.seed), True)
    elif liveness and live:
        c = live[0]
        ctx.violation("execution does not terminate without a timeout / deadlocks: " + c["failure"], dict(replay=sc.replay_cmd(c), case=c, seed=ctx.seed), True)
    elif corr_fail or broken:
        for c in corr_fail[:3]:
            broken.append("trace not accepted by the Coq acceptor / model-oracle disagreement: %s [%s]" % (c["why"][:300], sc.replay_cmd(c)))
        found, tried = sc.search_schedules(ctx, bins, corr_fail, [], 40 if ctx.quick else 400) if corr_fail else ([], 0)
        if found:
            ctx.violation(what, dict(found=found[0], broken=broken, seed=ctx.seed), True)
        else:
            ctx.violation("theorem or correspondence no longer checks", dict(broken=broken, schedules_searched=tried, seed=ctx.seed), False)
    cov = dict(
        obligations=proof["obligations"], discharged=proof["obligations"] if proof["ok"] else 0,
        checker_cmd="make -f Makefile.coq Props/%s.vo (coqc 8.16.1)" % pid + ("; coqchk -silent -o Grevm.Props.%s" % pid if not ctx.quick else ""),
        trusted_base=core.TRUSTED_COMMON + [
            "hook points in src/scheduler*.rs, src/incarnation_db.rs (cfg grevm_verif) and the deterministic driver",
            "trace -> model event translation and per-transaction program reconstruction in ocaml/stm_drv.ml",
            "stock revm 40 as the in-order oracle",
            "axioms per Print Assumptions: " + str(proof["axioms"])],
        theorems=proof["theorems"],
        evaluations=agg["cases"] + (free["cases"] if free else 0),
        distinct_nontrivial=agg["nontrivial"],
        traces_validated_against_impl=agg["accepted"],
        rule="seeded (block, schedule) pairs: conflict-heavy generated blocks run by the real Scheduler under the deterministic driver (random walk / sticky / PCT strategies); each run's hook trace is replayed by the extracted Coq acceptor and its result compared with in-order stock revm (outcomes, bundle, error). non-trivial = distinct pair whose trace has a failed validation or an estimate read AND a re-execution",
        acceptor_verdicts=agg["kinds"], oracle_mismatches=len(mism), driver_liveness_failures=len(live),
        decisive_events=agg["feature_totals"],
        free_threaded_runs=(free["cases"] if free else 0),
        samples=agg["samples"] or [dict(note="no re-execution sampled")],
    )
    if extra_cov:
        cov.update(extra_cov)
    return ctx.finish("proof", cov, [
        "theorems are about the Gallina model Stm/{Spec,Core}.v; the tie to the code is trace acceptance of driven runs + oracle differential (sampled schedules)",
        "revm itself is not modelled: a transaction is a deterministic function of its database-level reads (checked per trace: NONDET verdict otherwise)",
        "interleavings at hook-point granularity with sequentially consistent shared memory",
        "beneficiary reads: the value a committed attempt saw is checked against the oracle's in-order value at commit (Core.do_cdone), the history itself is C07's model",
    ])
