"""C02 - commits are in order, exactly once, final, and equal the in-order effect."""
from checklib.props import stm_common as sc
from checklib.props import C01

PID = "C02"
BINS = sc.BINS
setup = sc.setup


def sweeps(ctx):
    q = ctx.quick
    # conflict-heavy: few slots, many workers relative to block size, all strategies
    return [
        ("c-small", 21, 500 if q else 8000, ["txs=2..5", "workers=2,3,4", "opts=shared,ben"]),
        ("c-sticky", 22, 300 if q else 5000, ["txs=3..8", "workers=2,3", "strat=sticky", "opts=shared,ben,destroy"]),
        ("c-chain", 24, 800 if q else 12000, ["txs=3..6", "workers=2,3,4", "opts=chain,shared", "strat=straggler"]),
        ("c-pct", 23, 300 if q else 5000, ["txs=3..8", "workers=2,3,4", "strat=pct", "opts=shared,ben,create"]),
    ]


def run(ctx):
    return C01.run(ctx, PID, sweeps, "a committed transaction differs from the in-order step (stale result committed, order or count of commits wrong)")
