"""C03 - invalid transactions are skipped exactly as in-order validation dictates."""
from checklib.props import stm_common as sc
from checklib.props import C01

PID = "C03"
BINS = sc.BINS
setup = sc.setup


def sweeps(ctx):
    q = ctx.quick
    inv = "opts=invalid,forceinvalid,shared,ben,destroy,create"
    return [
        ("inv-small", 31, 500 if q else 8000, ["txs=2..5", "workers=1,2,3", inv]),
        ("inv-mid", 32, 300 if q else 5000, ["txs=5..10", "workers=2,3,4", inv]),
        # wrong nonce AND a later-checked reason (funds): the speculative verdict differs from the in-order one
        ("inv-multi", 34, 600 if q else 8000, ["txs=2..6", "workers=1,2,3", "strat=mix2", "opts=invalid,forceinvalid,shared,multi"]),
        ("inv-pct", 33, 200 if q else 3000, ["txs=3..7", "workers=2,3", "strat=pct", inv]),
    ]


def run(ctx):
    return C01.run(ctx, PID, sweeps, "a Skipped outcome (position, reason or its absence) differs from in-order validation, or a skipped transaction left a trace")
