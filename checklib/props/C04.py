"""C04 - errors are faithful and leave an exact committed prefix (fault enumeration on driven runs)."""
import json, os
from checklib import core
from checklib.props import stm_common as sc
from checklib.props import C01

PID = "C04"
BINS = sc.BINS
setup = sc.setup


def sweeps(ctx):
    q = ctx.quick
    return [
        ("faults-small", 41, 1500 if q else 30000, ["txs=2..4", "workers=1,2,3", "faults=1"]),
        ("faults-mid", 42, 800 if q else 15000, ["txs=4..8", "workers=2,3,4", "faults=1"]),
        ("faults-pct", 43, 500 if q else 8000, ["txs=3..6", "workers=2,3", "faults=1", "strat=pct"]),
    ]


def corpus_cases():
    p = os.path.join(core.CORPUS, "C04.json")
    return json.load(open(p)) if os.path.exists(p) else []


def run(ctx):
    proof = core.proof_stage(PID, extra_targets=["Stm/Extract.vo"], tier=ctx.tier)
    for p in proof["problems"]:
        core.log("proof-stage problem:", p)
    # faulty runs are compared with the oracle only (a database fault is not an event of the acceptor)
    agg, bins, model = sc.run_sweeps(ctx, sweeps(ctx), want_trace=False)
    # corpus of minimised failures that were fixed: must pass
    corpus_bad = []
    for c in corpus_cases():
        d = os.path.join(ctx.work, "corpus")
        rc, out = core.sh([bins["e2e"], "one", str(c["block_seed"]), str(c["sched_seed"]), d] + c["opts"] + ["trace=0"], timeout=120)
        if "mismatches=0" not in out:
            corpus_bad.append(dict(c, file=os.path.join(d, "fail-0.txt"), rest="corpus", sweep="corpus"))
    agg["oracle_mismatch"] = corpus_bad + agg["oracle_mismatch"]
    agg["cases"] += len(corpus_cases())
    # accepted-trace statistics come from a fault-free traced sweep so that the evidence shows the tie
    agg2, _, _ = sc.run_sweeps(ctx, [("tie", 44, 150 if ctx.quick else 2000, ["txs=2..6", "workers=1,2,3"])])
    for k in ("accepted", "nontrivial"):
        agg[k] = agg2[k]
    agg["kinds"], agg["feature_totals"], agg["samples"] = agg2["kinds"], agg2["feature_totals"], agg2["samples"]
    agg["rejected"] += agg2["rejected"]; agg["nondet"] += agg2["nondet"]; agg["model_vs_oracle"] += agg2["model_vs_oracle"]
    agg["cases"] += agg2["cases"]
    summ = {}
    for name, _, _, _ in sweeps(ctx):
        for line in open(os.path.join(ctx.work, name, "summary.txt")):
            mode = "Persistent" if "Persistent" in line else "FailOnce" if "FailOnce" in line else "none"
            kind = "Basic" if "fault=Some((Basic" in line else "Storage" if "fault=Some((Storage" in line else "Code" if "fault=Some((Code" in line else "other"
            summ[(mode, kind)] = summ.get((mode, kind), 0) + 1
    return C01.finish(ctx, PID, proof, agg, bins,
                      "an error (or its index / committed prefix) differs from in-order execution on the same faulty database",
                      extra_cov=dict(fault_distribution={"%s/%s" % k: v for k, v in sorted(summ.items())},
                                     corpus_replayed=len(corpus_cases())))
