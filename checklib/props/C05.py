"""C05 - every execution terminates (driver-detected deadlock / stall / livelock on driven runs)."""
from checklib import core
from checklib.props import stm_common as sc
from checklib.props import C01

PID = "C05"
BINS = sc.BINS
setup = sc.setup


def sweeps(ctx):
    q = ctx.quick
    all_ = "opts=invalid,destroy,create,ben,shared"
    return [
        ("l-small", 51, 600 if q else 10000, ["txs=1..4", "workers=1,2,3", all_]),
        ("l-mid", 52, 400 if q else 8000, ["txs=4..10", "workers=1,2,4", all_]),
        ("l-pct", 53, 400 if q else 8000, ["txs=2..8", "workers=2,3,4", "strat=pct", all_]),
        ("l-faults", 54, 400 if q else 8000, ["txs=2..6", "workers=2,3", "faults=1", all_]),
        # a user-supplied database that panics inside a worker: the panic must reach the caller, every
        # thread must finish, and no coordinator may need its stall timer to notice the cancellation
        ("l-panic", 57, 300 if q else 6000, ["txs=2..6", "workers=2,3", "panics=1", all_]),
        ("l-chain", 55, 200 if q else 3000, ["txs=6..16", "workers=2,3", "opts=shared,ben", "maxsteps=300000"]),
    ]


def run(ctx):
    proof = core.proof_stage(PID, extra_targets=["Stm/Extract.vo"], tier=ctx.tier)
    for p in proof["problems"]:
        core.log("proof-stage problem:", p)
    agg, bins, model = sc.run_sweeps(ctx, sweeps(ctx), want_trace=False)
    agg2, _, _ = sc.run_sweeps(ctx, [("tie", 56, 150 if ctx.quick else 2000, ["txs=2..6", "workers=1,2,3"])])
    for k in ("accepted", "nontrivial", "kinds", "feature_totals", "samples"):
        agg[k] = agg2[k]
    agg["rejected"] += agg2["rejected"]; agg["nondet"] += agg2["nondet"]; agg["model_vs_oracle"] += agg2["model_vs_oracle"]
    agg["driver_failure"] += agg2["driver_failure"]
    agg["cases"] += agg2["cases"]
    free = None
    if not ctx.quick:
        free, _, _ = sc.run_sweeps(ctx, [("free", 59, 3000, ["txs=8..64", "workers=1,2,4,8,16", "free=1", "opts=invalid,destroy,create,ben,shared"])], want_trace=False)
    # in the faulty sweep a result difference is C04's business, not C05's
    agg["oracle_mismatch"] = [c for c in agg["oracle_mismatch"] if "faults=1" not in " ".join(c.get("opts", []))]
    # in the panic sweep a "mismatch" means the panic did not reach the caller: that is C05's business
    return C01.finish(ctx, PID, proof, agg, bins, "execute() does not return / needs a stall timer", free, liveness=True,
                      extra_cov=dict(liveness_rule="under the driver park_timeout never expires by itself: a run in which progress needs the timer is a stall; nobody runnable is a deadlock; more than maxsteps hook steps is a suspected livelock"))
