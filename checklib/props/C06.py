"""C06 - results do not depend on worker count, thresholds, sequential mode or timing."""
import os, re
from checklib import core
from checklib.props import stm_common as sc
from checklib.props import C01

PID = "C06"
BINS = sc.BINS
setup = sc.setup


def run(ctx):
    proof = core.proof_stage(PID, extra_targets=["Stm/Extract.vo"], tier=ctx.tier)
    for p in proof["problems"]:
        core.log("proof-stage problem:", p)
    agg, bins, model = sc.run_sweeps(ctx, [("tie", 61, 200 if ctx.quick else 3000, ["txs=2..7", "workers=1,2,3,4"])])
    d = os.path.join(ctx.work, "matrix")
    os.makedirs(d, exist_ok=True)
    n = 250 if ctx.quick else 5000
    rc, out = core.sh([bins["e2e"], "matrix", str(ctx.seed + 62), str(n), d, "txs=2..10"], timeout=1500)
    m = re.search(r"cases=(\d+) mismatches=(\d+).*paths=(\{.*\})", out)
    if not m:
        raise RuntimeError("matrix run failed: " + out[-2000:])
    paths = m.group(3)
    multi = sum(1 for l in open(os.path.join(d, "summary.txt")) if "+" in l.split("paths=")[1])
    if int(m.group(2)):
        import glob
        f = sorted(glob.glob(os.path.join(d, "fail-*.txt")))[0]
        agg["oracle_mismatch"].append(dict(block_seed=re.findall(r"block_seed=(\d+)", open(f).read())[0], sched_seed="matrix", opts=["matrix"], file=f))
    agg["cases"] += int(m.group(1)) * 9
    return C01.finish(ctx, PID, proof, agg, bins,
                      "the result depends on the configuration (workers / threshold / sequential mode / entry point) or on timing",
                      extra_cov=dict(config_matrix_blocks=int(m.group(1)), configs_per_block=9, paths_taken=paths,
                                     blocks_where_configs_took_different_paths=multi))
