"""C06 - results do not depend on worker count, thresholds, sequential mode or timing."""
import os, re
from checklib import core
from checklib.props import stm_common as sc
from checklib.props import C01

PID = "C06"
BINS = sc.BINS + ["reserve"]
setup = sc.setup


def policy_stage(ctx, n):
    """Blocks with the delegated-account policies enabled (EIP-7702 delegated accounts, sponsors, own
    later transactions; harness/src/reserve): stock revm is no reference there, the reference is
    grevm's own sequential path. The harness runs every block sequentially and 4-way parallel with the
    policy on and reports `par=seq`."""
    ok, out, bins = core.cargo_build(["reserve"])
    if not ok:
        raise RuntimeError("cargo build failed:\n" + out[-3000:])
    d = os.path.join(ctx.work, "policy")
    os.makedirs(d, exist_ok=True)
    rc, out = core.sh([bins["reserve"], "e2e", str(ctx.seed + 63), str(n), d], timeout=2400)
    if rc != 0:
        raise RuntimeError("reserve e2e failed: " + out[-2000:])
    cases = open(os.path.join(d, "e2e.in")).read().splitlines()
    impl = open(os.path.join(d, "e2e.impl")).read().splitlines()
    bad = []
    charged = 0
    for i, line in enumerate(impl):
        toks = dict(t.split(":", 1) for t in line.split()[2:] if ":" in t)
        if toks.get("par=seq", "1") != "1":
            bad.append(dict(case=i, input=cases[i][:3000] if i < len(cases) else "", impl=line[:1500], what=toks["par=seq"][2:]))
        charged += "1" in (line.split()[1][2:] if len(line.split()) > 1 else "")
    return dict(cases=len(impl), disagreements=bad, blocks_with_a_charged_revert=charged)


def run(ctx):
    proof = core.proof_stage(PID, extra_targets=["Stm/Extract.vo"], tier=ctx.tier)
    for p in proof["problems"]:
        core.log("proof-stage problem:", p)
    agg, bins, model = sc.run_sweeps(ctx, [("tie", 61, 200 if ctx.quick else 3000, ["txs=2..7", "workers=1,2,3,4"])])
    d = os.path.join(ctx.work, "matrix")
    os.makedirs(d, exist_ok=True)
    n = 250 if ctx.quick else 5000
    rc, out = core.sh([bins["e2e"], "matrix", str(ctx.seed + 62), str(n), d, "txs=2..10", "budget=1200"], timeout=2700)
    m = re.search(r"cases=(\d+) mismatches=(\d+).*paths=(\{.*\})", out)
    if not m:
        raise RuntimeError("matrix run failed: " + out[-2000:])
    paths = m.group(3)
    multi = sum(1 for l in open(os.path.join(d, "summary.txt")) if "+" in l.split("paths=")[1])
    if int(m.group(2)):
        import glob
        f = sorted(glob.glob(os.path.join(d, "fail-*.txt")))[0]
        agg["oracle_mismatch"].append(dict(block_seed=re.findall(r"block_seed=(\d+)", open(f).read())[0], sched_seed="matrix", opts=["matrix"], file=f))
    agg["cases"] += int(m.group(1)) * 9
    pol = policy_stage(ctx, 600 if ctx.quick else 12000)
    agg["cases"] += pol["cases"] * 2
    if pol["disagreements"] and not agg["oracle_mismatch"]:
        w = pol["disagreements"][0]
        ctx.violation("with the delegated-account reserve policy on, the parallel and the sequential path give different results for the same block",
                      dict(witness=w, replay="target/release/reserve e2e %d %d <outdir>  (case %d)" % (ctx.seed + 63, pol["cases"], w["case"]), seed=ctx.seed), True)
    return C01.finish(ctx, PID, proof, agg, bins,
                      "the result depends on the configuration (workers / threshold / sequential mode / entry point) or on timing",
                      extra_cov=dict(config_matrix_blocks=int(m.group(1)), configs_per_block=9, paths_taken=paths,
                                     blocks_where_configs_took_different_paths=multi,
                                     policy_blocks=dict(cases=pol["cases"], parallel_vs_sequential_disagreements=len(pol["disagreements"]),
                                                        blocks_with_a_charged_revert=pol["blocks_with_a_charged_revert"],
                                                        rule="seeded EIP-7702 blocks with the reserve policy on, run through the public Scheduler sequentially and 4-way parallel; outcomes and final state compared with each other")))
