"""C07 - fee-recipient accounting is exact, deferred or immediate.

Proof stage: coq/Props/C07.v (model coq/Ben/Model.v).  Correspondence: harness/src/bin/ben.rs drives
the real Beneficiary / BeneficiaryHistory, from_gas, apply_to, BeneficiaryMode::apply and revm's own
reward_beneficiary; the extracted model (ocaml/ben_drv.ml) replays the same cases; outputs are diffed.
Search stage (only after a failure): model-independent references - the cross-checks the harness
makes against stock revm (" X:" marks) and a direct Python statement of the history property.
"""
import collections, os, re
from checklib import core
from checklib.props import stm_common as sc

BINS = ["ben", "e2e"]
PID = "C07"
U256 = 1 << 256


def setup():
    core.coq_build(["Ben/Extract.vo"])
    core.ocaml_build("ben", "ben", "ben_drv")
    sc.setup()


def sched_stage(ctx):
    """The scheduler's use of the reward history (record / invalidate / validate around executions and
    failed validations): blocks in which a third of the transactions read the fee recipient and gas
    (hence the reward) depends on what an attempt read, run by the real Scheduler under driven
    schedules (stragglers, slow database); result vs in-order stock revm."""
    agg, bins, _ = sc.run_sweeps(ctx, [
        ("ben-sched", 71, 1500 if ctx.quick else 25000, ["txs=3..6", "workers=2,3", "opts=ben,chain,cb,emptyben", "strat=mix2"]),
    ], want_trace=False)
    return agg


# ------------------------------------------------------------------------------ differential

def differential(ctx, kind, exe, model, count):
    work = ctx.work
    rc, out = core.sh([exe, kind, str(ctx.seed), str(count), work])
    if rc != 0:
        raise RuntimeError("ben harness failed: " + out[-2000:])
    inp = open(os.path.join(work, "ben_%s.in" % kind)).read()
    impl = open(os.path.join(work, "ben_%s.impl" % kind)).read().splitlines()
    rc, mout = core.run_lines(model, inp)
    if rc != 0:
        raise RuntimeError("ben model driver failed: " + mout[-2000:])
    mdl = mout.splitlines()
    cases = inp.splitlines()
    return dict(kind=kind, cases=cases, impl=impl, model=mdl, first_diff=core.diff_lines(impl, mdl))


def block_stage(ctx, exe, count):
    """Whole blocks through the real Scheduler (parallel and forced-sequential) vs in-order stock revm."""
    rc, out = core.sh([exe, "block", str(ctx.seed), str(count), ctx.work], timeout=900 if ctx.quick else 3000)
    if rc not in (0, 124):
        raise RuntimeError("ben block harness failed: " + out[-2000:])
    cases = open(os.path.join(ctx.work, "ben_block.in")).read().splitlines()
    impl = open(os.path.join(ctx.work, "ben_block.impl")).read().splitlines()
    # a block on which the scheduler does not return is reported by the harness itself (no case
    # finished for 60 s: last result line " X:scheduler-did-not-return-on-this-block", one more input
    # line than results before it). The overall limit only truncates the sample on a slow machine.
    cases = cases[:len(impl)]
    if rc == 124:
        core.log("C07 block stage: time limit reached after %d of %d blocks; the sample is truncated" % (len(impl), count))
    roles, specs = collections.Counter(), collections.Counter()
    names = ["absent", "near-overflow", "existing-empty", "sender", "recipient", "contract-with-storage",
             "self-destructs", "forwarder", "plain-miner"]
    nontrivial = set()
    for c in cases:
        m = re.match(r"block spec=(\S+) basefee=(\d+) role=(\d+) n=(\d+)", c)
        roles[names[int(m.group(3))]] += 1
        specs[m.group(1)] += 1
        if ("probe" in c or "pay-beneficiary" in c or int(m.group(3)) in (3, 5, 6)) and int(m.group(4)) >= 2:
            nontrivial.add(c)
    return dict(kind="block", cases=cases, impl=impl, model=impl, first_diff=None,
                stats=dict(roles=dict(roles), specs=dict(specs)), nontrivial=len(nontrivial))


def hist_stats(cases, impl):
    ops, outs = collections.Counter(), collections.Counter()
    nontrivial = set()
    sizes = collections.Counter()
    for case, res in zip(cases, impl):
        toks, rs = case.split()[3:], res.split()
        sizes[case.split()[1]] += 1
        acc = blocked = chain = False
        for o, r in zip(toks, rs):
            k = o[0]
            ops[k if k != "x" else "x" + o.split(",")[3][0]] += 1
            tag = r[0] + (r[1] if r[0] == "V" else "")
            outs[k + ":" + tag] += 1
            acc |= k in "xe" and r == "T"
            blocked |= r[0] == "E"
            chain |= r[0] == "O" and "[_]" not in r
        if acc and blocked and chain:
            nontrivial.add(case)
    return dict(ops=dict(ops), outcomes=dict(outs), block_sizes=dict(sizes)), len(nontrivial)


def arith_stats(cases, impl):
    kinds, outs = collections.Counter(), collections.Counter()
    nontrivial = set()
    for case, res in zip(cases, impl):
        t = case.split()
        kinds[t[0]] += 1
        if t[0] == "gas":
            nz = not (res.startswith(" R0 ") or res.startswith(" R- "))
            outs["gas:" + ("disabled" if " R- " in res else "nonzero" if nz else "zero")] += 1
            outs["gas:spec%s" % t[1].split(",")[0]] += 1
            if nz:
                nontrivial.add(case)
        elif t[0] == "mode":
            d = res.split()[0]
            outs["mode%s:%s" % (t[1], "deferred" if d != "D-" else "settled")] += 1
            outs["mode:journal-" + ("absent" if t[-1] == "-" else "present")] += 1
            outs["mode:db-" + ("absent" if t[-2] == "-" else "present")] += 1
            if t[1] == "D":
                nontrivial.add(case)
        else:
            before = t[2]
            unchanged = before != "-" and res.strip() == before
            outs["apply:" + ("absent" if before == "-" else "overflow-or-zero" if unchanged else "credited")] += 1
            nontrivial.add(case)
    return dict(kinds=dict(kinds), outcomes=dict(outs)), len(nontrivial)


# ------------------------------------------------------------------- model-independent search

def parse_acct(s):
    if s == "-":
        return None
    _, b, n, c = s.split(":")
    return (int(b, 16), int(n, 16), int(c, 16))


def show_acct(a):
    return "-" if a is None else "A:%x:%x:%x" % a


def credit(a, r):
    """revm: load (absent -> default), checked add, overflow leaves the balance."""
    b, n, c = a if a is not None else (0, 0, 0)
    return (b + r if b + r < U256 else b, n, c)


def classify_py(flags, info):
    """the consensus meaning of a finalized journal account (touched / selfdestructed / created / empty)"""
    touched, created, destroyed = flags & 1, flags & 2, flags & 4
    empty = info[0] == 0 and info[1] == 0 and info[2] in (0, 1)
    if not touched:
        return ("unchanged",)
    if destroyed:
        return ("snap", None)
    if created:
        return ("snap", info)
    if empty:
        return ("snap", None)
    return ("snap", info)


def hist_property(case, res):
    """Direct statement of the property on one op sequence: a Python replay in which every exact
    entry keeps (incarnation, effect); reads must equal the in-order fold from the nearest snapshot
    or anchor, blockers must be the newest estimate above it, stale writers must be refused."""
    t = case.split()
    n, anchor, ops = int(t[1], 16), parse_acct(t[2]), t[3:]
    ent = [(0, None)] * n          # (incarnation, None=estimate | effect)
    rs = res.split()
    for idx, (o, r) in enumerate(zip(ops, rs)):
        f = o.split(",")
        k = f[0]
        where = "op %d `%s` -> `%s`" % (idx, o, r)
        if k in "xei":
            tx, inc = int(f[1], 16), int(f[2], 16)
            if k == "x":
                kind = f[3]
                if kind[0] == "b":
                    want = "P"
                    eff = None
                elif kind[0] == "u":
                    eff = ("unchanged",)
                elif kind[0] == "r":
                    eff = ("reward", int(kind[1:], 16))
                else:
                    fl, a = kind[1:].split("/")
                    eff = classify_py(int(fl, 16), parse_acct(a))
            if k == "x" and kind[0] == "b":
                pass
            elif tx >= n:
                want = "P"
            elif k == "i":
                want = "T" if ent[tx][0] == inc else "F"
                if want == "T":
                    ent[tx] = (inc, None)
            else:
                want = "T" if inc > ent[tx][0] else "F"
                if want == "T":
                    ent[tx] = (inc, eff if k == "x" else None)
            if r != want:
                return "%s: a %s writer must answer %s" % (where, "stale/repeated" if want == "F" else "newer" if want == "T" else "invalid", want)
        else:
            tx = int(f[1], 16)
            if tx > n:
                want = "P"
                if r != want:
                    return where + ": reader outside the block"
                continue
            chain, acc, blocker, rewards = [], anchor, None, []
            for w in range(tx - 1, -1, -1):
                inc, eff = ent[w]
                if eff is None:
                    blocker = w
                    break
                chain.append((w, inc))
                if eff[0] == "reward":
                    rewards.append(eff[1])
                elif eff[0] == "snap":
                    acc = eff[1]
                    break
            if blocker is None:
                for x in reversed(rewards):
                    acc = credit(acc, x)
            vs = "_" if not chain else "/".join("%x.%x" % c for c in chain)
            if k == "q":
                want = "E%x" % blocker if blocker is not None else "O%s[%s]" % (show_acct(acc), vs)
                if r != want:
                    return "%s: in-order fold of the preceding exact credits gives %s" % (where, want)
            else:
                if blocker is not None:
                    want = "V0,%x" % blocker
                else:
                    want = "V%d,%s" % (1 if f[2] == vs else 0, "-" if not chain else "%x" % chain[0][0])
                if r != want:
                    return "%s: validation against the current origin chain gives %s" % (where, want)
    return None


def search(ctx, diffs, proof):
    """Only after a failure. Returns (witness or None, broken list)."""
    broken = list(proof["problems"]) if not proof["ok"] else []
    witness = None
    for d in diffs:
        if d["first_diff"] is not None:
            i, a, b = d["first_diff"]
            broken.append("%s differential: case %d `%s` impl `%s` model `%s`"
                          % (d["kind"], i, d["cases"][i] if i < len(d["cases"]) else "?", a, b))
        for case, res in zip(d["cases"], d["impl"]):
            w = None
            m = re.search(r" X:(\S+)", res)
            if m:
                w = "cross-check against stock revm failed: " + m.group(1)
            elif d["kind"] == "hist":
                w = hist_property(case, res)
            if w:
                witness = witness or dict(kind=d["kind"], case=case, impl=res.strip(), predicate=w)
                break
    return witness, broken


def run(ctx):
    if ctx.replay:
        # every case derives from the seed: a replay re-runs the stages with the recorded seed
        import json
        ctx.seed = int(json.load(open(ctx.replay)).get("seed", ctx.seed))
    proof = core.proof_stage(PID, extra_targets=["Ben/Extract.vo", "Ben/ProofsExamples.vo"], tier=ctx.tier)
    for p in proof["problems"]:
        core.log("proof-stage problem:", p)
    ok, out, bins = core.cargo_build(BINS)
    if not ok:
        raise RuntimeError("cargo build failed:\n" + out[-3000:])
    model = core.ocaml_build("ben", "ben", "ben_drv")
    n_hist = 6000 if ctx.quick else 200000
    n_arith = 10000 if ctx.quick else 300000
    dh = differential(ctx, "hist", bins["ben"], model, n_hist)
    da = differential(ctx, "arith", bins["ben"], model, n_arith)
    db = block_stage(ctx, bins["ben"], 400 if ctx.quick else 12000)
    diffs = [dh, da, db]
    corr_ok = all(d["first_diff"] is None for d in diffs)
    xmarks = sum(1 for d in diffs for l in d["impl"] if " X:" in l)

    sch = sched_stage(ctx)
    from checklib.props import C01 as _c01
    fam = _c01.family_blocks(ctx, "C07")
    fam_bad = [l for f in fam for l in f["mismatch_lines"]]
    if fam_bad:
        ctx.violation("beneficiary accounting differs from in-order revm in a block that destroys / re-creates accounts (the fee recipient among them)",
                      dict(witness=fam_bad[0][:3000], replay="target/release/flatblock destroy %d %d <outdir> %s" % (ctx.seed, fam[0]["cases"], fam_bad[0].split()[0]), seed=ctx.seed), True)
    elif sch["oracle_mismatch"]:
        c = sch["oracle_mismatch"][0]
        ctx.violation("beneficiary accounting differs from in-order revm in a scheduled block (a reader of the fee recipient or the final credit is wrong)",
                      dict(replay=sc.replay_cmd(c), case=c, detail=open(c["file"]).read()[:4000] if c.get("file") else "", seed=ctx.seed), True)
    elif not proof["ok"] or not corr_ok or xmarks:
        witness, broken = search(ctx, diffs, proof)
        if witness:
            ctx.violation("beneficiary accounting differs from in-order revm: " + witness["predicate"],
                          dict(witness=witness, broken=broken, seed=ctx.seed), True)
        else:
            ctx.violation("theorem or correspondence no longer checks", dict(broken=broken, seed=ctx.seed), False)

    hs, hnt = hist_stats(dh["cases"], dh["impl"])
    as_, ant = arith_stats(da["cases"], da["impl"])
    cov = dict(
        obligations=proof["obligations"], discharged=proof["obligations"] if proof["ok"] else 0,
        checker_cmd="make -f Makefile.coq Props/C07.vo (coqc 8.16.1)" + ("; coqchk -silent -o Grevm.Props.C07" if not ctx.quick else ""),
        trusted_base=core.TRUSTED_COMMON + [
            "axioms per Print Assumptions: " + str(proof["axioms"]),
            "revm's journal (load_account_mut / incr_balance / finalize) and the commit layer's per-account rule are transcribed in Ben/Model.v, not verified; they are exercised against the real revm in the arith differential",
        ],
        theorems=proof["theorems"],
        evaluations=len(dh["cases"]) + len(da["cases"]) + len(db["cases"]) + sch["cases"] + sum(f["cases"] for f in fam),
        destroy_family_blocks=dict(cases=sum(f["cases"] for f in fam), mismatches=len(fam_bad),
                                   rule="flatblock destroy: blocks with self-destruct / re-creation / EIP-161 deletion on all forks; the fee recipient is one of the victims in a quarter of them; free-threaded Scheduler vs in-order stock revm (results and bundle)"),
        scheduled_blocks=dict(cases=sch["cases"], oracle_mismatches=len(sch["oracle_mismatch"]), driver_failures=len(sch["driver_failure"]),
                              rule="blocks with coinbase probes and data-dependent gas run by the real Scheduler under driven schedules (random, sticky, PCT, straggler, slow database) vs in-order stock revm"),
        distinct_nontrivial=hnt + ant + db["nontrivial"],
        rule="hist: seeded op sequences (record_execution u/reward/journal-account/both, record_estimate, invalidate, resolve_before, validate; block sizes 0-6; repeated, stale, zero and usize::MAX incarnations; out-of-range ids; near-overflow balances and rewards; absent anchor; snapshots incl. None) on the real Beneficiary vs the extracted model; non-trivial = distinct sequence with an accepted record, a blocked read and a read with a non-empty chain. "
             "arith: from_gas + revm's reward_beneficiary on a mainnet Context (all SpecIds, tx types 0-4 and unknown, price below/at/above base fee, zero/absent/huge priority fee, fee charge disabled, u64/u128 limits, negative refund, reservoir), apply_to vs revm incr_balance, BeneficiaryMode::apply in both modes followed by the real finalize / classification / record_execution / resolve_before; non-trivial = distinct gas case with a non-zero reward, every Deferred-mode case, every apply case. "
             "block (no model involved): seeded blocks of 1-10 txs through the real Scheduler, parallel (deferred rewards folded at ordered commit) and forced sequential (immediate), vs in-order stock revm: result, per-tx outcomes and bundle; fee recipient absent / near U256::MAX / existing-empty / sender / recipient / contract with storage / self-destructing / forwarder; zero tip, legacy and 1559; forks Homestead..Osaka; non-trivial = distinct block of >= 2 txs in which the fee recipient is read, paid or plays a sender/contract/self-destruct role",
        hist=hs, arith=as_, block=db["stats"], cross_check_failures=xmarks,
        samples=[dict(case=d["cases"][i][:600], impl=d["impl"][i][:300], model=d["model"][i][:300]) for d in diffs for i in range(min(2, len(d["cases"])))],
    )
    return ctx.finish("proof", cov, [
        "theorems are about the Gallina model Ben/Model.v; the tie to src/beneficiary*.rs is the differential above",
        "the u128 product is modelled as the release build computes it (wrapping); a debug build panics on overflow in grevm and in revm alike",
        "the per-account commit rule (parallel_state.rs:296-351) and the deferred fold in ordered_commit.rs:144-158 are transcribed in the model; in situ they are exercised only by the block stage (free-threaded runs vs in-order stock revm), which is testing, not proof",
        "protocol stage P3 (non-atomic scans interleaved with publication) is not part of this check: the theorems are about histories and operation sequences, validate_sound gives the per-read guarantee",
    ])
