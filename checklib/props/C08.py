"""C08 - in-block account deletion, creation and storage reset are seen correctly."""
from checklib import core
from checklib.props import flat_common as fc

PID = "C08"
BINS = fc.BINS
setup = fc.setup


def run(ctx):
    return fc.run_property(ctx, PID, block_kind="destroy",
        what="a later transaction observes an account / storage slot differently from in-order execution after an in-block deletion, creation or storage reset")
