"""C09 - in-block code changes (CREATE, EIP-7702 set / re-point / clear) reach later txs."""
from checklib import core
from checklib.props import flat_common as fc

PID = "C09"
BINS = fc.BINS
setup = fc.setup


def run(ctx):
    return fc.run_property(ctx, PID, block_kind="code",
        what="a later transaction observes account code (or the account's balance / nonce / storage) differently from in-order execution after an in-block code change")
