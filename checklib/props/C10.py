"""C10 - ParallelState is a faithful stand-in for revm State (bundle, reverts, reads).

Stages (DESIGN section 5):
 1. proof: coq/Props/C10.v (simulation Par ~ Revm, bundle builders, reads, concurrent reader x committer).
 2. correspondence: three-way differential, harness/src/bin/cache.rs (REAL ParallelState, REAL
    revm_database::State) vs the extracted models (ocaml/cache_drv.ml):
      cache.par  == model P lines      (grevm model is the code)
      cache.revm == model R lines      (revm model is revm)
    plus the model-independent comparisons used by the search stage.
 3. search (only after a failure of 1 or 2): REAL ParallelState vs REAL revm State on the histories
    that satisfy the hypotheses of the theorems (op outputs, every extracted bundle, final bundle),
    the order-sensitive comparison of the two bundle builders on the inputs of every merge (BEQ) and
    observed-vs-unobserved runs (OBS).
 F1: the concurrent window (DESIGN section 7) is reproduced deterministically on the real code by
    `cache f1`; it is reported through the known-findings mechanism when listed, as a violation
    otherwise.
"""
import collections, json, os, re
from checklib import core
from checklib.props import stm_common as sc

BINS = ["cache", "e2e"]
PID = "C10"
EXTRA = ["Cache/Extract.vo"]
F1_WHAT = ("a storage read whose database fetch straddles the commit of a selfdestruct / re-creation / "
           "empty-touch of the same account re-inserts the pre-commit slot into the committed cache "
           "(db_storage fetch..insert vs apply_account_state storage.remove; finding F1)")


def setup():
    core.coq_build(EXTRA)
    core.ocaml_build("cache", "cache", "cache_drv")
    sc.setup()


def block_stage(ctx):
    """Whole blocks on the real Scheduler + ParallelState with a slow database: a worker that reports a
    database fetch is frozen for a random time (harness/src/driver.rs Straggler::slow_db), so account,
    code and storage fetches of speculative readers straddle commits of the same account. A read that
    changes what the committed cache serves shows up as a result different from in-order revm."""
    agg, bins, _ = sc.run_sweeps(ctx, [
        ("slowdb", 101, 1500 if ctx.quick else 25000, ["txs=3..6", "workers=2,3", "opts=shared,ben,destroy,create", "strat=slowdb"]),
    ], want_trace=False)
    return agg


def split_main(line):
    parts = line.split(" | ")
    return parts[0], (parts[1] if len(parts) > 1 else "")


def model_lines(model, inp):
    rc, out = core.run_lines(model, inp, timeout=1700)
    ml = out.splitlines()
    return [l[1:] for l in ml if l.startswith("P")], [l[1:] for l in ml if l.startswith("R")]


def same_modulo_merge_panic(impl, mdl):
    """A panic inside revm's update_and_create_revert (an `unreachable!` status sequence of the
    boundary stream) is outside the model: the implementation's outputs up to it must be a prefix."""
    if "MERGE-PANIC" in impl:
        pre = impl.split(" MERGE-PANIC")[0]
        return mdl.startswith(pre + " ")
    return impl == mdl


def differential(ctx, exe, model, count=None, infile=None):
    work = ctx.work
    if infile:
        rc, out = core.sh([exe, "run", infile, work])
        inp = "".join(l + "\n" for l in open(infile).read().splitlines() if l.startswith("case"))
    else:
        rc, out = core.sh([exe, "gen", str(ctx.seed), str(count), work], timeout=1700)
        inp = None
    if rc != 0:
        raise RuntimeError("cache harness failed: " + out[-2000:])
    if inp is None:
        inp = open(os.path.join(work, "cache.in")).read()
    rd = lambda n: open(os.path.join(work, n)).read().splitlines()
    cases, par, revm, parb, revmb, flags = inp.splitlines(), rd("cache.par"), rd("cache.revm"), rd("cache.parb"), rd("cache.revmb"), rd("cache.flags")
    P, Rm = model_lines(model, inp)
    res = dict(cases=cases, par=par, revm=revm, P=P, R=Rm, flags=flags, model_diffs=[], impl_diffs=[])
    n = len(cases)
    if not (len(par) == len(revm) == len(P) == len(Rm) == len(flags) == n):
        res["model_diffs"].append(dict(case=-1, what="line counts differ: cases %d par %d revm %d P %d R %d" % (n, len(par), len(revm), len(P), len(Rm))))
        return res
    for i in range(n):
        if not same_modulo_merge_panic(par[i], P[i]):
            res["model_diffs"].append(dict(case=i, side="ParallelState vs Cache/Par.v", **first_token_diff(par[i], P[i])))
        if not same_modulo_merge_panic(revm[i], Rm[i]):
            res["model_diffs"].append(dict(case=i, side="revm State vs Cache/Revm.v", **first_token_diff(revm[i], Rm[i])))
        # model-independent: the property itself on the real implementations
        f = flags[i]
        if "BEQ=DIFF" in f:
            res["impl_diffs"].append(dict(case=i, what="two-phase bundle builder differs from revm's apply_transitions_and_create_reverts on the transitions of a merge of this history (state / contracts / reverts order / sizes)"))
        if "OBS=DIFF" in f:
            res["impl_diffs"].append(dict(case=i, what="observing the transitions of a call changes what the state later returns"))
        if "WF=1" in f:
            pm, rm = split_main(par[i])[0], split_main(revm[i])[0]
            if pm != rm:
                res["impl_diffs"].append(dict(case=i, what="ParallelState and revm State return different transitions / read values on the same history", **first_token_diff(pm, rm, "grevm", "revm")))
            if parb[i] != revmb[i]:
                res["impl_diffs"].append(dict(case=i, what="ParallelState and revm State produce different bundles (state, contracts, reverts, sizes) on the same history", **first_token_diff(parb[i], revmb[i], "grevm", "revm")))
    return res


def first_token_diff(a, b, na="impl", nb="model"):
    xs, ys = a.split(" "), b.split(" ")
    for j in range(max(len(xs), len(ys))):
        u = xs[j] if j < len(xs) else "<missing>"
        v = ys[j] if j < len(ys) else "<missing>"
        if u != v:
            return {"token": j, na: u[:600], nb: v[:600]}
    return {"token": -1}


def stats(d):
    ops = collections.Counter()
    kinds = collections.Counter()
    nontrivial = set()
    names = {"T": "commit_or_increment", "D": "drain", "I": "basic", "W": "storage", "C": "code", "M": "merge", "-": "take_or_inject", "P": "panic"}
    for c, p in zip(d["cases"], d["par"]):
        has = set()
        for t in split_main(p)[0].split():
            ops[names.get(t[0], t[0])] += 1
        main = split_main(p)[0]
        for st in ("LNE", "L", "LEE", "IMC", "C", "D", "DC", "DA"):
            k = len(re.findall(r"/%s/[^/]*/[A-Z]+/[01]/" % st, main))
            if k:
                kinds["to_" + st] += k
                has.add(st)
        if "PANIC" in main:
            kinds["panic"] += 1
        # rule: a destruction or re-creation happened, at least one slot was read, and transitions were merged
        if (has & {"D", "DA", "DC"}) and " W" in main and " M[" in main:
            nontrivial.add(c)
    wf = sum(1 for f in d["flags"] if "WF=1" in f)
    return dict(ops=dict(ops), transitions_by_new_status=dict(kinds), distinct_nontrivial=len(nontrivial),
                well_formed=wf, boundary_or_malformed=len(d["flags"]) - wf)


def conc_stage(ctx, exe, model, count):
    """Coarse-schedule runs of reader x committer on the real code vs Cache/Conc.v under both orderings."""
    work = ctx.work
    rc, out = core.sh([exe, "conc", str(ctx.seed), str(count), work], timeout=1700)
    if rc != 0:
        raise RuntimeError("cache conc failed: " + out[-2000:])
    inp = open(os.path.join(work, "conc.in")).read()
    impl = [l.strip() for l in open(os.path.join(work, "conc.impl")).read().splitlines()]
    rc, out = core.run_lines(model, inp, timeout=1700)
    ml = out.splitlines()
    O = [l[1:].strip() for l in ml if l.startswith("O")]
    F = [l[1:].strip() for l in ml if l.startswith("F")]
    cases = inp.splitlines()

    def strip_ghost(l):
        return " ".join(x if ":" not in x else ":".join(x.split(":")[:2]) for x in l.split())

    def incoherent(l):
        for x in l.split():
            if ":" in x:
                p = x.split("=")[1].split(":")
                if len(p) == 3 and p[1] != p[2]:
                    return True
        return False

    def outside_hypotheses(case):
        """database holds storage for an account that is absent, empty or has neither code nor nonce
        (db_wf fails): its storage turns "known" on the first change without a wipe - in revm's State
        as well - so cache_coherent does not apply (and F1 is not involved)."""
        t = case.split()
        info, ndb = t[1], int(t[2])
        vals = [int(t[4 + 2 * i], 16) for i in range(ndb)]
        if info == "-":
            bare = True
        else:
            bal, nonce, h, _ = info.split(".")
            bal, nonce, h = int(bal, 16), int(nonce, 16), int(h, 16)
            bare = (h <= 1 and bal == 0 and nonce == 0) or (h == 1 and nonce == 0)
        return bare and any(v != 0 for v in vals)

    n = len(cases)
    bad_o = [i for i in range(n) if i >= len(O) or impl[i] != strip_ghost(O[i])]
    bad_f = [i for i in range(n) if i >= len(F) or impl[i] != strip_ghost(F[i])]
    variant = "original" if not bad_o else ("repaired" if not bad_f else "neither")
    ref = O if variant == "original" else F
    inc_all = [i for i in range(min(n, len(ref))) if incoherent(ref[i])] if variant != "neither" else []
    inc = [i for i in inc_all if not outside_hypotheses(cases[i])]
    return dict(incoherent_outside_hypotheses=len(inc_all) - len(inc), n=n, variant=variant, bad_original=bad_o[:5], bad_repaired=bad_f[:5], n_bad_original=len(bad_o),
                n_bad_repaired=len(bad_f), incoherent=inc, cases=cases, impl=impl, O=O, F=F,
                gated=sum(1 for l in impl if "gated=1" in l))


F9_WHAT = ("a speculative storage read of an account the database holds with balance only (no nonce, no code) "
           "but with storage is cached in the shared state and survives the account's promotion to "
           "'storage known' by the commit of a balance change: ParallelState then serves the database value "
           "where revm's State driven by the committed history serves 0")


def run_promo(exe):
    """Finding F9, directed reproduction through the public API (harness: `cache promo`)."""
    rc, out = core.sh([exe, "promo"], timeout=300)
    lines = [l for l in out.splitlines() if l.startswith("PROMO")]
    if rc not in (0, 10):
        raise RuntimeError("cache promo failed (rc=%s): %s" % (rc, out[-2000:]))
    return rc == 10, lines


def run_f1(exe):
    rc, out = core.sh([exe, "f1", "3"], timeout=300)
    lines = [l for l in out.splitlines() if l.startswith("F1 ")]
    return rc == 10, lines, rc


def run(ctx):
    proof = core.proof_stage(PID, extra_targets=EXTRA, tier=ctx.tier)
    for p in proof["problems"]:
        core.log("proof-stage problem:", p)
    ok, out, bins = core.cargo_build(BINS)
    if not ok:
        raise RuntimeError("cargo build failed:\n" + out[-3000:])
    model = core.ocaml_build("cache", "cache", "cache_drv")
    exe = bins["cache"]

    if ctx.replay:
        rep = json.load(open(ctx.replay))
        tmp = os.path.join(ctx.work, "replay.in")
        open(tmp, "w").write("\n".join(rep.get("cases", [])) + "\n")
        d = differential(ctx, exe, model, infile=tmp)
    else:
        d = differential(ctx, exe, model, count=3000 if ctx.quick else 120000)
    corr_ok = not d["model_diffs"]

    # the concurrent half on the real code: coarse schedules vs Cache/Conc.v, deterministic F1 window
    cs = conc_stage(ctx, exe, model, 2000 if ctx.quick else 40000)
    core.log("conc: %d schedules (%d with a held database fetch); the code follows the `%s` ordering of Cache/Conc.v; %d runs within the hypotheses of cache_coherent end with a cached slot different from the committed value (%d more outside them: database storage for a bare account)"
             % (cs["n"], cs["gated"], cs["variant"], len(cs["incoherent"]), cs["incoherent_outside_hypotheses"]))
    if cs["variant"] == "neither":
        i = (cs["bad_original"] or [0])[0]
        d["model_diffs"].append(dict(case=-1, conc_index=i, side="reader x committer vs Cache/Conc.v (neither ordering matches)",
                                     conc_case=cs["cases"][i], impl=cs["impl"][i],
                                     model_original=cs["O"][i] if i < len(cs["O"]) else None,
                                     model_repaired=cs["F"][i] if i < len(cs["F"]) else None))
        corr_ok = False
    f1_rep, f1_lines, f1_rc = run_f1(exe)
    if cs["incoherent"]:
        i = cs["incoherent"][0]
        f1_lines = f1_lines + ["conc witness: %s => %s (model: cached:answer:committed %s)" % (cs["cases"][i], cs["impl"][i], (cs["O"] if cs["variant"] == "original" else cs["F"])[i])]
        f1_rep = True
    for l in f1_lines:
        core.log(l)
    if f1_rc not in (0, 10):
        raise RuntimeError("cache f1 failed (rc=%s)" % f1_rc)
    soak_line = None
    if not ctx.quick:
        # free-threaded: 6 readers against the committer, no artificial delay; final slot answers vs a
        # reader-less replay of the same commits
        rc, out = core.sh([exe, "soak", "40", "100", "6"], timeout=900)
        soak_line = ([l for l in out.splitlines() if l.startswith("SOAK")] or ["SOAK no output (rc=%s)" % rc])[-1]
        core.log(soak_line)
        if rc == 10:
            f1_rep = True
            f1_lines = f1_lines + [soak_line]
        elif rc != 0:
            d["model_diffs"].append(dict(case=-1, side="free-threaded soak of readers x committer", what=soak_line))
            corr_ok = False
    known_f1 = any(k.get("id") == "F1" for k in ctx.known_findings())
    blk = block_stage(ctx) if not ctx.replay else dict(cases=0, oracle_mismatch=[], driver_failure=[])
    if blk["oracle_mismatch"]:
        c = blk["oracle_mismatch"][0]
        ctx.violation("a speculative read overlapping a commit changed what the state serves afterwards (block result differs from in-order revm under a slow database)",
                      dict(replay=sc.replay_cmd(c), case=c, detail=open(c["file"]).read()[:4000] if c.get("file") else "", seed=ctx.seed), True)

    if not proof["ok"] or not corr_ok or d["impl_diffs"]:
        broken = list(proof["problems"])
        for m in d["model_diffs"][:5]:
            broken.append("three-way differential: %s" % json.dumps(m))
        if d["impl_diffs"]:
            w = d["impl_diffs"][0]
            cases = [d["cases"][w["case"]]]
            ctx.violation(w["what"], dict(witness=w, cases=cases, broken=broken, seed=ctx.seed,
                                          how="bin/check C10 --replay <this file> re-runs the history on both real implementations"), True)
        else:
            cases = [d["cases"][m["case"]] for m in d["model_diffs"][:3] if m.get("case", -1) >= 0]
            ctx.violation("theorem or correspondence no longer checks", dict(broken=broken, cases=cases, seed=ctx.seed), False)

    f9_rep, f9_lines = run_promo(exe)
    for l in f9_lines:
        core.log(l)
    known_f9 = any(k.get("id") == "F9" for k in ctx.known_findings())
    if f9_rep:
        if known_f9:
            ctx.known_finding(F9_WHAT + "; " + " | ".join(f9_lines[:1]))
        else:
            ctx.violation(F9_WHAT, dict(witness=f9_lines, seed=ctx.seed, replay_cmd="target/release/cache promo",
                                        how="database: A = {balance 1, nonce 0, no code, storage {3: 9}}; history: basic(A), commit(A.balance += 1), storage(A, 3); revm State and ParallelState answer 0; with storage_ref(A, 3) through the shared interface before the commit ParallelState answers 9 (Coq: C10_reads_change_answers_without_db_wf_refuted)"), True)

    if f1_rep:
        if known_f1 and not ctx.violations:
            ctx.known_finding(F1_WHAT + "; " + " | ".join(f1_lines))
        elif known_f1:
            core.log("note: F1 window also reproduced (listed as known finding)")
        else:
            ctx.violation(F1_WHAT, dict(witness=f1_lines, seed=ctx.seed,
                                        replay_cmd="target/release/cache f1 3",
                                        how="account V (slot 5 = 7) cached; reader thread: view.storage(V,5) whose database fetch returns 7 and is held; committer thread: commit(selfdestruct V); reader resumes and inserts 7; later storage_ref(V,5) == 7 while basic_ref(V) == None (in-order: 0)"), True)

    st = stats(d)
    cov = dict(
        obligations=proof["obligations"], discharged=proof["obligations"] if proof["ok"] else 0,
        checker_cmd="make -f Makefile.coq Props/C10.vo (coqc 8.16.1)" + ("; coqchk -silent -o Grevm.Props.C10" if not ctx.quick else ""),
        trusted_base=core.TRUSTED_COMMON + [
            "axioms per Print Assumptions: " + str(proof["axioms"]),
            "revm's per-account bundle callees (present_bundle_account, create_revert, update_and_create_revert, size_hint) are Section variables: same callee on both sides, bodies not modelled",
            "database faults (Err) and AccountInfo::account_id are not modelled; DashMap operations are atomic groups (Cache/Conc.v)",
        ],
        theorems=proof["theorems"],
        evaluations=len(d["cases"]), distinct_nontrivial=st["distinct_nontrivial"],
        rule="seeded histories (1..3 blocks of commits built from synthetic finalised EvmStates: create, destroy, recreate, destroy-again, empty-touch, LoadedEmptyEIP161, storage churn; increments, drains, reads of accounts/slots/code through Database, DatabaseRef and the worker view; merge_transitions / parallel_take_bundle with both retentions, take_bundle, re-injected bundles; final read-back of everything) run on the REAL ParallelState, the REAL revm State and both extracted models; non-trivial = distinct history with a destruction or re-creation transition, a slot read and a merge",
        distribution=st,
        f1=dict(reproduced_on_real_code=f1_rep, lines=f1_lines, listed_as_known=known_f1, soak=soak_line),
        conc=dict(schedules=cs["n"], with_held_fetch=cs["gated"], ordering_followed_by_code=cs["variant"],
                  mismatches_vs_original=cs["n_bad_original"], mismatches_vs_repaired=cs["n_bad_repaired"],
                  runs_ending_incoherent=len(cs["incoherent"]),
                  runs_incoherent_outside_hypotheses=cs["incoherent_outside_hypotheses"]),
        slow_database_blocks=dict(cases=blk["cases"], oracle_mismatches=len(blk["oracle_mismatch"]), driver_failures=len(blk["driver_failure"]),
                                  rule="generated blocks (shared senders, probes, selfdestruct, create) run by the real Scheduler under the deterministic driver with the slow-database strategy; result compared with in-order stock revm"),
        samples=[dict(case=d["cases"][i][:700], par=d["par"][i][:500], model=d["P"][i][:500]) for i in range(min(2, len(d["cases"])))],
    )
    return ctx.finish("proof", cov, [
        "theorems are about the Gallina models Cache/{Status,Revm,Par,Bundle,Conc}.v; the tie to src/parallel_state.rs, src/bundle.rs and revm-database 15.0.2 is the three-way differential above",
        "hypotheses of par_simulates_revm: database without storage for absent accounts (db_wf0); code of created accounts known to the database for code_by_hash equality (code_ok); every committed account loaded before (grevm panics otherwise)",
    ])
