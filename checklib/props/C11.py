"""C11 - custom precompiles via the state facade match in-order execution, no residue.

proof stage  : coq/Props/C11.v (Facade/Model.v, Facade/Proofs.v)
correspondence: harness/src/bin/facade.rs
               (1) the real adapter (DynParallelPrecompile::to_alloy, called as alloy calls it) on a
                   real revm context over a logging database with injected faults, running scripted
                   precompile bodies (operation lists, `?` or ignored errors, any implementation
                   return) vs a reference facade on alloy's EvmInternals (every operation result,
                   database reads, whole journal, journal after reverting an enclosing checkpoint,
                   adapter result) and vs the extracted model (ocaml/facade_drv.ml);
               (2) generated blocks through the public Scheduler API mixing calls of a scripted
                   precompile (direct, CALL/STATICCALL/DELEGATECALL/CALLCODE, nested, reverting
                   frames, beneficiary, senders, a counter contract) with ordinary transactions:
                   parallel (2-8 workers, repeated) vs forced sequential vs stock revm in order with
                   the same adapters; observation logs from inside the precompile.
               (3) driven stage (`facade driven`): directed blocks in which the scripts keep state in
                   the storage of a code-less account that another script empties (EIP-161 removal,
                   storage-reset marker), refills and rewrites, and readers load several slots in
                   one call; run by the real Scheduler under the deterministic driver with a writer
                   frozen between two of its publications; each run vs stock revm in order. (Added
                   after finding F8.)
search stage : the model-independent predicates of (1) and (2), re-run on more cases when the
               first two stages failed without such a witness.
"""
import json, os
from checklib import core

BINS = ["facade"]
PID = "C11"

KIND_ORDER = [
    "journal-reached-after-fault",
    "journal-changed-in-static-context-or-after-fault",
    "recorded-fault-not-enforced-by-adapter",
    "parallel-differs-from-in-order-revm",
    "sequential-path-differs-from-in-order-revm",
    "reads-within-one-attempt-disagree",
    "committed-attempt-reads-not-observed",
    "sequential-path-observations-differ",
    "journal-after-checkpoint-revert-differs",
    "journal-differs-from-reference-facade",
    "database-reads-differ-from-reference-facade",
    "operation-result-differs-from-reference-facade",
    "adapter-result-differs-from-reference",
    "adapter-enables-result-caching",
    "adapter-metadata-not-forwarded",
]


def setup():
    core.coq_build(["Facade/Extract.vo"])
    core.ocaml_build("facade", "facade", "facade_drv")


def smallest(direct):
    def key(d):
        k = d.get("kind")
        return (KIND_ORDER.index(k) if k in KIND_ORDER else len(KIND_ORDER), len(d.get("replay", "")))
    return min(direct, key=key)


def run_driver(ctx, exe, model, seed, n_adapter, n_block, tag):
    work = os.path.join(ctx.work, tag)
    os.makedirs(work, exist_ok=True)
    rc, out = core.sh([exe, str(seed), str(n_adapter), str(n_block), work], timeout=3000)
    if rc != 0:
        raise RuntimeError("facade driver failed: " + out[-3000:])
    inp = open(os.path.join(work, "facade.in")).read()
    impl = open(os.path.join(work, "facade.impl")).read().splitlines()
    direct = [json.loads(l) for l in open(os.path.join(work, "facade.direct")).read().splitlines() if l.strip()]
    stats = json.load(open(os.path.join(work, "facade.stats")))
    rc, mout = core.run_lines(model, inp)
    if rc != 0:
        raise RuntimeError("facade model driver failed: " + mout[-2000:])
    return dict(cases=inp.splitlines(), impl=impl, model=mout.splitlines(), direct=direct, stats=stats)


def run_driven(ctx, exe, seed, n, tag):
    """Driven schedules (deterministic driver, a writer frozen between two of its publications) over
    blocks whose scripts keep state in the storage of an account that another script empties."""
    work = os.path.join(ctx.work, tag)
    os.makedirs(work, exist_ok=True)
    rc, out = core.sh([exe, "driven", str(seed), str(n), work], timeout=3000)
    if rc != 0:
        raise RuntimeError("facade driven stage failed: " + out[-3000:])
    direct = [json.loads(l) for l in open(os.path.join(work, "driven.direct")).read().splitlines() if l.strip()]
    stats = json.load(open(os.path.join(work, "driven.stats")))
    return dict(direct=direct, stats=stats)


def replay(ctx, exe):
    """Re-run the block recorded in a replay file (seed + block index) on the current tree."""
    r = json.load(open(ctx.replay))
    w = r.get("witness") or {}
    toks = (w.get("replay") or "").split()
    if len(toks) < 6 or toks[0] != "facade":
        core.log("replay file carries no block to re-run (adapter-level witnesses are re-found by the quick tier with the recorded seed):", str(w)[:2000])
        return 2
    work = os.path.join(ctx.work, "replay")
    if toks[1] == "driven":
        # facade driven <seed> <count> <outdir> <block> <schedule>
        rc, out = core.sh([exe, "driven", toks[2], toks[3], work, toks[5], toks[6]], timeout=900)
        core.log(out[-6000:])
        direct = [json.loads(l) for l in open(os.path.join(work, "driven.direct")).read().splitlines() if l.strip()]
    else:
        seed, idx = toks[1], toks[5]
        rc, out = core.sh([exe, seed, "0", str(int(idx) + 1), work, idx], timeout=600)
        core.log(out[-6000:])
        direct = [json.loads(l) for l in open(os.path.join(work, "facade.direct")).read().splitlines() if l.strip()]
    if direct:
        w = smallest(direct)
        core.log("replayed block fails: %s: %s" % (w["kind"], w["detail"][:2000]))
        core.log("VIOLATION property=%s replay=%s" % (PID, ctx.replay))
        return 1
    core.log("OK property=%s replayed block passes on this tree (parallel schedules are free-running: a pass of a schedule-dependent failure is not conclusive)" % PID)
    return 0


def run(ctx):
    if ctx.replay:
        ok, out, bins = core.cargo_build(BINS)
        if not ok:
            raise RuntimeError("cargo build failed:\n" + out[-3000:])
        return replay(ctx, bins["facade"])
    proof = core.proof_stage(PID, extra_targets=["Facade/Extract.vo"], tier=ctx.tier)
    for p in proof["problems"]:
        core.log("proof-stage problem:", p)
    ok, out, bins = core.cargo_build(BINS)
    if not ok:
        raise RuntimeError("cargo build failed:\n" + out[-3000:])
    model = core.ocaml_build("facade", "facade", "facade_drv")
    n_adapter, n_block = (12000, 3000) if ctx.quick else (200000, 50000)
    d = run_driver(ctx, bins["facade"], model, ctx.seed, n_adapter, n_block, "main")
    first = core.diff_lines(d["impl"], d["model"])
    drv = run_driven(ctx, bins["facade"], ctx.seed, 250 if ctx.quick else 6000, "driven")
    d["direct"] = d["direct"] + drv["direct"]
    d["stats"].update(drv["stats"])
    corr_ok = first is None and not d["direct"]

    if not proof["ok"] or not corr_ok:
        broken = list(proof["problems"])
        if first is not None:
            i, a, b = first
            nbad = sum(1 for x, y in zip(d["impl"], d["model"]) if x != y)
            broken.append("model/implementation differential: %d differing lines, first: case `%s` impl `%s` model `%s`"
                          % (nbad, d["cases"][i] if i < len(d["cases"]) else "?", a, b))
        direct = d["direct"]
        if not direct:
            for k in range(1, 4 if ctx.quick else 8):
                e = run_driver(ctx, bins["facade"], model, ctx.seed + 7919 * k, n_adapter, n_block * 2, "search%d" % k)
                if e["direct"]:
                    direct = e["direct"]
                    break
        if direct:
            w = smallest(direct)
            kinds = sorted({x["kind"] for x in direct})
            broken.append("direct predicates: %d failing, kinds %s" % (len(direct), kinds))
            ctx.violation("precompile facade: %s" % w["kind"],
                          dict(witness=w, kinds=kinds, failing=len(direct), broken=broken, seed=ctx.seed), True)
        else:
            ctx.violation("theorem or correspondence no longer checks", dict(broken=broken, seed=ctx.seed), False)

    st = d["stats"]
    samples = []
    want = ["HALT:static", "FATAL:db", "| OK"]
    for wnt in want:
        for i, c in enumerate(d["cases"]):
            if i < len(d["impl"]) and wnt in d["impl"][i] and len(c.split()) > 6:
                samples.append(dict(case=c, impl=d["impl"][i], model=d["model"][i] if i < len(d["model"]) else None))
                break
    cov = dict(
        obligations=proof["obligations"], discharged=proof["obligations"] if proof["ok"] else 0,
        checker_cmd="make -f Makefile.coq Props/C11.vo (coqc 8.16.1)" + ("; coqchk -silent -o Grevm.Props.C11" if not ctx.quick else ""),
        trusted_base=core.TRUSTED_COMMON + [
            "axioms per Print Assumptions: " + str(proof["axioms"]),
            "revm's journal and alloy's EvmInternals are opaque in the model (section variables); that a journal operation is a tracked database access, follows frame reverts and is committed once is revm + C01, observed here by the block-level differential",
            "the reference facade in harness/src/bin/facade.rs (written from the property text, on alloy's EvmInternals) and the scripted test precompile",
            "parallel runs of the generated blocks are free-running threads (2-8 workers, 2-3 repetitions per block); the driven stage runs directed storage-holder blocks under the deterministic driver (a writer frozen between two publications until the readers did k reads, 8 schedules per block); schedules are sampled, not enumerated",
        ],
        theorems=proof["theorems"],
        evaluations=len(d["cases"]) + st.get("blk_txs", 0) * 1,
        distinct_nontrivial=len({c for c in d["cases"] if len(c.split()) > 5}) + st.get("blk_precompile_calls", 0),
        rule="evaluations = adapter-level scripted bodies (each run on the real adapter, on the reference facade and on the extracted model) + transactions of generated blocks (each block on stock revm, grevm sequential and 2-3 parallel runs); non-trivial = distinct scripts with at least two operations + committed precompile invocations in blocks",
        distribution=st,
        samples=samples,
    )
    return ctx.finish("proof", cov, [
        "theorems are about the Gallina model Facade/Model.v over an abstract journal; the tie to src/precompile.rs is the differential above",
        "fatal precompile errors are exercised at adapter level only; the generated blocks use success / revert / halt returns and facade faults forced by static contexts",
        "the retry-safety contract on user precompiles (Scheduler::new docs) is a precondition of the property; the test precompile records observations out of band but keeps no consensus-visible state",
    ])
