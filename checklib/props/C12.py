"""C12 - the delegated-CREATE guard halts exactly delegated-context creates, nothing else.

proof stage  : coq/Props/C12.v (Guard/Model.v, Guard/Proofs.v)
correspondence: harness/src/bin/guard.rs on real revm / real grevm vs the extracted model
               (ocaml/guard_drv.ml): static gas tables and one step of every opcode for every spec,
               the real guarded_create on a scripted Host (decision function, host consultation,
               equality with the stock instruction), generated blocks through the public Scheduler
               API vs stock revm (+ a reference guard inspector), per-CREATE events of the real
               guarded table on real revm contexts.
search stage : the model-independent predicates of the program differential (grevm == stock revm
               whenever the guard is inert or no delegated-context create executes; == the reference
               guard otherwise; top-level Halt(NotActivated); delegated nonce untouched), re-run
               on more blocks when the first two stages failed without such a witness.
"""
import json, os
from checklib import core

BINS = ["guard"]
PID = "C12"


def setup():
    core.coq_build(["Guard/Extract.vo"])
    core.ocaml_build("guard", "guard", "guard_drv")


def run_driver(ctx, exe, model, seed, n_unit, n_prog, tag):
    work = os.path.join(ctx.work, tag)
    os.makedirs(work, exist_ok=True)
    rc, out = core.sh([exe, str(seed), str(n_unit), str(n_prog), work], timeout=3000)
    if rc != 0:
        raise RuntimeError("guard driver failed: " + out[-3000:])
    inp = open(os.path.join(work, "guard.in")).read()
    impl = open(os.path.join(work, "guard.impl")).read().splitlines()
    direct = [json.loads(l) for l in open(os.path.join(work, "guard.direct")).read().splitlines() if l.strip()]
    stats = json.load(open(os.path.join(work, "guard.stats")))
    rc, mout = core.run_lines(model, inp)
    if rc != 0:
        raise RuntimeError("guard model driver failed: " + mout[-2000:])
    return dict(cases=inp.splitlines(), impl=impl, model=mout.splitlines(), direct=direct, stats=stats)


# model-independent predicates, most telling first (engine-level statements of the property text)
KIND_ORDER = [
    "delegated-account-later-transaction-invalidated",
    "delegated-account-nonce-advanced",
    "top-level-delegated-create-not-halted",
    "engine-differs-from-stock-while-guard-inert",
    "guarded-engine-differs-from-stock-without-delegated-create",
    "guarded-engine-differs-from-reference-guard",
    "parallel-engine-differs",
    "static-gas",
    "guarded-table-differs-from-reference-guard",
]


def smallest(direct):
    def key(d):
        k = d.get("kind")
        return (KIND_ORDER.index(k) if k in KIND_ORDER else len(KIND_ORDER), len(d.get("replay", "")))
    return min(direct, key=key)


def replay(ctx, exe):
    """Re-run the block recorded in a replay file (seed + block index) on the current tree."""
    r = json.load(open(ctx.replay))
    w = r.get("witness") or {}
    toks = (w.get("replay") or "").split()
    if len(toks) < 6 or toks[0] != "guard":
        core.log("replay file carries no block to re-run:", r.get("broken"))
        return 2
    seed, idx = toks[1], toks[5]
    work = os.path.join(ctx.work, "replay")
    rc, out = core.sh([exe, seed, "0", str(int(idx) + 1), work, idx], timeout=600)
    core.log(out[-6000:])
    direct = [json.loads(l) for l in open(os.path.join(work, "guard.direct")).read().splitlines() if l.strip()]
    # a replay does not rewrite the evidence file of the last full run
    if direct:
        w = smallest(direct)
        core.log("replayed block fails: %s: %s" % (w["kind"], w["detail"][:2000]))
        core.log("VIOLATION property=%s replay=%s" % (PID, ctx.replay))
        return 1
    core.log("OK property=%s replayed block passes on this tree" % PID)
    return 0


F12_WHAT = ("with the guard enabled on Prague a block without any delegation differs from stock revm: the guard's "
            "load_account_delegated(target) in front of a CREATE executed by init code loads the account being created "
            "with code (info.code None -> Some(empty)); when that outer create fails and the address is then funded by "
            "SELFDESTRUCT without a code load, it is committed with code Some(empty) and the bundle gains "
            "contracts[KECCAK_EMPTY] (guard off and stock revm: no such entry)")


def run(ctx):
    if ctx.replay:
        ok, out, bins = core.cargo_build(BINS)
        if not ok:
            raise RuntimeError("cargo build failed:\n" + out[-3000:])
        return replay(ctx, bins["guard"])
    proof = core.proof_stage(PID, extra_targets=["Guard/Extract.vo"], tier=ctx.tier)
    for p in proof["problems"]:
        core.log("proof-stage problem:", p)
    ok, out, bins = core.cargo_build(BINS)
    if not ok:
        raise RuntimeError("cargo build failed:\n" + out[-3000:])
    model = core.ocaml_build("guard", "guard", "guard_drv")
    n_unit, n_prog = (8000, 8000) if ctx.quick else (120000, 90000)
    d = run_driver(ctx, bins["guard"], model, ctx.seed, n_unit, n_prog, "main")
    first = core.diff_lines(d["impl"], d["model"])
    corr_ok = first is None and not d["direct"]

    # finding F12: directed reproduction (`guard f12`)
    rc12, out12 = core.sh([bins["guard"], "f12"], timeout=300)
    f12_lines = [l[:400] for l in out12.splitlines() if l.startswith("F12")]
    for l in f12_lines:
        core.log(l)
    if rc12 not in (0, 10):
        raise RuntimeError("guard f12 failed (rc=%s): %s" % (rc12, out12[-2000:]))
    if rc12 == 10:
        if any(k.get("id") == "F12" for k in ctx.known_findings()):
            ctx.known_finding(F12_WHAT)
        else:
            ctx.violation(F12_WHAT, dict(witness=f12_lines, seed=ctx.seed, replay_cmd="target/release/guard f12"), True)

    if not proof["ok"] or not corr_ok:
        broken = list(proof["problems"])
        if first is not None:
            i, a, b = first
            nbad = sum(1 for x, y in zip(d["impl"], d["model"]) if x != y)
            broken.append("model/implementation differential: %d differing lines, first: case `%s` impl `%s` model `%s`"
                          % (nbad, d["cases"][i] if i < len(d["cases"]) else "?", a, b))
        direct = d["direct"]
        if not direct:
            # look further for a block on which the property itself fails
            for k in range(1, 4 if ctx.quick else 8):
                e = run_driver(ctx, bins["guard"], model, ctx.seed + 7919 * k, 0, n_prog * 2, "search%d" % k)
                if e["direct"]:
                    direct = e["direct"]
                    break
        if direct:
            w = smallest(direct)
            kinds = sorted({x["kind"] for x in direct})
            broken.append("program differential: %d failing predicates, kinds %s" % (len(direct), kinds))
            ctx.violation("delegated-CREATE guard: %s" % w["kind"],
                          dict(witness=w, kinds=kinds, failing=len(direct), broken=broken, seed=ctx.seed), True)
        else:
            ctx.violation("theorem or correspondence no longer checks", dict(broken=broken, seed=ctx.seed), False)

    st = d["stats"]
    nontrivial = len({c for c in d["cases"] if c.startswith(("dec ", "ev "))}) + st.get("prog_delegated_create_reached", 0)
    samples = []
    for want in ("dec ", "sel ", "ev ", "op "):
        for i, c in enumerate(d["cases"]):
            if c.startswith(want) and (want != "sel " or c.endswith(" 1")):
                samples.append(dict(case=c, impl=d["impl"][i], model=d["model"][i] if i < len(d["model"]) else None))
                break
    cov = dict(
        obligations=proof["obligations"], discharged=proof["obligations"] if proof["ok"] else 0,
        checker_cmd="make -f Makefile.coq Props/C12.vo (coqc 8.16.1)" + ("; coqchk -silent -o Grevm.Props.C12" if not ctx.quick else ""),
        trusted_base=core.TRUSTED_COMMON + [
            "axioms per Print Assumptions: " + str(proof["axioms"]),
            "revm's interpreter is not modelled: the lifting theorems hold for any machine of the shape of Interpreter::step / run_plain (section variables of Guard/Model.v)",
            "premise own_load_unobservable (loading the running frame's own designator-free account through the host changes nothing): measured by the program differential (gas, logs, state incl. warm-dependent gas)",
            "the reference guard inspector in harness/src/bin/guard.rs (written from the property text) for blocks in which a delegated-context create executes",
        ],
        theorems=proof["theorems"],
        evaluations=len(d["cases"]) + st.get("prog_txs", 0),
        distinct_nontrivial=nontrivial,
        rule="evaluations = model-compared lines (gas tables 15 specs, 256 opcodes x 15 specs x {plain,delegated} single steps, unit decisions, per-block selection, per-block distinct CREATE events) + transactions executed in generated blocks (each block on grevm sequential, grevm parallel (half), stock revm, stock revm + reference guard, stock revm + real guarded table); non-trivial = distinct unit-decision / CREATE-event lines + blocks in which a delegated-context create executes",
        distribution=st,
        samples=samples,
    )
    return ctx.finish("proof", cov, [
        "theorems are about the Gallina model Guard/Model.v; the tie to src/delegated_safety/instructions.rs, config.rs, scheduler/executor.rs:138-142 and scheduler.rs:197-199 is the differential above",
        "reserve_delegated_balance is kept off in the generated blocks (C13's subject); for_spec is modelled for both switches",
        "a failing host load of the frame's own account (FatalExternalError) is exercised at unit level only (scripted Host); on a real context the frame's account is always loaded",
    ])
