"""C13 - delegated-balance reserve keeps an account's later transactions fundable.

Stages: proof (coq/Props/C13.v over coq/Reserve/*) -> correspondence (real ReservePlanner, real
journal scan / reverse walk, real Scheduler runs with the policy on/off vs the extracted models)
-> search with model-independent predicates (only after a failure) -> evidence.
"""
import os
from checklib import core

BINS = ["reserve"]
PID = "C13"
MAX256 = (1 << 256) - 1
KINDS = ["planner"]


def setup():
    core.coq_build(["Reserve/Extract.vo"])
    core.ocaml_build("reserve", "reserve", "reserve_drv")


def differential(ctx, kind, exe, model, count):
    work = ctx.work
    rc, out = core.sh([exe, kind, str(ctx.seed), str(count), work], timeout=1500)
    if rc != 0:
        raise RuntimeError("reserve %s failed: %s" % (kind, out[-2000:]))
    inp = open(os.path.join(work, kind + ".in")).read()
    impl = open(os.path.join(work, kind + ".impl")).read().splitlines()
    rc, mout = core.run_lines(model, inp, timeout=1500)
    mdl = mout.splitlines()
    cases = inp.splitlines()
    return dict(kind=kind, cases=cases, impl=impl, model=mdl, first_diff=core.diff_lines(impl, mdl))


# ------------------------------------------------------------------------------- planner

def parse_planner(case, res):
    t = case.split()
    n = int(t[1]); p = 2
    callers = []
    for _ in range(n):
        callers.append(t[p]); p += 8
    nq = int(t[p]); p += 1
    qs = [(int(t[p + 2 * k], 16), t[p + 2 * k + 1]) for k in range(nq)]
    parts = dict(x.split(":", 1) for x in res.split())
    costs = [MAX256 if c == "X" else int(c, 16) for c in parts["c"].split(",") if c]
    q = [int(v, 16) for v in parts["q"].split(",") if v]
    r = [int(v, 16) for v in parts["r"].split(",") if v]
    return callers, costs, qs, q, r


def planner_predicate(case, res):
    """Model-independent: the property text evaluated with Python integers on revm's own
    max_balance_spending values."""
    callers, costs, qs, q, r = parse_planner(case, res)
    for k, (txid, a) in enumerate(qs):
        want = min(MAX256, sum(c for i, c in enumerate(costs) if i > txid and callers[i] == a))
        for name, got in (("required_after", q[k]), ("required_after (shared planner, other query order)", r[k])):
            if got != want:
                return "%s(txid=%d, account=%s) returned %x, saturating sum of the later maximum costs is %x" % (name, txid, a, got, want)
    return None


def planner_stats(d):
    nontrivial, malformed, saturated, empty = set(), 0, 0, 0
    for case, res in zip(d["cases"], d["impl"]):
        callers, costs, qs, q, r = parse_planner(case, res)
        if any(v != 0 for v in q):
            nontrivial.add(case)
        malformed += "X" in res.split(" q:")[0]
        saturated += any(v == MAX256 for v in q)
        empty += not callers
    return dict(distinct_nontrivial=len(nontrivial), with_undefined_cost=malformed, with_saturated_answer=saturated, empty_blocks=empty)


PREDICATES = {"planner": planner_predicate}
STATS = {"planner": planner_stats}
WHAT = {
    "planner": "required_after is not the saturating sum of the account's later maximum costs",
}


def run(ctx):
    proof = core.proof_stage(PID, extra_targets=["Reserve/Extract.vo"], tier=ctx.tier)
    for p in proof["problems"]:
        core.log("proof-stage problem:", p)
    ok, out, bins = core.cargo_build(BINS)
    if not ok:
        raise RuntimeError("cargo build failed:\n" + out[-3000:])
    model = core.ocaml_build("reserve", "reserve", "reserve_drv")
    counts = dict(planner=3000 if ctx.quick else 90000)
    diffs = {k: differential(ctx, k, bins["reserve"], model, counts[k]) for k in KINDS}
    corr_ok = all(d["first_diff"] is None for d in diffs.values())

    if not proof["ok"] or not corr_ok:
        broken = list(proof["problems"]) if not proof["ok"] else []
        witness = None
        for k, d in diffs.items():
            if d["first_diff"] is not None:
                i, a, b = d["first_diff"]
                broken.append("%s differential: case %d `%s` impl `%s` model `%s`" % (
                    k, i, (d["cases"][i] if i < len(d["cases"]) else "?")[:600], a[:600], b[:600]))
            for case, res in zip(d["cases"], d["impl"]):
                w = PREDICATES[k](case, res) if witness is None else None
                if w:
                    witness = dict(kind=k, case=case, impl=res, predicate=w, what=WHAT[k])
        if witness:
            ctx.violation(witness["what"], dict(witness=witness, broken=broken, seed=ctx.seed), True)
        else:
            ctx.violation("theorem or correspondence no longer checks", dict(broken=broken, seed=ctx.seed), False)

    stats = {k: STATS[k](d) for k, d in diffs.items()}
    cov = dict(
        obligations=proof["obligations"], discharged=proof["obligations"] if proof["ok"] else 0,
        checker_cmd="make -f Makefile.coq Props/C13.vo (coqc 8.16.1)" + ("; coqchk -silent -o Grevm.Props.C13" if not ctx.quick else ""),
        trusted_base=core.TRUSTED_COMMON + ["axioms per Print Assumptions: " + str(proof["axioms"])],
        theorems=proof["theorems"],
        evaluations=sum(len(d["cases"]) for d in diffs.values()),
        distinct_nontrivial=sum(s["distinct_nontrivial"] for s in stats.values()),
        rule="planner: seeded random blocks with shared senders (every third case from the boundary stream: u64/u128/U256 limits, "
             "overflowing gas_limit*price, blob fees) and random query sequences on the real ReservePlanner, plus a second shared "
             "instance queried in a permuted order from two threads, vs the extracted Coq model; non-trivial = distinct case with a non-zero answer",
        distribution=stats,
        samples=[dict(kind=k, case=d["cases"][i][:400], impl=d["impl"][i][:400], model=d["model"][i][:400])
                 for k, d in diffs.items() for i in range(min(2, len(d["cases"])))],
    )
    return ctx.finish("proof", cov, [
        "theorems are about the Gallina models coq/Reserve/*.v; the tie to src/delegated_safety/{reserve,handler}.rs is the differential above",
        "slice::partition_point is modelled by its documented contract (the slices are proved strictly increasing)",
    ])
