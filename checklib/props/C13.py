"""C13 - delegated-balance reserve keeps an account's later transactions fundable.

Stages: proof (coq/Props/C13.v over coq/Reserve/*) -> correspondence (real ReservePlanner, real
journal scan / reverse walk, real Scheduler runs with the policy on/off vs the extracted models)
-> search with model-independent predicates (only after a failure) -> evidence.
"""
import os
from checklib import core

BINS = ["reserve"]
PID = "C13"
MAX256 = (1 << 256) - 1
KINDS = ["planner", "journal", "rule", "e2e"]


def setup():
    core.coq_build(["Reserve/Extract.vo"])
    core.ocaml_build("reserve", "reserve", "reserve_drv")


def differential(ctx, kind, exe, model, count):
    work = ctx.work
    rc, out = core.sh([exe, kind, str(ctx.seed), str(count), work], timeout=1500)
    if rc != 0:
        raise RuntimeError("reserve %s failed: %s" % (kind, out[-2000:]))
    inp = open(os.path.join(work, kind + ".in")).read()
    impl = open(os.path.join(work, kind + ".impl")).read().splitlines()
    rc, mout = core.run_lines(model, inp, timeout=1500)
    mdl = mout.splitlines()
    cases = inp.splitlines()
    return dict(kind=kind, cases=cases, impl=impl, model=mdl, first_diff=core.diff_lines(impl, mdl))


# ------------------------------------------------------------------------------- planner

def parse_planner(case, res):
    t = case.split()
    n = int(t[1]); p = 2
    callers = []
    for _ in range(n):
        callers.append(t[p]); p += 8
    nq = int(t[p]); p += 1
    qs = [(int(t[p + 2 * k], 16), t[p + 2 * k + 1]) for k in range(nq)]
    parts = dict(x.split(":", 1) for x in res.split())
    costs = [MAX256 if c == "X" else int(c, 16) for c in parts["c"].split(",") if c]
    q = [int(v, 16) for v in parts["q"].split(",") if v]
    r = [int(v, 16) for v in parts["r"].split(",") if v]
    return callers, costs, qs, q, r


def planner_predicate(case, res):
    """Model-independent: the property text evaluated with Python integers on revm's own
    max_balance_spending values."""
    callers, costs, qs, q, r = parse_planner(case, res)
    for k, (txid, a) in enumerate(qs):
        want = min(MAX256, sum(c for i, c in enumerate(costs) if i > txid and callers[i] == a))
        for name, got in (("required_after", q[k]), ("required_after (shared planner, other query order)", r[k])):
            if got != want:
                return "%s(txid=%d, account=%s) returned %x, saturating sum of the later maximum costs is %x" % (name, txid, a, got, want)
    return None


def planner_stats(d):
    nontrivial, malformed, saturated, empty = set(), 0, 0, 0
    for case, res in zip(d["cases"], d["impl"]):
        callers, costs, qs, q, r = parse_planner(case, res)
        if any(v != 0 for v in q):
            nontrivial.add(case)
        malformed += "X" in res.split(" q:")[0]
        saturated += any(v == MAX256 for v in q)
        empty += not callers
    return dict(distinct_nontrivial=len(nontrivial), with_undefined_cost=malformed, with_saturated_answer=saturated, empty_blocks=empty)


# ------------------------------------------------------------------------------- shared parsing

class Toks:
    def __init__(self, line):
        self.t = line.split(); self.p = 0
    def next(self):
        v = self.t[self.p]; self.p += 1; return v
    def hex(self):
        return int(self.next(), 16)
    def dec(self):
        return int(self.next())
    def tx(self):
        caller = self.next(); kind = self.next()
        value, gl, gp, ty, nb, bf = (self.hex() for _ in range(6))
        return dict(caller=caller, kind=kind, value=value, gas_limit=gl, gas_price=gp, type=ty, blobs=nb, blobfee=bf)
    def state(self):
        return {a: (b, d == "1") for a, b, d in ((self.next(), self.hex(), self.next()) for _ in range(self.dec()))}
    def entries(self):
        out = []
        for _ in range(self.dec()):
            k = self.next()
            if k == "T":
                out.append(("T", self.next(), self.next(), self.hex()))
            elif k == "D":
                out.append(("D", self.next(), self.next(), self.hex()))
            elif k == "C":
                out.append(("C", self.next(), self.hex()))
            else:
                out.append(("O",))
        return out


def py_cost(tx):
    """max_balance_spending with U256::MAX when undefined (property text, Python integers)."""
    g = tx["gas_limit"] * tx["gas_price"]
    if g >= 1 << 128:
        return MAX256
    m = g + tx["value"]
    if tx["type"] == 3:
        m += min(((131072 * tx["blobs"]) % (1 << 64)) * tx["blobfee"], (1 << 128) - 1)
    return m if m <= MAX256 else MAX256


def py_candidates(entries, cp, tx, state):
    """Property text: first surviving debit of every delegated source, the transaction's own
    top-level value transfer excluded."""
    root_pending = tx["value"] != 0
    first = {}
    for i in range(cp, len(entries)):
        e = entries[i]
        if root_pending and e[0] == "T" and e[1] == tx["caller"] and e[3] == tx["value"] and (tx["kind"] == "C" or e[2] == tx["kind"][1:]):
            root_pending = False
            continue
        src = None
        if e[0] == "T" and e[1] != e[2] and e[3] != 0:
            src = e[1]
        elif e[0] == "D" and e[3] != 0:
            src = e[1]
        if src is not None and state.get(src, (0, False))[1]:
            first.setdefault(src, i)
    return first


def py_walk(entries, i, a, final):
    """Exact reverse walk (no saturation) - valid on well-formed journals."""
    bal = final
    for e in reversed(entries[i:]):
        if e[0] == "T":
            if e[1] == a and e[2] != a:
                bal += e[3]
            elif e[2] == a and e[1] != a:
                bal -= e[3]
        elif e[0] == "D":
            if e[1] == a:
                bal += e[3]
            elif e[2] == a:
                bal -= e[3]
        elif e[0] == "C" and e[1] == a:
            bal = e[2]
    return bal


# ------------------------------------------------------------------------------- journal

def parse_journal(case):
    t = Toks(case); t.next()
    cp = t.hex(); tx = t.tx(); state = t.state(); entries = t.entries()
    points = [(t.hex(), t.next(), t.hex()) for _ in range(t.dec())]
    snaps = {}
    for _ in range(t.dec()):
        k, a, b = t.hex(), t.next(), t.hex()
        snaps[(k, a)] = b
    return cp, tx, state, entries, points, snaps


def journal_predicate(case, res):
    """Model-independent: (1) balance_before_entry must return the balance the account really had
    when the journal had that length (recorded while driving revm's journal); (2) the reported
    candidates must be the delegated sources of surviving non-root debits with that balance."""
    cp, tx, state, entries, points, snaps = parse_journal(case)
    if not snaps:
        return None        # malformed stream: no reference other than the model
    d_part, bb_part = res.split(" bb:")
    bb = [int(v, 16) for v in bb_part.split(",") if v]
    for (k, a, fin), got in zip(points, bb):
        if (k, a) in snaps and state.get(a, (None,))[0] == fin and got != snaps[(k, a)]:
            return "balance_before_entry(index %d, account %s) returned %x, the account held %x at that point" % (k, a, got, snaps[(k, a)])
    want = {}
    for a, i in py_candidates(entries, cp, tx, state).items():
        before = snaps.get((i, a))
        if before is None:
            return None
        want[a] = (before, state[a][0])
    got = {}
    for item in d_part[2:].split(","):
        if item:
            a, b, f = item.split(":")
            got[a] = (int(b, 16), int(f, 16))
    if got != want:
        return "delegated_debits_since returned %s, the surviving delegated debits (first per account, root value transfer excluded; balance actually held before it, final balance) are %s" % (
            {k: tuple(hex(x) for x in v) for k, v in got.items()}, {k: tuple(hex(x) for x in v) for k, v in want.items()})
    return None


def journal_stats(d):
    nontrivial, root, destroyed, malformed, multi = set(), 0, 0, 0, 0
    for case, res in zip(d["cases"], d["impl"]):
        n = res.split(" bb:")[0].count(":") // 3
        if n:
            nontrivial.add(case)
        multi += n > 1
        malformed += not parse_journal(case)[5]
        destroyed += " D " in case
    return dict(distinct_nontrivial=len(nontrivial), with_several_candidates=multi, with_account_destroyed=destroyed, malformed_stream=malformed)


# ------------------------------------------------------------------------------- rule

def parse_rule(case):
    t = Toks(case); t.next()
    malformed = t.next() == "1"
    txs = [t.tx() for _ in range(t.dec())]
    txid = t.hex(); cp = t.hex(); state = t.state(); entries = t.entries()
    return malformed, txs, txid, cp, state, entries


def rule_predicate(case, res):
    """Model-independent: the property text in Python integers on journals produced by revm."""
    malformed, txs, txid, cp, state, entries = parse_rule(case)
    if malformed:
        return None
    tx = txs[txid]
    hits = []
    for a, i in py_candidates(entries, cp, tx, state).items():
        required = min(MAX256, sum(py_cost(x) for j, x in enumerate(txs) if j > txid and x["caller"] == a))
        final = state[a][0]
        before = py_walk(entries, i, a, final)
        if required != 0 and final < min(before, required):
            hits.append((a, before, final, required))
    want = "v:1" if hits else "v:0"
    if res.strip() != want:
        return "has_reserve_violation returned %s; candidates below min(before, required) [(account, before, final, required)]: %s; all candidates: %s" % (
            res.strip(), [(a, hex(b), hex(f), hex(r)) for a, b, f, r in hits], py_candidates(entries, cp, tx, state))
    return None


def rule_stats(d):
    viol, malformed = set(), 0
    for case, res in zip(d["cases"], d["impl"]):
        if res.strip() == "v:1":
            viol.add(case)
        malformed += case.startswith("rule 1 ")
    return dict(distinct_nontrivial=len(viol), malformed_stream=malformed)


# ------------------------------------------------------------------------------- end-to-end

def parse_e2e(case):
    t = Toks(case); t.next()
    txs = [t.tx() for _ in range(t.dec())]
    items = []
    for _ in range(t.dec()):
        k = t.next()
        if k == "K":
            items.append(("K", t.hex(), t.next()))
        else:
            txid = t.hex(); state = t.state(); entries = t.entries()
            items.append(("X", txid, state, entries, t.next(), t.next()))
    return txs, items


def e2e_predicate(case, res):
    """Model-independent: the harness' own cross-checks (parallel = sequential, policy off = stock
    revm, final state = in-order oracle, no lack-of-funds skip of a fundable account) and the
    property text evaluated in Python on the oracle's per-transaction movements and balances."""
    for tok in res.split()[2:]:
        name, val = tok.split(":", 1)
        if val != "1":
            return {"par=seq": "parallel and sequential execution disagree with the reserve policy on",
                    "off=stock": "with the policy off the block result differs from in-order stock revm",
                    "final": "final state with the policy on differs from the in-order oracle (charged revert must keep fee, nonce bump and authorisations and nothing else)",
                    "fund": "an account that could pay for all its block transactions at block start was skipped for lack of funds"}[name] + " [" + val[2:] + "]"
    txs, items = parse_e2e(case)
    actual = [x for x in res.split()[0][2:].split(",") if x]
    for pos, it in enumerate(items):
        if it[0] == "K":
            want = it[2]
        else:
            _, txid, state, entries, off, viol = it
            tx = txs[txid]
            violated = False
            for a, i in py_candidates(entries, 0, tx, state).items():
                required = min(MAX256, sum(py_cost(x) for j, x in enumerate(txs) if j > txid and x["caller"] == a))
                final = state[a][0]
                if required != 0 and final < min(py_walk(entries, i, a, final), required):
                    violated = True
            want = viol if violated else off
        got = actual[pos] if pos < len(actual) else "missing"
        if got != want:
            return "tx %d: grevm returned %s; the property requires %s (policy-off outcome %s, charged top-level revert %s)" % (
                pos, got, want, it[4] if it[0] == "X" else it[2], it[5] if it[0] == "X" else "-")
    return None


def e2e_stats(d):
    nontrivial, viol, skips, txs = set(), 0, 0, 0
    for case, res in zip(d["cases"], d["impl"]):
        bits = res.split(" v:")[1].split()[0]
        viol += bits.count("1"); txs += len(bits)
        skips += res.count("KLackOfFund")
        if "1" in bits:
            nontrivial.add(case)
    return dict(distinct_nontrivial=len(nontrivial), transactions=txs, charged_reverts=viol, lack_of_funds_skips=skips)


PREDICATES = {"planner": planner_predicate, "journal": journal_predicate, "rule": rule_predicate, "e2e": e2e_predicate}
STATS = {"planner": planner_stats, "journal": journal_stats, "rule": rule_stats, "e2e": e2e_stats}
WHAT = {
    "planner": "required_after is not the saturating sum of the account's later maximum costs",
    "journal": "the journal scan / reverse walk does not report the surviving delegated debits with the balance before the first one",
    "rule": "has_reserve_violation does not decide `some delegated account ends below min(balance before its first protected debit, required_after)`",
    "e2e": "a delegated-account block is not executed as the property requires (charged top-level revert exactly when the reserve is violated, otherwise identical to the policy being off)",
}


F13_WHAT = ("a delegated debit that revm does not journal escapes the reserve: revm's transfer_loaded debits the sender, "
            "finds that the credit overflows the receiver (balance U256::MAX) and returns OverflowPayment without restoring "
            "the sender and without a journal entry; the reserve scans journal entries, sees no debit, lets the transaction "
            "stand, and the delegated account's later transaction (fundable at block start) is skipped for lack of funds")


def run(ctx):
    if ctx.replay:
        # a replay file records the seed that generated the failing case; re-run deterministically
        import json
        ctx.seed = int(json.load(open(ctx.replay)).get("seed", ctx.seed))
    proof = core.proof_stage(PID, extra_targets=["Reserve/Extract.vo"], tier=ctx.tier)
    for p in proof["problems"]:
        core.log("proof-stage problem:", p)
    ok, out, bins = core.cargo_build(BINS)
    if not ok:
        raise RuntimeError("cargo build failed:\n" + out[-3000:])
    model = core.ocaml_build("reserve", "reserve", "reserve_drv")
    counts = dict(planner=3000 if ctx.quick else 120000, journal=4000 if ctx.quick else 200000, rule=6000 if ctx.quick else 250000, e2e=700 if ctx.quick else 30000)
    diffs = {k: differential(ctx, k, bins["reserve"], model, counts[k]) for k in KINDS}
    corr_ok = all(d["first_diff"] is None for d in diffs.values())

    # finding F13: directed reproduction (`reserve f13`)
    rc13, out13 = core.sh([bins["reserve"], "f13"], timeout=300)
    f13_lines = [l[:400] for l in out13.splitlines() if l.startswith("F13")]
    for l in f13_lines:
        core.log(l)
    if rc13 not in (0, 10):
        raise RuntimeError("reserve f13 failed (rc=%s): %s" % (rc13, out13[-2000:]))
    if rc13 == 10:
        if any(k.get("id") == "F13" for k in ctx.known_findings()):
            ctx.known_finding(F13_WHAT)
        else:
            ctx.violation(F13_WHAT, dict(witness=f13_lines, seed=ctx.seed, replay_cmd="target/release/reserve f13"), True)

    if not proof["ok"] or not corr_ok:
        broken = list(proof["problems"]) if not proof["ok"] else []
        witness = None
        for k, d in diffs.items():
            if d["first_diff"] is not None:
                i, a, b = d["first_diff"]
                broken.append("%s differential: case %d `%s` impl `%s` model `%s`" % (
                    k, i, (d["cases"][i] if i < len(d["cases"]) else "?")[:600], a[:600], b[:600]))
            for case, res in zip(d["cases"], d["impl"]):
                w = PREDICATES[k](case, res) if witness is None else None
                if w:
                    witness = dict(kind=k, case=case, impl=res, predicate=w, what=WHAT[k])
        if witness:
            ctx.violation(witness["what"], dict(witness=witness, broken=broken, seed=ctx.seed), True)
        else:
            ctx.violation("theorem or correspondence no longer checks", dict(broken=broken, seed=ctx.seed), False)

    stats = {k: STATS[k](d) for k, d in diffs.items()}
    cov = dict(
        obligations=proof["obligations"], discharged=proof["obligations"] if proof["ok"] else 0,
        checker_cmd="make -f Makefile.coq Props/C13.vo (coqc 8.16.1)" + ("; coqchk -silent -o Grevm.Props.C13" if not ctx.quick else ""),
        trusted_base=core.TRUSTED_COMMON + ["axioms per Print Assumptions: " + str(proof["axioms"])],
        theorems=proof["theorems"],
        evaluations=sum(len(d["cases"]) for d in diffs.values()),
        distinct_nontrivial=sum(s["distinct_nontrivial"] for s in stats.values()),
        rule="planner: seeded random blocks with shared senders (every third case from the boundary stream: u64/u128/U256 limits, "
             "overflowing gas_limit*price, blob fees) and random query sequences on the real ReservePlanner, plus a second shared "
             "instance queried in a permuted order from two threads, vs the extracted Coq model; non-trivial = distinct case with a non-zero answer. "
             "journal: revm's real Journal driven through its public API (transfers incl. self / zero / out-of-funds, selfdestruct before and after Cancun, "
             "balance_incr / set_balance / decr_balance, nested checkpoints committed or reverted, CREATE endowments, root transfer, reimbursement), then the "
             "production delegated_debits_since and balance_before_entry vs the extracted model; every fourth case pushes arbitrary (ill-formed, near-U256::MAX) entries "
             "directly; non-trivial = distinct case with at least one reported candidate. "
             "rule: the production WithReserveHandler::has_reserve_violation inside a real mainnet EVM context whose journal was driven as above, with the production "
             "planner over a random block containing the transaction, vs the extracted reserve_violation; non-trivial = distinct case reporting a violation. "
             "e2e: seeded EIP-7702 blocks (pre-delegated and on-the-fly delegated accounts, sponsors, own later transactions at any position, exact / one-short / "
             "ample / insufficient balances, inner reverts, bounced credits, CREATE endowment, SELFDESTRUCT, create transactions, credits before debits) through the "
             "public Scheduler with the policy on (sequential and 4-way parallel) and off; per transaction the extracted rule applied to the in-order stock-revm "
             "oracle's movements and balances decides charged-revert vs identical-to-off; non-trivial = distinct block with at least one charged revert",
        distribution=stats,
        samples=[dict(kind=k, case=d["cases"][i][:400], impl=d["impl"][i][:400], model=d["model"][i][:400])
                 for k, d in diffs.items() for i in range(min(2, len(d["cases"])))],
    )
    return ctx.finish("proof", cov, [
        "theorems are about the Gallina models coq/Reserve/*.v; the tie to src/delegated_safety/{reserve,handler}.rs is the differential above",
        "slice::partition_point is modelled by its documented contract (the slices are proved strictly increasing)",
        "that revm journals every balance movement as BalanceTransfer / AccountDestroyed / BalanceChange is assumed by the journal model and tested by comparing the reverse walk with the balances actually held",
        "the handler lifecycle theorems treat revm's stages (validation, execution, refund, reimbursement, beneficiary) as opaque functions; the e2e differential ties them to real executions",
        "committed results of the parallel path equal in-order execution (C01/C02); here only tested (parallel = sequential on every e2e block)",
    ])
