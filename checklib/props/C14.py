"""C14 - a scheduler executes its block at most once."""
import os, re
from checklib import core

PID = "C14"
BINS = ["onceobj"]


def setup():
    core.coq_build(["Once/Extract.vo"])
    core.ocaml_build("once", "once", "once_drv")


def run(ctx):
    proof = core.proof_stage(PID, extra_targets=["Once/Extract.vo"], tier=ctx.tier)
    for p in proof["problems"]:
        core.log("proof-stage problem:", p)
    ok, out, bins = core.cargo_build(BINS)
    if not ok:
        raise RuntimeError("cargo build failed:\n" + out[-3000:])
    model = core.ocaml_build("once", "once", "once_drv")
    n = 3000 if ctx.quick else 60000
    tf = os.path.join(ctx.work, "once.txt")
    rc, out = core.sh([bins["onceobj"], str(ctx.seed), str(n), tf], timeout=2400)
    hang = [l.strip() for l in open(tf) if " HANG " in l] if os.path.exists(tf) else []
    if rc != 0 and not hang:
        raise RuntimeError("onceobj failed: " + out[-2000:])
    rc, vout = core.sh([model, tf], timeout=1500)
    verdicts = vout.splitlines()
    headers = [l for l in open(tf) if l.startswith("# case") and " HANG " not in l]
    direct = []
    dist = dict(driven=0, free=0, empty_block=0, successive=0, entries={})
    for h in headers:
        kv = dict(re.findall(r"(\w+)=(\[[^\]]*\]|\S+)", h))
        dist["driven" if kv["driven"] == "true" else "free"] += 1
        dist["empty_block"] += kv["n"] == "0"
        dist["successive"] += kv["successive"] == "true"
        dist["entries"][kv["entries"]] = dist["entries"].get(kv["entries"], 0) + 1
        callers = int(kv["callers"])
        # model-independent predicates straight from the property text
        if kv["winners"] != "1":
            direct.append("winners=%s: %s" % (kv["winners"], h.strip()))
        elif int(kv["once_errors"]) != callers - 1:
            direct.append("a losing call did not return the only-once error: " + h.strip())
        elif kv["same_as_one_execution"] != "true":
            direct.append("outcomes/state are not those of exactly one execution: " + h.strip())
        elif kv["pre_ok"] != "true":
            direct.append("take_result_and_state() before any execution is not empty/untouched: " + h.strip())
    bad = [v for v in verdicts if not v.startswith("ACCEPT")]
    broken = list(proof["problems"])
    if hang:
        ctx.violation("a call on a scheduler whose block was already started never returned (no only-once error, no result)",
                      dict(cases=hang, replay="target/release/onceobj %d %d <out>  (stops at the hanging case)" % (ctx.seed, n), seed=ctx.seed), True)
    elif direct:
        ctx.violation("the block ran more (or less) than once / a losing call touched state", dict(cases=direct[:3], replay="target/release/onceobj %d %d <out>" % (ctx.seed, n), seed=ctx.seed), True)
    elif bad or broken:
        broken += ["entry-point race trace rejected by the Coq acceptor: " + v[:300] for v in bad[:3]]
        ctx.violation("theorem or correspondence no longer checks", dict(broken=broken, seed=ctx.seed), False)
    traces = open(tf).read().split("--\n")
    distinct = len({"\n".join(l for l in c.splitlines() if not l.startswith("#")) for c in traces if "run_once" in c})
    dist["entries"] = dict(sorted(dist["entries"].items(), key=lambda kv: -kv[1])[:8])
    cov = dict(
        obligations=proof["obligations"], discharged=proof["obligations"] if proof["ok"] else 0,
        checker_cmd="make -f Makefile.coq Props/C14.vo (coqc 8.16.1)",
        trusted_base=core.TRUSTED_COMMON + ["axioms per Print Assumptions: " + str(proof["axioms"])],
        theorems=proof["theorems"],
        evaluations=len(headers), distinct_nontrivial=distinct,
        traces_validated_against_impl=sum(1 for v in verdicts if v.startswith("ACCEPT")),
        rule="2-4 callers race (or succeed each other) on execute / parallel_execute / fallback_sequential of one real Scheduler over generated blocks (empty and state-changing); driven cases (deterministic driver, sequential path) give traces replayed by the extracted Coq acceptor; free cases race real threads on the parallel path; every case is also judged by direct predicates (one winner, only-once errors, outcomes+bundle = exactly one in-order execution, nothing before start); distinct = distinct driven event trace",
        input_distribution=dist, samples=[traces[i] for i in range(min(2, len(traces)))],
    )
    return ctx.finish("proof", cov, ["theorems are about Once/Model.v (started is an RMW-only location, so valid for any memory ordering); tie = driven + free-threaded races on the real Scheduler"])
