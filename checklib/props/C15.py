"""C15 - validation cursors never lose a pending validation or pass an unexecuted tx.

TEMPLATE for the other property modules: proof stage, correspondence stage, search stage, evidence.
"""
import os
from checklib import core
from checklib.props import stm_common as sc

BINS = ["objseq", "frontobj", "curobj", "e2e"]
PID = "C15"


def setup():
    core.coq_build(["Cursor/Extract.vo", "Frontier/Extract.vo", "Stm/Extract.vo"])
    core.ocaml_build("cursor", "cursor", "cursor_drv")
    core.ocaml_build("frontier", "frontier", "frontier_drv")
    core.ocaml_build("cursor", "cursor", "curtrace_drv", exe="cursor_trace_model")
    core.ocaml_build("stm", "stm", "stm_drv")


def frontier_stage(ctx, exe, model, count):
    """Real ExecutionFrontier under the deterministic driver; every trace replayed by the extracted
    Frontier acceptor, plus direct predicates on the returned values (see ocaml/frontier_drv.ml)."""
    out = os.path.join(ctx.work, "frontier.txt")
    rc, o = core.sh([exe, str(ctx.seed), str(count), out], timeout=1500)
    if rc != 0:
        raise RuntimeError("frontobj failed: " + o[-2000:])
    rc, verdicts = core.sh([model, out], timeout=1500)
    v = verdicts.splitlines()
    res = dict(cases=len(v), accept=0, direct=[], reject=[], fetch_max=0, helped=0, returned=0, driver_failures=0)
    for line in v:
        if line.startswith("ACCEPT"):
            res["accept"] += 1
            kv = dict(x.split("=") for x in line.split()[1:])
            res["fetch_max"] += int(kv["fetch_max"]); res["helped"] += int(kv["helped"]); res["returned"] += int(kv["returned"])
        elif line.startswith("DIRECT"):
            res["direct"].append(line)
        else:
            res["reject"].append(line)
    res["driver_failures"] = sum(1 for l in open(out) if l.startswith("# case") and "failure=None" not in l)
    res["trace_file"] = out
    return res


def cursor_conc_stage(ctx, exe, model, count):
    """Concurrent claimers and rewinders on the real SchedulerContext / RewindableCursor under the
    deterministic driver with instrumented atomics (a thread switch is possible between any two
    atomic operations); traces replayed by the extracted Cursor acceptor + direct predicates
    (ocaml/curtrace_drv.ml)."""
    out = os.path.join(ctx.work, "curobj.txt")
    rc, o = core.sh([exe, str(ctx.seed), str(count), out], timeout=1500)
    if rc != 0:
        raise RuntimeError("curobj failed: " + o[-2000:])
    rc, verdicts = core.sh([model, out], timeout=1500)
    res = dict(cases=0, accept=0, direct=[], reject=[], claims=0, rewinds=0, effective_rewinds=0)
    for line in verdicts.splitlines():
        res["cases"] += 1
        if line.startswith("ACCEPT"):
            res["accept"] += 1
            kv = dict(x.split("=") for x in line.split()[1:])
            res["claims"] += int(kv["claims"]); res["rewinds"] += int(kv["rewinds"]); res["effective_rewinds"] += int(kv["effective_rewinds"])
        elif line.startswith("DIRECT"):
            res["direct"].append(line)
        else:
            res["reject"].append(line)
    res["driver_failures"] = sum(1 for l in open(out) if l.startswith("# case") and "failure=None" not in l)
    return res


def stm_sweeps(ctx):
    q = ctx.quick
    # rewind-heavy: shared slots, few transactions, more workers than transactions
    return [
        ("v-rw", 151, 400 if q else 6000, ["txs=2..5", "workers=2,3,4", "opts=shared,ben"]),
        ("v-pct", 152, 250 if q else 4000, ["txs=3..7", "workers=3,4", "strat=pct", "opts=shared"]),
        # a validator frozen mid-scan while its predecessors are invalidated, re-executed and made
        # final: the schedule in which only the timestamp guard keeps the stale result out
        ("v-strag", 154, 1000 if q else 15000, ["txs=3..6", "workers=2,3,4", "opts=shared,chain", "strat=straggler"]),
        ("v-sticky", 153, 250 if q else 4000, ["txs=3..8", "workers=2,3", "strat=sticky", "opts=shared,ben"]),
    ]


def seq_differential(ctx, kind, exe, model, count):
    """Run `count` generated op sequences on the real object and on the extracted model."""
    work = ctx.work
    rc, out = core.sh([exe, kind, str(ctx.seed), str(count), work])
    if rc != 0:
        raise RuntimeError("objseq failed: " + out[-2000:])
    inp = open(os.path.join(work, kind + ".in")).read()
    impl = open(os.path.join(work, kind + ".impl")).read().splitlines()
    rc, mout = core.run_lines(model, inp)
    mdl = mout.splitlines()
    cases = inp.splitlines()
    bad = core.diff_lines(impl, mdl)
    distinct = len(set(cases))
    nontrivial = len({c for c in cases if " r" in c and " c" in c})
    return dict(cases=cases, impl=impl, model=mdl, first_diff=bad, distinct=distinct, nontrivial=nontrivial)


def run(ctx):
    proof = core.proof_stage(PID, extra_targets=["Cursor/Extract.vo"], tier=ctx.tier)
    for p in proof["problems"]:
        core.log("proof-stage problem:", p)
    ok, out, bins = core.cargo_build(BINS)
    if not ok:
        raise RuntimeError("cargo build failed:\n" + out[-3000:])
    model = core.ocaml_build("cursor", "cursor", "cursor_drv")
    count = 3000 if ctx.quick else 60000
    d = seq_differential(ctx, "cursor", bins["objseq"], model, count)
    corr_ok = d["first_diff"] is None
    fmodel = core.ocaml_build("frontier", "frontier", "frontier_drv")
    fr = frontier_stage(ctx, bins["frontobj"], fmodel, 3000 if ctx.quick else 60000)
    cmodel = core.ocaml_build("cursor", "cursor", "curtrace_drv", exe="cursor_trace_model")
    cc = cursor_conc_stage(ctx, bins["curobj"], cmodel, 3000 if ctx.quick else 60000)
    # protocol level: the timestamp discipline of rewind_validation_to / finality, observed on
    # driven runs of the real Scheduler (trace acceptance + in-order oracle)
    agg, sbins, smodel = sc.run_sweeps(ctx, stm_sweeps(ctx))
    stm_corr = agg["rejected"] + agg["nondet"] + agg["model_vs_oracle"]

    if cc["direct"]:
        ctx.violation("a rewound index is not offered for validation again, an index at/after the limit is handed out, or an index is handed out twice",
                      dict(witness=cc["direct"][0], replay="target/release/curobj %d %d <out>; build/cursor_trace_model <out>" % (ctx.seed, cc["cases"]), seed=ctx.seed), True)
    elif fr["direct"]:
        ctx.violation("the first-unexecuted frontier passes an unexecuted transaction or fails to catch up with completed ones",
                      dict(witness=fr["direct"][0], replay="target/release/frontobj %d %d <out>; build/frontier_model <out>" % (ctx.seed, fr["cases"]), seed=ctx.seed), True)
    elif agg["oracle_mismatch"]:
        c = agg["oracle_mismatch"][0]
        ctx.violation("a validation that predates a rewind made its transaction final (result differs from in-order execution)",
                      dict(replay=sc.replay_cmd(c), case=c, detail=open(c["file"]).read()[:4000] if c.get("file") else "", seed=ctx.seed), True)
    elif fr["reject"] or fr["driver_failures"] or stm_corr or cc["reject"] or cc["driver_failures"]:
        broken = list(proof["problems"]) if not proof["ok"] else []
        for r in cc["reject"][:3]:
            broken.append("concurrent cursor trace not accepted by the Coq acceptor: " + r[:400])
        if cc["driver_failures"]:
            broken.append("%d concurrent cursor cases ended with a driver failure" % cc["driver_failures"])
        for r in fr["reject"][:3]:
            broken.append("frontier trace not accepted by the Coq acceptor: " + r[:400])
        if fr["driver_failures"]:
            broken.append("%d frontier cases ended with a driver failure (deadlock / step budget)" % fr["driver_failures"])
        for c in stm_corr[:3]:
            broken.append("scheduler trace not accepted by the Coq acceptor: %s [%s]" % (c["why"][:300], sc.replay_cmd(c)))
        found, tried = sc.search_schedules(ctx, sbins, stm_corr, [], 60 if ctx.quick else 600) if stm_corr else ([], 0)
        if found:
            ctx.violation("a validation that predates a rewind made its transaction final (result differs from in-order execution)",
                          dict(found=found[0], broken=broken, seed=ctx.seed), True)
        else:
            ctx.violation("theorem or correspondence no longer checks", dict(broken=broken, schedules_searched=tried, seed=ctx.seed), False)
    elif not proof["ok"] or not corr_ok:
        # search stage: does the *property itself* fail on the implementation?  Direct predicates on
        # the values the real cursor returned, independent of the model.
        witness = None
        for case, res in zip(d["cases"], d["impl"]):
            w = direct_predicates(case, res)
            if w:
                witness = dict(case=case, impl=res, predicate=w)
                break
        broken = []
        if not proof["ok"]:
            broken += proof["problems"]
        if not corr_ok:
            i, a, b = d["first_diff"]
            broken.append("cursor op-sequence differential: case %d `%s` impl `%s` model `%s`" % (i, d["cases"][i] if i < len(d["cases"]) else "?", a, b))
        if witness:
            ctx.violation("cursor hands out an index at/after the limit or skips a rewound index", dict(witness=witness, broken=broken, seed=ctx.seed), True)
        else:
            ctx.violation("theorem or correspondence no longer checks", dict(broken=broken, seed=ctx.seed), False)

    cov = dict(
        obligations=proof["obligations"], discharged=proof["obligations"] if proof["ok"] else 0,
        checker_cmd="make -f Makefile.coq Props/C15.vo (coqc 8.16.1)" + ("; coqchk -silent -o Grevm.Props.C15" if not ctx.quick else ""),
        trusted_base=core.TRUSTED_COMMON + ["axioms per Print Assumptions: " + str(proof["axioms"])],
        theorems=proof["theorems"],
        evaluations=len(d["cases"]) + fr["cases"] + agg["cases"] + cc["cases"],
        cursor_concurrent=dict(cases=cc["cases"], accepted=cc["accept"], claims=cc["claims"], rewinds=cc["rewinds"], rewinds_that_lowered_the_cursor=cc["effective_rewinds"],
                               rule="2-4 threads: next_validation_idx(limit) / rewind_validation_to(v) on the real SchedulerContext (3-12 indices, all executed) under the deterministic driver with instrumented atomics; Cursor acceptor + direct predicates (claimed index < limit; every index in [v, previous) claimed again after the rewind or still ahead of the final cursor; no double claim without a covering rewind)"), distinct_nontrivial=d["nontrivial"] + agg["nontrivial"],
        traces_validated_against_impl=fr["accept"] + agg["accepted"] + cc["accept"],
        frontier=dict(cases=fr["cases"], accepted=fr["accept"], fetch_max_events=fr["fetch_max"], current_calls=fr["returned"],
                      current_calls_with_positive_lower_bound=fr["helped"],
                      rule="2-4 threads publish a random subset of 2-6 indices in random order and call current() on the real ExecutionFrontier under the deterministic driver (random walk / PCT); each trace replayed by the extracted Frontier acceptor; direct predicates: returned value has all flags below it stored, is >= the number of leading completed publishes at call time, final frontier == first unpublished index"),
        scheduler=dict(cases=agg["cases"], acceptor_verdicts=agg["kinds"], decisive_events=agg["feature_totals"], nontrivial=agg["nontrivial"],
                       rule="driven runs of the real Scheduler (rewind-heavy blocks); hook trace (clock_tick / lower_max / cur_rewind / unconf_max / fin_check) replayed by the extracted Stm acceptor, result compared with in-order stock revm"),
        rule="cursor: seeded random op sequences (claim_before(limit) / rewind(v)) on the real RewindableCursor vs the extracted Coq model (sequential reference + acceptor on the generated event list); non-trivial = distinct sequence containing both a claim and a rewind",
        samples=[dict(case=d["cases"][i], impl=d["impl"][i], model=d["model"][i]) for i in range(min(3, len(d["cases"])))],
    )
    return ctx.finish("proof", cov, [
        "theorems are about the Gallina models Cursor/Model.v, Frontier/Model.v, Stm/Core.v; the tie to src/scheduler/{cursor,context}.rs is the differentials / trace acceptance above (sampled schedules)",
        "weak-memory behaviour is in the models (stale loads, spurious CAS failure, stale-false flag loads) and proved; the driver only produces sequentially consistent interleavings at hook-point granularity, so the correspondence exercises the SC subset of the models' behaviours",
        "catch-up under the declared orderings is proved for helping readers (C15_frontier_catches_up); publishers alone can leave the frontier behind (C15_catch_up_witness)",
    ])


def direct_predicates(case, res):
    """Model-independent check of one sequential cursor history."""
    toks = case.split()
    cur = int(toks[1])
    outs = res.split()
    for op, r in zip(toks[2:], outs):
        v = int(op[1:])
        if op[0] == "c":
            if r.startswith("S"):
                i = int(r[1:])
                if i >= v:
                    return "claim_before(%d) returned %d" % (v, i)
                if i != cur:
                    return "claim returned %d but cursor was %d (index skipped or repeated)" % (i, cur)
                cur = i + 1
            elif r == "N":
                if cur < v:
                    return "claim_before(%d) returned None with cursor %d" % (v, cur)
        else:
            p = int(r[1:])
            if p != cur:
                return "rewind(%d) returned previous=%d but cursor was %d" % (v, p, cur)
            cur = min(cur, v)
    return None
