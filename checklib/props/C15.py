"""C15 - validation cursors never lose a pending validation or pass an unexecuted tx.

TEMPLATE for the other property modules: proof stage, correspondence stage, search stage, evidence.
"""
import os
from checklib import core

BINS = ["objseq"]
PID = "C15"


def setup():
    core.coq_build(["Cursor/Extract.vo"])
    core.ocaml_build("cursor", "cursor", "cursor_drv")


def seq_differential(ctx, kind, exe, model, count):
    """Run `count` generated op sequences on the real object and on the extracted model."""
    work = ctx.work
    rc, out = core.sh([exe, kind, str(ctx.seed), str(count), work])
    if rc != 0:
        raise RuntimeError("objseq failed: " + out[-2000:])
    inp = open(os.path.join(work, kind + ".in")).read()
    impl = open(os.path.join(work, kind + ".impl")).read().splitlines()
    rc, mout = core.run_lines(model, inp)
    mdl = mout.splitlines()
    cases = inp.splitlines()
    bad = core.diff_lines(impl, mdl)
    distinct = len(set(cases))
    nontrivial = len({c for c in cases if " r" in c and " c" in c})
    return dict(cases=cases, impl=impl, model=mdl, first_diff=bad, distinct=distinct, nontrivial=nontrivial)


def run(ctx):
    proof = core.proof_stage(PID, extra_targets=["Cursor/Extract.vo"], tier=ctx.tier)
    for p in proof["problems"]:
        core.log("proof-stage problem:", p)
    ok, out, bins = core.cargo_build(BINS)
    if not ok:
        raise RuntimeError("cargo build failed:\n" + out[-3000:])
    model = core.ocaml_build("cursor", "cursor", "cursor_drv")
    count = 3000 if ctx.quick else 60000
    d = seq_differential(ctx, "cursor", bins["objseq"], model, count)
    corr_ok = d["first_diff"] is None

    if not proof["ok"] or not corr_ok:
        # search stage: does the *property itself* fail on the implementation?  Direct predicates on
        # the values the real cursor returned, independent of the model.
        witness = None
        for case, res in zip(d["cases"], d["impl"]):
            w = direct_predicates(case, res)
            if w:
                witness = dict(case=case, impl=res, predicate=w)
                break
        broken = []
        if not proof["ok"]:
            broken += proof["problems"]
        if not corr_ok:
            i, a, b = d["first_diff"]
            broken.append("cursor op-sequence differential: case %d `%s` impl `%s` model `%s`" % (i, d["cases"][i] if i < len(d["cases"]) else "?", a, b))
        if witness:
            ctx.violation("cursor hands out an index at/after the limit or skips a rewound index", dict(witness=witness, broken=broken, seed=ctx.seed), True)
        else:
            ctx.violation("theorem or correspondence no longer checks", dict(broken=broken, seed=ctx.seed), False)

    cov = dict(
        obligations=proof["obligations"], discharged=proof["obligations"] if proof["ok"] else 0,
        checker_cmd="make -f Makefile.coq Props/C15.vo (coqc 8.16.1)" + ("; coqchk -silent -o Grevm.Props.C15" if not ctx.quick else ""),
        trusted_base=core.TRUSTED_COMMON + ["axioms per Print Assumptions: " + str(proof["axioms"])],
        theorems=proof["theorems"],
        evaluations=len(d["cases"]), distinct_nontrivial=d["nontrivial"],
        rule="seeded random op sequences (claim_before(limit) / rewind(v)) on the real RewindableCursor vs the extracted Coq model (sequential reference + acceptor on the generated event list); non-trivial = distinct sequence containing both a claim and a rewind",
        samples=[dict(case=d["cases"][i], impl=d["impl"][i], model=d["model"][i]) for i in range(min(3, len(d["cases"])))],
    )
    return ctx.finish("proof", cov, [
        "theorems are about the Gallina model Cursor/Model.v; the tie to src/scheduler/cursor.rs is the differential above",
    ])


def direct_predicates(case, res):
    """Model-independent check of one sequential cursor history."""
    toks = case.split()
    cur = int(toks[1])
    outs = res.split()
    for op, r in zip(toks[2:], outs):
        v = int(op[1:])
        if op[0] == "c":
            if r.startswith("S"):
                i = int(r[1:])
                if i >= v:
                    return "claim_before(%d) returned %d" % (v, i)
                if i != cur:
                    return "claim returned %d but cursor was %d (index skipped or repeated)" % (i, cur)
                cur = i + 1
            elif r == "N":
                if cur < v:
                    return "claim_before(%d) returned None with cursor %d" % (v, cur)
        else:
            p = int(r[1:])
            if p != cur:
                return "rewind(%d) returned previous=%d but cursor was %d" % (v, p, cur)
            cur = min(cur, v)
    return None
