"""C16 - a blocked transaction is always re-offered once its blocker resolves."""
import glob, os, re
from checklib import core
from checklib.props import stm_common as sc

PID = "C16"
BINS = ["depobj", "e2e"]


def setup():
    core.coq_build(["Dep/Extract.vo"])
    core.ocaml_build("dep", "dep", "dep_drv")


def quiescent_predicates(header):
    """Model-independent: at quiescence every on-board unblocked tx is at/after the cursor and every
    blocked tx has a releaser (reverse edge, or self-barrier with the commit of its predecessor still to come)."""
    m = re.search(r"n=(\d+) .*commits=(\d+) .*final_index=(\d+) states=\[(.*?)\] affects=\[(.*)\]$", header.strip())
    if not m:
        return None
    n, commits, index = int(m.group(1)), int(m.group(2)), int(m.group(3))
    states = re.findall(r"\((true|false), (None|Some\((\d+)\))\)", m.group(4))
    affects = [[int(x) for x in re.findall(r"\d+", a)] for a in re.findall(r"\[([^\[\]]*)\]", m.group(5))]
    for x, (onb, dep, d) in enumerate(states):
        if dep == "None":
            if onb == "true" and index > x:
                return "tx %d is on board and unblocked but the cursor (%d) is past it" % (x, index)
        else:
            d = int(d)
            if d != x and x not in affects[d]:
                return "tx %d waits for %d, which does not list it as a dependent" % (x, d)
            if d == x and not (commits < x or False):
                # commit(x-1) has run (commits >= x) and the barrier is still there
                return "tx %d is parked behind its own commit boundary although commit(%d) has run" % (x, x - 1)
    return None


def run(ctx):
    proof = core.proof_stage(PID, extra_targets=["Dep/Extract.vo"], tier=ctx.tier)
    for p in proof["problems"]:
        core.log("proof-stage problem:", p)
    ok, out, bins = core.cargo_build(BINS)
    if not ok:
        raise RuntimeError("cargo build failed:\n" + out[-3000:])
    model = core.ocaml_build("dep", "dep", "dep_drv")
    n = 8000 if ctx.quick else 200000
    tf = os.path.join(ctx.work, "dep.txt")
    rc, out = core.sh([bins["depobj"], str(ctx.seed), str(n), tf], timeout=2400)
    if rc != 0:
        raise RuntimeError("depobj failed: " + out[-2000:])
    rc, vout = core.sh([model, tf], timeout=2400)
    verdicts = vout.splitlines()
    kinds = {}
    for v in verdicts:
        kinds[v.split()[0]] = kinds.get(v.split()[0], 0) + 1
    headers = [l for l in open(tf) if l.startswith("# case")]
    direct = []
    for h in headers:
        w = quiescent_predicates(h)
        if w:
            direct.append(w + " :: " + h.strip()[:300])
        if "failure=None" not in h:
            direct.append("driver failure: " + h.strip()[:300])
    bad = [v for v in verdicts if not v.startswith("ACCEPT")]
    # the same acceptor on the dependency events of driven scheduler runs (the real usage context)
    agg, _, _ = sc.run_sweeps(ctx, [
        ("sched", 161, 250 if ctx.quick else 5000, ["txs=2..8", "workers=1,2,3"]),
        # blockers that finish while a waiter registers, validators frozen between claiming and validating
        ("sched-late", 162, 500 if ctx.quick else 8000, ["txs=3..8", "workers=2,3,4", "opts=shared,chain", "strat=slowdb"]),
    ])
    # usage rule of the graph (property text: a blocked transaction is re-offered as soon as its blocker
    # "is found already past execution"): a cursor claim of a transaction that is past execution
    # (Executed, Validating, Unconfirmed, Final) must release its waiters - remove(j, false) - at once;
    # only a claim of a transaction that is being executed may be dropped.
    dropped = []
    for sub in ("sched", "sched-late"):
        for tr in sorted(glob.glob(os.path.join(ctx.work, sub, "trace-*.txt"))):
            pending = {}
            for ln, l in enumerate(open(tr)):
                t = l.split()
                if len(t) < 3 or t[0] == "#":
                    continue
                tid, kind = t[0], t[1]
                if kind == "exec_claim":
                    if tid in pending:
                        dropped.append((tr, pending.pop(tid)))
                    if t[3] in ("2", "3", "4", "6"):
                        pending[tid] = (ln, t[2], t[3])
                elif kind.startswith("dep_") and tid in pending:
                    p_ln, j, stc = pending.pop(tid)
                    if not (kind == "dep_remove_begin" and t[2] == j and t[3] == "0"):
                        dropped.append((tr, (p_ln, j, stc)))
                elif kind == "thread_end" and tid in pending:
                    dropped.append((tr, pending.pop(tid)))
    claims_past_execution = 0
    for sub in ("sched", "sched-late"):
        for tr in glob.glob(os.path.join(ctx.work, sub, "trace-*.txt")):
            claims_past_execution += sum(1 for l in open(tr) if " exec_claim " in l and l.split()[3] in ("2", "3", "4", "6"))
    sched_bad, sched_ok = [], 0
    allt = os.path.join(ctx.work, "sched-dep.txt")
    with open(allt, "w") as f:
        for tr in sorted(glob.glob(os.path.join(ctx.work, "sched", "trace-*.txt")) + glob.glob(os.path.join(ctx.work, "sched-late", "trace-*.txt"))):
            lines = open(tr).read().splitlines()
            hdr = next(l for l in lines if l.startswith("# n="))
            f.write("# case sched %s file=%s\n" % (hdr[2:], os.path.basename(tr)))
            f.write("\n".join(l for l in lines if not l.startswith("#") and (" dep_" in l or " commit_publish " in l)) + "\n--\n")
    rc, sout = core.sh([model, allt], timeout=2400)
    for v in sout.splitlines():
        if v.startswith("REJECT"):
            sched_bad.append(v[:300])
        else:
            sched_ok += 1  # final snapshot of the private graph is not available there: STATE-MISMATCH lines count as accepted traces
    stalls = [c for c in agg["driver_failure"]]
    broken = list(proof["problems"])
    if dropped and not (direct or stalls):
        tr, (p_ln, j, stc) = dropped[0]
        cno = re.findall(r"trace-(\d+)", tr)[0]
        hdr = [l.strip() for l in open(os.path.join(os.path.dirname(tr), "summary.txt")) if l.startswith("case %s " % cno)]
        ctx.violation("a cursor claim found transaction %s already past execution (status code %s) and was dropped without releasing its waiters: they stay blocked until the committed prefix reaches them" % (j, stc),
                      dict(trace=tr, line=p_ln, header=hdr, more=len(dropped) - 1, seed=ctx.seed,
                           replay="the (block, schedule) pair of the trace file: target/release/e2e one <block_seed> <sched_seed> <outdir> <opts of the sweep>"), True)
    if direct or stalls:
        what = "a transaction is left blocked / unclaimable although its blocker resolved"
        ctx.violation(what, dict(cases=(direct[:3] or [stalls[0]["failure"], sc.replay_cmd(stalls[0])]), replay="target/release/depobj %d %d <out>" % (ctx.seed, n), seed=ctx.seed), True)
    elif bad or sched_bad or broken:
        broken += ["dependency trace rejected / final state differs from the Coq model: " + v[:300] for v in (bad + sched_bad)[:3]]
        ctx.violation("theorem or correspondence no longer checks", dict(broken=broken, seed=ctx.seed), False)
    traces = open(tf).read().split("--\n")
    ops = {}
    for k in ("dep_next_claim", "dep_release", "dep_commit ", "dep_key_tx", "dep_add", "dep_remove_begin"):
        ops[k.strip()] = sum(c.count(" " + k) for c in traces)
    rel = {a: sum(len(re.findall(r"dep_release \d+ \d+ %d " % a, c)) for c in traces) for a in range(4)}
    cov = dict(
        obligations=proof["obligations"], discharged=proof["obligations"] if proof["ok"] else 0,
        checker_cmd="make -f Makefile.coq Props/C16.vo (coqc 8.16.1)",
        trusted_base=core.TRUSTED_COMMON + ["parking_lot mutexes: mutual exclusion per lock region", "axioms per Print Assumptions: " + str(proof["axioms"])],
        theorems=proof["theorems"],
        evaluations=len(headers) + agg["cases"],
        distinct_nontrivial=len({"\n".join(l for l in c.splitlines() if not l.startswith("#") and "dep_delay" not in l and "thread_" not in l) for c in traces if "dep_release" in c and "dep_key_tx" in c}),
        traces_validated_against_impl=kinds.get("ACCEPT", 0) + sched_ok,
        rule="2-3 threads run random add / remove / commit / key_tx / next on the real TxDependency (2-4 txs) under the deterministic driver; each trace is replayed by the extracted Coq acceptor and the model's final (onboard, dependency, affects, cursor) is compared with a snapshot of the real object; direct predicates at quiescence; plus the dependency events of driven scheduler runs through the same acceptor. non-trivial = distinct trace with a release and a key_tx",
        acceptor_verdicts=kinds, scheduler_traces=sched_ok, op_counts=ops,
        claims_of_transactions_past_execution=claims_past_execution, of_which_dropped_without_release=len(dropped),
        release_actions={"stale_edge": rel[0], "cleared_only": rel[1], "handed_over": rel[2], "cursor_rewound": rel[3]},
        samples=[traces[i] for i in range(min(2, len(traces)))],
    )
    return ctx.finish("proof", cov, [
        "theorems are about Dep/Model.v; tie = trace acceptance + final-state comparison on driven runs of the real object",
        "that a blocker always runs remove() again / that commit(t-1) always follows publish_commit(t) is the scheduler's usage (checked on driven scheduler runs by the driver's stall detection), not part of this model",
    ])
