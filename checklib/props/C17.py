"""C17 - coordinator notifications are never lost."""
import os, re
from checklib import core
from checklib.props import stm_common as sc

PID = "C17"
BINS = ["waitobj", "e2e", "finprobe"]


def setup():
    core.coq_build(["Wait/Extract.vo"])
    core.ocaml_build("wait", "wait", "wait_drv")


def windows(path):
    """Measured: in how many schedules did a notification land in each window."""
    w = dict(before_registration=0, between_checks=0, between_check2_and_park=0, while_parked=0, stale_token_at_park=0)
    cases = open(path).read().split("--\n")
    for c in cases:
        lines = [l.split() for l in c.splitlines() if l and not l.startswith("#")]
        state = "init"
        hit = set()
        for t in lines:
            k = t[1]
            if k == "ws_register": state = "idle"
            elif k == "ws_check1" and t[3] == "1": state = "c1"
            elif k == "ws_check2" and t[3] == "1": state = "c2"
            elif k == "ws_check1" or k == "ws_check2": state = "idle"
            elif k == "PARK":
                if t[2] == "1": hit.add("stale_token_at_park")
                state = "parked" if t[2] == "0" else "idle"
            elif k == "ws_wake": state = "idle"
            elif k == "ws_notify" and t[3] == "0": hit.add("before_registration")
            elif k == "UNPARK":
                if state == "c1": hit.add("between_checks")
                elif state == "c2": hit.add("between_check2_and_park")
                elif state == "parked": hit.add("while_parked")
        for h in hit:
            w[h] += 1
    return w, len(cases) - 1


def run(ctx):
    proof = core.proof_stage(PID, extra_targets=["Wait/Extract.vo"], tier=ctx.tier)
    for p in proof["problems"]:
        core.log("proof-stage problem:", p)
    ok, out, bins = core.cargo_build(BINS)
    if not ok:
        raise RuntimeError("cargo build failed:\n" + out[-3000:])
    model = core.ocaml_build("wait", "wait", "wait_drv")
    n = 6000 if ctx.quick else 150000
    tf = os.path.join(ctx.work, "wait.txt")
    rc, out = core.sh([bins["waitobj"], str(ctx.seed), str(n), tf], timeout=1500)
    if rc != 0:
        raise RuntimeError("waitobj failed: " + out[-2000:])
    rc, vout = core.sh([model, tf], timeout=1500)
    verdicts = vout.splitlines()
    kinds = {}
    for v in verdicts:
        kinds[v.split()[0]] = kinds.get(v.split()[0], 0) + 1
    bad = [v for v in verdicts if not v.startswith("ACCEPT")]
    win, ncases = windows(tf)
    # scheduler level: no driven run may need the stall timer
    agg, _, _ = sc.run_sweeps(ctx, [("sched", 171, 300 if ctx.quick else 5000, ["txs=1..6", "workers=1,2,3"]),
                                   ("sched2", 172, 500 if ctx.quick else 8000, ["txs=2..8", "workers=2,3,4", "strat=mix2", "opts=shared,chain"])], want_trace=False)
    # a stall / deadlock verdict, or workers polling for ever while a coordinator is parked without a
    # token (the notification it needed was never issued)
    def lost_wakeup(f):
        return ("stall" in f or "deadlock" in f or
                ("step budget" in f and re.search(r"(finality|commit):Parked:tok=false", f) is not None))
    stalls = [c for c in agg["driver_failure"] if lost_wakeup(c["failure"])]
    broken = list(proof["problems"])
    stall_cases = [v for v in bad if v.startswith("STALL")]
    # predicate faithfulness (the model's premise "the evaluated predicate is the published state"):
    # the real finality loop, free-running with the real parker, is notified while a silent holder
    # (a stale / duplicate claim, which never notifies) has the candidate's lock
    nprobe = 8 if ctx.quick else 64
    rc, pout = core.sh([bins["finprobe"], str(ctx.seed), str(nprobe)], timeout=120)
    if rc != 0:
        raise RuntimeError("finprobe failed: " + pout[-2000:])
    probe = [tuple(int(x) for x in l.split()) for l in pout.splitlines() if l.strip()]
    slow = [(h, w) for h, w in probe if w >= 2000]
    if slow:
        ctx.violation("the finality coordinator slept through a notification that arrived while a silent holder had the candidate's lock: it woke %d ms after the release (stall timer)" % slow[0][1],
                      dict(cases=[dict(hold_ms=h, waited_ms=w) for h, w in slow[:3]], replay="target/release/finprobe %d %d" % (ctx.seed, nprobe), seed=ctx.seed), True)
    if stall_cases or stalls:
        what = "a waiter slept through a notification: progress needed the stall timeout"
        detail = stall_cases[:3] or [sc.replay_cmd(stalls[0]), stalls[0]["failure"]]
        ctx.violation(what, dict(cases=detail, replay="target/release/waitobj %d %d <out>" % (ctx.seed, n), seed=ctx.seed), True)
    elif bad or broken:
        broken += ["WaitSlot trace rejected by the Coq acceptor: " + v for v in bad[:3]]
        ctx.violation("theorem or correspondence no longer checks", dict(broken=broken, seed=ctx.seed), False)
    missing = [k for k, v in win.items() if v == 0 and k != "stale_token_at_park"]
    if missing and not (bad or broken or stall_cases or stalls):
        raise RuntimeError("self-test: window(s) never exercised: %s" % missing)
    cases = open(tf).read().split("--\n")
    cov = dict(
        obligations=proof["obligations"], discharged=proof["obligations"] if proof["ok"] else 0,
        checker_cmd="make -f Makefile.coq Props/C17.vo (coqc 8.16.1)",
        trusted_base=core.TRUSTED_COMMON + ["std parker token contract (unpark sets one token; park consumes it or blocks; spurious wake-ups)",
                                            "axioms per Print Assumptions: " + str(proof["axioms"])],
        theorems=proof["theorems"],
        evaluations=ncases + agg["cases"], distinct_nontrivial=len({re.sub(r"\d{9,}", "A", "\n".join(l for l in c.splitlines() if not l.startswith("#"))) for c in cases if c.strip()}),
        traces_validated_against_impl=kinds.get("ACCEPT", 0),
        rule="seeded schedules of the real WaitSlot (1 waiter, 1-2 notifiers, optional re-blocker, 1-2 rounds, producer possibly before registration) under the deterministic driver without timeouts; every trace replayed by the extracted Coq acceptor; distinct = distinct event trace; plus driven scheduler runs in which any need for the stall timer is reported",
        acceptor_verdicts=kinds, notification_windows_hit=win, finality_predicate_probes=len(probe), finality_predicate_probe_max_wait_ms=max([w for _, w in probe] or [0]), scheduler_runs=agg["cases"], scheduler_stalls=len(stalls),
        samples=[cases[i] for i in range(min(2, len(cases)))],
    )
    return ctx.finish("proof", cov, [
        "theorems are about Wait/Model.v; the tie to src/scheduler/wait.rs is trace acceptance of driven runs",
        "producers are modelled as 'make the predicate unblocked, then notify'; that validate(), the finality loop and cancel() have this shape is checked by the driver's stall detection on scheduler runs, not proved",
    ])
