"""Shared machinery of the Flat group (C08, C09): proof stage, op-sequence differential of the real
IncarnationDb / MVMemory against the extracted Coq model, the in-order property oracle (stock revm
`State` as reference), and block-level runs through the public Scheduler API."""
import json, os, re
from checklib import core

BINS = ["flat", "flatblock"]
EXTRACT = "Flat/Extract.vo"


def setup():
    core.coq_build([EXTRACT])
    core.ocaml_build("flat", "flat", "flat_drv")


def split_cases(lines):
    """Group a line stream into cases (each starts with a `case` line)."""
    cases, cur = [], None
    for ln in lines:
        if ln.startswith("case "):
            cur = [ln]
            cases.append(cur)
        elif cur is not None:
            cur.append(ln)
    return cases


def seq_differential(ctx, exe, model, count, tag, chunk=10000):
    """Random operation sequences on the real component and on the extracted model; per-case diff.
    Runs in chunks (seed, seed+1, ...) to bound memory."""
    work = os.path.join(ctx.work, "seq")
    os.makedirs(work, exist_ok=True)
    pat = re.compile(r"R\[[^\]]*\bR[0-9a-f]+=m") if tag == "C08" else re.compile(r"R\[[^\]]*\bC[0-9a-f]+=m")
    total, diffs, distinct, nontrivial, kinds, sizes, samples = 0, [], set(), set(), {}, [], []
    stats = {}

    def add_stats(dst, src):
        for k, v in src.items():
            if isinstance(v, dict):
                add_stats(dst.setdefault(k, {}), v)
            else:
                dst[k] = dst.get(k, 0) + v

    done, ci = 0, 0
    while done < count:
        n = min(chunk, count - done)
        seed = ctx.seed + ci
        rc, out = core.sh([exe, "seq", str(seed), str(n), work])
        if rc != 0:
            raise RuntimeError("flat harness failed: " + out[-2000:])
        add_stats(stats, json.loads(out.strip().splitlines()[-1]))
        inp = open(os.path.join(work, "flat.in")).read()
        impl = open(os.path.join(work, "flat.impl")).read().splitlines()
        rc, mout = core.run_lines(model, inp, timeout=3000)
        if rc != 0:
            raise RuntimeError("flat model driver failed: " + mout[-2000:])
        in_cases = split_cases(inp.splitlines())
        impl_cases = split_cases(impl)
        mdl_cases = split_cases(mout.splitlines())
        for i, ic in enumerate(impl_cases):
            mc = mdl_cases[i] if i < len(mdl_cases) else ["<missing>"]
            if ic != mc and len(diffs) < 20:
                d = core.diff_lines(ic, mc)
                diffs.append(dict(seed=seed, case_index=i, line=d[0], impl=d[1], model=d[2],
                                  input=in_cases[i] if i < len(in_cases) else [],
                                  replay="target/release/flat seq %d %d <outdir> %d" % (seed, n, i)))
        if len(mdl_cases) != len(impl_cases) and not diffs:
            diffs.append(dict(seed=seed, case_index=min(len(mdl_cases), len(impl_cases)), line=0,
                              impl="<count %d>" % len(impl_cases), model="<count %d>" % len(mdl_cases), input=[]))
        for ic, oc in zip(in_cases, impl_cases):
            k = ic[0].split()[2]
            kinds[k] = kinds.get(k, 0) + 1
            body = hash("\n".join(ic[1:]))
            distinct.add(body)
            if any(pat.search(l) for l in oc if l.startswith("acc ")):
                nontrivial.add(body)
            sizes.append(len(ic))
        if not samples:
            samples = [dict(input=in_cases[i][:12], impl=impl_cases[i][:6], model=mdl_cases[i][:6])
                       for i in range(min(2, len(in_cases)))]
        total += len(in_cases)
        done += n
        ci += 1
    sizes.sort()
    return dict(cases=total, diffs=diffs, distinct=len(distinct), nontrivial=len(nontrivial), stats=stats, kinds=kinds,
                size=dict(min=sizes[0], median=sizes[len(sizes) // 2], max=sizes[-1]) if sizes else {},
                samples=samples)


def prop_oracle(ctx, exe, count):
    """In-order blocks published through the real IncarnationDb, every (t, address, slot) read back and
    compared with stock revm `State` after committing the first t finalised states (model-independent)."""
    work = os.path.join(ctx.work, "prop")
    os.makedirs(work, exist_ok=True)
    rc, out = core.sh([exe, "prop", str(ctx.seed), str(count), work], timeout=1500)
    if rc != 0:
        raise RuntimeError("flat prop oracle failed: " + out[-2000:])
    res = json.loads(out.strip().splitlines()[-1])
    fails = []
    p = os.path.join(work, "prop.fail")
    if os.path.exists(p):
        fails = [l for l in open(p).read().splitlines() if l.strip()]
    res["fails"] = fails
    return res


def block_runs(ctx, exe, kind, count):
    """Generated blocks: Scheduler (parallel, several workers) vs force_sequential vs stock revm in order."""
    work = os.path.join(ctx.work, "block")
    os.makedirs(work, exist_ok=True)
    cases_file = os.path.join(work, "block-%s.cases" % kind)
    if os.path.exists(cases_file):
        os.remove(cases_file)
    limit = 420 if ctx.quick else 1700
    rc, out = core.sh([exe, kind, str(ctx.seed), str(count), work], timeout=limit)
    lines = open(cases_file).read().splitlines() if os.path.exists(cases_file) else []
    if rc == 124:
        # the scheduler under test did not terminate: a verdict about grevm, not a machinery failure
        return dict(kind=kind, cases=len(lines), hang=True, sample_cases=lines[:3],
                    mismatch_lines=[l for l in lines if "=> OK" not in l] +
                    ["hang: flatblock %s %d %d did not finish within %d s (scheduler livelock?)" % (kind, ctx.seed, count, limit)])
    if rc != 0:
        raise RuntimeError("flatblock failed: " + out[-2000:])
    res = json.loads(out.strip().splitlines()[-1])
    res["mismatch_lines"] = [l for l in lines if "=> OK" not in l]
    res["sample_cases"] = lines[:3]
    return res


def replay(ctx, pid, block_kind):
    """bin/check Cxx --replay <file>: re-run the recorded concrete witness against the current tree."""
    rep = json.load(open(ctx.replay))
    ok, out, bins = core.cargo_build(BINS)
    if not ok:
        raise RuntimeError("cargo build failed:\n" + out[-3000:])
    w = rep.get("witness") or {}
    seed = int(rep.get("seed", ctx.seed))
    work = os.path.join(ctx.work, "replay")
    os.makedirs(work, exist_ok=True)
    again = False
    if "IncarnationDb" in w.get("kind", ""):
        m = re.search(r"prop (\d+) (\d+)", w.get("replay", ""))
        count = int(m.group(2)) if m else 3000
        rc, out = core.sh([bins["flat"], "prop", str(seed), str(count), work], timeout=1500)
        res = json.loads(out.strip().splitlines()[-1])
        again = res["failed_cases"] > 0
        core.log("replay: in-order property oracle, seed %d, %d cases: %d failing" % (seed, count, res["failed_cases"]))
        core.log(open(os.path.join(work, "prop.fail")).read()[:2000])
    elif "Scheduler" in w.get("kind", ""):
        m = re.search(r"flatblock (\w+) (\d+) (\d+) <outdir> (\d+)", w.get("replay", ""))
        kind, count, idx = (m.group(1), m.group(3), m.group(4)) if m else (block_kind, "200", "0")
        rc, out = core.sh([bins["flatblock"], kind, str(seed), count, work, idx], timeout=600)
        core.log(out[-1500:])
        f = os.path.join(work, "block-%s-%s.cases" % (kind, idx))
        txt = open(f).read() if os.path.exists(f) else ""
        core.log(txt[:2000])
        again = "MISMATCH" in txt or rc == 124
    else:
        core.log("replay: the recorded violation has no concrete witness (broken: %s)" % rep.get("broken"))
    if again:
        core.log("VIOLATION property=%s replay=%s" % (pid, ctx.replay))
        return 1
    core.log("OK property=%s replay did not reproduce on the current tree" % pid)
    return 0


def run_property(ctx, pid, block_kind, what):
    if ctx.replay:
        return replay(ctx, pid, block_kind)
    proof = core.proof_stage(pid, extra_targets=[EXTRACT, "Flat/Examples.vo"], tier=ctx.tier)
    for p in proof["problems"]:
        core.log("proof-stage problem:", p)
    ok, out, bins = core.cargo_build(BINS)
    if not ok:
        raise RuntimeError("cargo build failed:\n" + out[-3000:])
    model = core.ocaml_build("flat", "flat", "flat_drv")
    quick = ctx.quick
    d = seq_differential(ctx, bins["flat"], model, 4000 if quick else 120000, pid)
    corr_ok = not d["diffs"]
    po = prop_oracle(ctx, bins["flat"], 3000 if quick else 100000)
    bl = block_runs(ctx, bins["flatblock"], block_kind, 200 if quick else 4000)
    # driven runs of the real Scheduler (deterministic driver, stragglers, slow database) on blocks of
    # this family, replayed by the Stm acceptor and compared with in-order stock revm
    from checklib.props import stm_common as sc
    sc.setup()
    sched_opts = {"C08": ["txs=3..7", "workers=2,3", "opts=destroy,create,shared,chain", "strat=mix2"],
                  "C09": ["txs=3..7", "workers=2,3", "opts=auth,create,shared", "strat=mix2"]}[pid]
    sagg, sbins, _ = sc.run_sweeps(ctx, [("sched", 81 if pid == "C08" else 91, 400 if quick else 8000, sched_opts)])
    kd = bl.get("contracts_empty_code_only_in_oracle", 0)
    if kd:
        core.log("regression: %d block case(s) where only stock revm's bundle.contracts holds the KECCAK_EMPTY -> empty-code entry "
                 "(Basic entries of code-less accounts must keep their `code` field, incarnation_db.rs:171); reported as MISMATCH" % kd)
    concrete = []
    for f in po["fails"][:3]:
        concrete.append(dict(kind="in-order block on the real IncarnationDb vs stock revm State", detail=f,
                             replay="target/release/flat prop %d %d <outdir>" % (ctx.seed, po["cases"])))
    for l in bl["mismatch_lines"][:3]:
        concrete.append(dict(kind="block through the public Scheduler API vs stock revm in order", detail=l,
                             replay="target/release/flatblock %s %d %d <outdir> %s" % (block_kind, ctx.seed, bl.get("cases", 0), l.split()[0])))
    for c in sagg["oracle_mismatch"][:1]:
        concrete.append(dict(kind="driven run of the Scheduler vs stock revm in order", detail=open(c["file"]).read()[:3000] if c.get("file") else "",
                             replay=sc.replay_cmd(c)))
    broken = list(proof["problems"])
    for c in (sagg["rejected"] + sagg["nondet"] + sagg["model_vs_oracle"])[:3]:
        broken.append("scheduler trace not accepted by the Coq acceptor: %s [%s]" % (c["why"][:300], sc.replay_cmd(c)))
    for x in d["diffs"][:3]:
        broken.append("op-sequence differential: seed %d case %d line %d impl `%s` model `%s`" % (x["seed"], x["case_index"], x["line"], x["impl"][:300], x["model"][:300]))
    if concrete:
        ctx.violation(what, dict(witness=concrete[0], more=concrete[1:], broken=broken, seed=ctx.seed,
                                 diff_inputs=[x["input"] for x in d["diffs"][:1]]), True)
    elif broken:
        ctx.violation("theorem or correspondence no longer checks", dict(broken=broken, seed=ctx.seed,
                      diff_inputs=[x["input"] for x in d["diffs"][:1]]), False)
    cov = dict(
        obligations=proof["obligations"], discharged=proof["obligations"] if proof["ok"] else 0,
        checker_cmd="make -f Makefile.coq Props/%s.vo (coqc 8.16.1)" % pid + ("; coqchk -silent -o Grevm.Props.%s" % pid if not quick else ""),
        trusted_base=core.TRUSTED_COMMON + ["axioms per Print Assumptions: " + str(proof["axioms"]),
            "stock revm 40 (revm-database State, mainnet EVM) as in-order reference of the property oracle and block runs"],
        theorems=proof["theorems"],
        evaluations=d["cases"] + po["cases"] + bl.get("cases", 0) + sagg["cases"],
        driven_scheduler_runs=dict(cases=sagg["cases"], acceptor_verdicts=sagg["kinds"], oracle_mismatches=len(sagg["oracle_mismatch"]), options=sched_opts),
        distinct_nontrivial=d["nontrivial"],
        rule="op-sequence cases: seeded sequences of begin / basic / storage / code_by_hash / finish(EvmState) / discard on two interleaved real IncarnationDb handles over one MVMemory + Beneficiary, raw entries (estimates, stale incarnations, wrong kinds), failing backing store; compared per command with the extracted model: returned values, read set, write set, blockers and the whole memory. non-trivial = distinct case in which some read set resolved a "
             + ("StorageReset" if pid == "C08" else "Code") + " location to an in-block version",
        op_sequence=dict(cases=d["cases"], distinct=d["distinct"], kinds=d["kinds"], size_lines=d["size"], stats=d["stats"], mismatching_cases=len(d["diffs"])),
        property_oracle=dict((k, v) for k, v in po.items() if k != "fails"),
        block_runs=dict((k, v) for k, v in bl.items() if k not in ("mismatch_lines",)),
        bundle_contracts_note="the block runs compare BundleState::contracts strictly; a bundle that lacks revm's contracts[KECCAK_EMPTY] entry "
                              "(the difference repaired at incarnation_db.rs:171: Basic entries keep the code field of code-less accounts) is a MISMATCH, "
                              "counted in block_runs.contracts_empty_code_only_in_oracle",
        samples=d["samples"],
    )
    return ctx.finish("proof", cov, [
        "theorems are about the Gallina model Flat/Model.v; the tie to src/incarnation_db.rs, src/account.rs, src/model.rs is the op-sequence differential",
        "which FinalizedAccount class revm's journal produces on which hardfork is revm's (exercised per fork by the block runs, not proved)",
        "the backing store is fixed during a read; its evolution under ordered commit (parallel_state.rs:296-359) is C10's and is exercised here only by the block runs",
        "beneficiary account reads go through Beneficiary::resolve_before (C07): an opaque callee of this model",
    ])
