"""Shared check logic for the protocol properties C01-C06 (Stm model):
proof stage + driven end-to-end runs (deterministic driver) -> trace acceptance by the extracted
Coq acceptor + stock-revm oracle comparison + driver liveness verdicts.
"""
import glob, os, re, shutil, subprocess, json
from concurrent.futures import ThreadPoolExecutor
from checklib import core

BINS = ["e2e"]


def setup():
    core.coq_build(["Stm/Extract.vo"])
    core.ocaml_build("stm", "stm", "stm_drv")


def sweep(exe, seed, count, outdir, opts):
    shutil.rmtree(outdir, ignore_errors=True)
    # the sweep stops taking new cases after 1200 s (a loaded machine truncates the sample); the outer
    # limit is only for a harness that does not come back at all
    rc, out = core.sh([exe, "sweep", str(seed), str(count), outdir] + opts + ["budget=1200"], timeout=2700)
    return rc, out


def accept_all(model, outdir, jobs=16):
    files = sorted(glob.glob(os.path.join(outdir, "trace-*.txt")), key=lambda f: int(re.findall(r"trace-(\d+)", f)[0]))

    def one(f):
        rc, out = core.sh([model, f], timeout=300)
        return f, out.strip().splitlines()[-1] if out.strip() else "EMPTY"
    with ThreadPoolExecutor(jobs) as ex:
        return list(ex.map(one, files))


def trace_features(path):
    """Cheap, measured coverage of what a driven run exercised."""
    f = dict(conflict_validation=0, reexec=0, estimate_read=0, fin_refused_ts=0, fin_refused_status=0,
             rewinds=0, unpublish=0, mark_est=0, fallback=0, aborts=0, base_reads=0, ben_reads=0,
             commits=0, dep_handover=0)
    dict_ = {}
    oracle = []
    for line in open(path):
        t = line.split()
        if not t:
            continue
        if t[0] == "#":
            if len(t) > 3 and t[1] == "dict":
                dict_[int(t[2])] = " ".join(t[3:])
            elif len(t) > 3 and t[1] == "oracle" and t[2] == "outcome":
                oracle.append(" ".join(t[4:]))
            continue
        k = t[1]
        if k == "val_status" and t[3] == "1": f["conflict_validation"] += 1
        elif k == "exec_begin" and int(t[3]) > 1: f["reexec"] += 1
        elif k == "mv_read" and t[6] == "1": f["estimate_read"] += 1
        elif k == "fin_check" and t[3] == "2" and int(t[5]) <= int(t[6]): f["fin_refused_ts"] += 1
        elif k == "fin_check" and t[3] == "1": f["fin_refused_status"] += 1
        elif k == "cur_rewind": f["rewinds"] += 1
        elif k == "unpublish": f["unpublish"] += 1
        elif k == "mark_est": f["mark_est"] += 1
        elif k == "post_execute" and t[3] != "-1": f["fallback"] += 1
        elif k == "abort": f["aborts"] += 1
        elif k == "base_read": f["base_reads"] += 1
        elif k == "ben_resolve": f["ben_reads"] += 1
        elif k == "commit_done" and t[3] == "0": f["commits"] += 1
        elif k == "dep_release" and t[4] == "2": f["dep_handover"] += 1
    return f, dict_, oracle


def parse_verdict(v):
    d = dict(kind=v.split()[0] if v else "EMPTY", raw=v)
    for kv in v.split()[1:]:
        if "=" in kv:
            k, val = kv.split("=", 1)
            d[k] = val
    return d


def outcome_ids_match_oracle(ids, dict_, oracle, upto=None):
    """Model outcome ids (X<id>/K<id>) vs oracle outcome strings, position by position."""
    ids = [i for i in ids.split(",") if i]
    for pos, i in enumerate(ids[:upto]):
        if pos >= len(oracle):
            return "model has more outcomes than the oracle (%d)" % len(oracle)
        s = dict_.get(int(i[1:]), "?")
        o = oracle[pos]
        if i[0] == "X":
            if not (o.startswith("X:") and s.split("|")[0] == o[2:]):
                return "outcome %d: model `%s` oracle `%s`" % (pos, s[:80], o[:80])
        else:
            if not o.startswith("K:"):
                return "outcome %d: model skipped, oracle `%s`" % (pos, o[:80])
    return None


def run_sweeps(ctx, sweeps, want_trace=True):
    """sweeps: list of (name, seed_offset, count, opts). Returns aggregate result dict."""
    ok, out, bins = core.cargo_build(BINS)
    if not ok:
        raise RuntimeError("cargo build failed:\n" + out[-3000:])
    model = core.ocaml_build("stm", "stm", "stm_drv")
    agg = dict(cases=0, oracle_mismatch=[], driver_failure=[], rejected=[], nondet=[], accepted=0,
               feature_totals={}, nontrivial=0, samples=[], model_vs_oracle=[], kinds={})
    seen = set()

    def do(sw):
        name, off, count, opts = sw
        d = os.path.join(ctx.work, name)
        rc, out = sweep(bins["e2e"], ctx.seed + off, count, d, opts + (["trace=1"] if want_trace else ["trace=0"]))
        return name, d, rc, out
    with ThreadPoolExecutor(8) as ex:
        results = list(ex.map(do, sweeps))
    for name, d, rc, out in results:
        if rc != 0:
            raise RuntimeError("e2e sweep %s failed: %s" % (name, out[-2000:]))
        summ = open(os.path.join(d, "summary.txt")).read().splitlines()
        for line in summ:
            if line.startswith("stopped: time budget"):
                core.log("sweep %s %s" % (name, line))
        info = {}
        for line in summ:
            m = re.match(r"case (\d+) block_seed=(\d+) sched_seed=(\d+) (.*)", line)
            if not m:
                continue
            c = int(m.group(1))
            info[c] = dict(block_seed=int(m.group(2)), sched_seed=int(m.group(3)), rest=m.group(4), sweep=name, opts=sweeps[[s[0] for s in sweeps].index(name)][3])
            agg["cases"] += 1
            if " diffs=0 " not in line:
                agg["oracle_mismatch"].append(dict(info[c], file=os.path.join(d, "fail-%d.txt" % c)))
            if "failure=None" not in line:
                agg["driver_failure"].append(dict(info[c], failure=line.split("failure=", 1)[1], file=os.path.join(d, "fail-%d.txt" % c)))
        if not want_trace:
            continue
        for f, v in accept_all(model, d):
            c = int(re.findall(r"trace-(\d+)", f)[0])
            pv = parse_verdict(v)
            agg["kinds"][pv["kind"]] = agg["kinds"].get(pv["kind"], 0) + 1
            feats, dict_, oracle = trace_features(f)
            for k, n in feats.items():
                agg["feature_totals"][k] = agg["feature_totals"].get(k, 0) + n
            if pv["kind"] == "ACCEPT":
                agg["accepted"] += 1
                outs, seq = pv.get("outs", ""), pv.get("seq", "")
                if not (seq + ",").startswith(outs + ",") and outs:
                    agg["rejected"].append(dict(info.get(c, {}), why="model outs is not a prefix of the model's in-order outcomes: " + v, file=f))
                bad = outcome_ids_match_oracle(seq, dict_, oracle)
                if bad and pv.get("seq_err") == "none":
                    agg["model_vs_oracle"].append(dict(info.get(c, {}), why=bad, file=f))
            elif pv["kind"] == "NONDET":
                agg["nondet"].append(dict(info.get(c, {}), why=v, file=f))
            else:
                agg["rejected"].append(dict(info.get(c, {}), why=v, file=f))
            key = (info.get(c, {}).get("block_seed"), info.get(c, {}).get("sched_seed"))
            if key not in seen and feats["conflict_validation"] + feats["estimate_read"] > 0 and feats["reexec"] > 0:
                seen.add(key)
                agg["nontrivial"] += 1
            if len(agg["samples"]) < 3 and feats["reexec"] > 0:
                agg["samples"].append(dict(block_seed=key[0], sched_seed=key[1], verdict=v[:300], features=feats,
                                           first_events=open(f).read().splitlines()[-40:-30]))
    return agg, bins, model


def search_schedules(ctx, bins, cases, opts_extra, budget):
    """Search stage: re-run the blocks of failing cases under many other schedules (driven and
    free-threaded) looking for an oracle mismatch = concrete failing input."""
    found = []
    tried = 0
    for c in cases[:8]:
        d = os.path.join(ctx.work, "search-%d" % c["block_seed"])
        os.makedirs(d, exist_ok=True)
        for i in range(budget):
            tried += 1
            extra = list(c.get("opts", [])) + list(opts_extra) + ["trace=0"] + (["free=1"] if i % 4 == 3 else [])
            rc, out = core.sh([bins["e2e"], "one", str(c["block_seed"]), str(ctx.seed * 7919 + i), d] + extra, timeout=120)
            if "mismatches=1" in out:
                found.append(dict(block_seed=c["block_seed"], sched_seed=ctx.seed * 7919 + i, opts=extra,
                                  detail=open(os.path.join(d, "fail-0.txt")).read()[:3000]))
                break
        if found:
            break
    return found, tried


def replay_cmd(c):
    return "target/release/e2e one %s %s <outdir> %s" % (c.get("block_seed"), c.get("sched_seed"), " ".join(c.get("opts", [])))
