(* Shared small definitions. No axioms. Stdlib only so that everything extracts with ExtrOcamlBasic. *)
From Coq Require Export List Arith NArith ZArith Lia Bool.
Export ListNotations.

Fixpoint nth_opt {A} (l : list A) (n : nat) : option A :=
  match l, n with
  | [], _ => None
  | x :: _, O => Some x
  | _ :: l', S n' => nth_opt l' n'
  end.

Fixpoint set_nth {A} (l : list A) (n : nat) (x : A) : list A :=
  match l, n with
  | [], _ => []
  | _ :: l', O => x :: l'
  | y :: l', S n' => y :: set_nth l' n' x
  end.

Definition upd {A} (f : nat -> A) (i : nat) (x : A) : nat -> A :=
  fun j => if Nat.eqb j i then x else f j.

Lemma upd_same {A} (f : nat -> A) i x : upd f i x i = x.
Proof. unfold upd. now rewrite Nat.eqb_refl. Qed.

Lemma upd_other {A} (f : nat -> A) i j x : j <> i -> upd f i x j = f j.
Proof. unfold upd. intros H. destruct (Nat.eqb_spec j i); [contradiction|reflexivity]. Qed.

Lemma length_set_nth {A} (l : list A) n x : length (set_nth l n x) = length l.
Proof. revert n; induction l as [|y l IH]; intros [|n]; simpl; auto. Qed.

Lemma nth_opt_set_nth_same {A} (l : list A) n x :
  n < length l -> nth_opt (set_nth l n x) n = Some x.
Proof. revert n; induction l as [|y l IH]; intros [|n] H; simpl in *; try lia; auto. apply IH; lia. Qed.

Lemma nth_opt_set_nth_other {A} (l : list A) n m x :
  n <> m -> nth_opt (set_nth l n x) m = nth_opt l m.
Proof. revert n m; induction l as [|y l IH]; intros [|n] [|m] H; simpl; auto; try lia. Qed.

Lemma nth_opt_Some_lt {A} (l : list A) n x : nth_opt l n = Some x -> n < length l.
Proof. revert n; induction l as [|y l IH]; intros [|n] H; simpl in *; try discriminate; try lia.
  apply IH in H. lia. Qed.

Lemma nth_opt_In {A} (l : list A) n x : nth_opt l n = Some x -> In x l.
Proof. revert n; induction l as [|y l IH]; intros [|n] H; simpl in *; try discriminate.
  - inversion H; auto. - right; eauto. Qed.
