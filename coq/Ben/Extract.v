From Grevm Require Import Base.Util Ben.Model.
Require Extraction. Require ExtrOcamlBasic.
Extraction Language OCaml.
Extraction "extract/ben.ml" new_hist record_execution record_estimate invalidate resolve_before validate
  apply_to from_gas hook_amount mul_overflows effective_gas_price gas_used revm_hook mode_apply finalize classify
  commit_acct commit_fold exec_tx imm_step def_step jload incr_balance from_execution.
