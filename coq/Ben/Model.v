(* Model of grevm's fee-recipient (beneficiary) accounting - property C07.

   Code modelled (read line by line; [file:line] refer to /repo at the time of writing):
     src/beneficiary/history.rs   BeneficiaryHistory: entries, record / invalidate, scan_before,
                                  HistoryScan::resolve / validate, BeneficiaryEffect::from_execution
     src/beneficiary/reward.rs    BeneficiaryReward::from_gas, DeferredBeneficiaryReward::apply_to,
                                  BeneficiaryMode::apply (the deferral decision)
     src/account.rs:22-35         FinalizedAccount::from (classification of a finalized account)
     src/scheduler/ordered_commit.rs:144-158   the deferred-reward fold at ordered commit
     src/parallel_state.rs:296-351             what committing one finalized account does to its info
     revm-handler-20.0.3 src/post_execution.rs:104-133   reward_beneficiary   (reference, immediate)
     revm-context-interface-19.0.3 transaction.rs:147-160 effective_gas_price
     revm-context-interface-19.0.3 journaled_state/account.rs:328-375 touch / set_balance / incr_balance
     revm-interpreter-37.0.3 gas.rs:117-128    total_gas_spent / used
     revm-context-18.0.3 journal/inner.rs:223-243  the pre-EIP-161 normalisation in finalize()

   Conventions.  Balances, nonces, prices, gas are [N] with the machine widths made explicit
   ([U256], [U128], [U64]).  Incarnations are [N] (usize), transaction indices are [nat] (list
   positions).  A code hash is an [N] id: 0 = KECCAK_EMPTY, 1 = B256::ZERO, anything else = some other
   hash (AccountInfo equality and emptiness only look at the hash, account_info.rs:72-79, 273-275).
   A panic of the code (assert!, index out of range) is [None] of the outer [option].
   The journal is represented by the beneficiary's entry only ([option jacct]); the database by
   what a load of the beneficiary returns ([option acct]).

   This file contains definitions only (no proofs), so it still runs when a proof breaks. *)
From Grevm Require Import Base.Util.
Open Scope N_scope.

Definition U64 : N := 2 ^ 64.
Definition U128 : N := 2 ^ 128.
Definition U256 : N := 2 ^ 256.

(* ------------------------------------------------------------------------------------ accounts *)

Record acct := mkAcct { bal : N; nonce : N; code : N }.

(* AccountInfo::default: zero balance and nonce, KECCAK_EMPTY *)
Definition default_acct : acct := mkAcct 0 0 0.

(* AccountInfo::is_empty (account_info.rs:273-275) *)
Definition acct_is_empty (a : acct) : bool :=
  ((code a =? 0) || (code a =? 1)) && (bal a =? 0) && (nonce a =? 0).

Definition acct_eqb (a b : acct) : bool :=
  (bal a =? bal b) && (nonce a =? nonce b) && (code a =? code b).

(* U256::checked_add *)
Definition checked_add (x y : N) : option N :=
  if x + y <? U256 then Some (x + y) else None.

(* DeferredBeneficiaryReward::apply_to (reward.rs:110-116) *)
Definition apply_to (r : N) (a : option acct) : acct :=
  let a' := match a with Some x => x | None => default_acct end in
  match checked_add (bal a') r with
  | Some b => mkAcct b (nonce a') (code a')
  | None => a'
  end.

(* ------------------------------------------------------------------------ journal-level accounts *)

(* revm_state::Account restricted to what the modelled code inspects: info + four status flags *)
Record jacct := mkJ {
  jinfo : acct;
  touched : bool;
  created : bool;
  selfdestructed : bool;
  not_existing : bool;          (* AccountStatus::LoadedAsNotExisting *)
}.

(* journal load of an account that is not yet in the journal: the database value, or a fresh
   "loaded as not existing" default account *)
Definition jload (db : option acct) : jacct :=
  match db with
  | Some i => mkJ i false false false false
  | None => mkJ default_acct false false false true
  end.

(* JournaledAccount::incr_balance (account.rs:368-375): touch, checked add, set_balance *)
Definition incr_balance (j : jacct) (r : N) : jacct :=
  match checked_add (bal (jinfo j)) r with
  | Some b => mkJ (mkAcct b (nonce (jinfo j)) (code (jinfo j))) true (created j) (selfdestructed j) (not_existing j)
  | None => mkJ (jinfo j) true (created j) (selfdestructed j) (not_existing j)
  end.

(* SpecId as its u8 discriminant (hardfork.rs): FRONTIER = 0 .. AMSTERDAM = 14 *)
Definition SPURIOUS_DRAGON : N := 3.
Definition LONDON : N := 8.
Definition spec_enabled (spec fork : N) : bool := fork <=? spec.

(* JournalInner::finalize, the per-account pre-EIP-161 normalisation (inner.rs:223-243) *)
Definition finalize (spec : N) (j : jacct) : jacct :=
  if spec_enabled spec SPURIOUS_DRAGON then j
  else if touched j && acct_is_empty (jinfo j) && negb (selfdestructed j) && negb (created j) then
    if not_existing j then mkJ (jinfo j) (touched j) true (selfdestructed j) (not_existing j)
    else mkJ (jinfo j) false (created j) (selfdestructed j) (not_existing j)
  else j.

(* FinalizedAccount::from (account.rs:22-35) *)
Inductive fin := FUnchanged | FDeleted | FCreated (i : acct) | FUpdated (i : acct).

Definition classify (j : jacct) : fin :=
  if negb (touched j) then FUnchanged
  else if selfdestructed j then FDeleted
  else if created j then FCreated (jinfo j)
  else if acct_is_empty (jinfo j) then FDeleted
  else FUpdated (jinfo j).

(* What committing the transaction state does to the committed info of one address
   (parallel_state.rs:296-351: untouched -> nothing; selfdestructed -> destroyed; created ->
   newly_created(info); touched empty -> touch_empty_eip161 (removed); else change(info)).
   [None] journal entry = the address is not in the transaction state. *)
Definition commit_acct (committed : option acct) (j : option jacct) : option acct :=
  match j with
  | None => committed
  | Some j =>
      match classify j with
      | FUnchanged => committed
      | FDeleted => None
      | FCreated i => Some i
      | FUpdated i => Some i
      end
  end.

(* --------------------------------------------------------------------------------- the history *)

Inductive effect := Unchanged | Reward (r : N) | Snapshot (a : option acct).
Inductive evalue := Estimate | Exact (e : effect).
Record entry := mkEntry { inc : N; val : evalue }.
Record hist := mkHist { anchor : option acct; entries : list entry }.

Definition version := (nat * N)%type.       (* TxVersion: (txid, incarnation) *)

(* BeneficiaryHistory::new (history.rs:203-205) *)
Definition new_hist (a : option acct) (n : nat) : hist :=
  mkHist a (repeat (mkEntry 0 Estimate) n).

(* BeneficiaryEffect::from_execution (history.rs:82-101); [None] = the assert fires *)
Definition from_execution (deferred : option N) (account : option jacct) : option effect :=
  match deferred with
  | Some r => match account with
              | None => Some (Reward r)
              | Some _ => None
              end
  | None =>
      match account with
      | None => Some Unchanged
      | Some j => match classify j with
                  | FUnchanged => Some Unchanged
                  | FDeleted => Some (Snapshot None)
                  | FCreated i => Some (Snapshot (Some i))
                  | FUpdated i => Some (Snapshot (Some i))
                  end
      end
  end.

(* HistoryEntry::record via BeneficiaryHistory::entry (history.rs:136-144, 299-306):
   accepted only for a strictly newer incarnation; [None] = txid outside the block (panic) *)
Definition record (h : hist) (t : nat) (i : N) (v : evalue) : option (hist * bool) :=
  match nth_opt (entries h) t with
  | None => None
  | Some e =>
      if i <=? inc e then Some (h, false)
      else Some (mkHist (anchor h) (set_nth (entries h) t (mkEntry i v)), true)
  end.

(* Beneficiary::record_execution + BeneficiaryHistory::record_execution (beneficiary.rs:58-70,
   history.rs:220-231). The effect is derived (and its assert evaluated) before the entry lookup. *)
Definition record_execution (h : hist) (t : nat) (i : N) (deferred : option N) (account : option jacct)
  : option (hist * bool) :=
  match from_execution deferred account with
  | None => None
  | Some eff => record h t i (Exact eff)
  end.

Definition record_estimate (h : hist) (t : nat) (i : N) : option (hist * bool) :=
  record h t i Estimate.

(* HistoryEntry::invalidate (history.rs:147-156): only the equal incarnation; the incarnation is kept *)
Definition invalidate (h : hist) (t : nat) (i : N) : option (hist * bool) :=
  match nth_opt (entries h) t with
  | None => None
  | Some e =>
      if negb (inc e =? i) then Some (h, false)
      else match val e with
           | Exact _ => Some (mkHist (anchor h) (set_nth (entries h) t (mkEntry (inc e) Estimate)), true)
           | Estimate => Some (h, true)
           end
  end.

(* HistoryScan *)
Record scanres := mkScan { base : option acct; rewards_nf : list N; origins : list version }.

(* the loop of scan_before (history.rs:271-296) with its two accumulators; [w] counts down from
   txid; [inl k] = Err(k) *)
Fixpoint scan_loop (anc : option acct) (es : list entry) (w : nat) (os : list version) (rs : list N)
  : nat + scanres :=
  match w with
  | O => inr (mkScan anc rs os)
  | S w' =>
      match nth_opt es w' with
      | None => inl w'                  (* out of range: excluded by the assert in scan_before *)
      | Some e =>
          match val e with
          | Estimate => inl w'
          | Exact eff =>
              let os' := os ++ [(w', inc e)] in
              match eff with
              | Unchanged => scan_loop anc es w' os' rs
              | Reward r => scan_loop anc es w' os' (rs ++ [r])
              | Snapshot a => inr (mkScan a rs os')
              end
          end
      end
  end.

(* scan_before (history.rs:261-297); outer [None] = the assert (txid > block size) fires *)
Definition scan_before (h : hist) (t : nat) : option (nat + scanres) :=
  if Nat.leb t (length (entries h)) then Some (scan_loop (anchor h) (entries h) t [] []) else None.

(* HistoryScan::resolve (history.rs:173-182): rewards applied oldest first *)
Definition resolve (sc : scanres) : option acct * list version :=
  (fold_left (fun a r => Some (apply_to r a)) (rev (rewards_nf sc)) (base sc), origins sc).

Definition resolve_before (h : hist) (t : nat) : option (nat + (option acct * list version)) :=
  match scan_before h t with
  | None => None
  | Some (inl k) => Some (inl k)
  | Some (inr sc) => Some (inr (resolve sc))
  end.

Definition version_eqb (a b : version) : bool := Nat.eqb (fst a) (fst b) && (snd a =? snd b).

Fixpoint versions_eqb (a b : list version) : bool :=
  match a, b with
  | [], [] => true
  | x :: a', y :: b' => version_eqb x y && versions_eqb a' b'
  | _, _ => false
  end.

(* BeneficiaryReadVersion::latest_dependency (history.rs:27-29) *)
Definition latest_dependency (os : list version) : option nat :=
  match os with [] => None | v :: _ => Some (fst v) end.

(* BeneficiaryHistory::validate + HistoryScan::validate (history.rs:184-187, 250-259):
   (valid, dependency) *)
Definition validate (h : hist) (t : nat) (expected : list version) : option (bool * option nat) :=
  match scan_before h t with
  | None => None
  | Some (inl k) => Some (false, Some k)
  | Some (inr sc) => Some (versions_eqb (origins sc) expected, latest_dependency (origins sc))
  end.

(* mutating operations as data, for statements over operation sequences *)
Inductive mop :=
| MRecord (t : nat) (i : N) (v : evalue)     (* record_execution (v = Exact eff) / record_estimate *)
| MInvalidate (t : nat) (i : N).

(* a panicking operation leaves the history as it was (the panic happens before any write) *)
Definition mstep (h : hist) (o : mop) : hist :=
  match o with
  | MRecord t i v => match record h t i v with Some (h', _) => h' | None => h end
  | MInvalidate t i => match invalidate h t i with Some (h', _) => h' | None => h end
  end.

Definition mrun (h : hist) (ops : list mop) : hist := fold_left mstep ops h.

(* ------------------------------------------------------------------------- the reward arithmetic *)

Record cfgenv := mkCfg { spec : N; fee_disabled : bool }.
Record txenv := mkTx { tx_type : N; gas_price : N; prio_fee : option N }.      (* u8, u128, Option<u128> *)
(* Gas / GasTracker: limit, remaining, reservoir are u64; refunded is i64 *)
Record gasr := mkGas { g_limit : N; g_remaining : N; g_refunded : Z; g_reservoir : N }.

(* N subtraction truncates at zero = saturating_sub *)
Definition sat_sub (x y : N) : N := x - y.
Definition sat_add_u128 (x y : N) : N := N.min (x + y) (U128 - 1).

(* i64 as u64 *)
Definition i64_as_u64 (z : Z) : N := Z.to_N (Z.modulo z (Z.of_N U64)).

(* Gas::total_gas_spent, Gas::used (gas.rs:117-128) *)
Definition total_gas_spent (g : gasr) : N := sat_sub (g_limit g) (g_remaining g).
Definition gas_used (g : gasr) : N := sat_sub (total_gas_spent g) (i64_as_u64 (g_refunded g)).

(* Transaction::effective_gas_price (transaction.rs:147-160); tx types 0 legacy, 1 eip-2930 *)
Definition effective_gas_price (tx : txenv) (basefee : N) : N :=
  if (tx_type tx =? 0) || (tx_type tx =? 1) then gas_price tx
  else match prio_fee tx with
       | None => gas_price tx
       | Some p => N.min (gas_price tx) (sat_add_u128 basefee p)
       end.

(* u128 * u128 as the release build computes it (wrapping); [mul_overflows] = the debug build panics *)
Definition mul_u128 (x y : N) : N := (x * y) mod U128.
Definition mul_overflows (x y : N) : bool := U128 <=? x * y.

(* BeneficiaryReward::from_gas (reward.rs:61-81); basefee is the block's u64 base fee *)
Definition from_gas (cfg : cfgenv) (basefee : N) (tx : txenv) (g : gasr) : option N :=
  if fee_disabled cfg then None
  else
    let effective := effective_gas_price tx basefee in
    let price := if spec_enabled (spec cfg) LONDON then sat_sub effective basefee else effective in
    let effective_used := sat_sub (gas_used g) (g_reservoir g) in
    Some (mul_u128 price effective_used).

(* the amount revm's own hook credits - a second, independent transcription
   (post_execution.rs:110-130) *)
Definition hook_amount (cfg : cfgenv) (basefee : N) (tx : txenv) (g : gasr) : option N :=
  if fee_disabled cfg then None
  else
    let effective_gas_price := effective_gas_price tx basefee in
    let coinbase_gas_price :=
      if spec_enabled (spec cfg) LONDON then sat_sub effective_gas_price basefee
      else effective_gas_price in
    let effective_used := sat_sub (gas_used g) (g_reservoir g) in
    Some (mul_u128 coinbase_gas_price effective_used).

(* post_execution::reward_beneficiary on the beneficiary's journal entry: nothing when the fee
   charge is disabled, else load_account_mut (from the journal, else from the database) and
   incr_balance *)
Definition revm_hook (cfg : cfgenv) (basefee : N) (tx : txenv) (g : gasr)
  (journal : option jacct) (db : option acct) : option jacct :=
  match hook_amount cfg basefee tx g with
  | None => journal
  | Some r => Some (incr_balance (match journal with Some j => j | None => jload db end) r)
  end.

(* BeneficiaryMode::apply (reward.rs:23-49): the new journal entry and the deferred reward *)
Inductive mode := Deferred | Immediate.

Definition is_some {A} (o : option A) : bool := match o with Some _ => true | None => false end.

Definition mode_apply (m : mode) (cfg : cfgenv) (basefee : N) (tx : txenv) (g : gasr)
  (journal : option jacct) (db : option acct) : option jacct * option N :=
  match m with
  | Immediate => (revm_hook cfg basefee tx g journal db, None)
  | Deferred =>
      match from_gas cfg basefee tx g with
      | None => (journal, None)
      | Some r =>
          if (r =? 0) || is_some journal then (revm_hook cfg basefee tx g journal db, None)
          else (journal, Some r)
      end
  end.

(* ---------------------------------------------------------------- one transaction, both modes *)

(* What a transaction does as far as the beneficiary is concerned.  [body] is the execution
   proper: given what a database read of the beneficiary returns it yields the beneficiary's
   journal entry at the end of execution ([None]: the beneficiary was never loaded) and the gas
   result; the transaction environment is fixed.  [body] is an arbitrary function: the beneficiary
   may be sender, recipient, a contract, created, self-destructed, or merely read. *)
Record btx := mkBtx { env : txenv; body : option acct -> option jacct * gasr }.

(* execution of one transaction up to and including journal finalisation; [db] is what the
   executing EVM reads for the beneficiary *)
Definition exec_tx (m : mode) (cfg : cfgenv) (basefee : N) (tx : btx) (db : option acct)
  : option jacct * option N :=
  let '(j, g) := body tx db in
  let '(j', d) := mode_apply m cfg basefee (env tx) g j db in
  (option_map (finalize (spec cfg)) j', d).

(* in-order revm: execute against the committed state, commit *)
Definition imm_step (cfg : cfgenv) (basefee : N) (committed : option acct) (tx : btx) : option acct :=
  commit_acct committed (fst (exec_tx Immediate cfg basefee tx committed)).

(* OrderedCommitter::commit, the beneficiary part (ordered_commit.rs:144-158): a deferred reward
   is folded into the transaction state as a touched account built from apply_to(committed);
   [None] = the assert (beneficiary already in the state) fires *)
Definition commit_fold (committed : option acct) (j : option jacct) (d : option N) : option (option acct) :=
  match d with
  | None => Some (commit_acct committed j)
  | Some r =>
      match j with
      | Some _ => None
      | None => Some (commit_acct committed (Some (mkJ (apply_to r committed) true false false false)))
      end
  end.

(* grevm's parallel path for the final incarnation of each transaction, in commit order:
   transaction [k] executes (incarnation [i]) reading the beneficiary through the history
   (incarnation_db.rs:255-275), publishes its effect (record_execution) and is committed with the
   fold.  State: history, committed account, next txid.  [None]: a read blocked, an assert fired
   or a record was refused. *)
Definition def_step (cfg : cfgenv) (basefee : N) (st : hist * option acct * nat) (txi : btx * N)
  : option (hist * option acct * nat) :=
  let '(h, committed, k) := st in
  let '(tx, i) := txi in
  match resolve_before h k with
  | Some (inr (view, _)) =>
      let '(j, d) := exec_tx Deferred cfg basefee tx view in
      match record_execution h k i d j with
      | Some (h', true) =>
          match commit_fold committed j d with
          | Some c' => Some (h', c', S k)
          | None => None
          end
      | _ => None
      end
  | _ => None
  end.

Fixpoint def_run (cfg : cfgenv) (basefee : N) (st : hist * option acct * nat) (txs : list (btx * N))
  : option (hist * option acct * nat) :=
  match txs with
  | [] => Some st
  | x :: txs' => match def_step cfg basefee st x with
                 | Some st' => def_run cfg basefee st' txs'
                 | None => None
                 end
  end.

(* in-order reference states: the committed beneficiary account after each prefix *)
Fixpoint imm_states (cfg : cfgenv) (basefee : N) (c : option acct) (txs : list btx) : list (option acct) :=
  match txs with
  | [] => [c]
  | tx :: txs' => c :: imm_states cfg basefee (imm_step cfg basefee c tx) txs'
  end.

(* ------------------------------------------------------------------ specification-side helpers *)

(* the effect of one exact entry on the preceding account value, with revm's checked add *)
Definition apply_effect (a : option acct) (e : effect) : option acct :=
  match e with
  | Unchanged => a
  | Reward r => Some (apply_to r a)
  | Snapshot s => s
  end.

Definition is_snapshot (e : effect) : bool := match e with Snapshot _ => true | _ => false end.
