(* Proofs about the beneficiary history of Ben/Model.v (history.rs): the scan, resolution,
   incarnation guards, validation.  All statements quantify over every history / every sequence of
   mutating operations.  No axioms, no section variables. *)
From Grevm Require Import Base.Util Ben.Model.
Open Scope N_scope.

(* ------------------------------------------------------------- the scan without accumulators *)

Fixpoint scan_rec (anc : option acct) (es : list entry) (w : nat) : nat + scanres :=
  match w with
  | O => inr (mkScan anc [] [])
  | S w' =>
      match nth_opt es w' with
      | None => inl w'
      | Some e =>
          match val e with
          | Estimate => inl w'
          | Exact eff =>
              match eff with
              | Snapshot a => inr (mkScan a [] [(w', inc e)])
              | Unchanged =>
                  match scan_rec anc es w' with
                  | inl k => inl k
                  | inr sc => inr (mkScan (base sc) (rewards_nf sc) ((w', inc e) :: origins sc))
                  end
              | Reward r =>
                  match scan_rec anc es w' with
                  | inl k => inl k
                  | inr sc => inr (mkScan (base sc) (r :: rewards_nf sc) ((w', inc e) :: origins sc))
                  end
              end
          end
      end
  end.

Lemma scan_loop_rec anc es w : forall os rs,
  scan_loop anc es w os rs =
  match scan_rec anc es w with
  | inl k => inl k
  | inr sc => inr (mkScan (base sc) (rs ++ rewards_nf sc) (os ++ origins sc))
  end.
Proof.
  induction w as [|w IH]; intros os rs; cbn [scan_loop scan_rec].
  - now rewrite !app_nil_r.
  - destruct (nth_opt es w) as [e|]; [|reflexivity].
    destruct (val e) as [|[|r|a]]; [reflexivity| | |].
    + rewrite IH. destruct (scan_rec anc es w) as [k|sc]; [reflexivity|].
      cbn [base rewards_nf origins]. now rewrite <- app_assoc.
    + rewrite IH. destruct (scan_rec anc es w) as [k|sc]; [reflexivity|].
      cbn [base rewards_nf origins]. now rewrite <- !app_assoc.
    + cbn [base rewards_nf origins]. now rewrite app_nil_r.
Qed.

Lemma scan_before_rec h t :
  scan_before h t =
  if Nat.leb t (length (entries h)) then Some (scan_rec (anchor h) (entries h) t) else None.
Proof.
  unfold scan_before. destruct (Nat.leb t (length (entries h))); [|reflexivity].
  rewrite scan_loop_rec. destruct (scan_rec (anchor h) (entries h) t) as [k|[b rs os]]; reflexivity.
Qed.

Definition credit (a : option acct) (r : N) : option acct := Some (apply_to r a).

Lemma resolve_before_rec h t :
  (t <= length (entries h))%nat ->
  resolve_before h t =
  Some match scan_rec (anchor h) (entries h) t with
       | inl k => inl k
       | inr sc => inr (fold_left credit (rev (rewards_nf sc)) (base sc), origins sc)
       end.
Proof.
  intros Hle. unfold resolve_before. rewrite scan_before_rec.
  apply Nat.leb_le in Hle. rewrite Hle.
  destruct (scan_rec (anchor h) (entries h) t) as [k|sc]; reflexivity.
Qed.

(* ----------------------------------------------------------------------------- resolve_exact *)

(* the origin chain the specification asks for: (k, incarnation_k) from the newest entry down to
   and including the nearest snapshot, else down to entry 0.  [ies_rev] is newest first. *)
Fixpoint chain_from (k : nat) (ies_rev : list (N * effect)) : list version :=
  match ies_rev with
  | [] => []
  | (i, e) :: rest =>
      (pred k, i) :: (if is_snapshot e then [] else chain_from (pred k) rest)
  end.

Definition chain_spec (ies : list (N * effect)) : list version :=
  chain_from (length ies) (rev ies).

Definition exact_prefix (es : list entry) (ies : list (N * effect)) : Prop :=
  forall k ie, nth_opt ies k = Some ie -> nth_opt es k = Some (mkEntry (fst ie) (Exact (snd ie))).

Lemma nth_opt_app_l {A} (l l' : list A) k x : nth_opt l k = Some x -> nth_opt (l ++ l') k = Some x.
Proof. revert k; induction l as [|y l IH]; intros [|k] H; simpl in *; try discriminate; auto. Qed.

Lemma nth_opt_app_len {A} (l : list A) x l' : nth_opt (l ++ x :: l') (length l) = Some x.
Proof. induction l as [|y l IH]; simpl; auto. Qed.

Lemma nth_opt_None_ge {A} (l : list A) k : (length l <= k)%nat -> nth_opt l k = None.
Proof. revert k; induction l as [|y l IH]; intros [|k] H; simpl in *; auto; try lia. apply IH; lia. Qed.

Lemma nth_opt_lt_Some {A} (l : list A) k : (k < length l)%nat -> exists x, nth_opt l k = Some x.
Proof. revert k; induction l as [|y l IH]; intros [|k] H; simpl in *; try lia; eauto. apply IH; lia. Qed.

Lemma exact_prefix_app_inv es ies ie :
  exact_prefix es (ies ++ [ie]) ->
  exact_prefix es ies /\ nth_opt es (length ies) = Some (mkEntry (fst ie) (Exact (snd ie))).
Proof.
  intros H; split.
  - intros k x Hk. apply H. now apply nth_opt_app_l.
  - apply H. apply nth_opt_app_len.
Qed.

Lemma scan_rec_exact anc es ies :
  exact_prefix es ies ->
  exists sc, scan_rec anc es (length ies) = inr sc /\
    fold_left credit (rev (rewards_nf sc)) (base sc) = fold_left apply_effect (map snd ies) anc /\
    origins sc = chain_spec ies.
Proof.
  induction ies as [|[i e] ies IH] using rev_ind; intros Hp.
  - exists (mkScan anc [] []). repeat split.
  - apply exact_prefix_app_inv in Hp. destruct Hp as [Hp Hn]. cbn [fst snd] in Hn.
    destruct (IH Hp) as [sc [Hsc [Hfold Hor]]].
    rewrite app_length, Nat.add_comm. cbn [length Nat.add scan_rec]. rewrite Hn. cbn [val inc].
    unfold chain_spec. rewrite rev_app_distr, app_length, Nat.add_comm.
    cbn [rev app length Nat.add chain_from pred].
    rewrite map_app, fold_left_app. cbn [map snd fold_left].
    destruct e as [|r|a]; cbn [is_snapshot apply_effect].
    + rewrite Hsc. eexists; split; [reflexivity|]. cbn [base rewards_nf origins]. split; [exact Hfold|].
      now rewrite Hor.
    + rewrite Hsc. eexists; split; [reflexivity|]. cbn [base rewards_nf origins]. split.
      * cbn [rev]. rewrite fold_left_app. cbn [fold_left]. rewrite Hfold. reflexivity.
      * now rewrite Hor.
    + eexists; split; [reflexivity|]. cbn [base rewards_nf origins rev fold_left]. split; reflexivity.
Qed.

Lemma exact_prefix_length es ies : exact_prefix es ies -> (length ies <= length es)%nat.
Proof.
  intros H. destruct (Nat.le_gt_cases (length ies) (length es)) as [|Hgt]; [assumption|].
  destruct (nth_opt_lt_Some ies (length es)) as [x Hx]; [lia|].
  apply H in Hx. apply nth_opt_Some_lt in Hx. lia.
Qed.

(* if the entries below [t] are exact with effects e_0 .. e_{t-1} (any incarnations), the read
   before [t] is the in-order fold of those effects over the block anchor - every credit applied
   with revm's checked add in transaction order - and the version is the chain down to the nearest
   snapshot *)
Theorem resolve_exact h ies :
  exact_prefix (entries h) ies ->
  resolve_before h (length ies) =
  Some (inr (fold_left apply_effect (map snd ies) (anchor h), chain_spec ies)).
Proof.
  intros Hp. rewrite resolve_before_rec by now apply exact_prefix_length.
  destruct (scan_rec_exact (anchor h) _ _ Hp) as [sc [Hsc [Hf Ho]]].
  rewrite Hsc, Hf, Ho. reflexivity.
Qed.

(* what [chain_spec] contains: exactly the entries above-or-at the nearest snapshot *)
Lemma chain_from_In k rest t i :
  length rest = k ->
  (In (t, i) (chain_from k rest) <->
   (t < k)%nat /\ (exists e, nth_opt (rev rest) t = Some (i, e)) /\
   forall j ie, (t < j < k)%nat -> nth_opt (rev rest) j = Some ie -> is_snapshot (snd ie) = false).
Proof.
  revert k; induction rest as [|[i0 e0] rest IH]; intros k Hk; cbn [length] in Hk; subst k.
  - cbn. split; [tauto|]. intros [H _]. lia.
  - cbn [chain_from pred rev].
    assert (Hlast : nth_opt (rev rest ++ [(i0, e0)]) (length rest) = Some (i0, e0)).
    { rewrite <- (rev_length rest). apply nth_opt_app_len. }
    split.
    + intros [Heq|Hin].
      * inversion Heq; subst t i. split; [cbn; lia|]. split; [eauto|].
        intros j ie Hj. cbn in Hj. lia.
      * destruct (is_snapshot e0) eqn:Es; [destruct Hin|].
        apply (IH (length rest) eq_refl) in Hin. destruct Hin as [Hlt [[e He] Hall]].
        split; [cbn; lia|]. split.
        { exists e. now apply nth_opt_app_l. }
        intros j ie Hj Hnth. cbn in Hj.
        destruct (Nat.eq_dec j (length rest)) as [->|Hne].
        { rewrite Hlast in Hnth. inversion Hnth; subst ie. exact Es. }
        apply (Hall j ie); [lia|].
        destruct (nth_opt_lt_Some (rev rest) j) as [x Hx]; [rewrite rev_length; lia|].
        rewrite (nth_opt_app_l _ [(i0, e0)] _ _ Hx) in Hnth. now rewrite Hx, Hnth.
    + intros [Hlt [[e He] Hall]]. cbn in Hlt.
      destruct (Nat.eq_dec t (length rest)) as [->|Hne].
      * rewrite Hlast in He. inversion He; subst. now left.
      * right. assert (Es : is_snapshot e0 = false).
        { apply (Hall (length rest) (i0, e0)); [cbn; lia | exact Hlast]. }
        rewrite Es. apply (IH (length rest) eq_refl).
        destruct (nth_opt_lt_Some (rev rest) t) as [x Hx]; [rewrite rev_length; lia|].
        rewrite (nth_opt_app_l _ [(i0, e0)] _ _ Hx) in He. inversion He; subst x.
        split; [lia|]. split; [eauto|].
        intros j ie Hj Hnth. apply (Hall j ie); [cbn; lia|]. now apply nth_opt_app_l.
Qed.

Theorem chain_spec_In ies t i :
  In (t, i) (chain_spec ies) <->
  (t < length ies)%nat /\ (exists e, nth_opt ies t = Some (i, e)) /\
  forall j ie, (t < j < length ies)%nat -> nth_opt ies j = Some ie -> is_snapshot (snd ie) = false.
Proof.
  unfold chain_spec. rewrite (chain_from_In (length ies) (rev ies) t i) by apply rev_length.
  rewrite rev_involutive. reflexivity.
Qed.

(* --------------------------------------------------------------------------- resolve_blocked *)

Definition is_estimate_at (es : list entry) (k : nat) : Prop :=
  exists i, nth_opt es k = Some (mkEntry i Estimate).
Definition is_reward_or_unchanged_at (es : list entry) (j : nat) : Prop :=
  exists i e, nth_opt es j = Some (mkEntry i (Exact e)) /\ is_snapshot e = false.

Lemma entry_eta e : e = mkEntry (inc e) (val e).
Proof. now destruct e. Qed.

Lemma scan_rec_blocked_iff anc es t k :
  (t <= length es)%nat ->
  (scan_rec anc es t = inl k <->
   (k < t)%nat /\ is_estimate_at es k /\ forall j, (k < j < t)%nat -> is_reward_or_unchanged_at es j).
Proof.
  induction t as [|t IH]; intros Hle.
  - cbn. split; [discriminate|]. intros [H _]; lia.
  - cbn [scan_rec]. destruct (nth_opt_lt_Some es t) as [e He]; [lia|]. rewrite He.
    assert (IH' := IH ltac:(lia)). clear IH.
    assert (Hrec : forall f : scanres -> scanres, match scan_rec anc es t with inl k0 => inl k0 | inr sc => inr (f sc) end = inl k
                        <-> scan_rec anc es t = inl k).
    { intros f. destruct (scan_rec anc es t); split; intros H; try discriminate; auto. }
    assert (Hstep : forall eff, val e = Exact eff -> is_snapshot eff = false ->
              (scan_rec anc es t = inl k <->
               (k < S t)%nat /\ is_estimate_at es k /\
               forall j, (k < j < S t)%nat -> is_reward_or_unchanged_at es j)).
    { intros eff Hv Hs. rewrite IH'. split.
      - intros [Hlt [Hest Hall]]. split; [lia|]. split; [assumption|].
        intros j Hj. destruct (Nat.eq_dec j t) as [->|Hne]; [|apply Hall; lia].
        exists (inc e), eff. split; [|assumption]. rewrite He, (entry_eta e) at 1. now rewrite Hv.
      - intros [Hlt [Hest Hall]].
        assert (k <> t).
        { intros ->. destruct Hest as [i Hi]. rewrite He in Hi. inversion Hi; subst e. discriminate. }
        split; [lia|]. split; [assumption|]. intros j Hj. apply Hall; lia. }
    destruct (val e) as [|eff] eqn:Hv.
    + split.
      * intros H; inversion H; subst k. split; [lia|]. split.
        { exists (inc e). rewrite He, (entry_eta e) at 1. now rewrite Hv. }
        intros j Hj; lia.
      * intros [Hlt [Hest Hall]].
        destruct (Nat.eq_dec k t) as [->|Hne]; [reflexivity|].
        destruct (Hall t ltac:(lia)) as [i [e' [Hn _]]]. rewrite He in Hn. inversion Hn; subst e.
        discriminate.
    + destruct eff as [|r|a].
      * rewrite Hrec. now apply (Hstep Unchanged).
      * rewrite Hrec. now apply (Hstep (Reward r)).
      * split; [discriminate|]. intros [Hlt [Hest Hall]].
        destruct (Nat.eq_dec k t) as [->|Hne].
        { destruct Hest as [i Hi]. rewrite He in Hi. inversion Hi; subst e. discriminate. }
        destruct (Hall t ltac:(lia)) as [i [e' [Hn Hs]]]. rewrite He in Hn. inversion Hn; subst e.
        cbn in Hv. inversion Hv; subst e'. discriminate.
Qed.

(* a read is blocked by [k] exactly when [k] is the newest estimate above the nearest snapshot:
   an estimate with only rewards / unchanged entries between it and the reader *)
Theorem resolve_blocked_iff h t k :
  (t <= length (entries h))%nat ->
  (resolve_before h t = Some (inl k) <->
   (k < t)%nat /\ is_estimate_at (entries h) k /\
   forall j, (k < j < t)%nat -> is_reward_or_unchanged_at (entries h) j).
Proof.
  intros Hle. rewrite resolve_before_rec by assumption.
  rewrite <- (scan_rec_blocked_iff (anchor h) (entries h) t k Hle).
  destruct (scan_rec (anchor h) (entries h) t) as [k0|sc]; split; intros H; try discriminate.
  - now inversion H. - now inversion H.
Qed.

(* and a read never panics inside the block *)
Theorem resolve_total h t :
  (t <= length (entries h))%nat -> exists r, resolve_before h t = Some r.
Proof. intros H. rewrite resolve_before_rec by assumption. eauto. Qed.

Theorem resolve_outside_panics h t :
  (length (entries h) < t)%nat -> resolve_before h t = None.
Proof.
  intros H. unfold resolve_before, scan_before.
  destruct (Nat.leb_spec t (length (entries h))); [lia|reflexivity].
Qed.

(* -------------------------------------------------------------- record / invalidate, one step *)

Theorem record_stale_noop h t i v e :
  nth_opt (entries h) t = Some e -> i <= inc e -> record h t i v = Some (h, false).
Proof. intros He Hi. unfold record. rewrite He. apply N.leb_le in Hi. now rewrite Hi. Qed.

Theorem record_newer_replaces h t i v e :
  nth_opt (entries h) t = Some e -> inc e < i ->
  exists h', record h t i v = Some (h', true) /\ anchor h' = anchor h /\
    length (entries h') = length (entries h) /\
    nth_opt (entries h') t = Some (mkEntry i v) /\
    forall k, k <> t -> nth_opt (entries h') k = nth_opt (entries h) k.
Proof.
  intros He Hi. unfold record. rewrite He.
  destruct (N.leb_spec i (inc e)); [lia|].
  eexists; split; [reflexivity|]. cbn [anchor entries]. repeat split.
  - apply length_set_nth.
  - apply nth_opt_set_nth_same. eapply nth_opt_Some_lt; eauto.
  - intros k Hk. apply nth_opt_set_nth_other. congruence.
Qed.

Theorem record_outside_panics h t i v :
  nth_opt (entries h) t = None -> record h t i v = None.
Proof. intros He. unfold record. now rewrite He. Qed.

(* invalidate acts only on the exact incarnation it names *)
Theorem invalidate_other_incarnation_noop h t i e :
  nth_opt (entries h) t = Some e -> inc e <> i -> invalidate h t i = Some (h, false).
Proof.
  intros He Hi. unfold invalidate. rewrite He. destruct (N.eqb_spec (inc e) i); [contradiction|reflexivity].
Qed.

Theorem invalidate_same_incarnation h t e :
  nth_opt (entries h) t = Some e ->
  exists h', invalidate h t (inc e) = Some (h', true) /\ anchor h' = anchor h /\
    length (entries h') = length (entries h) /\
    nth_opt (entries h') t = Some (mkEntry (inc e) Estimate) /\
    forall k, k <> t -> nth_opt (entries h') k = nth_opt (entries h) k.
Proof.
  intros He. unfold invalidate. rewrite He, N.eqb_refl. cbn [negb].
  destruct (val e) as [|eff] eqn:Hv.
  - exists h. repeat split; auto. rewrite He, (entry_eta e) at 1. now rewrite Hv.
  - eexists; split; [reflexivity|]. cbn [anchor entries]. repeat split.
    + apply length_set_nth.
    + apply nth_opt_set_nth_same. eapply nth_opt_Some_lt; eauto.
    + intros k Hk. apply nth_opt_set_nth_other. congruence.
Qed.

(* ---------------------------------------------------------------------- operation sequences *)

(* how one entry relates to its successor under one mutating operation *)
Inductive entry_step (e e' : entry) : Prop :=
| EsSame : e' = e -> entry_step e e'
| EsNewer : inc e < inc e' -> entry_step e e'
| EsInvalidated : inc e' = inc e -> val e' = Estimate -> entry_step e e'.

Lemma mstep_shape h o :
  anchor (mstep h o) = anchor h /\ length (entries (mstep h o)) = length (entries h) /\
  forall k e, nth_opt (entries h) k = Some e ->
    exists e', nth_opt (entries (mstep h o)) k = Some e' /\ entry_step e e'.
Proof.
  destruct o as [t i v|t i]; cbn [mstep].
  - unfold record. destruct (nth_opt (entries h) t) as [e0|] eqn:He0.
    + destruct (N.leb_spec i (inc e0)).
      * repeat split; auto. intros k e Hk. exists e. split; [assumption|now apply EsSame].
      * cbn [anchor entries]. split; [reflexivity|]. split; [apply length_set_nth|].
        intros k e Hk. destruct (Nat.eq_dec k t) as [->|Hne].
        { rewrite nth_opt_set_nth_same by (eapply nth_opt_Some_lt; eauto).
          eexists; split; [reflexivity|]. apply EsNewer. cbn. congruence. }
        rewrite nth_opt_set_nth_other by congruence. exists e. split; [assumption|now apply EsSame].
    + repeat split; auto. intros k e Hk. exists e. split; [assumption|now apply EsSame].
  - unfold invalidate. destruct (nth_opt (entries h) t) as [e0|] eqn:He0.
    + destruct (N.eqb_spec (inc e0) i) as [Heqi|Hnei]; cbn [negb].
      * destruct (val e0) as [|eff0] eqn:Hv.
        { repeat split; auto. intros k e Hk. exists e. split; [assumption|now apply EsSame]. }
        cbn [anchor entries]. split; [reflexivity|]. split; [apply length_set_nth|].
        intros k e1 Hk. destruct (Nat.eq_dec k t) as [->|Hne].
        { rewrite nth_opt_set_nth_same by (eapply nth_opt_Some_lt; eauto).
          eexists; split; [reflexivity|]. apply EsInvalidated; cbn; congruence. }
        rewrite nth_opt_set_nth_other by congruence. exists e1. split; [assumption|now apply EsSame].
      * repeat split; auto. intros k e Hk. exists e. split; [assumption|now apply EsSame].
    + repeat split; auto. intros k e Hk. exists e. split; [assumption|now apply EsSame].
Qed.

Lemma mrun_cons h o ops : mrun h (o :: ops) = mrun (mstep h o) ops.
Proof. reflexivity. Qed.

Lemma mrun_nil h : mrun h [] = h.
Proof. reflexivity. Qed.

Lemma mrun_shape h ops :
  anchor (mrun h ops) = anchor h /\ length (entries (mrun h ops)) = length (entries h).
Proof.
  revert h; induction ops as [|o ops IH]; intros h; [now rewrite mrun_nil|rewrite mrun_cons].
  destruct (IH (mstep h o)) as [Ha Hl]. destruct (mstep_shape h o) as [Ha' [Hl' _]].
  split; congruence.
Qed.

Lemma mrun_entry_exists h ops k e :
  nth_opt (entries h) k = Some e -> exists e', nth_opt (entries (mrun h ops)) k = Some e'.
Proof.
  intros He. apply nth_opt_lt_Some. rewrite (proj2 (mrun_shape h ops)). eapply nth_opt_Some_lt; eauto.
Qed.

(* incarnations never decrease, whatever the sequence of (possibly stale, repeated, out-of-range)
   records and invalidations *)
Theorem record_monotone h ops k e e' :
  nth_opt (entries h) k = Some e -> nth_opt (entries (mrun h ops)) k = Some e' -> inc e <= inc e'.
Proof.
  revert h e; induction ops as [|o ops IH]; intros h e He He'; [rewrite mrun_nil in He'|rewrite mrun_cons in He'].
  - rewrite He in He'. inversion He'; subst. lia.
  - destruct (proj2 (proj2 (mstep_shape h o)) k e He) as [e1 [He1 Hs]].
    specialize (IH _ _ He1 He'). destruct Hs as [->|Hlt|Heq _]; lia.
Qed.

(* once [(k, i)] carries the exact effect [e1], entry [k] can only ever be: that effect, an
   estimate of the same incarnation, or a newer incarnation *)
Lemma version_invariant h ops k i e1 e' :
  nth_opt (entries h) k = Some (mkEntry i (Exact e1)) ->
  nth_opt (entries (mrun h ops)) k = Some e' ->
  (inc e' = i /\ (val e' = Exact e1 \/ val e' = Estimate)) \/ i < inc e'.
Proof.
  intros He He'.
  assert (G : forall e, nth_opt (entries h) k = Some e ->
            ((inc e = i /\ (val e = Exact e1 \/ val e = Estimate)) \/ i < inc e) ->
            (inc e' = i /\ (val e' = Exact e1 \/ val e' = Estimate)) \/ i < inc e').
  { clear He. revert h He'. induction ops as [|o ops IH]; intros h He' e He Hinv;
      [rewrite mrun_nil in He'|rewrite mrun_cons in He'].
    - rewrite He in He'. now inversion He'; subst.
    - destruct (proj2 (proj2 (mstep_shape h o)) k e He) as [e2 [He2 Hs]].
      apply (IH _ He' e2 He2).
      destruct Hs as [->|Hlt|Heq Hest]; [assumption| |].
      + right. destruct Hinv as [[Hi _]|Hi]; lia.
      + destruct Hinv as [[Hi _]|Hi]; [left|right; lia]. split; [congruence|now right]. }
  apply (G _ He). left. cbn. auto.
Qed.

(* hence (txid, incarnation) identifies one effect: a stale or repeated record can never install a
   different effect under a version that was already published *)
Theorem effect_of_version_unique h ops k i e1 e2 :
  nth_opt (entries h) k = Some (mkEntry i (Exact e1)) ->
  nth_opt (entries (mrun h ops)) k = Some (mkEntry i (Exact e2)) ->
  e1 = e2.
Proof.
  intros He He'. destruct (version_invariant _ _ _ _ _ _ He He') as [[_ [Hv|Hv]]|Hlt]; cbn in *.
  - now inversion Hv. - discriminate. - lia.
Qed.

Corollary effect_of_version_unique_run a n ops1 ops2 k i e1 e2 :
  nth_opt (entries (mrun (new_hist a n) ops1)) k = Some (mkEntry i (Exact e1)) ->
  nth_opt (entries (mrun (new_hist a n) (ops1 ++ ops2))) k = Some (mkEntry i (Exact e2)) ->
  e1 = e2.
Proof. unfold mrun. rewrite fold_left_app. apply effect_of_version_unique. Qed.

(* ---------------------------------------------------------------------------- validate_sound *)

Lemma versions_eqb_eq a b : versions_eqb a b = true -> a = b.
Proof.
  revert b; induction a as [|[t i] a IH]; intros [|[t' i'] b] H; cbn in H; try discriminate; auto.
  apply andb_true_iff in H. destruct H as [Hv Hr]. unfold version_eqb in Hv. cbn in Hv.
  apply andb_true_iff in Hv. destruct Hv as [Ht Hi].
  apply Nat.eqb_eq in Ht. apply N.eqb_eq in Hi. subst. f_equal. auto.
Qed.

Lemma versions_eqb_refl a : versions_eqb a a = true.
Proof.
  induction a as [|[t i] a IH]; cbn; auto. unfold version_eqb. cbn.
  now rewrite Nat.eqb_refl, N.eqb_refl, IH.
Qed.

(* two scans over entry lists that agree on the effect of every common version, returning the same
   origin chain, returned the same base and the same rewards *)
Lemma scan_rec_determined anc es es' t : forall sc sc',
  (forall k i e1 e2, nth_opt es k = Some (mkEntry i (Exact e1)) ->
                     nth_opt es' k = Some (mkEntry i (Exact e2)) -> e1 = e2) ->
  scan_rec anc es t = inr sc -> scan_rec anc es' t = inr sc' ->
  origins sc = origins sc' -> sc = sc'.
Proof.
  induction t as [|t IH]; intros sc sc' Hu H H' Ho; cbn [scan_rec] in H, H'.
  - congruence.
  - destruct (nth_opt es t) as [e|] eqn:He; [|discriminate].
    destruct (nth_opt es' t) as [e'|] eqn:He'; [|discriminate].
    destruct (val e) as [|eff] eqn:Hv; [discriminate|].
    destruct (val e') as [|eff'] eqn:Hv'; [discriminate|].
    assert (Hinc : inc e = inc e').
    { destruct eff as [|r|a]; destruct eff' as [|r'|a'];
        repeat match goal with
        | H : match scan_rec ?x ?y ?z with _ => _ end = _ |- _ => destruct (scan_rec x y z); try discriminate
        end; inversion H; inversion H'; subst; cbn in Ho; congruence. }
    assert (Heff : eff = eff').
    { apply (Hu t (inc e)).
      - rewrite He, (entry_eta e) at 1. now rewrite Hv.
      - rewrite He', (entry_eta e') at 1. now rewrite Hv', Hinc. }
    subst eff'. destruct eff as [|r|a].
    + destruct (scan_rec anc es t) as [|s1] eqn:E1; [discriminate|].
      destruct (scan_rec anc es' t) as [|s2] eqn:E2; [discriminate|].
      inversion H; inversion H'; subst. cbn in Ho. inversion Ho.
      rewrite (IH s1 s2 Hu eq_refl eq_refl) by assumption. now rewrite Hinc.
    + destruct (scan_rec anc es t) as [|s1] eqn:E1; [discriminate|].
      destruct (scan_rec anc es' t) as [|s2] eqn:E2; [discriminate|].
      inversion H; inversion H'; subst. cbn in Ho. inversion Ho.
      rewrite (IH s1 s2 Hu eq_refl eq_refl) by assumption. now rewrite Hinc.
    + inversion H; inversion H'; subst. now rewrite Hinc.
Qed.

(* a read whose version chain validates against the current history - after any sequence of
   records and invalidations, stale ones included - would resolve now to exactly the account (and
   version) that was read then *)
Theorem validate_sound h ops t a v dep :
  resolve_before h t = Some (inr (a, v)) ->
  validate (mrun h ops) t v = Some (true, dep) ->
  resolve_before (mrun h ops) t = Some (inr (a, v)).
Proof.
  intros Hr Hv.
  destruct (mrun_shape h ops) as [Ha Hl].
  assert (Hle : (t <= length (entries h))%nat).
  { destruct (Nat.le_gt_cases t (length (entries h))); [assumption|].
    rewrite resolve_outside_panics in Hr by assumption. discriminate. }
  rewrite resolve_before_rec in Hr by assumption.
  rewrite resolve_before_rec by (rewrite Hl; assumption).
  unfold validate in Hv. rewrite scan_before_rec, Hl in Hv.
  apply Nat.leb_le in Hle. rewrite Hle in Hv. rewrite Ha in *.
  destruct (scan_rec (anchor h) (entries h) t) as [|sc] eqn:E; [discriminate|].
  destruct (scan_rec (anchor h) (entries (mrun h ops)) t) as [|sc'] eqn:E'; [discriminate|].
  inversion Hr; subst a v. inversion Hv as [[Heq Hd]]. apply versions_eqb_eq in Heq.
  assert (sc = sc').
  { eapply scan_rec_determined; eauto. intros k i e1 e2 H1 H2.
    eapply effect_of_version_unique; eauto. }
  now subst.
Qed.

(* validation is also complete when nothing changed, and reports the dependency the code documents *)
Theorem validate_unchanged h t a v :
  resolve_before h t = Some (inr (a, v)) ->
  validate h t v = Some (true, latest_dependency v).
Proof.
  intros Hr. unfold resolve_before in Hr. unfold validate.
  destruct (scan_before h t) as [[k|sc]|]; try discriminate.
  inversion Hr; subst. unfold resolve; cbn. now rewrite versions_eqb_refl.
Qed.

Theorem validate_blocked h t v k :
  resolve_before h t = Some (inl k) -> validate h t v = Some (false, Some k).
Proof.
  intros Hr. unfold resolve_before in Hr. unfold validate.
  destruct (scan_before h t) as [[k0|sc]|]; try discriminate. now inversion Hr.
Qed.

(* -------------------------------------------------------------- absent beneficiary, history side *)

Lemma fold_credit_none_inv rs : forall b, fold_left credit rs b = None -> b = None /\ rs = [].
Proof.
  induction rs as [|r rs IH]; intros b H; cbn in H; [auto|].
  apply IH in H. destruct H as [H _]. discriminate.
Qed.

(* an absent block anchor stays absent unless the chain the reader folds contains a reward or a
   snapshot of an existing account *)
Theorem absent_stays_absent_without_credit h t a v :
  anchor h = None ->
  resolve_before h t = Some (inr (a, v)) ->
  (forall k i, In (k, i) v -> exists i', nth_opt (entries h) k = Some (mkEntry i' (Exact Unchanged))) ->
  a = None.
Proof.
  intros Ha Hr Hall.
  assert (Hle : (t <= length (entries h))%nat).
  { destruct (Nat.le_gt_cases t (length (entries h))); [assumption|].
    rewrite resolve_outside_panics in Hr by assumption. discriminate. }
  rewrite resolve_before_rec in Hr by assumption. rewrite Ha in Hr.
  destruct (scan_rec None (entries h) t) as [|sc] eqn:E; [discriminate|].
  inversion Hr; subst a v. clear Hr.
  revert sc E Hall. clear Hle. induction t as [|t IH]; intros sc E Hall; cbn [scan_rec] in E.
  - inversion E; subst. reflexivity.
  - destruct (nth_opt (entries h) t) as [e|] eqn:He; [|discriminate].
    destruct (val e) as [|eff] eqn:Hv; [discriminate|].
    assert (Hin : forall tl, origins sc = (t, inc e) :: tl -> eff = Unchanged).
    { intros tl Ho. destruct (Hall t (inc e)) as [i' Hi']; [rewrite Ho; now left|].
      rewrite He in Hi'. inversion Hi'; subst e. cbn in Hv. now inversion Hv. }
    destruct eff as [|r|a0].
    + destruct (scan_rec None (entries h) t) as [|s1] eqn:E1; [discriminate|].
      inversion E; subst sc. cbn [base rewards_nf origins] in *.
      apply (IH s1 eq_refl). intros k i Hk. apply (Hall k i). now right.
    + destruct (scan_rec None (entries h) t) as [|s1] eqn:E1; [discriminate|].
      inversion E; subst sc. specialize (Hin _ eq_refl). discriminate.
    + inversion E; subst sc. specialize (Hin _ eq_refl). discriminate.
Qed.
