(* Satisfiability examples for the hypotheses of the C07 theorems: each one instantiates the
   theorem of the same name on a concrete, non-trivial state and evaluates both sides. *)
From Grevm Require Import Base.Util Ben.Model Ben.Proofs Ben.ProofsReward.
Open Scope N_scope.

Definition MAXU : N := U256 - 1.
Definition rich : acct := mkAcct (MAXU - 1) 7 2.

(* tx0 credits 2 (overflows, skipped), tx1 credits 1 (reaches MAX), tx2 unchanged *)
Definition h_chain : hist :=
  mkHist (Some rich)
    [mkEntry 1 (Exact (Reward 2)); mkEntry 3 (Exact (Reward 1)); mkEntry 1 (Exact Unchanged);
     mkEntry 0 Estimate].

Example resolve_exact_ex :
  exact_prefix (entries h_chain) [(1, Reward 2); (3, Reward 1); (1, Unchanged)] /\
  resolve_before h_chain 3 = Some (inr (Some (mkAcct MAXU 7 2), [(2%nat, 1); (1%nat, 3); (0%nat, 1)])).
Proof.
  split; [|vm_compute; reflexivity].
  intros [|[|[|k]]] ie H; cbn in H; inversion H; subst; reflexivity.
Qed.

(* a snapshot of an absent account cuts the chain; a later reward re-creates the account *)
Definition h_snap : hist :=
  mkHist (Some rich)
    [mkEntry 5 Estimate; mkEntry 1 (Exact (Snapshot None)); mkEntry 2 (Exact (Reward 7)); mkEntry 0 Estimate].

Example resolve_exact_snapshot_ex :
  resolve_before h_snap 3 = Some (inr (Some (mkAcct 7 0 0), [(2%nat, 2); (1%nat, 1)])).
Proof. vm_compute. reflexivity. Qed.

Example resolve_blocked_iff_ex :
  resolve_before h_snap 1 = Some (inl 0%nat) /\ resolve_before h_chain 4 = Some (inl 3%nat) /\
  is_estimate_at (entries h_chain) 3.
Proof. repeat split; try (vm_compute; reflexivity). exists 0. reflexivity. Qed.

(* stale and repeated writers *)
Example record_stale_noop_ex :
  record h_chain 1 3 (Exact (Reward 100)) = Some (h_chain, false) /\
  record h_chain 1 2 Estimate = Some (h_chain, false).
Proof. split; vm_compute; reflexivity. Qed.

Definition ops_mixed : list mop :=
  [MInvalidate 1 2; MInvalidate 1 3; MRecord 1 3 (Exact (Reward 50)); MRecord 1 4 (Exact (Reward 9));
   MRecord 0 1 Estimate; MRecord 7 1 Estimate; MInvalidate 0 0].

Example record_monotone_ex :
  map inc (entries (mrun h_chain ops_mixed)) = [1; 4; 1; 0] /\
  nth_opt (entries (mrun h_chain ops_mixed)) 1 = Some (mkEntry 4 (Exact (Reward 9))).
Proof. split; vm_compute; reflexivity. Qed.

Example invalidate_exact_incarnation_ex :
  invalidate h_chain 1 2 = Some (h_chain, false) /\
  exists h', invalidate h_chain 1 3 = Some (h', true) /\ nth_opt (entries h') 1 = Some (mkEntry 3 Estimate).
Proof. split; [vm_compute; reflexivity|]. eexists. split; vm_compute; reflexivity. Qed.

(* the version (0, 1) still names Reward 2 after a stale record, a foreign invalidate and writes
   to other entries *)
Example effect_of_version_unique_ex :
  nth_opt (entries h_chain) 0 = Some (mkEntry 1 (Exact (Reward 2))) /\
  nth_opt (entries (mrun h_chain [MRecord 0 1 (Exact (Reward 99)); MInvalidate 0 0; MRecord 2 2 Estimate])) 0
  = Some (mkEntry 1 (Exact (Reward 2))).
Proof. split; vm_compute; reflexivity. Qed.

(* a read of tx 3 stays valid when entries at or above it change, and becomes invalid when only
   an OLDER origin changes incarnation *)
Example validate_sound_ex :
  let v := [(2%nat, 1); (1%nat, 3); (0%nat, 1)] in
  validate (mrun h_chain [MRecord 3 1 (Exact (Reward 5)); MRecord 1 2 Estimate]) 3 v = Some (true, Some 2%nat) /\
  validate (mrun h_chain [MRecord 0 2 (Exact (Reward 2))]) 3 v = Some (false, Some 2%nat) /\
  validate (mrun h_chain [MInvalidate 0 1]) 3 v = Some (false, Some 0%nat).
Proof. repeat split; vm_compute; reflexivity. Qed.

(* rewards: London 1559, base fee 30, fee cap 100, tip 5, 60 gas used; Frontier legacy *)
Definition cfg_london := mkCfg 8 false.
Definition tx1559 := mkTx 2 100 (Some 5).
Definition gas60 := mkGas 100 40 0 0.

Example reward_formula_ex :
  from_gas cfg_london 30 tx1559 gas60 = Some 300 /\
  from_gas (mkCfg 0 false) 30 (mkTx 0 100 None) gas60 = Some 6000 /\
  from_gas (mkCfg 14 false) 30 tx1559 (mkGas 100 0 0 40) = Some 300 /\
  from_gas cfg_london 30 (mkTx 2 30 (Some 0)) gas60 = Some 0 /\
  from_gas (mkCfg 12 true) 30 tx1559 gas60 = None /\
  (* the u128 product wraps *)
  from_gas (mkCfg 0 false) 0 (mkTx 0 (U128 - 1) None) (mkGas 2 0 0 0) = Some (U128 - 2) /\
  mul_overflows (U128 - 1) 2 = true.
Proof. repeat split; vm_compute; reflexivity. Qed.

Example apply_to_eq_revm_hook_ex :
  hook_amount cfg_london 30 tx1559 gas60 = Some 300 /\
  commit_acct (Some rich) (option_map (finalize 8) (revm_hook cfg_london 30 tx1559 gas60 None (Some rich)))
    = Some (apply_to 300 (Some rich)) /\
  apply_to 300 (Some rich) = rich /\           (* overflow: balance unchanged *)
  commit_acct None (option_map (finalize 8) (revm_hook cfg_london 30 tx1559 gas60 None None))
    = Some (mkAcct 300 0 0).
Proof. repeat split; vm_compute; reflexivity. Qed.

Example deferral_rule_ex :
  mode_apply Deferred cfg_london 30 tx1559 gas60 None (Some rich) = (None, Some 300) /\
  (* beneficiary already in the journal: revm's hook *)
  snd (mode_apply Deferred cfg_london 30 tx1559 gas60 (Some (jload (Some rich))) (Some rich)) = None /\
  (* zero reward: revm's hook, which touches the account *)
  mode_apply Deferred cfg_london 30 (mkTx 2 30 (Some 0)) gas60 None None
    = (Some (mkJ default_acct true false false true), None).
Proof. repeat split; vm_compute; reflexivity. Qed.

(* pre-Spurious-Dragon a zero reward does materialise an absent beneficiary - in both modes *)
Example zero_reward_pre_state_clear_ex :
  let tx0 := mkBtx (mkTx 0 0 None) (fun _ => (None, gas60)) in
  imm_step (mkCfg 2 false) 0 None tx0 = Some default_acct /\
  imm_step (mkCfg 3 false) 0 None tx0 = None.
Proof. split; vm_compute; reflexivity. Qed.

(* a block: a plain transfer elsewhere; the beneficiary as sender (loaded, touched, nonce bumped,
   balance reduced); a zero-fee transaction; the beneficiary self-destructs; a plain one again *)
Definition body_none (g : gasr) : option acct -> option jacct * gasr := fun _ => (None, g).
Definition body_sender (g : gasr) : option acct -> option jacct * gasr := fun db =>
  let a := match db with Some a => a | None => default_acct end in
  (Some (mkJ (mkAcct (bal a - 1000) (nonce a + 1) (code a)) true false false
             (match db with Some _ => false | None => true end)), g).
Definition body_destroy (g : gasr) : option acct -> option jacct * gasr := fun db =>
  let a := match db with Some a => a | None => default_acct end in
  (Some (mkJ (mkAcct 0 (nonce a) (code a)) true false true false), g).

Definition block_txs : list btx :=
  [mkBtx tx1559 (body_none gas60); mkBtx tx1559 (body_sender gas60);
   mkBtx (mkTx 2 30 (Some 0)) (body_none gas60); mkBtx tx1559 (body_destroy gas60);
   mkBtx tx1559 (body_none gas60)].

Example deferred_fold_eq_immediate_ex :
  imm_states cfg_london 30 (Some (mkAcct 5000 1 0)) block_txs =
    [Some (mkAcct 5000 1 0); Some (mkAcct 5300 1 0); Some (mkAcct 4600 2 0); Some (mkAcct 4600 2 0);
     None; Some (mkAcct 300 0 0)] /\
  exists h, def_run cfg_london 30 (new_hist (Some (mkAcct 5000 1 0)) 5, Some (mkAcct 5000 1 0), 0%nat)
              (combine block_txs [1; 2; 1; 3; 1]) = Some (h, Some (mkAcct 300 0 0), 5%nat) /\
            map val (entries h) =
              [Exact (Reward 300); Exact (Snapshot (Some (mkAcct 4600 2 0)));
               (* the zero reward went through revm's hook: the touched account is a snapshot *)
               Exact (Snapshot (Some (mkAcct 4600 2 0)));
               Exact (Snapshot None); Exact (Reward 300)].
Proof. split; [vm_compute; reflexivity|]. eexists. split; vm_compute; reflexivity. Qed.

Example absent_materialised_only_by_nonzero_ex :
  commit_fold None None (Some 300) = Some (Some (mkAcct 300 0 0)) /\
  resolve_before (mkHist None [mkEntry 1 (Exact Unchanged); mkEntry 1 (Exact Unchanged)]) 2
    = Some (inr (None, [(1%nat, 1); (0%nat, 1)])).
Proof. split; vm_compute; reflexivity. Qed.
