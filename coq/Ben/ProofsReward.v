(* Proofs about the reward arithmetic, the deferral decision, the commit fold and the equivalence
   of grevm's deferred path with in-order revm (Ben/Model.v).  All statements quantify over every
   fork, fee setting, gas result, balance, and over arbitrary transaction bodies.  No axioms. *)
From Grevm Require Import Base.Util Ben.Model Ben.Proofs.
Open Scope N_scope.

(* ---------------------------------------------------------------------------- reward formula *)

(* grevm's deferred amount is revm's credited amount: every fork, every transaction type, every
   gas result, fee charge on or off - including the wrapped u128 product and whether the debug
   build would panic on it *)
Theorem reward_formula_eq cfg basefee tx g :
  from_gas cfg basefee tx g = hook_amount cfg basefee tx g.
Proof. reflexivity. Qed.

Lemma U128_pos : 0 < U128. Proof. reflexivity. Qed.
Lemma U128_lt_U256 : U128 < U256. Proof. reflexivity. Qed.

Lemma from_gas_lt_U128 cfg basefee tx g r : from_gas cfg basefee tx g = Some r -> r < U128.
Proof.
  unfold from_gas. destruct (fee_disabled cfg); [discriminate|]. intros H; inversion H.
  unfold mul_u128. apply N.mod_lt. discriminate.
Qed.

(* closed forms of the per-fork price rule *)
Theorem from_gas_disabled cfg basefee tx g :
  fee_disabled cfg = true -> from_gas cfg basefee tx g = None.
Proof. intros H. unfold from_gas. now rewrite H. Qed.

Definition effective_used (g : gasr) : N := (g_limit g - g_remaining g) - i64_as_u64 (g_refunded g) - g_reservoir g.

Theorem from_gas_pre_london cfg basefee tx g :
  fee_disabled cfg = false -> spec cfg < LONDON ->
  from_gas cfg basefee tx g = Some ((effective_gas_price tx basefee * effective_used g) mod U128).
Proof.
  intros Hf Hs. unfold from_gas, spec_enabled. rewrite Hf.
  destruct (N.leb_spec LONDON (spec cfg)); [lia|]. reflexivity.
Qed.

Theorem from_gas_london cfg basefee tx g :
  fee_disabled cfg = false -> LONDON <= spec cfg ->
  from_gas cfg basefee tx g =
  Some (((effective_gas_price tx basefee - basefee) * effective_used g) mod U128).
Proof.
  intros Hf Hs. unfold from_gas, spec_enabled. rewrite Hf.
  destruct (N.leb_spec LONDON (spec cfg)); [|lia]. reflexivity.
Qed.

(* EIP-1559 and later types after London: the priority fee, capped by what the fee cap leaves
   above the base fee; zero when the fee cap is at or below the base fee *)
Theorem priority_price_1559 tx basefee p :
  2 <= tx_type tx -> prio_fee tx = Some p -> basefee + p < U128 ->
  effective_gas_price tx basefee - basefee = N.min (gas_price tx - basefee) p.
Proof.
  intros Ht Hp Hb. unfold effective_gas_price, sat_add_u128. rewrite Hp.
  destruct (N.eqb_spec (tx_type tx) 0); [lia|]. destruct (N.eqb_spec (tx_type tx) 1); [lia|].
  cbn [orb]. assert (U128 = 340282366920938463463374607431768211456) by reflexivity. lia.
Qed.

Theorem legacy_price tx basefee :
  tx_type tx <= 1 -> effective_gas_price tx basefee = gas_price tx.
Proof.
  intros Ht. unfold effective_gas_price.
  destruct (N.eqb_spec (tx_type tx) 0); [reflexivity|]. destruct (N.eqb_spec (tx_type tx) 1); [reflexivity|lia].
Qed.

(* ------------------------------------------------------------------------------ apply_to facts *)

Lemma apply_to_nonempty r a : r <> 0 -> r < U128 -> acct_is_empty (apply_to r a) = false.
Proof.
  intros Hr Hlt. unfold apply_to, checked_add.
  set (a' := match a with Some x => x | None => default_acct end).
  assert (HU : U128 < U256) by reflexivity.
  destruct (N.ltb_spec (bal a' + r) U256) as [Hno|Hov]; unfold acct_is_empty; cbn [bal nonce code].
  - destruct (N.eqb_spec (bal a' + r) 0); [lia|]. now rewrite andb_false_r.
  - destruct (N.eqb_spec (bal a') 0); [lia|]. now rewrite andb_false_r.
Qed.

Lemma incr_balance_jload r db :
  incr_balance (jload db) r =
  mkJ (apply_to r db) true false false (match db with Some _ => false | None => true end).
Proof.
  unfold incr_balance, apply_to. destruct db as [i|]; cbn [jload jinfo created selfdestructed not_existing].
  - destruct (checked_add (bal i) r); [reflexivity|]. now destruct i.
  - destruct (checked_add (bal default_acct) r); reflexivity.
Qed.

Lemma finalize_nonempty sp j : acct_is_empty (jinfo j) = false -> finalize sp j = j.
Proof.
  intros H. unfold finalize. destruct (spec_enabled sp SPURIOUS_DRAGON); [reflexivity|].
  rewrite H, andb_false_r. reflexivity.
Qed.

(* the effect recorded for a settled execution is exactly what committing its finalized account
   does to the committed value *)
Lemma apply_effect_from_execution c j e :
  from_execution None j = Some e -> apply_effect c e = commit_acct c j.
Proof.
  unfold from_execution, commit_acct. destruct j as [j|]; [|intros H; now inversion H].
  destruct (classify j); intros H; inversion H; reflexivity.
Qed.

Lemma from_execution_settled_total j : exists e, from_execution None j = Some e.
Proof.
  unfold from_execution. destruct j as [j|]; [|eauto]. destruct (classify j); eauto.
Qed.

(* a non-zero reward credited by revm's own hook to a beneficiary that the transaction did not
   otherwise load, then finalized and committed, is [apply_to]: same balance (checked add,
   overflow leaves it unchanged), same nonce and code, an absent account materialised - on every
   fork.  (Zero rewards are not deferred - [deferral_rule] - precisely because this equation fails
   for them: [apply_to_zero_differs].) *)
Theorem apply_to_eq_revm_hook cfg basefee tx g db r :
  hook_amount cfg basefee tx g = Some r -> r <> 0 ->
  let j := option_map (finalize (spec cfg)) (revm_hook cfg basefee tx g None db) in
  commit_acct db j = Some (apply_to r db) /\
  from_execution None j = Some (Snapshot (Some (apply_to r db))).
Proof.
  intros Hh Hr. assert (Hlt : r < U128) by exact (from_gas_lt_U128 cfg basefee tx g r Hh).
  unfold revm_hook. rewrite Hh. cbn [option_map]. rewrite incr_balance_jload.
  assert (Hne := apply_to_nonempty r db Hr Hlt).
  rewrite finalize_nonempty by exact Hne.
  unfold commit_acct, from_execution, classify. cbn [touched selfdestructed created jinfo negb].
  rewrite Hne. split; reflexivity.
Qed.

Example apply_to_zero_differs :
  let cfg := mkCfg 12 false in let tx := mkTx 2 30 (Some 0) in let g := mkGas 60 0 0 0 in
  hook_amount cfg 30 tx g = Some 0 /\
  commit_acct None (option_map (finalize (spec cfg)) (revm_hook cfg 30 tx g None None)) = None /\
  apply_to 0 None = default_acct.
Proof. vm_compute. auto. Qed.

(* ------------------------------------------------------------------------------ deferral rule *)

(* a reward is deferred only if it is non-zero, the beneficiary is not in the journal, and the mode
   is Deferred; it is then exactly from_gas and the journal is left alone *)
Theorem deferral_rule m cfg basefee tx g journal db j' r :
  mode_apply m cfg basefee tx g journal db = (j', Some r) ->
  m = Deferred /\ r <> 0 /\ journal = None /\ j' = None /\ from_gas cfg basefee tx g = Some r.
Proof.
  unfold mode_apply. destruct m; [|intros H; inversion H].
  destruct (from_gas cfg basefee tx g) as [r0|] eqn:Hg; [|intros H; inversion H].
  destruct (N.eqb_spec r0 0) as [->|Hnz]; cbn [orb]; [intros H; inversion H|].
  destruct journal as [j|]; cbn [is_some]; intros H; inversion H; subst. repeat split; auto.
Qed.

(* and conversely everything else goes through revm's own hook, untouched *)
Theorem not_deferred_is_revm_hook cfg basefee tx g journal db j' :
  mode_apply Deferred cfg basefee tx g journal db = (j', None) ->
  j' = revm_hook cfg basefee tx g journal db.
Proof.
  unfold mode_apply, revm_hook. change (hook_amount cfg basefee tx g) with (from_gas cfg basefee tx g).
  destruct (from_gas cfg basefee tx g) as [r0|] eqn:Hg; [|intros H; now inversion H].
  destruct ((r0 =? 0) || is_some journal); intros H; inversion H. reflexivity.
Qed.

(* ---------------------------------------------------------------------------- one transaction *)

Lemma commit_deferred_account c r :
  r <> 0 -> r < U128 ->
  commit_acct c (Some (mkJ (apply_to r c) true false false false)) = Some (apply_to r c).
Proof.
  intros Hr Hlt. unfold commit_acct, classify. cbn [touched selfdestructed created jinfo negb].
  now rewrite (apply_to_nonempty r c Hr Hlt).
Qed.

(* One transaction, any body, any fee setting, any fork, executed against the same beneficiary
   value [c]: the deferred path publishes an effect and commits a state that both equal what
   in-order revm commits. *)
Theorem deferred_step_eq_immediate cfg basefee tx c :
  let '(j, d) := exec_tx Deferred cfg basefee tx c in
  exists e, from_execution d j = Some e /\
            commit_fold c j d = Some (imm_step cfg basefee c tx) /\
            apply_effect c e = imm_step cfg basefee c tx.
Proof.
  unfold imm_step, exec_tx. destruct (body tx c) as [j0 g] eqn:Hb.
  destruct (mode_apply Deferred cfg basefee (env tx) g j0 c) as [j' d] eqn:Hm.
  cbn [mode_apply fst].
  destruct d as [r|].
  - (* deferred *)
    destruct (deferral_rule _ _ _ _ _ _ _ _ _ Hm) as [_ [Hr [-> [-> Hg]]]].
    assert (Hlt := from_gas_lt_U128 _ _ _ _ _ Hg).
    destruct (apply_to_eq_revm_hook cfg basefee (env tx) g c r Hg Hr) as [Hc _].
    cbn [option_map from_execution commit_fold]. exists (Reward r).
    rewrite commit_deferred_account by assumption. cbn [apply_effect].
    rewrite Hc. auto.
  - (* revm's own hook, as in immediate mode *)
    apply not_deferred_is_revm_hook in Hm. subst j'.
    destruct (from_execution_settled_total (option_map (finalize (spec cfg)) (revm_hook cfg basefee (env tx) g j0 c))) as [e He].
    exists e. split; [exact He|]. cbn [commit_fold]. split; [reflexivity|].
    now apply apply_effect_from_execution.
Qed.

(* ------------------------------------------------------------------ absent beneficiary, tx side *)

(* Deferred mode, beneficiary absent and not loaded by the transaction: what is committed is
   [Some] exactly when in-order revm materialises it; with the state-clearing forks (Spurious
   Dragon on) that is exactly a non-zero reward. *)
Theorem absent_materialised_only_by_nonzero cfg basefee tx g :
  spec_enabled (spec cfg) SPURIOUS_DRAGON = true ->
  let '(j, d) := mode_apply Deferred cfg basefee tx g None None in
  exists c', commit_fold None (option_map (finalize (spec cfg)) j) d = Some c' /\
    (c' <> None <-> exists r, from_gas cfg basefee tx g = Some r /\ r <> 0) /\
    (forall r, from_gas cfg basefee tx g = Some r -> r <> 0 -> c' = Some (mkAcct r 0 0)).
Proof.
  intros Hsd. unfold mode_apply.
  destruct (from_gas cfg basefee tx g) as [r|] eqn:Hg.
  - destruct (N.eqb_spec r 0) as [->|Hnz]; cbn [orb is_some].
    + (* zero reward: revm's hook touches a not-existing empty account, which is cleared *)
      unfold revm_hook. change (hook_amount cfg basefee tx g) with (from_gas cfg basefee tx g). rewrite Hg.
      cbn [option_map commit_fold].
      rewrite incr_balance_jload. unfold finalize. rewrite Hsd.
      exists None. split; [reflexivity|]. split.
      * split; [congruence|]. intros [r [Hr Hz]]. inversion Hr; subst. congruence.
      * intros r Hr Hz. inversion Hr; subst. congruence.
    + cbn [option_map commit_fold]. assert (Hlt := from_gas_lt_U128 _ _ _ _ _ Hg).
      rewrite commit_deferred_account by assumption.
      assert (Ha : apply_to r None = mkAcct r 0 0).
      { unfold apply_to, checked_add. cbn [bal default_acct N.add].
        assert (U128 < U256) by reflexivity. destruct (N.ltb_spec r U256); [reflexivity|lia]. }
      rewrite Ha. eexists; split; [reflexivity|]. split.
      * split; [eauto|discriminate].
      * intros r' Hr' _. now inversion Hr'.
  - cbn [option_map commit_fold commit_acct]. exists None. split; [reflexivity|]. split.
    + split; [congruence|]. intros [r [Hr _]]. discriminate.
    + intros r Hr. discriminate.
Qed.

(* ----------------------------------------------------------------------------- the block fold *)

Definition imm_after (cfg : cfgenv) (basefee : N) (a : option acct) (txs : list btx) : option acct :=
  fold_left (imm_step cfg basefee) txs a.

(* invariant of the deferred run after the transactions [done] *)
Record def_inv (cfg : cfgenv) (basefee : N) (a : option acct) (n : nat) (done : list btx)
  (h : hist) (c : option acct) : Prop := {
  di_anchor : anchor h = a;
  di_len : length (entries h) = n;
  di_done : (length done <= n)%nat;
  di_c : c = imm_after cfg basefee a done;
  di_rest : forall k, (length done <= k < n)%nat -> nth_opt (entries h) k = Some (mkEntry 0 Estimate);
  di_ies : exists ies, length ies = length done /\ exact_prefix (entries h) ies /\
             forall t, (t <= length done)%nat ->
               fold_left apply_effect (map snd (firstn t ies)) a = imm_after cfg basefee a (firstn t done);
}.

Lemma nth_opt_firstn {A} (l : list A) t k x : nth_opt (firstn t l) k = Some x -> nth_opt l k = Some x.
Proof.
  revert t k; induction l as [|y l IH]; intros [|t] [|k] H; cbn in *; try discriminate; auto.
  eapply IH; eauto.
Qed.

Lemma exact_prefix_firstn es ies t : exact_prefix es ies -> exact_prefix es (firstn t ies).
Proof. intros H k ie Hk. apply H. eapply nth_opt_firstn; eauto. Qed.

Lemma firstn_app_exact {A} (l : list A) x : firstn (length l) (l ++ [x]) = l.
Proof. rewrite firstn_app, Nat.sub_diag, firstn_all. cbn. apply app_nil_r. Qed.

Lemma firstn_app_le {A} (l : list A) x t : (t <= length l)%nat -> firstn t (l ++ [x]) = firstn t l.
Proof.
  intros H. rewrite firstn_app. replace (t - length l)%nat with 0%nat by lia. cbn. apply app_nil_r.
Qed.

Lemma def_inv_resolve cfg basefee a n done h c t :
  def_inv cfg basefee a n done h c -> (t <= length done)%nat ->
  exists v, resolve_before h t = Some (inr (imm_after cfg basefee a (firstn t done), v)).
Proof.
  intros [Ha Hl Hd Hc Hrest [ies [Hlen [Hp Hf]]]] Ht.
  assert (Hp' := exact_prefix_firstn _ _ t Hp).
  assert (Hlt : length (firstn t ies) = t) by (rewrite firstn_length; lia).
  pose proof (resolve_exact h _ Hp') as Hr. rewrite Hlt, Ha, (Hf t Ht) in Hr. eauto.
Qed.

Lemma def_step_inv cfg basefee a n done h c tx i :
  def_inv cfg basefee a n done h c -> (length done < n)%nat -> 0 < i ->
  exists h', def_step cfg basefee (h, c, length done) (tx, i) =
             Some (h', imm_step cfg basefee c tx, S (length done)) /\
             def_inv cfg basefee a n (done ++ [tx]) h' (imm_step cfg basefee c tx).
Proof.
  intros Hinv Hlt Hi.
  destruct (def_inv_resolve _ _ _ _ _ _ _ (length done) Hinv (Nat.le_refl _)) as [v Hr].
  rewrite firstn_all in Hr. destruct Hinv as [Ha Hl Hd Hc Hrest [ies [Hlen [Hp Hf]]]].
  rewrite <- Hc in Hr.
  unfold def_step. rewrite Hr.
  pose proof (deferred_step_eq_immediate cfg basefee tx c) as Hstep.
  destruct (exec_tx Deferred cfg basefee tx c) as [j d].
  destruct Hstep as [e [He [Hcf Hae]]].
  unfold record_execution. rewrite He.
  assert (Hk := Hrest (length done) ltac:(lia)).
  destruct (record_newer_replaces h (length done) i (Exact e) _ Hk Hi) as [h' [Hrec [Ha' [Hl' [Hn' Hoth]]]]].
  rewrite Hrec, Hcf. exists h'. split; [reflexivity|].
  constructor.
  - congruence.
  - congruence.
  - rewrite app_length; cbn; lia.
  - unfold imm_after. rewrite fold_left_app. cbn. now rewrite Hc.
  - intros k Hk'. rewrite app_length in Hk'. cbn in Hk'. rewrite Hoth by lia. apply Hrest; lia.
  - exists (ies ++ [(i, e)]). split; [rewrite !app_length; cbn; lia|]. split.
    + intros k ie Hnth. destruct (Nat.lt_ge_cases k (length ies)) as [Hkl|Hkl].
      * destruct (nth_opt_lt_Some ies k Hkl) as [x Hx].
        rewrite (nth_opt_app_l _ _ _ _ Hx) in Hnth. inversion Hnth; subst x.
        rewrite Hoth by lia. now apply Hp.
      * assert (k = length ies).
        { apply nth_opt_Some_lt in Hnth. rewrite app_length in Hnth. cbn in Hnth. lia. }
        subst k. rewrite nth_opt_app_len in Hnth. inversion Hnth; subst ie. cbn [fst snd].
        now rewrite Hlen.
    + intros t Ht. rewrite app_length in Ht. cbn in Ht.
      destruct (Nat.eq_dec t (S (length done))) as [->|Hne].
      * replace (S (length done)) with (length (ies ++ [(i, e)])) at 1 by (rewrite app_length; cbn; lia).
        replace (S (length done)) with (length (done ++ [tx])) by (rewrite app_length; cbn; lia).
        rewrite !firstn_all, map_app, fold_left_app. cbn [map snd fold_left].
        specialize (Hf (length done) (Nat.le_refl _)). rewrite <- Hlen in Hf at 1.
        rewrite !firstn_all in Hf. rewrite Hf.
        unfold imm_after in *. rewrite fold_left_app. cbn [fold_left]. rewrite <- Hc. exact Hae.
      * rewrite !firstn_app_le by lia. apply Hf. lia.
Qed.

Lemma def_inv_init cfg basefee a n : def_inv cfg basefee a n [] (new_hist a n) a.
Proof.
  constructor; cbn; auto.
  - apply repeat_length.
  - lia.
  - intros k [_ Hk]. clear -Hk. revert k Hk. induction n as [|n IH]; intros [|k] Hk; cbn; try lia; auto.
    apply IH; lia.
  - exists []. split; [reflexivity|]. split; [intros k ie H; destruct k; discriminate|].
    intros t Ht. now replace t with 0%nat by lia.
Qed.

Lemma def_run_inv cfg basefee a n : forall txs incs done h c,
  def_inv cfg basefee a n done h c ->
  length incs = length txs -> (length done + length txs <= n)%nat ->
  Forall (fun i => 0 < i) incs ->
  exists h', def_run cfg basefee (h, c, length done) (combine txs incs) =
             Some (h', imm_after cfg basefee a (done ++ txs), length (done ++ txs)) /\
             def_inv cfg basefee a n (done ++ txs) h' (imm_after cfg basefee a (done ++ txs)).
Proof.
  induction txs as [|tx txs IH]; intros incs done h c Hinv Hlen Hn Hpos.
  - cbn. rewrite app_nil_r. exists h. destruct Hinv as [? ? ? Hc ? ?]. subst c.
    split; [reflexivity|]. constructor; auto.
  - destruct incs as [|i incs]; [discriminate|]. cbn in Hlen, Hn. inversion Hpos; subst.
    destruct (def_step_inv cfg basefee a n done h c tx i Hinv ltac:(lia) ltac:(assumption)) as [h1 [Hs Hinv1]].
    cbn [combine def_run]. rewrite Hs.
    assert (Hl1 : S (length done) = length (done ++ [tx])) by (rewrite app_length; cbn; lia).
    rewrite Hl1.
    destruct (IH incs (done ++ [tx]) h1 _ Hinv1 ltac:(lia) ltac:(rewrite app_length; cbn; lia) ltac:(assumption))
      as [h' [Hrun Hinv']].
    rewrite <- app_assoc in Hrun, Hinv'. cbn [app] in Hrun, Hinv'. eauto.
Qed.

(* The block-level statement.  For every fork / fee configuration, block anchor (absent included),
   list of transactions with arbitrary bodies, and any positive incarnation numbers: running
   grevm's deferred path in commit order never blocks, asserts or refuses a record; after the
   whole list the committed beneficiary account is the one in-order revm (immediate mode)
   produces; and in the resulting history a read before ANY transaction [t] resolves to the
   in-order account after the first [t] transactions.  Applied to each prefix of the list this is
   "after every transaction". *)
Theorem deferred_fold_eq_immediate cfg basefee a txs incs n :
  length incs = length txs -> (length txs <= n)%nat -> Forall (fun i => 0 < i) incs ->
  exists h,
    def_run cfg basefee (new_hist a n, a, 0%nat) (combine txs incs) =
      Some (h, imm_after cfg basefee a txs, length txs) /\
    forall t, (t <= length txs)%nat ->
      exists v, resolve_before h t = Some (inr (imm_after cfg basefee a (firstn t txs), v)).
Proof.
  intros Hlen Hn Hpos.
  destruct (def_run_inv cfg basefee a n txs incs [] (new_hist a n) a (def_inv_init _ _ _ _) Hlen Hn Hpos)
    as [h [Hrun Hinv]].
  cbn [app length] in Hrun, Hinv. exists h. split; [exact Hrun|].
  intros t Ht. eapply def_inv_resolve; eauto.
Qed.

(* the list of in-order states of the model and the fold agree (so the statement above is about
   the state after every transaction) *)
Lemma imm_states_nth cfg basefee : forall txs a t,
  (t <= length txs)%nat ->
  nth_opt (imm_states cfg basefee a txs) t = Some (imm_after cfg basefee a (firstn t txs)).
Proof.
  induction txs as [|tx txs IH]; intros a [|t] Ht; cbn in *; try lia; auto.
  apply IH. lia.
Qed.
