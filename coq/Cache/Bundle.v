(* C10 - the bundle builders (definitions only, no proofs).

   revm:  BundleState::apply_transitions_and_create_reverts   (bundle_state.rs:553-604, BS:<line>)
   grevm: ParallelBundleState::parallel_apply_transitions_and_create_reverts and
          ParallelTakeBundle::parallel_take_bundle            (/repo/src/bundle.rs:43-120, B:<line>)

   Section variables (opaque callees, the same revm functions called by both builders, bodies not
   modelled - DESIGN section 6 C10 "Scope"):
     [present]        TransitionAccount::present_bundle_account
     [create_revert]  TransitionAccount::create_revert
     [update_revert]  BundleAccount::update_and_create_revert  (returns the updated account)
     [ba_size] [rv_size]   BundleAccount::size_hint, AccountRevert::size_hint
   [has_new_contract] (transition_account.rs:47-57) is modelled.
   `usize` arithmetic wraps modulo 2^64 (release build; `-=` on an inconsistent pre-populated
   bundle is the only place it could matter and that path is revm's own on both sides).
   The TransitionState is a list: its order stands for the iteration order of the map, its keys
   are unique (an invariant of [add_transitions], see BundleProofs.add_transitions_NoDup).
   rayon's indexed `collect` is taken to preserve order (trusted base). *)
From Grevm Require Import Base.Util Cache.Status.
Open Scope N_scope.

Definition W64 : N := 2 ^ 64.
Definition wadd (x y : N) : N := (x + y) mod W64.
Definition wsub (x y : N) : N := (x + W64 - y mod W64) mod W64.

Definition opt_hash_eqb (a b : option hash) : bool :=
  match a, b with
  | Some x, Some y => x =? y
  | None, None => true
  | _, _ => false
  end.

(* transition_account.rs:47-57 *)
Definition has_new_contract (t : trans) : option (hash * codeid) :=
  if opt_hash_eqb (option_map code_hash (t_info t)) (option_map code_hash (t_prev_info t)) then None
  else match t_info t with
       | Some i => match code i with Some c => Some (code_hash i, c) | None => None end
       | None => None
       end.

Section Bundle.
  Variables BA RV : Type.
  Variable present : trans -> BA.
  Variable create_revert : trans -> option RV.
  Variable update_revert : BA -> trans -> BA * option RV.
  Variable ba_size : BA -> N.
  Variable rv_size : RV -> N.

  Record bundle := mkB {
    b_state : list (addr * BA);
    b_contracts : list (hash * codeid);
    b_reverts : list (list (addr * RV));
    b_state_size : N;
    b_reverts_size : N;
  }.

  Definition b_empty : bundle := mkB [] [] [] 0 0.

  (* BundleState::size_hint (bundle_state.rs:511) *)
  Definition b_size_hint (b : bundle) : N :=
    wadd (wadd (b_state_size b) (b_reverts_size b)) (N.of_nat (length (b_contracts b))).

  (* ---- revm: one iteration of the loop BS:568-601; [revs] is the block's revert vector *)
  Definition revm_iter (incl : bool) (acc : bundle * list (addr * RV)) (at_ : addr * trans)
    : bundle * list (addr * RV) :=
    let '(b, revs) := acc in
    let '(a, t) := at_ in
    let contracts := match has_new_contract t with
                     | Some (h, c) => ainsert (b_contracts b) h c
                     | None => b_contracts b
                     end in
    let '(state, ssize, revert) :=
      match alookup (b_state b) a with
      | Some entry =>                                        (* Entry::Occupied, BS:575-583 *)
          let '(entry', rv) := update_revert entry t in
          (ainsert (b_state b) a entry', wadd (wsub (b_state_size b) (ba_size entry)) (ba_size entry'), rv)
      | None =>                                              (* Entry::Vacant, BS:584-593 *)
          let pb := present t in
          match create_revert t with
          | Some rv => (ainsert (b_state b) a pb, wadd (b_state_size b) (ba_size pb), Some rv)
          | None => (b_state b, b_state_size b, None)
          end
      end in
    match revert with                                        (* BS:597-600 *)
    | Some rv =>
        if incl then (mkB state contracts (b_reverts b) ssize (wadd (b_reverts_size b) (rv_size rv)), revs ++ [(a, rv)])
        else (mkB state contracts (b_reverts b) ssize (b_reverts_size b), revs)
    | None => (mkB state contracts (b_reverts b) ssize (b_reverts_size b), revs)
    end.

  Definition revm_apply (b : bundle) (ts : tstate) (incl : bool) : bundle :=
    let '(b', revs) := fold_left (revm_iter incl) ts (b, []) in
    mkB (b_state b') (b_contracts b') (b_reverts b' ++ [revs]) (b_state_size b') (b_reverts_size b').

  (* ---- grevm: phase 1 (B:58-83), pure per transition *)
  Record processed_account := mkPA {
    pa_address : addr; pa_present : BA; pa_revert : option RV; pa_state_size : N; pa_revert_size : N;
  }.
  Record processed := mkPT { pt_contract : option (hash * codeid); pt_account : option processed_account }.

  Definition phase1 (incl : bool) (at_ : addr * trans) : processed :=
    let '(a, t) := at_ in
    let pb := present t in
    mkPT (has_new_contract t)
         (match create_revert t with
          | Some rv =>
              Some (if incl then mkPA a pb (Some rv) (ba_size pb) (rv_size rv)
                    else mkPA a pb None (ba_size pb) 0)
          | None => None
          end).

  (* phase 2 (B:89-103), serial *)
  Definition phase2_iter (acc : bundle * list (addr * RV)) (pt : processed) : bundle * list (addr * RV) :=
    let '(b, revs) := acc in
    let contracts := match pt_contract pt with
                     | Some (h, c) => ainsert (b_contracts b) h c
                     | None => b_contracts b
                     end in
    match pt_account pt with
    | Some pa =>
        (mkB (ainsert (b_state b) (pa_address pa) (pa_present pa)) contracts (b_reverts b)
             (wadd (b_state_size b) (pa_state_size pa)) (wadd (b_reverts_size b) (pa_revert_size pa)),
         match pa_revert pa with Some rv => revs ++ [(pa_address pa, rv)] | None => revs end)
    | None => (mkB (b_state b) contracts (b_reverts b) (b_state_size b) (b_reverts_size b), revs)
    end.

  Definition is_nil {A} (l : list A) : bool := match l with [] => true | _ => false end.

  (* B:44-104 *)
  Definition par_apply (b : bundle) (ts : tstate) (incl : bool) : bundle :=
    if negb (is_nil (b_state b)) || negb (is_nil (b_contracts b)) || negb (is_nil (b_reverts b))
    then revm_apply b ts incl
    else
      let '(b', revs) := fold_left phase2_iter (map (phase1 incl) ts) (b, []) in
      mkB (b_state b') (b_contracts b') (b_reverts b' ++ [revs]) (b_state_size b') (b_reverts_size b').

  (* ---- bundle-level histories: what the merge / extraction operations do with the
     TransitionState handed over by the cache layer (OutMerged of Cache/Par.v, Cache/Revm.v) *)
  Inductive bop :=
  | BMerge (ts : option tstate) (incl : bool)        (* merge_transitions (both: revm's loop) *)
  | BParTake (ts : option tstate) (incl : bool)      (* grevm parallel_take_bundle; revm: merge + take *)
  | BTake                                            (* take_bundle *)
  | BInject (b : bundle).                            (* pre-populated bundle (bundle_state is a pub field) *)

  Definition revm_bstep (b : bundle) (o : bop) : bundle * option bundle :=
    match o with
    | BMerge (Some ts) incl => (revm_apply b ts incl, None)
    | BMerge None _ => (b, None)
    | BParTake (Some ts) incl => (b_empty, Some (revm_apply b ts incl))
    | BParTake None _ => (b_empty, Some b)
    | BTake => (b_empty, Some b)
    | BInject b' => (b', None)
    end.

  Definition par_bstep (b : bundle) (o : bop) : bundle * option bundle :=
    match o with
    | BMerge (Some ts) incl => (revm_apply b ts incl, None)          (* PS:798-802 calls revm's *)
    | BMerge None _ => (b, None)
    | BParTake (Some ts) incl => (b_empty, Some (par_apply b ts incl))   (* B:114-120 *)
    | BParTake None _ => (b_empty, Some b)
    | BTake => (b_empty, Some b)
    | BInject b' => (b', None)
    end.

  Fixpoint brun (step : bundle -> bop -> bundle * option bundle) (b : bundle) (ops : list bop)
    : list (option bundle) * bundle :=
    match ops with
    | [] => ([], b)
    | o :: ops' => let '(b1, x) := step b o in let '(xs, b2) := brun step b1 ops' in (x :: xs, b2)
    end.

  Definition bop_ok (o : bop) : Prop :=
    match o with
    | BMerge (Some ts) _ | BParTake (Some ts) _ => NoDup (map fst ts)
    | _ => True
    end.
End Bundle.
