(* C10 - the two-phase bundle builder equals revm's loop (proofs for Cache/Bundle.v). *)
From Grevm Require Import Base.Util Cache.Status Cache.Bundle.
Open Scope N_scope.

Lemma alookup_ainsert_same {V} (l : list (N * V)) k v : alookup (ainsert l k v) k = Some v.
Proof.
  induction l as [|[k' v'] l IH]; simpl.
  - now rewrite N.eqb_refl.
  - destruct (N.eqb_spec k' k) as [->|Hn]; simpl.
    + now rewrite N.eqb_refl.
    + destruct (N.eqb_spec k' k); [contradiction|exact IH].
Qed.

Lemma alookup_ainsert_other {V} (l : list (N * V)) k v j : j <> k -> alookup (ainsert l k v) j = alookup l j.
Proof.
  intros Hj. induction l as [|[k' v'] l IH]; simpl.
  - destruct (N.eqb_spec k j); [congruence|reflexivity].
  - destruct (N.eqb_spec k' k) as [->|Hn]; simpl.
    + destruct (N.eqb_spec k j); [congruence|reflexivity].
    + destruct (N.eqb_spec k' j); [reflexivity|exact IH].
Qed.

Lemma ainsert_keys_absent {V} (l : list (N * V)) k v :
  alookup l k = None -> map fst (ainsert l k v) = map fst l ++ [k].
Proof.
  induction l as [|[k' v'] l IH]; simpl; intros H; [reflexivity|].
  destruct (N.eqb_spec k' k); [discriminate|]. simpl. now rewrite IH.
Qed.

Lemma ainsert_keys_present {V} (l : list (N * V)) k v :
  alookup l k <> None -> map fst (ainsert l k v) = map fst l.
Proof.
  induction l as [|[k' v'] l IH]; simpl; intros H; [contradiction|].
  destruct (N.eqb_spec k' k) as [->|]; simpl; [reflexivity|]. now rewrite IH.
Qed.

Lemma alookup_None_notin {V} (l : list (N * V)) k : alookup l k = None <-> ~ In k (map fst l).
Proof.
  induction l as [|[k' v'] l IH]; simpl; [tauto|].
  destruct (N.eqb_spec k' k) as [->|Hn]; split; intros H.
  - discriminate. - exfalso. apply H. now left.
  - intros [E|E]; [contradiction|]. now apply IH. - apply IH. tauto.
Qed.

Lemma NoDup_snoc {A} (l : list A) x : NoDup l -> ~ In x l -> NoDup (l ++ [x]).
Proof.
  induction l as [|y l IH]; simpl; intros Hn Hx; [constructor; [tauto|constructor]|].
  inversion Hn as [|z l' Hy Hn']; subst. constructor.
  - rewrite in_app_iff. simpl. intros [H|[H|[]]]; [contradiction|subst; tauto].
  - apply IH; tauto.
Qed.

(* keys of a TransitionState stay unique *)
Lemma ainsert_NoDup {V} (l : list (N * V)) k v : NoDup (map fst l) -> NoDup (map fst (ainsert l k v)).
Proof.
  intros Hn. destruct (alookup l k) eqn:E.
  - rewrite ainsert_keys_present by congruence. exact Hn.
  - rewrite ainsert_keys_absent by exact E.
    apply NoDup_snoc; [exact Hn|now apply alookup_None_notin].
Qed.

Lemma add_transitions_NoDup new : forall ts, NoDup (map fst ts) -> NoDup (map fst (add_transitions ts new)).
Proof.
  induction new as [|[a t] new IH]; intros ts H; simpl; [exact H|].
  apply IH. destruct (alookup ts a); now apply ainsert_NoDup.
Qed.

Section BundleProofs.
  Variables BA RV : Type.
  Variable present : trans -> BA.
  Variable create_revert : trans -> option RV.
  Variable update_revert : BA -> trans -> BA * option RV.
  Variable ba_size : BA -> N.
  Variable rv_size : RV -> N.

  Notation bundle := (bundle BA RV).
  Notation revm_iter := (revm_iter BA RV present create_revert update_revert ba_size rv_size).
  Notation revm_apply := (revm_apply BA RV present create_revert update_revert ba_size rv_size).
  Notation par_apply := (par_apply BA RV present create_revert update_revert ba_size rv_size).
  Notation phase1 := (phase1 BA RV present create_revert ba_size rv_size).
  Notation phase2_iter := (phase2_iter BA RV).

  (* `usize` fields *)
  Definition bundle_wf (b : bundle) : Prop := b_state_size _ _ b < W64 /\ b_reverts_size _ _ b < W64.

  Lemma wadd_lt x y : wadd x y < W64.
  Proof. unfold wadd. apply N.mod_lt. discriminate. Qed.
  Lemma wadd_0 x : x < W64 -> wadd x 0 = x.
  Proof. intros H. unfold wadd. rewrite N.add_0_r. now apply N.mod_small. Qed.

  Lemma iter_eq incl b revs a t :
    bundle_wf b -> alookup (b_state _ _ b) a = None ->
    phase2_iter (b, revs) (phase1 incl (a, t)) = revm_iter incl (b, revs) (a, t) /\
    bundle_wf (fst (revm_iter incl (b, revs) (a, t))) /\
    (forall a', a' <> a -> alookup (b_state _ _ (fst (revm_iter incl (b, revs) (a, t)))) a' = alookup (b_state _ _ b) a').
  Proof.
    intros [Hs Hr] Hv. unfold Bundle.phase2_iter, Bundle.phase1, Bundle.revm_iter. rewrite Hv. simpl.
    destruct (has_new_contract t) as [[h c]|]; destruct (create_revert t) as [rv|]; destruct incl; simpl;
      rewrite ?(wadd_0 _ Hr); (split; [reflexivity|]); (split; [split; simpl; auto using wadd_lt|]);
      intros a' Ha'; simpl; auto using alookup_ainsert_other.
  Qed.

  Lemma two_phase_eq incl ts : forall b revs,
    bundle_wf b -> NoDup (map fst ts) -> (forall a, In a (map fst ts) -> alookup (b_state _ _ b) a = None) ->
    fold_left phase2_iter (map (phase1 incl) ts) (b, revs) = fold_left (revm_iter incl) ts (b, revs).
  Proof.
    induction ts as [|[a t] ts IH]; intros b revs Hwf Hnd Habs; cbn [map fold_left]; [reflexivity|].
    inversion Hnd as [|x l Hnotin Hnd']; subst.
    destruct (iter_eq incl b revs a t Hwf (Habs a (or_introl eq_refl))) as (E & Hwf' & Hother).
    rewrite E. destruct (revm_iter incl (b, revs) (a, t)) as [b1 revs1] eqn:E1. cbn [fst] in *.
    apply IH; [exact Hwf'|exact Hnd'|].
    intros a' Hin. rewrite Hother; [apply Habs; now right|]. intros ->. contradiction.
  Qed.

  (* for an empty bundle the two-phase builder equals revm's loop: state, contracts, reverts in
     transition order, state_size, reverts_size, either retention; for a non-empty bundle it is
     revm's merge *)
  Theorem bundle_builder_eq b ts incl :
    bundle_wf b -> NoDup (map fst ts) -> par_apply b ts incl = revm_apply b ts incl.
  Proof.
    intros Hwf Hnd. unfold Bundle.par_apply.
    destruct (b_state _ _ b) as [|x xs] eqn:Es; simpl; [|reflexivity].
    destruct (b_contracts _ _ b); simpl; [|reflexivity].
    destruct (b_reverts _ _ b); simpl; [|reflexivity].
    unfold Bundle.revm_apply. rewrite two_phase_eq; [reflexivity|exact Hwf|exact Hnd|].
    intros a _. rewrite Es. reflexivity.
  Qed.

  Lemma revm_iter_wf incl acc at_ : bundle_wf (fst acc) -> bundle_wf (fst (revm_iter incl acc at_)).
  Proof.
    destruct acc as [b revs], at_ as [a t]. intros [Hs Hr]. unfold Bundle.revm_iter. simpl.
    destruct (alookup (b_state _ _ b) a) as [e|].
    - destruct (update_revert e t) as [e' [rv|]]; [destruct incl|]; split; simpl; auto using wadd_lt.
    - destruct (create_revert t) as [rv|]; [destruct incl|]; split; simpl; auto using wadd_lt.
  Qed.

  Lemma revm_apply_wf b ts incl : bundle_wf b -> bundle_wf (revm_apply b ts incl).
  Proof.
    intros Hwf. unfold Bundle.revm_apply.
    assert (H : forall ts acc, bundle_wf (fst acc) -> bundle_wf (fst (fold_left (revm_iter incl) ts acc))).
    { clear. induction ts as [|x ts IH]; intros acc H; simpl; [exact H|]. apply IH. now apply revm_iter_wf. }
    specialize (H ts (b, []) Hwf). destruct (fold_left (revm_iter incl) ts (b, [])) as [b' revs].
    exact H.
  Qed.

  (* any sequence of merges / extractions / injections of well-formed bundles *)
  Definition bop_wf (o : Bundle.bop BA RV) : Prop :=
    bop_ok BA RV o /\ match o with BInject _ _ b => bundle_wf b | _ => True end.

  Theorem bundle_history_eq ops : forall b,
    bundle_wf b -> Forall bop_wf ops ->
    brun BA RV (par_bstep BA RV present create_revert update_revert ba_size rv_size) b ops =
    brun BA RV (revm_bstep BA RV present create_revert update_revert ba_size rv_size) b ops.
  Proof.
    induction ops as [|o ops IH]; intros b Hwf Hok; simpl; [reflexivity|].
    inversion Hok as [|x l [Ho Hinj] Hok']; subst.
    assert (Hstep : par_bstep BA RV present create_revert update_revert ba_size rv_size b o =
                    revm_bstep BA RV present create_revert update_revert ba_size rv_size b o).
    { destruct o as [[ts|] incl|[ts|] incl| |b']; simpl; try reflexivity.
      rewrite bundle_builder_eq; [reflexivity|exact Hwf|exact Ho]. }
    rewrite Hstep.
    destruct (revm_bstep BA RV present create_revert update_revert ba_size rv_size b o) as [b1 x] eqn:E.
    assert (Hwf1 : bundle_wf b1).
    { destruct o as [[ts|] incl|[ts|] incl| |b']; simpl in E; inversion E; subst; auto using revm_apply_wf;
        split; simpl; reflexivity. }
    rewrite (IH b1 Hwf1 Hok'). reflexivity.
  Qed.
End BundleProofs.
