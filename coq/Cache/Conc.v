(* C10 - concurrent part: speculative readers filling the shared cache while the ordered commit
   mutates it (definitions only, no proofs).

   One address V (atomic groups on different addresses touch disjoint DashMap entries), any number
   of slots, any number of readers, one committer executing a list of account-level commits.
   Each DashMap operation is one atomic group (trusted base: linearizable, guards not held across
   groups except where stated).

   reader = ParallelStateView::db_storage (parallel_state.rs:560-589):
     RStart   -> lookup `storage[V][k]`            hit: return                       (PS:561-565)
     RMissed  -> evaluate "storage known" on `accounts[V]`                            (PS:568-571)
     RChecked -> fetch from the database (or take zero when known)                    (PS:573-577)
     RFetched -> insert-if-absent into `storage[V]`, return what the entry holds      (PS:578-587)
   repaired reader (DESIGN section 7, /verif/seeded/F1-candidate-fix.diff): the last group is split:
     RFetched -> take the storage-shard guard of V and re-evaluate "storage known" (zero if known)
     RLocked  -> insert-if-absent, release the guard
     While a reader holds the guard `storage.remove(V)` cannot run (it needs the shard's write lock).
     Taking the guard and re-evaluating are one group here; executions in which they are apart are
     covered, because between the two no `remove` can happen either way.
   any thread may also load V's account (db_basic / load_mut_cache_account, insert-if-absent): [WLoad].

   committer = ParallelCacheState::apply_account_state (PS:296-359) for V, per commit kind:
     original order:  storage.remove(V) ; account update ; slot inserts      (PS:315-317, 330-332, 344-346)
     repaired order:  account update ; storage.remove(V) ; slot inserts
     change (no wipe): account update ; slot inserts                          (PS:348-357)
   [c_ghost] is a ghost copy of the storage map that only the committer writes: it is what the
   cache holds when nobody reads concurrently (the committed value of every slot). *)
From Grevm Require Import Base.Util Cache.Status Cache.Par.
Open Scope N_scope.

Record variant := mkVariant { status_first : bool; recheck : bool }.
Definition original : variant := mkVariant false false.
Definition repaired : variant := mkVariant true true.

Inductive cop :=
| CDestroy                                         (* is_selfdestructed *)
| CCreate (i : info) (slots : list (key * word))   (* is_created; present values of the changed slots *)
| CTouchEmpty                                      (* touched, empty, not created *)
| CChange (i : info) (slots : list (key * word)).

Definition wiping (c : cop) : bool := match c with CChange _ _ => false | _ => true end.

Definition cop_slots (c : cop) : list (key * word) :=
  match c with CCreate _ sl | CChange _ sl => sl | _ => [] end.

(* the account update of each kind (CacheAccountInfo::{selfdestruct, newly_created,
   touch_empty_eip161, change}, Cache/Par.v) *)
Definition acct_update (c : cop) (a : pacct) : pacct :=
  match c with
  | CDestroy => fst (p_selfdestruct a)
  | CCreate i sl => fst (p_newly_created a i [])
  | CTouchEmpty => fst (p_touch_empty a)
  | CChange i sl => fst (p_change a i [])
  end.

Inductive cpc :=
| CIdle                          (* between commits *)
| CMid (c : cop)                 (* first group of a wiping commit done, second pending *)
| CIns (l : list (key * word)).  (* slot inserts pending *)

Inductive rpc :=
| RStart (k : key)
| RMissed (k : key)
| RChecked (k : key) (known : bool)
| RFetched (k : key) (v : word)
| RLocked (k : key) (v : word)
| RDone (k : key) (v : word).

Record cstate := mkC {
  c_acct : option pacct;         (* accounts[V] *)
  c_slots : fmap word;           (* storage[V] (absent entry = empty map) *)
  c_ghost : fmap word;           (* ghost: storage[V] as written by the committer alone *)
  c_pc : cpc;
  c_pending : list cop;
  c_readers : list rpc;
}.

(* PS:568-571 *)
Definition acct_known (a : option pacct) : bool :=
  match a with
  | Some (oi, st) => is_storage_known st || match oi with None => true | Some _ => false end
  | None => false
  end.

Definition is_locked (r : rpc) : bool := match r with RLocked _ _ => true | _ => false end.
Definition guard_free (s : cstate) : bool := negb (existsb is_locked (c_readers s)).

Definition with_readers (s : cstate) (rs : list rpc) : cstate :=
  mkC (c_acct s) (c_slots s) (c_ghost s) (c_pc s) (c_pending s) rs.

Definition insert_if_absent (m : fmap word) (k : key) (v : word) : fmap word :=
  match m k with Some _ => m | None => fset m k v end.

(* one atomic group of reader [i] *)
Definition reader_step (vt : variant) (dbs : key -> word) (s : cstate) (i : nat) : cstate :=
  match nth_opt (c_readers s) i with
  | None => s
  | Some r =>
      match r with
      | RStart k =>
          with_readers s (set_nth (c_readers s) i
            (match c_slots s k with Some v => RDone k v | None => RMissed k end))
      | RMissed k => with_readers s (set_nth (c_readers s) i (RChecked k (acct_known (c_acct s))))
      | RChecked k kn => with_readers s (set_nth (c_readers s) i (RFetched k (if kn then 0 else dbs k)))
      | RFetched k v =>
          if recheck vt then
            with_readers s (set_nth (c_readers s) i (RLocked k (if acct_known (c_acct s) then 0 else v)))
          else
            let m := insert_if_absent (c_slots s) k v in
            mkC (c_acct s) m (c_ghost s) (c_pc s) (c_pending s)
                (set_nth (c_readers s) i (RDone k (match m k with Some x => x | None => v end)))
      | RLocked k v =>
          let m := insert_if_absent (c_slots s) k v in
          mkC (c_acct s) m (c_ghost s) (c_pc s) (c_pending s)
              (set_nth (c_readers s) i (RDone k (match m k with Some x => x | None => v end)))
      | RDone _ _ => s
      end
  end.

(* the two halves of a wiping commit *)
Definition do_acct (s : cstate) (c : cop) (pc' : cpc) (pend : list cop) : cstate :=
  match c_acct s with
  | Some a => mkC (Some (acct_update c a)) (c_slots s) (c_ghost s) pc' pend (c_readers s)
  | None => s      (* `expect("All accounts should be present inside cache")`: not modelled further *)
  end.

Definition do_remove (s : cstate) (pc' : cpc) (pend : list cop) : cstate :=
  if guard_free s then mkC (c_acct s) fempty fempty pc' pend (c_readers s)
  else s.          (* blocked on the shard lock: the committer does not move *)

(* one atomic group of the committer *)
Definition commit_step (vt : variant) (s : cstate) : cstate :=
  match c_pc s with
  | CIns ((k, v) :: l) =>
      mkC (c_acct s) (fset (c_slots s) k v) (fset (c_ghost s) k v) (CIns l) (c_pending s) (c_readers s)
  | CMid c =>
      if status_first vt then do_remove s (CIns (cop_slots c)) (c_pending s)
      else do_acct s c (CIns (cop_slots c)) (c_pending s)
  | CIdle | CIns [] =>
      match c_pending s with
      | [] => s
      | c :: rest =>
          if wiping c then
            if status_first vt then do_acct s c (CMid c) rest else do_remove s (CMid c) rest
          else do_acct s c (CIns (cop_slots c)) rest
      end
  end.

(* who moves: the committer, reader i, or some thread loading V's account *)
Inductive who := WCommit | WReader (i : nat) | WLoad.

Definition step (vt : variant) (basic : option info * status) (dbs : key -> word) (s : cstate) (w : who) : cstate :=
  match w with
  | WCommit => commit_step vt s
  | WReader i => reader_step vt dbs s i
  | WLoad => match c_acct s with
             | Some _ => s
             | None => mkC (Some basic) (c_slots s) (c_ghost s) (c_pc s) (c_pending s) (c_readers s)
             end
  end.

Fixpoint run (vt : variant) (basic : option info * status) (dbs : key -> word) (s : cstate) (sched : list who) : cstate :=
  match sched with
  | [] => s
  | w :: sched' => run vt basic dbs (step vt basic dbs s w) sched'
  end.

Definition init (acct : option pacct) (slots : fmap word) (cops : list cop) (keys : list key) : cstate :=
  mkC acct slots slots CIdle cops (map RStart keys).

Definition committer_idle (s : cstate) : bool :=
  match c_pc s, c_pending s with
  | CIdle, [] | CIns [], [] => true
  | _, _ => false
  end.

(* what a later read of slot k returns (PS:560-577), from the real map and from the ghost *)
Definition answer (dbs : key -> word) (a : option pacct) (m : fmap word) (k : key) : word :=
  match m k with Some v => v | None => if acct_known a then 0 else dbs k end.

(* the committer alone, each commit applied atomically: the committed storage of V *)
Definition commit_atomic (st : pacct * fmap word) (c : cop) : pacct * fmap word :=
  let '(a, m) := st in
  let m1 := if wiping c then fempty else m in
  (acct_update c a, fold_left (fun m kv => fset m (fst kv) (snd kv)) (cop_slots c) m1).
