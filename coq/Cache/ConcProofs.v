(* C10 - concurrent part, proofs for Cache/Conc.v.

   [cache_coherent]: with the repaired ordering, whatever the interleaving of any number of readers,
   account loads and the committer, whenever the committer is between commits every slot answer of
   the shared cache equals the answer of the committer-only ghost cache, and the ghost cache is the
   result of applying the commits atomically in order ([ghost_is_committed]).
   Refutations (vm_compute witnesses) are in Props/C10.v. *)
From Grevm Require Import Base.Util Cache.Status Cache.Par Cache.SimProofs Cache.Conc.
Open Scope N_scope.

Definition flippable_acct (a : pacct) : bool :=
  match snd a with
  | LoadedEmptyEIP161 => true
  | Loaded => had_no_nonce_and_code (fst a)
  | _ => false
  end.

(* can "storage known" become true without a wipe? *)
Definition flippable (a : option pacct) (basic : pacct) : bool :=
  match a with
  | Some x => flippable_acct x
  | None => acct_known (Some basic) || flippable_acct basic
  end.

Definition acct_wf (a : pacct) : Prop := fst a = None -> is_storage_known (snd a) = true.

Definition wipe_pending (s : cstate) : bool := match c_pc s with CMid _ => true | _ => false end.

Definition base (dbs : key -> word) (a : option pacct) (k : key) : word :=
  if acct_known a then 0 else dbs k.

Definition rinv (dbs : key -> word) (a : option pacct) (wp : bool) (r : rpc) : Prop :=
  match r with
  | RChecked k kn => kn = true -> acct_known a = true
  | RFetched k v => (v = 0 /\ acct_known a = true) \/ v = dbs k
  | RLocked k v => v = base dbs a k \/ wp = true
  | _ => True
  end.

Record Inv (basic : pacct) (dbs : key -> word) (s : cstate) : Prop := mkInv {
  I_ghost_in : forall k w, c_ghost s k = Some w -> c_slots s k = Some w;
  I_slots : forall k v, c_slots s k = Some v ->
              c_ghost s k = Some v \/ (c_ghost s k = None /\ (v = base dbs (c_acct s) k \/ wipe_pending s = true));
  I_flip : flippable (c_acct s) basic = true -> forall k, dbs k = 0;
  I_wf : forall a, c_acct s = Some a -> acct_wf a;
  I_readers : forall i r, nth_opt (c_readers s) i = Some r -> rinv dbs (c_acct s) (wipe_pending s) r;
}.

(* ---------------------------------------------------------------- account facts *)
Lemma known_after_wiping c a : wiping c = true -> acct_known (Some (acct_update c a)) = true.
Proof.
  destruct c, a as [oi st]; simpl; try discriminate; intros _.
  - now rewrite known_on_selfdestructed.
  - now rewrite known_on_created.
  - now rewrite known_on_touched.
Qed.

Lemma known_mono c a : acct_wf a -> acct_known (Some a) = true -> acct_known (Some (acct_update c a)) = true.
Proof.
  intros Hwf Hk. destruct (wiping c) eqn:Ew; [now apply known_after_wiping|].
  destruct c; try discriminate. destruct a as [oi st]. simpl in *.
  rewrite orb_false_r. apply known_on_changed. destruct oi; [now rewrite orb_false_r in Hk|now apply Hwf].
Qed.

Lemma not_flippable_after c a : flippable_acct (acct_update c a) = false.
Proof. destruct c, a as [oi st]; simpl; destruct st; try reflexivity; destruct (had_no_nonce_and_code oi); reflexivity. Qed.

Lemma wf_after c a : acct_wf a -> acct_wf (acct_update c a).
Proof.
  intros Hwf. destruct c, a as [oi st]; unfold acct_wf; simpl; intros H; try discriminate.
  - apply known_on_selfdestructed. - apply known_on_touched.
Qed.

(* a change that makes the storage "known" without a wipe happens only to a flippable account *)
Lemma change_flip i sl a :
  acct_wf a -> acct_known (Some a) = false -> acct_known (Some (acct_update (CChange i sl) a)) = true ->
  flippable_acct a = true.
Proof.
  destruct a as [oi st]. unfold acct_wf, flippable_acct. simpl. intros Hwf Hk Hk'. rewrite orb_false_r in Hk'.
  destruct oi as [i0|]; [rewrite orb_false_r in Hk|rewrite Hwf in Hk by reflexivity; discriminate].
  destruct st; simpl in *; try discriminate; try reflexivity.
  destruct (has_no_code_and_nonce i0); [reflexivity|discriminate].
Qed.

(* ---------------------------------------------------------------- list facts *)
Lemma nth_opt_set_nth_inv {A} (l : list A) i x j r :
  nth_opt (set_nth l i x) j = Some r -> (j = i /\ r = x) \/ (j <> i /\ nth_opt l j = Some r).
Proof.
  intros H. destruct (Nat.eq_dec j i) as [->|Hn].
  - left. split; [reflexivity|]. pose proof (nth_opt_Some_lt _ _ _ H) as Hl. rewrite length_set_nth in Hl.
    rewrite nth_opt_set_nth_same in H by exact Hl. now inversion H.
  - right. split; [exact Hn|]. rewrite nth_opt_set_nth_other in H; [exact H|congruence].
Qed.

Lemma guard_free_no_locked s i r :
  guard_free s = true -> nth_opt (c_readers s) i = Some r -> is_locked r = false.
Proof.
  unfold guard_free. intros Hg Hn. apply negb_true_iff in Hg.
  destruct (is_locked r) eqn:E; [|reflexivity].
  assert (existsb is_locked (c_readers s) = true) as Hx.
  { apply existsb_exists. exists r. split; [eapply nth_opt_In; eauto|exact E]. }
  congruence.
Qed.

(* ---------------------------------------------------------------- reader invariants under change *)
Lemma rinv_weaken dbs a a' wp wp' r :
  (acct_known a = true -> acct_known a' = true) ->
  (wp' = true \/ (wp = false /\ forall k, base dbs a' k = base dbs a k)) ->
  rinv dbs a wp r -> rinv dbs a' wp' r.
Proof.
  intros Hm Hb H. destruct r; simpl in *; auto.
  - destruct H as [[H1 H2]|H]; auto.
  - destruct Hb as [Hb|[Hw Hb]]; [now right|]. destruct H as [H|H]; [left; now rewrite Hb|congruence].
Qed.

Section Repaired.
  Variable basic : pacct.
  Variable dbs : key -> word.
  Hypothesis basic_wf : acct_wf basic.

  Notation stepR := (step repaired basic dbs).

  Lemma flip_after c a : flippable (Some (acct_update c a)) basic = true -> forall k, dbs k = 0.
  Proof. unfold flippable. rewrite not_flippable_after. discriminate. Qed.

  Lemma do_acct_wiping s c pend a :
    Inv basic dbs s -> c_acct s = Some a -> wiping c = true ->
    Inv basic dbs (mkC (Some (acct_update c a)) (c_slots s) (c_ghost s) (CMid c) pend (c_readers s)).
  Proof.
    intros [Hg Hs Hf Hw Hr] Ea Ew. apply mkInv; cbn [c_acct c_slots c_ghost c_pc c_pending c_readers].
    - exact Hg.
    - intros k v Hk. destruct (Hs k v Hk) as [H|[H _]]; [now left|right; split; [exact H|now right]].
    - apply flip_after.
    - intros a' Ha'. injection Ha' as Ha'. rewrite <- Ha'. apply wf_after. now apply Hw.
    - intros i r Hn. eapply rinv_weaken; [| |apply (Hr i r Hn)].
      + intros _. now apply known_after_wiping.
      + left. reflexivity.
  Qed.

  Lemma do_acct_change s i sl pend a :
    Inv basic dbs s -> c_acct s = Some a -> wipe_pending s = false ->
    Inv basic dbs (mkC (Some (acct_update (CChange i sl) a)) (c_slots s) (c_ghost s) (CIns sl) pend (c_readers s)).
  Proof.
    intros [Hg Hs Hf Hw Hr] Ea Hwp.
    assert (Hbase : forall k, base dbs (Some (acct_update (CChange i sl) a)) k = base dbs (Some a) k).
    { intros k. unfold base. destruct (acct_known (Some a)) eqn:Ek.
      - rewrite known_mono; auto.
      - destruct (acct_known (Some (acct_update (CChange i sl) a))) eqn:Ek'; [|reflexivity].
        symmetry. apply Hf. rewrite Ea. simpl. eapply change_flip; eauto. }
    rewrite Ea in *. apply mkInv; cbn [c_acct c_slots c_ghost c_pc c_pending c_readers].
    - exact Hg.
    - intros k v Hk. destruct (Hs k v Hk) as [H|[H [H'|H']]]; [now left| |congruence].
      right. split; [exact H|]. left. rewrite Hbase. exact H'.
    - apply flip_after.
    - intros a' Ha'. injection Ha' as Ha'. rewrite <- Ha'. unfold acct_wf. simpl. discriminate.
    - intros j r Hn. eapply rinv_weaken; [| |apply (Hr j r Hn)].
      + intros Hk. apply known_mono; auto.
      + right. split; [exact Hwp|exact Hbase].
  Qed.

  Lemma start_commit s c rest :
    Inv basic dbs s -> wipe_pending s = false ->
    Inv basic dbs (if wiping c then do_acct s c (CMid c) rest else do_acct s c (CIns (cop_slots c)) rest).
  Proof.
    intros HI Hwp. unfold do_acct. destruct (c_acct s) as [a|] eqn:Ea; [|destruct (wiping c); exact HI].
    destruct (wiping c) eqn:Ew; [now apply do_acct_wiping|].
    destruct c as [| | |i sl]; try discriminate. now apply do_acct_change.
  Qed.

  Lemma commit_preserves s : Inv basic dbs s -> Inv basic dbs (commit_step repaired s).
  Proof.
    intros HI. pose proof HI as [Hg Hs Hf Hw Hr]. unfold commit_step. simpl.
    destruct (c_pc s) as [|c|[|[k v] l]] eqn:Epc.
    - destruct (c_pending s) as [|c rest] eqn:Ep; [exact HI|].
      apply start_commit; [exact HI|]. unfold wipe_pending. now rewrite Epc.
    - (* second half of a wiping commit: remove *)
      unfold do_remove. destruct (guard_free s) eqn:Eg; [|exact HI].
      apply mkInv; simpl.
      + intros; discriminate.
      + intros; discriminate.
      + exact Hf.
      + exact Hw.
      + intros i r Hn. pose proof (guard_free_no_locked s i r Eg Hn) as Hl.
        pose proof (Hr i r Hn) as H. destruct r; simpl in *; auto; discriminate.
    - destruct (c_pending s) as [|c rest] eqn:Ep; [exact HI|].
      apply start_commit; [exact HI|]. unfold wipe_pending. now rewrite Epc.
    - (* one slot insert *)
      assert (Hwp : wipe_pending s = false) by (unfold wipe_pending; now rewrite Epc).
      apply mkInv; simpl.
      + intros j w. unfold fset. destruct (j =? k); [auto|apply Hg].
      + intros j x. unfold fset. destruct (j =? k); [intros H; now left|].
        intros Hj. destruct (Hs j x Hj) as [H|[H [H'|H']]]; [now left| |congruence].
        right. split; [exact H|now left].
      + exact Hf.
      + exact Hw.
      + intros i r Hn. pose proof (Hr i r Hn) as H. rewrite Hwp in H. exact H.
  Qed.

  Lemma reader_preserves s i : Inv basic dbs s -> Inv basic dbs (reader_step repaired dbs s i).
  Proof.
    intros HI. pose proof HI as [Hg Hs Hf Hw Hr]. unfold reader_step.
    destruct (nth_opt (c_readers s) i) as [r|] eqn:En; [|exact HI].
    pose proof (Hr i r En) as Hri.
    assert (Hset : forall r' (P : rpc -> Prop), P r' ->
              (forall j y, nth_opt (c_readers s) j = Some y -> P y) ->
              forall j y, nth_opt (set_nth (c_readers s) i r') j = Some y -> P y).
    { intros r' P Hr' Hall j y Hj.
      destruct (nth_opt_set_nth_inv _ _ _ _ _ Hj) as [[_ ->]|[_ Hj']]; [exact Hr'|now apply (Hall j)]. }
    assert (Hupd : forall r', rinv dbs (c_acct s) (wipe_pending s) r' ->
              Inv basic dbs (with_readers s (set_nth (c_readers s) i r'))).
    { intros r' Hr'. apply mkInv; simpl; auto. apply Hset; auto. }
    destruct r as [k|k|k kn|k v|k v|k v]; simpl.
    - apply Hupd. destruct (c_slots s k); exact I.
    - apply Hupd. simpl. auto.
    - apply Hupd. simpl. destruct kn; [left; auto|right; reflexivity].
    - apply Hupd. simpl. unfold base. destruct (acct_known (c_acct s)) eqn:Ek; [now left|].
      left. simpl in Hri. destruct Hri as [[_ H]|H]; [congruence|exact H].
    - (* insert-if-absent under the guard *)
      simpl in Hri. unfold insert_if_absent.
      destruct (c_slots s k) as [x|] eqn:Ek.
      + apply mkInv; simpl; auto. apply Hset; [exact I|exact Hr].
      + apply mkInv; simpl.
        * intros j w Hj. unfold fset. destruct (N.eqb_spec j k) as [->|]; [|now apply Hg].
          rewrite (Hg k w Hj) in Ek. discriminate.
        * intros j y. unfold fset. destruct (N.eqb_spec j k) as [->|]; [|apply Hs].
          intros Hy. inversion Hy; subst y. right. split; [|exact Hri].
          destruct (c_ghost s k) as [w|] eqn:Egk; [|reflexivity]. rewrite (Hg k w Egk) in Ek. discriminate.
        * exact Hf.
        * exact Hw.
        * apply Hset; [exact I|exact Hr].
    - exact HI.
  Qed.

  Lemma load_preserves s : Inv basic dbs s -> Inv basic dbs (stepR s WLoad).
  Proof.
    intros HI. pose proof HI as [Hg Hs Hf Hw Hr]. simpl.
    destruct (c_acct s) as [a|] eqn:Ea; [exact HI|].
    assert (Hbase : forall k, base dbs (Some basic) k = base dbs None k).
    { intros k. unfold base. destruct (acct_known (Some basic)) eqn:Ek; [|reflexivity].
      symmetry. apply Hf. unfold flippable. rewrite Ek. reflexivity. }
    apply mkInv; simpl.
    - exact Hg.
    - intros k v Hk. destruct (Hs k v Hk) as [H|[H [H'|H']]]; [now left| |right; auto].
      right. split; [exact H|]. left. rewrite Hbase. exact H'.
    - intros Hfl. apply Hf. unfold flippable in *. rewrite Hfl. apply orb_true_r.
    - intros a Ha. inversion Ha; subst. exact basic_wf.
    - intros i r Hn. pose proof (Hr i r Hn) as H. destruct r; simpl in *; auto.
      + intros Hk. specialize (H Hk). discriminate.
      + destruct H as [[_ H]|H]; [discriminate|now right].
      + destruct H as [H|H]; [left; now rewrite Hbase|now right].
  Qed.

  Lemma step_preserves s w : Inv basic dbs s -> Inv basic dbs (stepR s w).
  Proof.
    destruct w; [apply commit_preserves|apply reader_preserves|apply load_preserves].
  Qed.

  Lemma run_preserves sched : forall s, Inv basic dbs s -> Inv basic dbs (run repaired basic dbs s sched).
  Proof. induction sched as [|w sched IH]; intros s H; simpl; [exact H|]. apply IH. now apply step_preserves. Qed.

  Lemma Inv_init acct slots cops keys :
    (flippable acct basic = true -> forall k, dbs k = 0) ->
    (forall a, acct = Some a -> acct_wf a) ->
    Inv basic dbs (init acct slots cops keys).
  Proof.
    intros Hf Hw. apply mkInv; simpl; auto.
    intros i r Hn. apply nth_opt_In in Hn. apply in_map_iff in Hn. destruct Hn as (k & <- & _). exact I.
  Qed.

  Lemma Inv_answers s :
    Inv basic dbs s -> wipe_pending s = false ->
    forall k, answer dbs (c_acct s) (c_slots s) k = answer dbs (c_acct s) (c_ghost s) k.
  Proof.
    intros [Hg Hs Hf Hw Hr] Hwp k. unfold answer.
    destruct (c_slots s k) as [v|] eqn:Ek.
    - destruct (Hs k v Ek) as [H|[H [H'|H']]]; [now rewrite H| |congruence].
      rewrite H. exact H'.
    - destruct (c_ghost s k) as [w|] eqn:Egk; [|reflexivity]. rewrite (Hg k w Egk) in Ek. discriminate.
  Qed.

  (* cache_coherent, repaired ordering: any number of readers, any interleaving *)
  Theorem cache_coherent acct slots cops keys sched :
    (flippable acct basic = true -> forall k, dbs k = 0) ->
    (forall a, acct = Some a -> acct_wf a) ->
    let s := run repaired basic dbs (init acct slots cops keys) sched in
    wipe_pending s = false ->
    forall k, answer dbs (c_acct s) (c_slots s) k = answer dbs (c_acct s) (c_ghost s) k.
  Proof.
    intros Hf Hw s Hwp. apply Inv_answers; [|exact Hwp]. apply run_preserves. now apply Inv_init.
  Qed.
End Repaired.

(* ---------------------------------------------------------------- the ghost is the committed state *)
Definition ins (l : list (key * word)) (m : fmap word) : fmap word :=
  fold_left (fun m kv => fset m (fst kv) (snd kv)) l m.

Definition finish_cur (pc : cpc) (st : pacct * fmap word) : pacct * fmap word :=
  match pc with
  | CIdle => st
  | CIns l => (fst st, ins l (snd st))
  | CMid c => (fst st, ins (cop_slots c) fempty)
  end.

Definition finish (a : pacct) (s : cstate) : pacct * fmap word :=
  fold_left commit_atomic (c_pending s) (finish_cur (c_pc s) (a, c_ghost s)).

Lemma commit_atomic_wiping a g c :
  wiping c = true -> commit_atomic (a, g) c = (acct_update c a, ins (cop_slots c) fempty).
Proof. intros H. unfold commit_atomic. now rewrite H. Qed.

Lemma commit_atomic_change a g c :
  wiping c = false -> commit_atomic (a, g) c = (acct_update c a, ins (cop_slots c) g).
Proof. intros H. unfold commit_atomic. now rewrite H. Qed.

Lemma finish_start a s c rest :
  c_acct s = Some a -> c_pending s = c :: rest -> (c_pc s = CIdle \/ c_pc s = CIns []) ->
  let s' := if wiping c then do_acct s c (CMid c) rest else do_acct s c (CIns (cop_slots c)) rest in
  exists a', c_acct s' = Some a' /\ finish a' s' = finish a s.
Proof.
  intros Ha Ep Epc. unfold do_acct. rewrite Ha.
  assert (Hold : finish a s = fold_left commit_atomic rest (commit_atomic (a, c_ghost s) c)).
  { unfold finish. rewrite Ep. destruct Epc as [E|E]; rewrite E; reflexivity. }
  destruct (wiping c) eqn:Ew; eexists; (split; [reflexivity|]); rewrite Hold;
    unfold finish; cbn [c_pending c_pc c_ghost c_acct fold_left finish_cur fst snd];
    [rewrite commit_atomic_wiping by exact Ew|rewrite commit_atomic_change by exact Ew]; reflexivity.
Qed.

Lemma finish_step basic dbs s w a :
  c_acct s = Some a ->
  exists a', c_acct (step repaired basic dbs s w) = Some a' /\
             finish a' (step repaired basic dbs s w) = finish a s.
Proof.
  intros Ha. destruct w; cbn [step].
  - unfold commit_step. cbn [status_first repaired]. destruct (c_pc s) as [|c|[|[k v] l]] eqn:Epc.
    + destruct (c_pending s) as [|c rest] eqn:Ep; [exists a; auto|].
      apply (finish_start a s c rest); auto.
    + unfold do_remove. destruct (guard_free s); [|exists a; auto].
      exists a. split; [exact Ha|]. unfold finish. cbn [c_pending c_pc c_ghost]. rewrite Epc. reflexivity.
    + destruct (c_pending s) as [|c rest] eqn:Ep; [exists a; auto|].
      apply (finish_start a s c rest); auto.
    + exists a. split; [exact Ha|]. unfold finish. cbn [c_pending c_pc c_ghost]. rewrite Epc. reflexivity.
  - exists a. split.
    + unfold reader_step. destruct (nth_opt (c_readers s) i) as [r|]; [|exact Ha].
      destruct r; cbn [recheck repaired]; auto.
    + unfold finish, reader_step. destruct (nth_opt (c_readers s) i) as [r|]; [|reflexivity].
      destruct r; reflexivity.
  - rewrite Ha. exists a. auto.
Qed.

Theorem ghost_is_committed basic dbs a0 slots cops keys sched :
  let s := run repaired basic dbs (init (Some a0) slots cops keys) sched in
  committer_idle s = true ->
  exists a', c_acct s = Some a' /\ (a', c_ghost s) = fold_left commit_atomic cops (a0, slots).
Proof.
  intros s Hidle.
  assert (H : forall sched s0 a, c_acct s0 = Some a ->
            exists a', c_acct (run repaired basic dbs s0 sched) = Some a' /\
                       finish a' (run repaired basic dbs s0 sched) = finish a s0).
  { clear. induction sched as [|w sched IH]; intros s0 a Ha; simpl; [exists a; auto|].
    destruct (finish_step basic dbs s0 w a Ha) as (a1 & Ha1 & Hf1).
    destruct (IH _ a1 Ha1) as (a2 & Ha2 & Hf2). exists a2. split; [exact Ha2|congruence]. }
  destruct (H sched (init (Some a0) slots cops keys) a0 eq_refl) as (a' & Ha' & Hf).
  exists a'. split; [exact Ha'|]. fold s in Hf. unfold finish in Hf. simpl in Hf.
  unfold committer_idle in Hidle.
  destruct (c_pc s) as [|c|[|x l]]; destruct (c_pending s); try discriminate; simpl in Hf; exact Hf.
Qed.
