From Grevm Require Import Base.Util Cache.Status Cache.Revm Cache.Par Cache.Conc.
Require Extraction. Require ExtrOcamlBasic.
Extraction Language OCaml.
Extraction "extract/cache.ml"
  mkDb mkInfo mkEAcc mkTrans load_pair
  r_init r_step r_run r_basic_ans r_storage_ans r_code_ans r_accounts r_contracts r_ts
  p_init p_step p_run p_basic_ans p_storage_ans p_code_ans p_accounts p_storage p_contracts p_ts pslot
  original repaired init step run answer committer_idle c_acct c_slots c_ghost c_pc c_pending c_readers.
