(* C10 - model of grevm's ParallelState (definitions only, no proofs).

   Transcribed from /repo/src/parallel_state.rs (PS:<line>):
     CacheAccountInfo::{increment_balance, drain_balance, account_info_change, selfdestruct,
                        newly_created, touch_empty_eip161, change}               PS:23-190
     ParallelCacheState::{apply_evm_state_inner, apply_account_state, update_storage_slot}
                                                                                 PS:280-382
     ParallelStateView::{load_mut_cache_account, increment_balance_transitions, db_basic,
                         db_code_by_hash, db_storage}                             PS:488-589
     ParallelState::{increment_balances, drain_balances, apply_transition, merge_transitions,
                     commit}                                                      PS:734-802, 883-888
   The cache keeps account (info, status) and storage in two separate maps; this is the sequential
   semantics (one thread).  The interleaving of a reader with the committer is in Cache/Conc.v.
   `expect("All accounts should be present inside cache")` (PS:291) and `info.code.clone().unwrap()`
   (PS:333) are modelled: the step yields OutPanic. *)
From Grevm Require Import Base.Util Cache.Status.
Open Scope N_scope.

(* CacheAccountInfo { account: Option<AccountInfo>, status } *)
Definition pacct := (option info * status)%type.

Definition no_slots : list (key * (word * word)) := [].

(* PS:137-162 *)
Definition p_touch_empty (a : pacct) : pacct * option trans :=
  let st := snd a in
  let st' := on_touched_empty_post_eip161 st in
  ((None, st'),
   match st with
   | LoadedNotExisting | Destroyed | DestroyedAgain => None
   | _ => Some (mkTrans None st' (fst a) st no_slots true)
   end).

(* PS:89-108 *)
Definition p_selfdestruct (a : pacct) : pacct * option trans :=
  let st := snd a in
  let st' := on_selfdestructed st in
  ((None, st'),
   match st with
   | LoadedNotExisting => None
   | _ => Some (mkTrans None st' (fst a) st no_slots true)
   end).

(* PS:111-132: also returns the new plain storage (key -> present value), here the slot list *)
Definition p_newly_created (a : pacct) (new_info : info) (new_storage : list (key * (word * word)))
  : pacct * trans :=
  let st := snd a in
  let st' := on_created st in
  ((Some new_info, st'), mkTrans (Some new_info) st' (fst a) st new_storage false).

(* PS:59-84 *)
Definition p_info_change (a : pacct) (f : info -> info) : pacct * trans :=
  let st := snd a in
  let prev := fst a in
  let i := match prev with Some i => i | None => default_info end in
  let i' := f i in
  let st' := on_changed st (had_no_nonce_and_code prev) in
  ((Some i', st'), mkTrans (Some i') st' prev st no_slots false).

(* PS:164-189 *)
Definition p_change (a : pacct) (new : info) (storage : list (key * (word * word))) : pacct * trans :=
  let st := snd a in
  let prev := fst a in
  let st' := on_changed st (had_no_nonce_and_code prev) in
  ((Some new, st'), mkTrans (Some new) st' prev st storage false).

Record pstate := mkP {
  p_accounts : fmap pacct;
  p_storage : fmap (fmap word);          (* DashMap<Address, DashMap<U256, U256>> *)
  p_contracts : fmap codeid;
  p_ts : option tstate;
}.

Definition p_init (bundle_update : bool) : pstate :=
  mkP fempty fempty fempty (if bundle_update then Some [] else None).

Definition pslot (p : pstate) (a : addr) (k : key) : option word :=
  match p_storage p a with Some m => m k | None => None end.

(* PS:361-382: insert every (slot, present value); creates the inner map when absent *)
Fixpoint insert_present (m : fmap word) (st : list (key * (word * word))) : fmap word :=
  match st with
  | [] => m
  | (k, (_, pres)) :: st' => insert_present (fset m k pres) st'
  end.

Definition p_update_storage (p : pstate) (a : addr) (st : list (key * (word * word))) : pstate :=
  let m := match p_storage p a with Some m => m | None => fempty end in
  mkP (p_accounts p) (fset (p_storage p) a (insert_present m st)) (p_contracts p) (p_ts p).

Definition p_remove_storage (p : pstate) (a : addr) : pstate :=
  mkP (p_accounts p) (fdel (p_storage p) a) (p_contracts p) (p_ts p).

Definition p_put (p : pstate) (a : addr) (acc : pacct) : pstate :=
  mkP (fset (p_accounts p) a acc) (p_storage p) (p_contracts p) (p_ts p).

Definition p_with_ts (p : pstate) (ts : option tstate) : pstate :=
  mkP (p_accounts p) (p_storage p) (p_contracts p) ts.

(* `if let Some(code) = &info.code { self.contracts.entry(info.code_hash).or_insert_with(|| code.clone()) }`
   (after fix 31a4458, finding F10; before it the code was unwrapped: a created account without code
   panicked). Never None any more; the option type is kept for the callers. *)
Definition p_add_contract (p : pstate) (i : info) : option pstate :=
  match p_contracts p (code_hash i) with
  | Some _ => Some p
  | None =>
      match code i with
      | Some c => Some (mkP (p_accounts p) (p_storage p) (fset (p_contracts p) (code_hash i) c) (p_ts p))
      | None => Some p
      end
  end.

(* PS:296-359.  Outer None = panic.  Order of effects as in the source: storage.remove first,
   account second (the order matters only in Cache/Conc.v). *)
Definition p_apply_account (p : pstate) (a : addr) (e : eaccount) : option (pstate * option trans) :=
  if negb (e_touched e) then Some (p, None) else
  let changed := changed_storage (e_storage e) in
  if e_destructed e then
    let p1 := p_remove_storage p a in
    match p_accounts p1 a with
    | None => None
    | Some acc => let '(acc', t) := p_selfdestruct acc in Some (p_put p1 a acc', t)
    end
  else if e_created e then
    let p1 := p_remove_storage p a in
    match p_accounts p1 a with
    | None => None
    | Some acc =>
        let '(acc', t) := p_newly_created acc (e_info e) changed in
        match p_add_contract (p_put p1 a acc') (e_info e) with
        | None => None
        | Some p2 =>
            (* `if let Some(changed_slots) = .. && !changed_slots.is_empty()` (PS:353-357) *)
            Some (match changed with [] => p2 | _ => p_update_storage p2 a changed end, Some t)
        end
    end
  else if info_is_empty (e_info e) then
    let p1 := p_remove_storage p a in
    match p_accounts p1 a with
    | None => None
    | Some acc => let '(acc', t) := p_touch_empty acc in Some (p_put p1 a acc', t)
    end
  else
    match p_accounts p a with
    | None => None
    | Some acc =>
        let '(acc', t) := p_change acc (e_info e) changed in
        let p1 := p_put p a acc' in
        Some (match changed with [] => p1 | _ => p_update_storage p1 a changed end, Some t)
    end.

(* PS:280-288 *)
Fixpoint p_apply_evm_state (p : pstate) (es : list (addr * eaccount)) : option (pstate * list (addr * trans)) :=
  match es with
  | [] => Some (p, [])
  | (a, e) :: es' =>
      match p_apply_account p a e with
      | None => None
      | Some (p1, t) =>
          match p_apply_evm_state p1 es' with
          | None => None
          | Some (p2, ts) => Some (p2, match t with Some t => (a, t) :: ts | None => ts end)
          end
      end
  end.

(* PS:488-508 *)
Definition p_load (d : db) (p : pstate) (a : addr) : pstate * pacct :=
  match p_accounts p a with
  | Some acc => (p, acc)
  | None => let acc := load_pair d a in (p_put p a acc, acc)
  end.

(* PS:527-544 *)
Definition p_basic (d : db) (p : pstate) (a : addr) : pstate * option info :=
  let '(p1, acc) := p_load d p a in (p1, fst acc).

(* increment_balances / drain_balances (parallel_state.rs, after the F7 repair): as in revm's
   `DatabaseCommitExt` - first every listed account is read through `basic_ref` (which caches it)
   and turned into a touched account with the new balance, then the accounts are committed in
   order through `apply_account_state`.  Outer None = panic. *)
Fixpoint p_touch_all (d : db) (p : pstate) (bs : list (addr * (info -> info))) : pstate * list (addr * eaccount) :=
  match bs with
  | [] => (p, [])
  | (a, f) :: bs' =>
      let '(p1, oi) := p_basic d p a in
      let '(p2, es) := p_touch_all d p1 bs' in
      (p2, (a, touched_account oi f) :: es)
  end.

Definition p_increments (d : db) (p : pstate) (bs : list (addr * N)) : option (pstate * list (addr * trans)) :=
  let '(p1, es) := p_touch_all d p (map (fun b => (fst b, incr_fun (snd b))) bs) in
  p_apply_evm_state p1 es.

Fixpoint p_drain_all (d : db) (p : pstate) (ads : list addr) : option (pstate * list N * list (addr * eaccount)) :=
  match ads with
  | [] => Some (p, [], [])
  | a :: ads' =>
      let '(p1, oi) := p_basic d p a in
      let bal := balance (match oi with Some i => i | None => default_info end) in
      if bal <=? U128_MAX then
        match p_drain_all d p1 ads' with
        | None => None
        | Some (p2, bals, es) => Some (p2, bal :: bals, (a, touched_account oi drain_fun) :: es)
        end
      else None
  end.

Definition p_drains (d : db) (p : pstate) (ads : list addr) : option (pstate * list N * list (addr * trans)) :=
  match p_drain_all d p ads with
  | None => None
  | Some (p1, bals, es) =>
      match p_apply_evm_state p1 es with
      | None => None
      | Some (p2, ts) => Some (p2, bals, ts)
      end
  end.

(* PS:546-558 *)
Definition p_code (d : db) (p : pstate) (h : hash) : pstate * codeid :=
  match p_contracts p h with
  | Some c => (p, c)
  | None => let c := db_code d h in
            (mkP (p_accounts p) (p_storage p) (fset (p_contracts p) h c) (p_ts p), c)
  end.

(* PS:568-571: `is_storage_known || account.is_none()`; an uncached account is not "known" *)
Definition p_known (p : pstate) (a : addr) : bool :=
  match p_accounts p a with
  | Some (oi, st) => is_storage_known st || match oi with None => true | Some _ => false end
  | None => false
  end.

(* PS:560-589 *)
Definition p_storage_read (d : db) (p : pstate) (a : addr) (k : key) : pstate * word :=
  match pslot p a k with
  | Some v => (p, v)
  | None =>
      let v := if p_known p a then 0 else db_storage d a k in
      let m := match p_storage p a with Some m => m | None => fempty end in
      (mkP (p_accounts p) (fset (p_storage p) a (fset m k v)) (p_contracts p) (p_ts p), v)
  end.

Definition p_step (d : db) (p : pstate) (o : op) : pstate * out :=
  match o with
  | OCommit es =>
      match p_apply_evm_state p es with
      | None => (p, OutPanic)
      | Some (p1, ts) => (p_with_ts p1 (apply_transition (p_ts p1) ts), OutTrans ts)
      end
  | OIncrement bs =>
      match p_increments d p bs with
      | None => (p, OutPanic)
      | Some (p1, ts) => (p_with_ts p1 (apply_transition (p_ts p1) ts), OutTrans ts)
      end
  | ODrain ads =>
      match p_drains d p ads with
      | None => (p, OutPanic)
      | Some (p1, bals, ts) => (p_with_ts p1 (apply_transition (p_ts p1) ts), OutDrain bals ts)
      end
  | OBasic a => let '(p1, i) := p_basic d p a in (p1, OutInfo i)
  | OStorage a k => let '(p1, w) := p_storage_read d p a k in (p1, OutWord w)
  | OCode h => let '(p1, c) := p_code d p h in (p1, OutCode c)
  | OMerge =>
      (p_with_ts p (match p_ts p with Some _ => Some [] | None => None end), OutMerged (p_ts p))
  end.

Fixpoint p_run (d : db) (p : pstate) (ops : list op) : list out * pstate :=
  match ops with
  | [] => ([], p)
  | o :: ops' =>
      let '(p1, x) := p_step d p o in
      match x with
      | OutPanic => ([OutPanic], p1)
      | _ => let '(xs, p2) := p_run d p1 ops' in (x :: xs, p2)
      end
  end.

(* pure answers *)
Definition p_basic_ans (d : db) (p : pstate) (a : addr) : option info :=
  match p_accounts p a with Some acc => fst acc | None => fst (load_pair d a) end.

Definition p_storage_ans (d : db) (p : pstate) (a : addr) (k : key) : word :=
  match pslot p a k with
  | Some v => v
  | None => if p_known p a then 0 else db_storage d a k
  end.

Definition p_code_ans (d : db) (p : pstate) (h : hash) : codeid :=
  match p_contracts p h with Some c => c | None => db_code d h end.
