(* C10 - reads do not change what the state later serves, across commits (sequential).

   [ext d p q]: q is p with additional cache fills (accounts loaded, slots / code cached with the
   value p would answer).  Every operation maps ext-related states to ext-related states and
   returns the same output ([step_ext]); a read produces an ext-related state ([read_ext]).  Hence
   an extra read anywhere in a history changes no later output - read values, transitions, drained
   balances, merged transition states ([read_insertion]).
   Hypotheses: [db_wf] (no storage in the database for absent / empty / code-less nonce-less
   accounts: those are the accounts whose storage becomes "known" on their first change without a
   wipe), [code_ok], and the history does not panic on the state without the extra read. *)
From Grevm Require Import Base.Util Cache.Status Cache.Par Cache.SimProofs Cache.ReadProofs.
Open Scope N_scope.

Definition known_of (acc : pacct) : bool :=
  is_storage_known (snd acc) || match fst acc with None => true | Some _ => false end.

Definition base_of (d : db) (a : addr) (o : option pacct) (k : key) : word :=
  if match o with Some acc => known_of acc | None => false end then 0 else db_storage d a k.

Lemma p_known_of p a : p_known p a = match p_accounts p a with Some acc => known_of acc | None => false end.
Proof. unfold p_known, known_of. destruct (p_accounts p a) as [[oi st]|]; reflexivity. Qed.

Lemma ans_base d p a k : pslot p a k = None -> p_storage_ans d p a k = base_of d a (p_accounts p a) k.
Proof. intros H. unfold p_storage_ans, base_of. now rewrite H, p_known_of. Qed.

(* cached accounts are what the database gave, until first changed *)
Definition acc_ok (d : db) (a : addr) (acc : pacct) : Prop :=
  (fst acc = None -> is_storage_known (snd acc) = true) /\
  (snd acc = Loaded -> exists i, fst acc = Some i /\ db_basic d a = Some i) /\
  (snd acc = LoadedEmptyEIP161 -> exists i, db_basic d a = Some i /\ info_is_empty i = true).

Definition loaded_ok (d : db) (p : pstate) : Prop :=
  forall a acc, p_accounts p a = Some acc -> acc_ok d a acc.

Lemma load_pair_ok d a : acc_ok d a (load_pair d a).
Proof.
  unfold acc_ok, load_pair. destruct (db_basic d a) as [i|] eqn:E; simpl.
  - destruct (info_is_empty i) eqn:Ee; simpl; repeat split; try discriminate; eauto.
  - repeat split; try discriminate; auto.
Qed.

Lemma base_load d a k : db_wf0 d -> base_of d a (Some (load_pair d a)) k = base_of d a None k.
Proof.
  intros Hwf. unfold base_of, known_of.
  destruct (load_pair_cases d a) as [(Eb & E)|(i & _ & [E|E])]; rewrite E; simpl; auto.
  symmetry. now apply Hwf.
Qed.

(* a change (on_changed) that makes the storage known without a wipe: only for bare accounts *)
Lemma base_changed d a acc i' k :
  db_wf d -> acc_ok d a acc ->
  base_of d a (Some (Some i', on_changed (snd acc) (had_no_nonce_and_code (fst acc)))) k = base_of d a (Some acc) k.
Proof.
  intros Hwf (Hn & Hl & He). destruct acc as [oi st]. unfold base_of, known_of. simpl in *.
  rewrite orb_false_r.
  destruct oi as [i|].
  - rewrite orb_false_r. destruct st; simpl; try reflexivity.
    + destruct (Hl eq_refl) as (i0 & Ei & Eb). inversion Ei; subst i0.
      destruct (has_no_code_and_nonce i) eqn:Eh; simpl; [|reflexivity].
      symmetry. apply Hwf. unfold bare. rewrite Eb, Eh. apply orb_true_r.
    + destruct (He eq_refl) as (i0 & Eb & Ee). symmetry. apply Hwf. unfold bare. now rewrite Eb, Ee.
  - rewrite (Hn eq_refl), orb_true_r. now rewrite known_on_changed by (now apply Hn).
Qed.

Record ext (d : db) (p q : pstate) : Prop := mkExt {
  E_acct : forall a, p_accounts q a = p_accounts p a \/
                     (p_accounts p a = None /\ p_accounts q a = Some (load_pair d a));
  E_slot : forall a k, pslot q a k = pslot p a k \/
                       (pslot p a k = None /\ pslot q a k = Some (base_of d a (p_accounts p a) k));
  E_code : forall h, p_contracts q h = p_contracts p h \/
                     (p_contracts p h = None /\ p_contracts q h = Some (db_code d h));
  E_ts : p_ts q = p_ts p;
}.

Lemma ext_refl d p : ext d p p.
Proof. split; auto. Qed.

Lemma base_ext d p q a k : db_wf0 d -> ext d p q -> base_of d a (p_accounts q a) k = base_of d a (p_accounts p a) k.
Proof.
  intros Hwf He. destruct (E_acct _ _ _ He a) as [E|[E1 E2]]; [now rewrite E|].
  rewrite E1, E2. now apply base_load.
Qed.

(* ---------------------------------------------------------------- a read extends *)
Lemma read_ext d p o p' x : db_wf0 d -> is_read o = true -> p_step d p o = (p', x) -> ext d p p'.
Proof.
  intros Hwf Hr Hs. destruct o; try discriminate; simpl in Hs.
  - unfold p_basic, p_load in Hs. destruct (p_accounts p a) as [acc|] eqn:Ea; inversion Hs; subst; [apply ext_refl|].
    apply mkExt; try (intros; left; reflexivity); try reflexivity.
    intros b. simpl. unfold fset. destruct (N.eqb_spec b a) as [->|]; [right; auto|left; reflexivity].
  - unfold p_storage_read in Hs. destruct (pslot p a k) as [v|] eqn:Ek; inversion Hs; subst; [apply ext_refl|].
    apply mkExt; try (intros; left; reflexivity); try reflexivity.
    intros b j. rewrite pslot_fill.
    destruct (N.eqb_spec b a) as [->|]; simpl; [|left; reflexivity].
    destruct (N.eqb_spec j k) as [->|]; [|left; reflexivity].
    right. split; [exact Ek|]. unfold base_of. now rewrite <- p_known_of.
  - unfold p_code in Hs. destruct (p_contracts p h) as [c|] eqn:Eh; inversion Hs; subst; [apply ext_refl|].
    apply mkExt; try (intros; left; reflexivity); try reflexivity.
    intros h'. simpl. unfold fset. destruct (N.eqb_spec h' h) as [->|]; [right; auto|left; reflexivity].
Qed.

(* ---------------------------------------------------------------- loads *)
Lemma load_ext d p q a p1 acc :
  db_wf0 d -> ext d p q -> p_load d p a = (p1, acc) ->
  exists q1, p_load d q a = (q1, acc) /\ ext d p1 q1 /\ p_accounts p1 a = Some acc /\ p_accounts q1 a = Some acc /\
             (loaded_ok d p -> loaded_ok d p1).
Proof.
  intros Hwf He Hl. pose proof He as [HeA HeS HeC HeT]. unfold p_load in *.
  destruct (p_accounts p a) as [pa|] eqn:Ep.
  - inversion Hl; subst p1 acc. destruct (HeA a) as [E|[E _]]; [|congruence].
    rewrite Ep in E. exists q. rewrite E. split; [reflexivity|]. split; [exact He|].
    split; [exact Ep|]. split; [reflexivity|auto].
  - inversion Hl; subst p1 acc. clear Hl.
    assert (Hslot : forall b k, pslot q b k = pslot p b k \/
                (pslot p b k = None /\
                 pslot q b k = Some (base_of d b (fset (p_accounts p) a (load_pair d a) b) k))).
    { intros b k. destruct (HeS b k) as [E|[E1 E2]]; [now left|]. right. split; [exact E1|]. rewrite E2. f_equal.
      unfold fset. destruct (N.eqb_spec b a) as [->|]; [|reflexivity].
      rewrite Ep. symmetry. now apply base_load. }
    assert (Hok : loaded_ok d p -> loaded_ok d (p_put p a (load_pair d a))).
    { intros H b acc. simpl. unfold fset. destruct (N.eqb_spec b a) as [->|]; [|apply H].
      intros E. inversion E; subst. apply load_pair_ok. }
    destruct (HeA a) as [E|[_ E]].
    + rewrite Ep in E. rewrite E. eexists. split; [reflexivity|].
      split; [|split; [apply fset_same|split; [apply fset_same|exact Hok]]].
      apply mkExt.
      * intros b. simpl. unfold fset. destruct (b =? a); [now left|apply HeA].
      * exact Hslot.
      * exact HeC.
      * exact HeT.
    + rewrite E. exists q. split; [reflexivity|].
      split; [|split; [apply fset_same|split; [exact E|exact Hok]]].
      apply mkExt.
      * intros b. simpl. unfold fset. destruct (N.eqb_spec b a) as [->|]; [now left|apply HeA].
      * exact Hslot.
      * exact HeC.
      * exact HeT.
Qed.

(* same account replaced on both sides; the base answer of its uncached slots must not move *)
Lemma put_ext d p q a acc acc' :
  ext d p q -> p_accounts p a = Some acc -> p_accounts q a = Some acc ->
  (forall k, base_of d a (Some acc') k = base_of d a (Some acc) k) ->
  ext d (p_put p a acc') (p_put q a acc').
Proof.
  intros [HeA HeS HeC HeT] Ep Eq Hb. apply mkExt.
  - intros b. simpl. unfold fset. destruct (b =? a); [now left|apply HeA].
  - intros b k. change (pslot (p_put q a acc') b k) with (pslot q b k).
    change (pslot (p_put p a acc') b k) with (pslot p b k).
    destruct (HeS b k) as [E|[E1 E2]]; [now left|]. right. split; [exact E1|]. rewrite E2. f_equal.
    simpl. unfold fset. destruct (N.eqb_spec b a) as [->|]; [|reflexivity]. rewrite Ep. symmetry. apply Hb.
  - exact HeC.
  - exact HeT.
Qed.

Lemma put_ok d p a acc' : loaded_ok d p -> acc_ok d a acc' -> loaded_ok d (p_put p a acc').
Proof.
  intros H Ha b acc. simpl. unfold fset. destruct (N.eqb_spec b a) as [->|]; [|apply H].
  intros E. inversion E; subst. exact Ha.
Qed.

(* ---------------------------------------------------------------- commits *)
(* states with the same observations *)
Definition peqv (p1 p2 : pstate) : Prop :=
  (forall a, p_accounts p1 a = p_accounts p2 a) /\ (forall a k, pslot p1 a k = pslot p2 a k) /\
  (forall h, p_contracts p1 h = p_contracts p2 h) /\ p_ts p1 = p_ts p2.

Lemma ext_eqv d p q p2 q2 : ext d p q -> peqv p2 p -> peqv q2 q -> ext d p2 q2.
Proof.
  intros [HeA HeS HeC HeT] (A1 & S1 & C1 & T1) (A2 & S2 & C2 & T2). apply mkExt.
  - intros a. rewrite A1, A2. apply HeA.
  - intros a k. rewrite S1, S2, A1. apply HeS.
  - intros h. rewrite C1, C2. apply HeC.
  - congruence.
Qed.

Lemma update_or_not_eqv p a ch :
  peqv (match ch with [] => p | _ => p_update_storage p a ch end) (p_update_storage p a ch).
Proof.
  destruct ch as [|x l]; [|repeat split].
  repeat split; intros; try reflexivity. symmetry. apply p_update_nil.
Qed.

Definition slot_ext (B : key -> word) (k : key) (x y : option word) : Prop :=
  y = x \/ (x = None /\ y = Some (B k)).

Lemma insert_slot_ext B ch : forall ps qs,
  (forall k, slot_ext B k (ps k) (qs k)) -> forall k, slot_ext B k (insert_present ps ch k) (insert_present qs ch k).
Proof.
  induction ch as [|[k' [o v]] ch IH]; intros ps qs H k; simpl; [apply H|].
  apply IH. intros j. unfold fset. destruct (j =? k'); [left; reflexivity|apply H].
Qed.

Lemma update_storage_ext d p q a ch :
  ext d p q -> ext d (p_update_storage p a ch) (p_update_storage q a ch).
Proof.
  intros [HeA HeS HeC HeT]. apply mkExt.
  - exact HeA.
  - intros b k. rewrite !pslot_update. destruct (N.eqb_spec b a) as [->|]; [|apply HeS].
    apply (insert_slot_ext (base_of d a (p_accounts p a)) ch (fun k => pslot p a k) (fun k => pslot q a k)).
    intros j. apply HeS.
  - exact HeC.
  - exact HeT.
Qed.

(* wipe the storage of [a] and replace its account, on both sides *)
Lemma wipe_put_ext d p q a acc' :
  ext d p q -> ext d (p_put (p_remove_storage p a) a acc') (p_put (p_remove_storage q a) a acc').
Proof.
  intros [HeA HeS HeC HeT]. apply mkExt.
  - intros b. simpl. unfold fset. destruct (b =? a); [now left|apply HeA].
  - intros b k.
    change (pslot (p_put (p_remove_storage q a) a acc') b k) with (pslot (p_remove_storage q a) b k).
    change (pslot (p_put (p_remove_storage p a) a acc') b k) with (pslot (p_remove_storage p a) b k).
    rewrite !pslot_remove. destruct (N.eqb_spec b a) as [->|Hb]; [now left|].
    destruct (HeS b k) as [E|[E1 E2]]; [now left|]. right. split; [exact E1|]. rewrite E2. f_equal.
    simpl. unfold fset. destruct (N.eqb_spec b a); [contradiction|reflexivity].
  - exact HeC.
  - exact HeT.
Qed.

Lemma wipe_put_ok d p a acc' : loaded_ok d p -> acc_ok d a acc' -> loaded_ok d (p_put (p_remove_storage p a) a acc').
Proof.
  intros H Ha b acc. simpl. unfold fset. destruct (N.eqb_spec b a) as [->|]; [|apply H].
  intros E. inversion E; subst. exact Ha.
Qed.

Lemma add_contract_ext d p q i p2 :
  ext d p q -> (forall c, code i = Some c -> db_code d (code_hash i) = c) ->
  p_add_contract p i = Some p2 -> exists q2, p_add_contract q i = Some q2 /\ ext d p2 q2 /\
    p_accounts p2 = p_accounts p /\ (loaded_ok d p -> loaded_ok d p2).
Proof.
  intros He Hcode Hp. pose proof He as [HeA HeS HeC HeT]. unfold p_add_contract in *.
  destruct (p_contracts p (code_hash i)) as [c0|] eqn:Ep.
  - inversion Hp; subst p2. destruct (HeC (code_hash i)) as [E|[E _]]; [|congruence].
    rewrite E, Ep. exists q. auto.
  - destruct (code i) as [c|] eqn:Ec.
    2:{ inversion Hp; subst p2. exists q. split; [destruct (p_contracts q (code_hash i)); reflexivity|].
        split; [exact He|split; [reflexivity|auto]]. }
    inversion Hp; subst p2. clear Hp.
    destruct (HeC (code_hash i)) as [E|[_ E]].
    + rewrite E, Ep. eexists. split; [reflexivity|]. split; [|split; [reflexivity|auto]].
      apply mkExt; auto. intros h. simpl. unfold fset. destruct (h =? code_hash i); [now left|apply HeC].
    + rewrite E. exists q. split; [reflexivity|]. split; [|split; [reflexivity|auto]].
      apply mkExt; auto. intros h. simpl. unfold fset. destruct (N.eqb_spec h (code_hash i)) as [->|]; [|apply HeC].
      left. rewrite E. f_equal. now apply Hcode.
Qed.

Lemma wiping_ok d a acc :
  acc_ok d a (fst (p_selfdestruct acc)) /\ acc_ok d a (fst (p_touch_empty acc)) /\
  forall i ch, acc_ok d a (fst (p_newly_created acc i ch)).
Proof.
  destruct acc as [oi st]. unfold acc_ok, p_selfdestruct, p_touch_empty, p_newly_created. simpl.
  repeat split; intros; try discriminate;
    try apply known_on_selfdestructed; try apply known_on_touched; destruct st; discriminate.
Qed.

Lemma change_ok d a acc i ch : acc_ok d a (fst (p_change acc i ch)).
Proof.
  destruct acc as [oi st]. unfold acc_ok, p_change. simpl. repeat split; try discriminate;
    intros H; destruct st, (had_no_nonce_and_code oi); discriminate.
Qed.

Lemma apply_account_ext d p q a e p' t :
  db_wf d -> ext d p q -> loaded_ok d p -> code_ok_e d e ->
  p_apply_account p a e = Some (p', t) ->
  exists q', p_apply_account q a e = Some (q', t) /\ ext d p' q' /\ loaded_ok d p'.
Proof.
  intros Hwf He Hok Hcode Hp. pose proof He as [HeA HeS HeC HeT]. unfold p_apply_account in *.
  destruct (e_touched e) eqn:Et; cbn [negb] in Hp |- *; [|inversion Hp; subst; eauto].
  change (p_accounts (p_remove_storage p a) a) with (p_accounts p a) in Hp.
  change (p_accounts (p_remove_storage q a) a) with (p_accounts q a).
  assert (Hacc : forall acc, p_accounts p a = Some acc -> p_accounts q a = Some acc).
  { intros acc E. destruct (HeA a) as [E'|[E' _]]; congruence. }
  destruct (e_destructed e) eqn:Ed.
  { destruct (p_accounts p a) as [acc|] eqn:Ea; [|discriminate]. rewrite (Hacc acc eq_refl).
    destruct (p_selfdestruct acc) as [acc' t0] eqn:Es. inversion Hp; subst p' t. clear Hp.
    eexists. split; [reflexivity|]. split; [now apply wipe_put_ext|].
    apply wipe_put_ok; [exact Hok|]. replace acc' with (fst (p_selfdestruct acc)) by now rewrite Es.
    apply wiping_ok. }
  destruct (e_created e) eqn:Ec.
  { destruct (p_accounts p a) as [acc|] eqn:Ea; [|discriminate]. rewrite (Hacc acc eq_refl).
    destruct (p_newly_created acc (e_info e) (changed_storage (e_storage e))) as [acc' t0] eqn:Es.
    destruct (p_add_contract (p_put (p_remove_storage p a) a acc') (e_info e)) as [p2|] eqn:Eadd; [|discriminate].
    inversion Hp; subst p' t. clear Hp.
    assert (Hok1 : loaded_ok d (p_put (p_remove_storage p a) a acc')).
    { apply wipe_put_ok; [exact Hok|]. replace acc' with (fst (p_newly_created acc (e_info e) (changed_storage (e_storage e)))) by now rewrite Es.
      apply wiping_ok. }
    destruct (add_contract_ext d _ (p_put (p_remove_storage q a) a acc') (e_info e) p2
                (wipe_put_ext d p q a acc' He) (Hcode Et Ed Ec) Eadd) as (q2 & Hq2 & He2 & Hacc2 & Hok2).
    rewrite Hq2. eexists. split; [reflexivity|]. split.
    - eapply ext_eqv; [apply (update_storage_ext d p2 q2 a (changed_storage (e_storage e)) He2)| |]; apply update_or_not_eqv.
    - intros b acc0 Hb. apply (Hok2 Hok1 b acc0).
      destruct (changed_storage (e_storage e)); exact Hb. }
  destruct (info_is_empty (e_info e)) eqn:Ee.
  { destruct (p_accounts p a) as [acc|] eqn:Ea; [|discriminate]. rewrite (Hacc acc eq_refl).
    destruct (p_touch_empty acc) as [acc' t0] eqn:Es. inversion Hp; subst p' t. clear Hp.
    eexists. split; [reflexivity|]. split; [now apply wipe_put_ext|].
    apply wipe_put_ok; [exact Hok|]. replace acc' with (fst (p_touch_empty acc)) by now rewrite Es.
    apply wiping_ok. }
  destruct (p_accounts p a) as [acc|] eqn:Ea; [|discriminate]. rewrite (Hacc acc eq_refl).
  destruct (p_change acc (e_info e) (changed_storage (e_storage e))) as [acc' t0] eqn:Es.
  inversion Hp; subst p' t. clear Hp.
  assert (Hacc' : acc' = fst (p_change acc (e_info e) (changed_storage (e_storage e)))) by now rewrite Es.
  assert (He1 : ext d (p_put p a acc') (p_put q a acc')).
  { eapply put_ext; eauto. intros k. subst acc'. unfold p_change. simpl.
    apply base_changed; [exact Hwf|]. now apply (Hok a acc). }
  eexists. split; [reflexivity|]. split.
  - eapply ext_eqv; [apply (update_storage_ext d _ _ a (changed_storage (e_storage e)) He1)| |]; apply update_or_not_eqv.
  - intros b acc0 Hb. apply (put_ok d p a acc' Hok); [subst acc'; apply change_ok|].
    destruct (changed_storage (e_storage e)); exact Hb.
Qed.

Lemma apply_evm_state_ext d es : forall p q p' ts,
  db_wf d -> ext d p q -> loaded_ok d p -> Forall (fun ae => code_ok_e d (snd ae)) es ->
  p_apply_evm_state p es = Some (p', ts) ->
  exists q', p_apply_evm_state q es = Some (q', ts) /\ ext d p' q' /\ loaded_ok d p'.
Proof.
  induction es as [|[a e] es IH]; intros p q p' ts Hwf He Hok Hcode Hp; cbn [p_apply_evm_state] in *.
  - inversion Hp; subst. eauto.
  - inversion Hcode as [|x l Hc1 Hc2]; subst.
    destruct (p_apply_account p a e) as [[p1 t]|] eqn:E1; [|discriminate].
    destruct (p_apply_evm_state p1 es) as [[p2 ts2]|] eqn:E2; [|discriminate].
    inversion Hp; subst p' ts; clear Hp.
    destruct (apply_account_ext d p q a e p1 t Hwf He Hok Hc1 E1) as (q1 & Hq1 & He1 & Hok1).
    destruct (IH p1 q1 p2 ts2 Hwf He1 Hok1 Hc2 E2) as (q2 & Hq2 & He2 & Hok2).
    exists q2. rewrite Hq1, Hq2. auto.
Qed.

(* ---------------------------------------------------------------- increments and drains *)
Lemma basic_ext d p q a p1 oi :
  db_wf0 d -> ext d p q -> loaded_ok d p -> p_basic d p a = (p1, oi) ->
  exists q1, p_basic d q a = (q1, oi) /\ ext d p1 q1 /\ loaded_ok d p1.
Proof.
  intros Hwf0 He Hok Hp. unfold p_basic in *. destruct (p_load d p a) as [p2 acc] eqn:El.
  inversion Hp; subst p1 oi; clear Hp.
  destruct (load_ext d p q a p2 acc Hwf0 He El) as (q1 & Hq1 & He1 & _ & _ & Hok1).
  rewrite Hq1. eauto.
Qed.

Lemma touch_all_ext d bs : forall p q p' es,
  db_wf0 d -> ext d p q -> loaded_ok d p -> p_touch_all d p bs = (p', es) ->
  exists q', p_touch_all d q bs = (q', es) /\ ext d p' q' /\ loaded_ok d p' /\
             Forall (fun ae => code_ok_e d (snd ae)) es.
Proof.
  induction bs as [|[a f] bs IH]; intros p q p' es Hwf0 He Hok Hp; cbn [p_touch_all] in *.
  - inversion Hp; subst. eauto.
  - destruct (p_basic d p a) as [p1 oi] eqn:Eb.
    destruct (basic_ext d p q a p1 oi Hwf0 He Hok Eb) as (q1 & Hq1 & He1 & Hok1). rewrite Hq1.
    destruct (p_touch_all d p1 bs) as [p2 es2] eqn:Et. inversion Hp; subst p' es; clear Hp.
    destruct (IH p1 q1 p2 es2 Hwf0 He1 Hok1 Et) as (q2 & Hq2 & He2 & Hok2 & Hc). rewrite Hq2.
    exists q2. split; [reflexivity|]. split; [exact He2|]. split; [exact Hok2|].
    constructor; [apply touched_code_ok|exact Hc].
Qed.

Lemma increments_ext d bs p q p' ts :
  db_wf d -> ext d p q -> loaded_ok d p -> p_increments d p bs = Some (p', ts) ->
  exists q', p_increments d q bs = Some (q', ts) /\ ext d p' q' /\ loaded_ok d p'.
Proof.
  intros Hwf He Hok Hp. unfold p_increments in *.
  destruct (p_touch_all d p _) as [p1 es] eqn:Et.
  destruct (touch_all_ext d _ p q p1 es (db_wf_wf0 d Hwf) He Hok Et) as (q1 & Hq1 & He1 & Hok1 & Hc).
  rewrite Hq1. exact (apply_evm_state_ext d es p1 q1 p' ts Hwf He1 Hok1 Hc Hp).
Qed.

Lemma drain_all_ext d ads : forall p q p' bals es,
  db_wf0 d -> ext d p q -> loaded_ok d p -> p_drain_all d p ads = Some (p', bals, es) ->
  exists q', p_drain_all d q ads = Some (q', bals, es) /\ ext d p' q' /\ loaded_ok d p' /\
             Forall (fun ae => code_ok_e d (snd ae)) es.
Proof.
  induction ads as [|a ads IH]; intros p q p' bals es Hwf0 He Hok Hp; cbn [p_drain_all] in *.
  - inversion Hp; subst. eauto.
  - destruct (p_basic d p a) as [p1 oi] eqn:Eb.
    destruct (basic_ext d p q a p1 oi Hwf0 He Hok Eb) as (q1 & Hq1 & He1 & Hok1). rewrite Hq1.
    destruct (_ <=? U128_MAX); [|discriminate].
    destruct (p_drain_all d p1 ads) as [[[p2 bals2] es2]|] eqn:Et; [|discriminate].
    inversion Hp; subst p' bals es; clear Hp.
    destruct (IH p1 q1 p2 bals2 es2 Hwf0 He1 Hok1 Et) as (q2 & Hq2 & He2 & Hok2 & Hc). rewrite Hq2.
    exists q2. split; [reflexivity|]. split; [exact He2|]. split; [exact Hok2|].
    constructor; [apply touched_code_ok|exact Hc].
Qed.

Lemma drains_ext d ads p q p' bals ts :
  db_wf d -> ext d p q -> loaded_ok d p -> p_drains d p ads = Some (p', bals, ts) ->
  exists q', p_drains d q ads = Some (q', bals, ts) /\ ext d p' q' /\ loaded_ok d p'.
Proof.
  intros Hwf He Hok Hp. unfold p_drains in *.
  destruct (p_drain_all d p ads) as [[[p1 bals1] es]|] eqn:Et; [|discriminate].
  destruct (drain_all_ext d ads p q p1 bals1 es (db_wf_wf0 d Hwf) He Hok Et) as (q1 & Hq1 & He1 & Hok1 & Hc).
  rewrite Hq1.
  destruct (p_apply_evm_state p1 es) as [[p2 ts2]|] eqn:Ea; [|discriminate].
  inversion Hp; subst p' bals ts; clear Hp.
  destruct (apply_evm_state_ext d es p1 q1 p2 ts2 Hwf He1 Hok1 Hc Ea) as (q2 & Hq2 & He2 & Hok2).
  rewrite Hq2. eauto.
Qed.

(* ---------------------------------------------------------------- every operation *)
Lemma with_ts_ext d p q ts : ext d p q -> ext d (p_with_ts p ts) (p_with_ts q ts).
Proof. intros [HeA HeS HeC HeT]. apply mkExt; auto. Qed.

Lemma with_ts_ok d p ts : loaded_ok d p -> loaded_ok d (p_with_ts p ts).
Proof. intros H. exact H. Qed.

Lemma step_ext d p q o p' x :
  db_wf d -> ext d p q -> loaded_ok d p -> code_ok d o -> p_step d p o = (p', x) -> x <> OutPanic ->
  exists q', p_step d q o = (q', x) /\ ext d p' q' /\ loaded_ok d p'.
Proof.
  intros Hwf He Hok Hcode Hp Hx. pose proof (db_wf_wf0 d Hwf) as Hwf0. destruct o; cbn [p_step] in *.
  - destruct (p_apply_evm_state p es) as [[p1 ts]|] eqn:E; [|inversion Hp; subst; contradiction].
    inversion Hp; subst p' x; clear Hp.
    destruct (apply_evm_state_ext d es p q p1 ts Hwf He Hok Hcode E) as (q1 & Hq1 & He1 & Hok1).
    rewrite Hq1. eexists. split; [reflexivity|]. rewrite (E_ts _ _ _ He1). split; [now apply with_ts_ext|exact Hok1].
  - destruct (p_increments d p bs) as [[p1 ts]|] eqn:E; [|inversion Hp; subst; contradiction].
    inversion Hp; subst p' x; clear Hp.
    destruct (increments_ext d bs p q p1 ts Hwf He Hok E) as (q1 & Hq1 & He1 & Hok1).
    rewrite Hq1. eexists. split; [reflexivity|]. rewrite (E_ts _ _ _ He1). split; [now apply with_ts_ext|exact Hok1].
  - destruct (p_drains d p ads) as [[[p1 bals] ts]|] eqn:E; [|inversion Hp; subst; contradiction].
    inversion Hp; subst p' x; clear Hp.
    destruct (drains_ext d ads p q p1 bals ts Hwf He Hok E) as (q1 & Hq1 & He1 & Hok1).
    rewrite Hq1. eexists. split; [reflexivity|]. rewrite (E_ts _ _ _ He1). split; [now apply with_ts_ext|exact Hok1].
  - (* basic *)
    unfold p_basic in *. destruct (p_load d p a) as [p1 acc] eqn:El. inversion Hp; subst p' x; clear Hp.
    destruct (load_ext d p q a p1 acc Hwf0 He El) as (q1 & Hq1 & He1 & _ & _ & Hok1).
    rewrite Hq1. eauto.
  - (* storage *)
    pose proof He as [HeA HeS HeC HeT]. unfold p_storage_read in *.
    destruct (pslot p a k) as [v|] eqn:Ek.
    + inversion Hp; subst p' x; clear Hp. destruct (HeS a k) as [E|[E _]]; [|congruence].
      rewrite E, Ek. eauto.
    + inversion Hp; subst p' x; clear Hp.
      assert (Hb : (if p_known q a then 0 else db_storage d a k) = (if p_known p a then 0 else db_storage d a k)).
      { rewrite !p_known_of. apply (base_ext d p q a k Hwf0 He). }
      destruct (HeS a k) as [E|[_ E]].
      * rewrite E, Ek, Hb. eexists. split; [reflexivity|]. split; [|exact Hok].
        apply mkExt; auto. intros b j. rewrite !pslot_fill.
        destruct ((b =? a) && (j =? k)); [now left|apply HeS].
      * rewrite E. unfold base_of. rewrite <- p_known_of. exists q. split; [reflexivity|]. split; [|exact Hok].
        apply mkExt; auto. intros b j. rewrite pslot_fill.
        destruct (N.eqb_spec b a) as [->|]; simpl; [|apply HeS].
        destruct (N.eqb_spec j k) as [->|]; [|apply HeS].
        left. rewrite E. unfold base_of. now rewrite <- p_known_of.
  - (* code *)
    pose proof He as [HeA HeS HeC HeT]. unfold p_code in *.
    destruct (p_contracts p h) as [c|] eqn:Eh.
    + inversion Hp; subst p' x; clear Hp. destruct (HeC h) as [E|[E _]]; [|congruence]. rewrite E, Eh. eauto.
    + inversion Hp; subst p' x; clear Hp. destruct (HeC h) as [E|[_ E]].
      * rewrite E, Eh. eexists. split; [reflexivity|]. split; [|exact Hok].
        apply mkExt; auto. intros h'. simpl. unfold fset. destruct (h' =? h); [now left|apply HeC].
      * rewrite E. exists q. split; [reflexivity|]. split; [|exact Hok].
        apply mkExt; auto. intros h'. simpl. unfold fset. destruct (N.eqb_spec h' h) as [->|]; [now left|apply HeC].
  - inversion Hp; subst p' x; clear Hp. rewrite (E_ts _ _ _ He).
    eexists. split; [reflexivity|]. split; [now apply with_ts_ext|exact Hok].
Qed.

Lemma run_ext d ops : forall p q outs p',
  db_wf d -> ext d p q -> loaded_ok d p -> Forall (code_ok d) ops ->
  p_run d p ops = (outs, p') -> ~ In OutPanic outs ->
  exists q', p_run d q ops = (outs, q') /\ ext d p' q'.
Proof.
  induction ops as [|o ops IH]; intros p q outs p' Hwf He Hok Hcode Hp Hnp; cbn [p_run] in *.
  - inversion Hp; subst. eauto.
  - inversion Hcode as [|x l Hc1 Hc2]; subst.
    destruct (p_step d p o) as [p1 x] eqn:Es.
    assert (Hx : x <> OutPanic).
    { intros ->. inversion Hp; subst. apply Hnp. left. reflexivity. }
    destruct (step_ext d p q o p1 x Hwf He Hok Hc1 Es Hx) as (q1 & Hq1 & He1 & Hok1). rewrite Hq1.
    destruct (p_run d p1 ops) as [xs p2] eqn:Er.
    assert (Ho : outs = x :: xs /\ p' = p2) by (destruct x; inversion Hp; auto; contradiction).
    destruct Ho as [-> ->].
    destruct (IH p1 q1 xs p2 Hwf He1 Hok1 Hc2 Er) as (q2 & Hq2 & He2).
    { intros Hin. apply Hnp. right. exact Hin. }
    rewrite Hq2. exists q2. split; [destruct x; try reflexivity; contradiction|exact He2].
Qed.

Lemma loaded_ok_init d b : loaded_ok d (p_init b).
Proof. intros a acc H. discriminate. Qed.

(* an extra read before a history changes none of its outputs *)
Theorem read_insertion d p o ops outs p' :
  db_wf d -> loaded_ok d p -> is_read o = true -> Forall (code_ok d) ops ->
  p_run d p ops = (outs, p') -> ~ In OutPanic outs ->
  exists q', p_run d (fst (p_step d p o)) ops = (outs, q') /\ ext d p' q'.
Proof.
  intros Hwf Hok Hr Hcode Hrun Hnp. destruct (p_step d p o) as [p1 x] eqn:Es. simpl.
  eapply run_ext; eauto. eapply read_ext; eauto. now apply db_wf_wf0.
Qed.

Lemma run_loaded_ok d ops : forall p outs p',
  db_wf d -> loaded_ok d p -> Forall (code_ok d) ops -> p_run d p ops = (outs, p') -> ~ In OutPanic outs ->
  loaded_ok d p'.
Proof.
  induction ops as [|o ops IH]; intros p outs p' Hwf Hok Hcode Hp Hnp; cbn [p_run] in *.
  - inversion Hp; subst. exact Hok.
  - inversion Hcode as [|x l Hc1 Hc2]; subst.
    destruct (p_step d p o) as [p1 x] eqn:Es.
    assert (Hx : x <> OutPanic).
    { intros ->. inversion Hp; subst. apply Hnp. left. reflexivity. }
    destruct (step_ext d p p o p1 x Hwf (ext_refl d p) Hok Hc1 Es Hx) as (q1 & _ & _ & Hok1).
    destruct (p_run d p1 ops) as [xs p2] eqn:Er.
    assert (Ho : outs = x :: xs /\ p' = p2) by (destruct x; inversion Hp; auto; contradiction).
    destruct Ho as [-> ->]. eapply IH; eauto. intros Hin. apply Hnp. right. exact Hin.
Qed.

(* an extra read anywhere in a history from the initial state *)
Theorem read_insertion_anywhere d b ops1 o ops2 outs1 p1 outs2 p2 :
  db_wf d -> is_read o = true -> Forall (code_ok d) ops1 -> Forall (code_ok d) ops2 ->
  p_run d (p_init b) ops1 = (outs1, p1) -> ~ In OutPanic outs1 ->
  p_run d p1 ops2 = (outs2, p2) -> ~ In OutPanic outs2 ->
  exists q2, p_run d (fst (p_step d p1 o)) ops2 = (outs2, q2) /\ ext d p2 q2.
Proof.
  intros Hwf Hr Hc1 Hc2 Hrun1 Hnp1 Hrun2 Hnp2.
  apply (read_insertion d p1 o ops2 outs2 p2 Hwf); auto.
  apply (run_loaded_ok d ops1 (p_init b) outs1 p1 Hwf (loaded_ok_init d b) Hc1 Hrun1 Hnp1).
Qed.

(* ext-related states answer alike *)
Lemma ext_answers d p q :
  db_wf0 d -> ext d p q ->
  (forall a, p_basic_ans d q a = p_basic_ans d p a) /\
  (forall a k, p_storage_ans d q a k = p_storage_ans d p a k) /\
  (forall h, p_code_ans d q h = p_code_ans d p h).
Proof.
  intros Hwf [HeA HeS HeC HeT]. repeat split.
  - intros a. unfold p_basic_ans. destruct (HeA a) as [E|[E1 E2]]; [now rewrite E|]. now rewrite E1, E2.
  - intros a k. destruct (HeS a k) as [E|[E1 E2]].
    + unfold p_storage_ans. rewrite E. destruct (pslot p a k); [reflexivity|].
      rewrite !p_known_of. apply (base_ext d p q a k Hwf). now apply mkExt.
    + rewrite (ans_base d p a k E1). unfold p_storage_ans. now rewrite E2.
  - intros h. unfold p_code_ans. destruct (HeC h) as [E|[E1 E2]]; [now rewrite E|]. now rewrite E1, E2.
Qed.
