(* C10 - reads do not change what the state later serves, across commits (sequential).

   [ext d p q]: q is p with additional cache fills (accounts loaded, slots / code cached with the
   value p would answer).  Every operation maps ext-related states to ext-related states and
   returns the same output ([step_ext]); a read produces an ext-related state ([read_ext]).  Hence
   an extra read anywhere in a history changes no later output - read values, transitions, drained
   balances, merged transition states ([read_insertion]).
   Hypotheses: [db_wf] (no storage in the database for absent / empty / code-less nonce-less
   accounts: those are the accounts whose storage becomes "known" on their first change without a
   wipe), [code_ok], and the history does not panic on the state without the extra read. *)
From Grevm Require Import Base.Util Cache.Status Cache.Par Cache.SimProofs Cache.ReadProofs.
Open Scope N_scope.

Definition known_of (acc : pacct) : bool :=
  is_storage_known (snd acc) || match fst acc with None => true | Some _ => false end.

Definition base_of (d : db) (a : addr) (o : option pacct) (k : key) : word :=
  if match o with Some acc => known_of acc | None => false end then 0 else db_storage d a k.

Lemma p_known_of p a : p_known p a = match p_accounts p a with Some acc => known_of acc | None => false end.
Proof. unfold p_known, known_of. destruct (p_accounts p a) as [[oi st]|]; reflexivity. Qed.

Lemma ans_base d p a k : pslot p a k = None -> p_storage_ans d p a k = base_of d a (p_accounts p a) k.
Proof. intros H. unfold p_storage_ans, base_of. now rewrite H, p_known_of. Qed.

(* cached accounts are what the database gave, until first changed *)
Definition acc_ok (d : db) (a : addr) (acc : pacct) : Prop :=
  (fst acc = None -> is_storage_known (snd acc) = true) /\
  (snd acc = Loaded -> exists i, fst acc = Some i /\ db_basic d a = Some i) /\
  (snd acc = LoadedEmptyEIP161 -> exists i, db_basic d a = Some i /\ info_is_empty i = true).

Definition loaded_ok (d : db) (p : pstate) : Prop :=
  forall a acc, p_accounts p a = Some acc -> acc_ok d a acc.

Lemma load_pair_ok d a : acc_ok d a (load_pair d a).
Proof.
  unfold acc_ok, load_pair. destruct (db_basic d a) as [i|] eqn:E; simpl.
  - destruct (info_is_empty i) eqn:Ee; simpl; repeat split; try discriminate; eauto.
  - repeat split; try discriminate; auto.
Qed.

Lemma base_load d a k : db_wf0 d -> base_of d a (Some (load_pair d a)) k = base_of d a None k.
Proof.
  intros Hwf. unfold base_of, known_of.
  destruct (load_pair_cases d a) as [(Eb & E)|(i & _ & [E|E])]; rewrite E; simpl; auto.
  symmetry. now apply Hwf.
Qed.

(* a change (on_changed) that makes the storage known without a wipe: only for bare accounts *)
Lemma base_changed d a acc i' k :
  db_wf d -> acc_ok d a acc ->
  base_of d a (Some (Some i', on_changed (snd acc) (had_no_nonce_and_code (fst acc)))) k = base_of d a (Some acc) k.
Proof.
  intros Hwf (Hn & Hl & He). destruct acc as [oi st]. unfold base_of, known_of. simpl in *.
  rewrite orb_false_r.
  destruct oi as [i|].
  - rewrite orb_false_r. destruct st; simpl; try reflexivity.
    + destruct (Hl eq_refl) as (i0 & Ei & Eb). inversion Ei; subst i0.
      destruct (has_no_code_and_nonce i) eqn:Eh; simpl; [|reflexivity].
      symmetry. apply Hwf. unfold bare. rewrite Eb, Eh. apply orb_true_r.
    + destruct (He eq_refl) as (i0 & Eb & Ee). symmetry. apply Hwf. unfold bare. now rewrite Eb, Ee.
  - rewrite (Hn eq_refl), orb_true_r. now rewrite known_on_changed by (now apply Hn).
Qed.

Record ext (d : db) (p q : pstate) : Prop := mkExt {
  E_acct : forall a, p_accounts q a = p_accounts p a \/
                     (p_accounts p a = None /\ p_accounts q a = Some (load_pair d a));
  E_slot : forall a k, pslot q a k = pslot p a k \/
                       (pslot p a k = None /\ pslot q a k = Some (base_of d a (p_accounts p a) k));
  E_code : forall h, p_contracts q h = p_contracts p h \/
                     (p_contracts p h = None /\ p_contracts q h = Some (db_code d h));
  E_ts : p_ts q = p_ts p;
}.

Lemma ext_refl d p : ext d p p.
Proof. split; auto. Qed.

Lemma base_ext d p q a k : db_wf0 d -> ext d p q -> base_of d a (p_accounts q a) k = base_of d a (p_accounts p a) k.
Proof.
  intros Hwf He. destruct (E_acct _ _ _ He a) as [E|[E1 E2]]; [now rewrite E|].
  rewrite E1, E2. now apply base_load.
Qed.

(* ---------------------------------------------------------------- a read extends *)
Lemma read_ext d p o p' x : db_wf0 d -> is_read o = true -> p_step d p o = (p', x) -> ext d p p'.
Proof.
  intros Hwf Hr Hs. destruct o; try discriminate; simpl in Hs.
  - unfold p_basic, p_load in Hs. destruct (p_accounts p a) as [acc|] eqn:Ea; inversion Hs; subst; [apply ext_refl|].
    apply mkExt; try (intros; left; reflexivity); try reflexivity.
    intros b. simpl. unfold fset. destruct (N.eqb_spec b a) as [->|]; [right; auto|left; reflexivity].
  - unfold p_storage_read in Hs. destruct (pslot p a k) as [v|] eqn:Ek; inversion Hs; subst; [apply ext_refl|].
    apply mkExt; try (intros; left; reflexivity); try reflexivity.
    intros b j. rewrite pslot_fill.
    destruct (N.eqb_spec b a) as [->|]; simpl; [|left; reflexivity].
    destruct (N.eqb_spec j k) as [->|]; [|left; reflexivity].
    right. split; [exact Ek|]. unfold base_of. now rewrite <- p_known_of.
  - unfold p_code in Hs. destruct (p_contracts p h) as [c|] eqn:Eh; inversion Hs; subst; [apply ext_refl|].
    apply mkExt; try (intros; left; reflexivity); try reflexivity.
    intros h'. simpl. unfold fset. destruct (N.eqb_spec h' h) as [->|]; [right; auto|left; reflexivity].
Qed.

(* ---------------------------------------------------------------- loads *)
Lemma load_ext d p q a p1 acc :
  db_wf0 d -> ext d p q -> p_load d p a = (p1, acc) ->
  exists q1, p_load d q a = (q1, acc) /\ ext d p1 q1 /\ p_accounts p1 a = Some acc /\ p_accounts q1 a = Some acc /\
             (loaded_ok d p -> loaded_ok d p1).
Proof.
  intros Hwf He Hl. pose proof He as [HeA HeS HeC HeT]. unfold p_load in *.
  destruct (p_accounts p a) as [pa|] eqn:Ep.
  - inversion Hl; subst p1 acc. destruct (HeA a) as [E|[E _]]; [|congruence].
    rewrite Ep in E. exists q. rewrite E. split; [reflexivity|]. split; [exact He|].
    split; [exact Ep|]. split; [reflexivity|auto].
  - inversion Hl; subst p1 acc. clear Hl.
    assert (Hslot : forall b k, pslot q b k = pslot p b k \/
                (pslot p b k = None /\
                 pslot q b k = Some (base_of d b (fset (p_accounts p) a (load_pair d a) b) k))).
    { intros b k. destruct (HeS b k) as [E|[E1 E2]]; [now left|]. right. split; [exact E1|]. rewrite E2. f_equal.
      unfold fset. destruct (N.eqb_spec b a) as [->|]; [|reflexivity].
      rewrite Ep. symmetry. now apply base_load. }
    assert (Hok : loaded_ok d p -> loaded_ok d (p_put p a (load_pair d a))).
    { intros H b acc. simpl. unfold fset. destruct (N.eqb_spec b a) as [->|]; [|apply H].
      intros E. inversion E; subst. apply load_pair_ok. }
    destruct (HeA a) as [E|[_ E]].
    + rewrite Ep in E. rewrite E. eexists. split; [reflexivity|].
      split; [|split; [apply fset_same|split; [apply fset_same|exact Hok]]].
      apply mkExt.
      * intros b. simpl. unfold fset. destruct (b =? a); [now left|apply HeA].
      * exact Hslot.
      * exact HeC.
      * exact HeT.
    + rewrite E. exists q. split; [reflexivity|].
      split; [|split; [apply fset_same|split; [exact E|exact Hok]]].
      apply mkExt.
      * intros b. simpl. unfold fset. destruct (N.eqb_spec b a) as [->|]; [now left|apply HeA].
      * exact Hslot.
      * exact HeC.
      * exact HeT.
Qed.

(* same account replaced on both sides; the base answer of its uncached slots must not move *)
Lemma put_ext d p q a acc acc' :
  ext d p q -> p_accounts p a = Some acc -> p_accounts q a = Some acc ->
  (forall k, base_of d a (Some acc') k = base_of d a (Some acc) k) ->
  ext d (p_put p a acc') (p_put q a acc').
Proof.
  intros [HeA HeS HeC HeT] Ep Eq Hb. apply mkExt.
  - intros b. simpl. unfold fset. destruct (b =? a); [now left|apply HeA].
  - intros b k. change (pslot (p_put q a acc') b k) with (pslot q b k).
    change (pslot (p_put p a acc') b k) with (pslot p b k).
    destruct (HeS b k) as [E|[E1 E2]]; [now left|]. right. split; [exact E1|]. rewrite E2. f_equal.
    simpl. unfold fset. destruct (N.eqb_spec b a) as [->|]; [|reflexivity]. rewrite Ep. symmetry. apply Hb.
  - exact HeC.
  - exact HeT.
Qed.

Lemma put_ok d p a acc' : loaded_ok d p -> acc_ok d a acc' -> loaded_ok d (p_put p a acc').
Proof.
  intros H Ha b acc. simpl. unfold fset. destruct (N.eqb_spec b a) as [->|]; [|apply H].
  intros E. inversion E; subst. exact Ha.
Qed.

Lemma info_change_ok d a acc f : acc_ok d a (fst (p_info_change acc f)).
Proof.
  unfold p_info_change, acc_ok. destruct acc as [oi st]. simpl. repeat split; try discriminate;
    intros H; destruct st, (had_no_nonce_and_code oi); discriminate.
Qed.

Lemma increments_ext d bs : forall p q p' ts,
  db_wf d -> ext d p q -> loaded_ok d p -> p_increments d p bs = (p', ts) ->
  exists q', p_increments d q bs = (q', ts) /\ ext d p' q' /\ loaded_ok d p'.
Proof.
  induction bs as [|[a inc] bs IH]; intros p q p' ts Hwf He Hok Hp; cbn [p_increments] in *.
  - inversion Hp; subst. eauto.
  - destruct (inc =? 0); [eauto|].
    destruct (p_load d p a) as [p1 acc] eqn:El.
    destruct (load_ext d p q a p1 acc (db_wf_wf0 d Hwf) He El) as (q1 & Hq1 & He1 & Ep1 & Eq1 & Hok1).
    rewrite Hq1. unfold p_increment in *.
    destruct (p_info_change acc _) as [acc' t] eqn:Eic.
    destruct (p_increments d (p_put p1 a acc') bs) as [p2 ts2] eqn:Er.
    inversion Hp; subst p' ts; clear Hp.
    assert (Hacc' : acc' = fst (p_info_change acc (fun i => set_balance i (sat_add (balance i) inc)))) by now rewrite Eic.
    destruct (IH (p_put p1 a acc') (p_put q1 a acc') p2 ts2 Hwf) as (q2 & Hq2 & He2 & Hok2); auto.
    + eapply put_ext; eauto. intros k. subst acc'. unfold p_info_change. simpl.
      apply base_changed; [exact Hwf|]. apply (Hok1 Hok a acc Ep1).
    + apply put_ok; [now apply Hok1|]. subst acc'. apply info_change_ok.
    + exists q2. rewrite Hq2. auto.
Qed.

Lemma drains_ext d ads : forall p q p' bals ts,
  db_wf d -> ext d p q -> loaded_ok d p -> p_drains d p ads = Some (p', bals, ts) ->
  exists q', p_drains d q ads = Some (q', bals, ts) /\ ext d p' q' /\ loaded_ok d p'.
Proof.
  induction ads as [|a ads IH]; intros p q p' bals ts Hwf He Hok Hp; cbn [p_drains] in *.
  - inversion Hp; subst. eauto.
  - destruct (p_load d p a) as [p1 acc] eqn:El.
    destruct (load_ext d p q a p1 acc (db_wf_wf0 d Hwf) He El) as (q1 & Hq1 & He1 & Ep1 & Eq1 & Hok1).
    rewrite Hq1. unfold p_drain in *.
    destruct (_ <=? U128_MAX); [|discriminate].
    destruct (p_info_change acc _) as [acc' t] eqn:Eic.
    destruct (p_drains d (p_put p1 a acc') ads) as [[[p2 bals2] ts2]|] eqn:Er; [|discriminate].
    inversion Hp; subst p' bals ts; clear Hp.
    assert (Hacc' : acc' = fst (p_info_change acc (fun i => set_balance i 0))) by now rewrite Eic.
    destruct (IH (p_put p1 a acc') (p_put q1 a acc') p2 bals2 ts2 Hwf) as (q2 & Hq2 & He2 & Hok2); auto.
    + eapply put_ext; eauto. intros k. subst acc'. unfold p_info_change. simpl.
      apply base_changed; [exact Hwf|]. apply (Hok1 Hok a acc Ep1).
    + apply put_ok; [now apply Hok1|]. subst acc'. apply info_change_ok.
    + exists q2. rewrite Hq2. auto.
Qed.
