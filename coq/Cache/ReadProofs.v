(* C10 - a cache-filling read of grevm's ParallelState returns the pure answer and changes no
   answer (sequential).  Needs [db_wf0]: loading a non-existing account makes its storage "known"
   (zero), which agrees with the database only if the database has no storage for it. *)
From Grevm Require Import Base.Util Cache.Status Cache.Par Cache.SimProofs.
Open Scope N_scope.

Definition is_read (o : op) : bool :=
  match o with OBasic _ | OStorage _ _ | OCode _ => true | _ => false end.

(* what the read returns, computed without touching the cache *)
Definition p_answer (d : db) (p : pstate) (o : op) : out :=
  match o with
  | OBasic a => OutInfo (p_basic_ans d p a)
  | OStorage a k => OutWord (p_storage_ans d p a k)
  | OCode h => OutCode (p_code_ans d p h)
  | _ => OutPanic
  end.

Definition same_answers (d : db) (p q : pstate) : Prop :=
  (forall a, p_basic_ans d q a = p_basic_ans d p a) /\
  (forall a k, p_storage_ans d q a k = p_storage_ans d p a k) /\
  (forall h, p_code_ans d q h = p_code_ans d p h).

Lemma same_answers_refl d p : same_answers d p p.
Proof. repeat split. Qed.

Lemma same_answers_trans d p q s : same_answers d p q -> same_answers d q s -> same_answers d p s.
Proof.
  intros (A1 & A2 & A3) (B1 & B2 & B3). repeat split; intros.
  - now rewrite B1. - now rewrite B2. - now rewrite B3.
Qed.

Lemma read_step d p o p' x :
  db_wf0 d -> is_read o = true -> p_step d p o = (p', x) ->
  x = p_answer d p o /\ same_answers d p p'.
Proof.
  intros Hwf Hr Hs. destruct o; try discriminate; simpl in Hs.
  - (* basic *)
    unfold p_basic, p_load in Hs. destruct (p_accounts p a) as [acc|] eqn:Ea.
    + inversion Hs; subst. split; [|apply same_answers_refl]. simpl. unfold p_basic_ans. now rewrite Ea.
    + inversion Hs; subst p' x; clear Hs. split; [simpl; unfold p_basic_ans; now rewrite Ea|].
      repeat split.
      * intros b. unfold p_basic_ans. simpl. unfold fset. destruct (N.eqb_spec b a) as [->|]; [now rewrite Ea|reflexivity].
      * intros b k. unfold p_storage_ans, p_known. change (pslot (p_put p a (load_pair d a)) b k) with (pslot p b k).
        destruct (pslot p b k); [reflexivity|]. simpl. unfold fset.
        destruct (N.eqb_spec b a) as [->|]; [|reflexivity]. rewrite Ea.
        destruct (load_pair_cases d a) as [(Eb & E)|(i & _ & [E|E])]; rewrite E; simpl; [|reflexivity|reflexivity].
        symmetry. now apply Hwf.
  - (* storage *)
    unfold p_storage_read in Hs. destruct (pslot p a k) as [v|] eqn:Ek.
    + inversion Hs; subst. split; [|apply same_answers_refl]. simpl. unfold p_storage_ans. now rewrite Ek.
    + inversion Hs; subst p' x; clear Hs. split; [simpl; unfold p_storage_ans; now rewrite Ek|].
      repeat split.
      * intros b k'. unfold p_storage_ans. rewrite pslot_fill.
        destruct (N.eqb_spec b a) as [->|]; simpl.
        -- destruct (N.eqb_spec k' k) as [->|]; [now rewrite Ek|reflexivity].
        -- reflexivity.
  - (* code *)
    unfold p_code in Hs. destruct (p_contracts p h) as [c|] eqn:Eh.
    + inversion Hs; subst. split; [|apply same_answers_refl]. simpl. unfold p_code_ans. now rewrite Eh.
    + inversion Hs; subst p' x; clear Hs. split; [simpl; unfold p_code_ans; now rewrite Eh|].
      repeat split. intros h'. unfold p_code_ans. simpl. unfold fset.
      destruct (N.eqb_spec h' h) as [->|]; [now rewrite Eh|reflexivity].
Qed.

Lemma p_answer_same d p q o : same_answers d p q -> is_read o = true -> p_answer d q o = p_answer d p o.
Proof.
  intros (A1 & A2 & A3) Hr. destruct o; try discriminate; simpl; f_equal; auto.
Qed.

(* any sequence of reads: every output is the pure answer in the state before the first read, so
   the order of reads, and reads done in between, do not matter *)
Lemma reads_run d ops : forall p outs p',
  db_wf0 d -> forallb is_read ops = true -> p_run d p ops = (outs, p') ->
  outs = map (p_answer d p) ops /\ same_answers d p p'.
Proof.
  induction ops as [|o ops IH]; intros p outs p' Hwf Hr Hrun; simpl in *.
  - inversion Hrun; subst. split; [reflexivity|apply same_answers_refl].
  - apply andb_prop in Hr. destruct Hr as [Hr1 Hr2].
    destruct (p_step d p o) as [p1 x] eqn:Es.
    destruct (read_step d p o p1 x Hwf Hr1 Es) as (Ex & Hsame).
    destruct (p_run d p1 ops) as [xs p2] eqn:Er.
    destruct (IH p1 xs p2 Hwf Hr2 Er) as (Exs & Hsame2).
    assert (Hx : x <> OutPanic) by (subst x; destruct o; discriminate).
    assert (Ho : outs = x :: xs /\ p' = p2) by (destruct x; inversion Hrun; auto; contradiction).
    destruct Ho as [-> ->]. split; [|eapply same_answers_trans; eauto].
    f_equal; [exact Ex|]. rewrite Exs. apply map_ext_in. intros o' Hin.
    apply p_answer_same; [exact Hsame|]. rewrite forallb_forall in Hr2. now apply Hr2.
Qed.
