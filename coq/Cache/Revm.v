(* C10 - model of the reference: revm_database::State driven through its `Database` /
   `DatabaseCommit` interface (definitions only, no proofs).

   Transcribed from revm-database-15.0.2/src/states:
     cache_account.rs (CA:<line>)  CacheAccount::{touch_empty_eip161, selfdestruct, newly_created,
                                   increment_balance, account_info_change, drain_balance, change}
     cache.rs (CS:<line>)          CacheState::apply_account_state, apply_evm_state_iter
     state.rs (ST:<line>)          State::{load_cache_account_with, storage, basic, code_by_hash,
                                   commit, apply_transition, merge_transitions}
   State is built `with_bundle_update` (transition_state = Some) or without (None), with
   `use_preloaded_bundle = false` and no BAL (both unused by grevm).
   `State::increment_balances` / `drain_balances` are the default methods of `DatabaseCommitExt`
   (revm-database-interface 12.1.1, lib.rs:287-345; `State` has no inherent ones any more): every
   listed account is read through `basic` (which caches it) and turned into a touched journal
   account with the new balance; the collected accounts are then committed one after the other
   (`commit_iter`).  Consequences the old per-account loop did not have: a zero amount touches the
   account, an account left empty is cleared, and a repeated address is computed from the value
   before the call. *)
From Grevm Require Import Base.Util Cache.Status.
Open Scope N_scope.

(* CacheAccount { account: Option<PlainAccount{info, storage}>, status } *)
Definition racct := (option (info * fmap word) * status)%type.

Definition ra_info (a : racct) : option info := option_map fst (fst a).

Definition no_slots : list (key * (word * word)) := [].

(* `.iter().map(|(k, s)| (k, s.present_value)).collect()` and `extend` (CA:188-191, 273) *)
Fixpoint extend_present (m : fmap word) (st : list (key * (word * word))) : fmap word :=
  match st with
  | [] => m
  | (k, (_, pres)) :: st' => extend_present (fset m k pres) st'
  end.

(* CA:122-151 *)
Definition r_touch_empty (a : racct) : racct * option trans :=
  let st := snd a in
  let st' := on_touched_empty_post_eip161 st in
  ((None, st'),
   match st with
   | LoadedNotExisting | Destroyed | DestroyedAgain => None
   | _ => Some (mkTrans None st' (ra_info a) st no_slots true)
   end).

(* CA:156-176 *)
Definition r_selfdestruct (a : racct) : racct * option trans :=
  let st := snd a in
  let st' := on_selfdestructed st in
  ((None, st'),
   match st with
   | LoadedNotExisting => None
   | _ => Some (mkTrans None st' (ra_info a) st no_slots true)
   end).

(* CA:179-205 *)
Definition r_newly_created (a : racct) (new_info : info) (new_storage : list (key * (word * word)))
  : racct * trans :=
  let st := snd a in
  let st' := on_created st in
  ((Some (new_info, extend_present fempty new_storage), st'),
   mkTrans (Some new_info) st' (ra_info a) st new_storage false).

(* CA:220-247: `self.account.take().unwrap_or_default()`; PlainAccount::default() has the default
   info and no storage *)
Definition r_info_change (a : racct) (f : info -> info) : racct * trans :=
  let st := snd a in
  let prev := ra_info a in
  let '(i, m) := match fst a with Some im => im | None => (default_info, fempty) end in
  let i' := f i in
  let st' := on_changed st (had_no_nonce_and_code prev) in
  ((Some (i', m), st'), mkTrans (Some i') st' prev st no_slots false).

(* CA:261-294 *)
Definition r_change (a : racct) (new : info) (storage : list (key * (word * word))) : racct * trans :=
  let st := snd a in
  let prev := ra_info a in
  let m := match fst a with Some (_, m) => m | None => fempty end in
  let st' := on_changed st (had_no_nonce_and_code prev) in
  ((Some (new, extend_present m storage), st'),
   mkTrans (Some new) st' prev st storage false).

Record rstate := mkR {
  r_accounts : fmap racct;
  r_contracts : fmap codeid;
  r_ts : option tstate;
}.

Definition r_init (bundle_update : bool) : rstate :=
  mkR fempty fempty (if bundle_update then Some [] else None).

(* ST:160-187 with use_preloaded_bundle = false *)
Definition r_loaded (d : db) (a : addr) : racct :=
  let '(oi, st) := load_pair d a in (option_map (fun i => (i, fempty)) oi, st).

Definition r_load (d : db) (r : rstate) (a : addr) : rstate * racct :=
  match r_accounts r a with
  | Some acc => (r, acc)
  | None => let acc := r_loaded d a in
            (mkR (fset (r_accounts r) a acc) (r_contracts r) (r_ts r), acc)
  end.

(* CS:183-251.  The vacant-entry path (CS:196-209) builds the account from `original_info`. *)
Definition r_apply_account (r : rstate) (a : addr) (e : eaccount) : rstate * option trans :=
  if negb (e_touched e) then (r, None) else
  let this :=
    match r_accounts r a with
    | Some acc => acc
    | None =>
        if e_lne e then (None, LoadedNotExisting)
        else if info_is_empty (e_orig_info e) then (Some (default_info, fempty), LoadedEmptyEIP161)
        else (Some (e_orig_info e, fempty), Loaded)
    end in
  let put acc := mkR (fset (r_accounts r) a acc) (r_contracts r) (r_ts r) in
  if e_destructed e then
    let '(acc, t) := r_selfdestruct this in (put acc, t)
  else
    let changed := changed_storage (e_storage e) in
    if e_created e then
      let '(acc, t) := r_newly_created this (e_info e) changed in (put acc, Some t)
    else if info_is_empty (e_info e) then
      let '(acc, t) := r_touch_empty this in (put acc, t)
    else
      let '(acc, t) := r_change this (e_info e) changed in (put acc, Some t).

(* CS:108-121 *)
Fixpoint r_apply_evm_state (r : rstate) (es : list (addr * eaccount)) : rstate * list (addr * trans) :=
  match es with
  | [] => (r, [])
  | (a, e) :: es' =>
      let '(r1, t) := r_apply_account r a e in
      let '(r2, ts) := r_apply_evm_state r1 es' in
      (r2, match t with Some t => (a, t) :: ts | None => ts end)
  end.

Definition r_with_ts (r : rstate) (ts : option tstate) : rstate :=
  mkR (r_accounts r) (r_contracts r) ts.

Definition r_put (r : rstate) (a : addr) (acc : racct) : rstate :=
  mkR (fset (r_accounts r) a acc) (r_contracts r) (r_ts r).

(* ST:302-322 without BAL *)
Definition r_basic (d : db) (r : rstate) (a : addr) : rstate * option info :=
  let '(r1, acc) := r_load d r a in (r1, ra_info acc).

(* first pass of increment_balances: `self.basic(address)?` for every listed address, in order *)
Fixpoint r_touch_all (d : db) (r : rstate) (bs : list (addr * (info -> info))) : rstate * list (addr * eaccount) :=
  match bs with
  | [] => (r, [])
  | (a, f) :: bs' =>
      let '(r1, oi) := r_basic d r a in
      let '(r2, es) := r_touch_all d r1 bs' in
      (r2, (a, touched_account oi f) :: es)
  end.

Definition r_increments (d : db) (r : rstate) (bs : list (addr * N)) : rstate * list (addr * trans) :=
  let '(r1, es) := r_touch_all d r (map (fun b => (fst b, incr_fun (snd b))) bs) in
  r_apply_evm_state r1 es.

(* first pass of drain_balances; None = `balance.try_into::<u128>().unwrap()` panics *)
Fixpoint r_drain_all (d : db) (r : rstate) (ads : list addr) : option (rstate * list N * list (addr * eaccount)) :=
  match ads with
  | [] => Some (r, [], [])
  | a :: ads' =>
      let '(r1, oi) := r_basic d r a in
      let bal := balance (match oi with Some i => i | None => default_info end) in
      if bal <=? U128_MAX then
        match r_drain_all d r1 ads' with
        | None => None
        | Some (r2, bals, es) => Some (r2, bal :: bals, (a, touched_account oi drain_fun) :: es)
        end
      else None
  end.

Definition r_drains (d : db) (r : rstate) (ads : list addr) : option (rstate * list N * list (addr * trans)) :=
  match r_drain_all d r ads with
  | None => None
  | Some (r1, bals, es) => let '(r2, ts) := r_apply_evm_state r1 es in Some (r2, bals, ts)
  end.

(* ST:263-296: `Database::storage` - the account is loaded (and cached) first *)
Definition r_storage (d : db) (r : rstate) (a : addr) (k : key) : rstate * word :=
  let '(r1, acc) := r_load d r a in
  match fst acc with
  | None => (r1, 0)
  | Some (i, m) =>
      match m k with
      | Some v => (r1, v)
      | None =>
          let v := if is_storage_known (snd acc) then 0 else db_storage d a k in
          (r_put r1 a (Some (i, fset m k v), snd acc), v)
      end
  end.

(* ST:324-346 *)
Definition r_code (d : db) (r : rstate) (h : hash) : rstate * codeid :=
  match r_contracts r h with
  | Some c => (r, c)
  | None => let c := db_code d h in (mkR (r_accounts r) (fset (r_contracts r) h c) (r_ts r), c)
  end.

Definition r_step (d : db) (r : rstate) (o : op) : rstate * out :=
  match o with
  | OCommit es =>
      let '(r1, ts) := r_apply_evm_state r es in
      (r_with_ts r1 (apply_transition (r_ts r1) ts), OutTrans ts)
  | OIncrement bs =>
      let '(r1, ts) := r_increments d r bs in
      (r_with_ts r1 (apply_transition (r_ts r1) ts), OutTrans ts)
  | ODrain ads =>
      match r_drains d r ads with
      | None => (r, OutPanic)
      | Some (r1, bals, ts) => (r_with_ts r1 (apply_transition (r_ts r1) ts), OutDrain bals ts)
      end
  | OBasic a => let '(r1, i) := r_basic d r a in (r1, OutInfo i)
  | OStorage a k => let '(r1, w) := r_storage d r a k in (r1, OutWord w)
  | OCode h => let '(r1, c) := r_code d r h in (r1, OutCode c)
  | OMerge =>
      (* `self.transition_state.as_mut().map(TransitionState::take)` *)
      (r_with_ts r (match r_ts r with Some _ => Some [] | None => None end), OutMerged (r_ts r))
  end.

(* a history; stops at the first panic *)
Fixpoint r_run (d : db) (r : rstate) (ops : list op) : list out * rstate :=
  match ops with
  | [] => ([], r)
  | o :: ops' =>
      let '(r1, x) := r_step d r o in
      match x with
      | OutPanic => ([OutPanic], r1)
      | _ => let '(xs, r2) := r_run d r1 ops' in (x :: xs, r2)
      end
  end.

(* pure answers (what a read would return, without the fill) *)
Definition r_acct_view (d : db) (r : rstate) (a : addr) : racct :=
  match r_accounts r a with Some acc => acc | None => r_loaded d a end.

Definition r_basic_ans (d : db) (r : rstate) (a : addr) : option info := ra_info (r_acct_view d r a).

Definition r_storage_ans (d : db) (r : rstate) (a : addr) (k : key) : word :=
  let acc := r_acct_view d r a in
  match fst acc with
  | None => 0
  | Some (_, m) => match m k with
                   | Some v => v
                   | None => if is_storage_known (snd acc) then 0 else db_storage d a k
                   end
  end.

Definition r_code_ans (d : db) (r : rstate) (h : hash) : codeid :=
  match r_contracts r h with Some c => c | None => db_code d h end.
