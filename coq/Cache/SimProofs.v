(* C10 - sequential part: grevm's ParallelState (Cache/Par.v) simulates revm's State (Cache/Revm.v).

   The relation [R] says, per address: same (info, status); the slots cached on the grevm side
   are the slots cached on the revm side, except that grevm may additionally hold a cached zero
   where the status says "storage known" (it caches the zero it answers for a destroyed / new
   account, revm does not); an address revm has loaded while serving a storage read and grevm has
   not holds exactly what the database gives.  [R] implies equal answers ([R_answers]) and is
   preserved by every operation ([step_sim]); outputs are equal.

   Hypotheses (all on the input, see Props/C10.v): [db_wf0] - the database has no storage for an
   address without account; [code_ok] - code carried by a created account is the code the database
   serves for its hash; the grevm side does not panic (every committed account was loaded). *)
From Grevm Require Import Base.Util Cache.Status Cache.Revm Cache.Par.
Open Scope N_scope.

(* ---------------------------------------------------------------- status facts *)
Lemma known_on_selfdestructed st : is_storage_known (on_selfdestructed st) = true.
Proof. destruct st; reflexivity. Qed.
Lemma known_on_created st : is_storage_known (on_created st) = true.
Proof. destruct st; reflexivity. Qed.
Lemma known_on_touched st : is_storage_known (on_touched_empty_post_eip161 st) = true.
Proof. destruct st; reflexivity. Qed.
Lemma known_on_changed st b : is_storage_known st = true -> is_storage_known (on_changed st b) = true.
Proof. destruct st, b; simpl; congruence. Qed.

(* ---------------------------------------------------------------- functional maps *)
Lemma fset_same {V} (m : fmap V) k v : fset m k v k = Some v.
Proof. unfold fset. now rewrite N.eqb_refl. Qed.
Lemma fset_other {V} (m : fmap V) k v j : j <> k -> fset m k v j = m j.
Proof. unfold fset. intros H. destruct (N.eqb_spec j k); [contradiction|reflexivity]. Qed.
Lemma fdel_same {V} (m : fmap V) k : fdel m k k = None.
Proof. unfold fdel. now rewrite N.eqb_refl. Qed.
Lemma fdel_other {V} (m : fmap V) k j : j <> k -> fdel m k j = m j.
Proof. unfold fdel. intros H. destruct (N.eqb_spec j k); [contradiction|reflexivity]. Qed.

Lemma insert_extend_same m l k : insert_present m l k = extend_present m l k.
Proof.
  revert m. induction l as [|[k' [o p]] l IH]; intros m; simpl; [reflexivity|apply IH].
Qed.

(* ---------------------------------------------------------------- the relation *)
Definition db_wf0 (d : db) : Prop :=
  forall a, db_basic d a = None -> forall k, db_storage d a k = 0.

Definition rslot (acc : racct) (k : key) : option word :=
  match fst acc with Some (_, m) => m k | None => None end.

Definition slot_rel (st : status) (ps rs : option word) : Prop :=
  ps = rs \/ (ps = Some 0 /\ rs = None /\ is_storage_known st = true).

Definition arel (d : db) (a : addr) (pa : option pacct) (ps : key -> option word) (ra : option racct) : Prop :=
  match ra with
  | None => pa = None /\ forall k, ps k = None
  | Some racc =>
      match pa with
      | Some pacc => pacc = (ra_info racc, snd racc)
      | None => (ra_info racc, snd racc) = load_pair d a
      end /\
      (fst racc = None -> is_storage_known (snd racc) = true) /\
      forall k, slot_rel (snd racc) (ps k) (rslot racc k)
  end.

Definition acct_rel (d : db) (p : pstate) (r : rstate) (a : addr) : Prop :=
  arel d a (p_accounts p a) (pslot p a) (r_accounts r a).

Definition contracts_rel (d : db) (p : pstate) (r : rstate) : Prop :=
  forall h, match r_contracts r h with
            | Some c => p_contracts p h = Some c
            | None => p_contracts p h = None \/ p_contracts p h = Some (db_code d h)
            end.

Record R (d : db) (p : pstate) (r : rstate) : Prop := mkRel {
  R_acct : forall a, acct_rel d p r a;
  R_contracts : contracts_rel d p r;
  R_ts : p_ts p = r_ts r;
}.

Lemma R_init d b : R d (p_init b) (r_init b).
Proof.
  split.
  - intros a. unfold acct_rel, arel, pslot. simpl. unfold fempty. auto.
  - intros h. simpl. unfold fempty. auto.
  - reflexivity.
Qed.

(* ---------------------------------------------------------------- answers *)
Lemma load_pair_cases d a :
  (db_basic d a = None /\ load_pair d a = (None, LoadedNotExisting)) \/
  (exists i, db_basic d a = Some i /\
     (load_pair d a = (Some default_info, LoadedEmptyEIP161) \/ load_pair d a = (Some i, Loaded))).
Proof.
  unfold load_pair. destruct (db_basic d a) as [i|]; [right|left; auto].
  exists i. split; [reflexivity|]. destruct (info_is_empty i); auto.
Qed.

Lemma R_storage_ans d p r a k :
  db_wf0 d -> acct_rel d p r a -> p_storage_ans d p a k = r_storage_ans d r a k.
Proof.
  intros Hwf H. unfold acct_rel, arel in H. unfold p_storage_ans, r_storage_ans, r_acct_view, p_known.
  destruct (r_accounts r a) as [[racc st]|] eqn:Er.
  - destruct H as (Hp & Hn & Hs). specialize (Hs k). unfold rslot in Hs. simpl in *.
    destruct (p_accounts p a) as [[pi pst]|] eqn:Ep.
    + inversion Hp; subst pi pst. unfold ra_info; simpl.
      destruct racc as [[i m]|]; simpl in *.
      * destruct Hs as [Hs|(Hs & Hm & Hk)].
        -- rewrite Hs. destruct (m k); [reflexivity|]. now rewrite orb_false_r.
        -- rewrite Hs, Hm, Hk. reflexivity.
      * destruct Hs as [Hs|(Hs & _)]; rewrite Hs; [|reflexivity]. now rewrite orb_true_r.
    + unfold ra_info in Hp; simpl in Hp.
      destruct racc as [[i m]|]; simpl in *.
      * destruct Hs as [Hs|(Hs & Hm & Hk)].
        -- rewrite Hs. destruct (m k); [reflexivity|].
           destruct (load_pair_cases d a) as [(_ & E)|(i' & _ & [E|E])]; rewrite E in Hp; inversion Hp; subst; reflexivity.
        -- exfalso. destruct (load_pair_cases d a) as [(_ & E)|(i' & _ & [E|E])]; rewrite E in Hp; inversion Hp; subst; discriminate.
      * destruct (load_pair_cases d a) as [(Eb & E)|(i' & _ & [E|E])]; rewrite E in Hp; inversion Hp.
        destruct Hs as [Hs|(Hs & _)]; rewrite Hs; [|reflexivity]. now apply Hwf.
  - destruct H as (Hp & Hs). rewrite Hp, Hs. unfold r_loaded.
    destruct (load_pair_cases d a) as [(Eb & E)|(i' & _ & [E|E])]; rewrite E; simpl; auto.
Qed.

Lemma R_basic_ans d p r a : acct_rel d p r a -> p_basic_ans d p a = r_basic_ans d r a.
Proof.
  intros H. unfold acct_rel, arel in H. unfold p_basic_ans, r_basic_ans, r_acct_view.
  destruct (r_accounts r a) as [racc|].
  - destruct H as (Hp & _). destruct (p_accounts p a) as [pacc|]; [now subst|]. now rewrite <- Hp.
  - destruct H as (Hp & _). rewrite Hp. unfold r_loaded, ra_info.
    destruct (load_pair d a) as [[i|] st]; reflexivity.
Qed.

Lemma R_code_ans d p r h : contracts_rel d p r -> p_code_ans d p h = r_code_ans d r h.
Proof.
  intros H. specialize (H h). unfold p_code_ans, r_code_ans.
  destruct (r_contracts r h); [now rewrite H|]. destruct H as [H|H]; now rewrite H.
Qed.

(* ---------------------------------------------------------------- frame *)
Lemma pslot_put p a acc b k : pslot (p_put p a acc) b k = pslot p b k.
Proof. reflexivity. Qed.

Lemma pslot_remove p a b k : pslot (p_remove_storage p a) b k = if b =? a then None else pslot p b k.
Proof.
  unfold pslot, p_remove_storage, fdel. simpl. destruct (b =? a); reflexivity.
Qed.

Lemma insert_present_ext (m m' : fmap word) st :
  (forall k, m k = m' k) -> forall k, insert_present m st k = insert_present m' st k.
Proof.
  revert m m'. induction st as [|[k' [o v]] st IH]; intros m m' Hm k0; simpl; [apply Hm|].
  apply IH. intros j. unfold fset. destruct (j =? k'); auto.
Qed.

Lemma pslot_update p a st b k :
  pslot (p_update_storage p a st) b k = if b =? a then insert_present (fun k => pslot p a k) st k else pslot p b k.
Proof.
  unfold pslot, p_update_storage, fset. simpl. destruct (N.eqb_spec b a) as [->|]; [|reflexivity].
  apply insert_present_ext. intros j. destruct (p_storage p a); reflexivity.
Qed.

Lemma slot_rel_insert st st' ps ms l :
  (forall k, slot_rel st (ps k) (ms k)) ->
  (is_storage_known st = true -> is_storage_known st' = true) ->
  forall k, slot_rel st' (insert_present ps l k) (extend_present ms l k).
Proof.
  revert ps ms. induction l as [|[k' [o v]] l IH]; intros ps ms H Hk k; simpl.
  - destruct (H k) as [E|(E1 & E2 & E3)]; [left; exact E|right; auto].
  - apply IH; [|exact Hk]. intros j. unfold fset. destruct (j =? k'); [left; reflexivity|apply H].
Qed.

(* ---------------------------------------------------------------- one committed account *)
Lemma changed_case {A} (l : list (key * (word * word))) (x y : A) :
  (forall z, l = [] -> x = z -> y = z) -> match l with [] => x | _ => y end = y.
Proof. destruct l; intros H; [symmetry; now apply H|reflexivity]. Qed.

Lemma p_update_nil p a : forall b k, pslot (p_update_storage p a []) b k = pslot p b k.
Proof.
  intros b k. rewrite pslot_update. simpl. destruct (N.eqb_spec b a) as [->|]; reflexivity.
Qed.

Definition frame (a : addr) (p p' : pstate) (r r' : rstate) : Prop :=
  (forall b, b <> a -> p_accounts p' b = p_accounts p b /\ (forall k, pslot p' b k = pslot p b k) /\
                       r_accounts r' b = r_accounts r b) /\
  p_ts p' = p_ts p /\ r_ts r' = r_ts r.

Definition code_ok_e (d : db) (e : eaccount) : Prop :=
  e_touched e = true -> e_destructed e = false -> e_created e = true ->
  forall c, code (e_info e) = Some c -> db_code d (code_hash (e_info e)) = c.

Lemma apply_account_sim d p r a e p' t :
  acct_rel d p r a -> contracts_rel d p r -> code_ok_e d e ->
  p_apply_account p a e = Some (p', t) ->
  exists r', r_apply_account r a e = (r', t) /\ acct_rel d p' r' a /\ contracts_rel d p' r' /\ frame a p p' r r'.
Proof.
  intros Ha Hc Hcode Hp. unfold p_apply_account in Hp. unfold r_apply_account.
  destruct (e_touched e) eqn:Et; simpl in Hp |- *.
  2:{ inversion Hp; subst. exists r. repeat split; auto. }
  unfold acct_rel, arel in Ha.
  destruct (e_destructed e) eqn:Ed.
  { (* selfdestruct *)
    simpl in Hp. destruct (p_accounts p a) as [pacc|] eqn:Epa; [|discriminate].
    destruct (r_accounts r a) as [racc|] eqn:Era; [|destruct Ha; congruence].
    destruct Ha as (Hpa & Hn & Hs). subst pacc.
    unfold p_selfdestruct in Hp. unfold r_selfdestruct. simpl in Hp |- *.
    inversion Hp; subst p' t; clear Hp.
    eexists. split; [reflexivity|]. split; [|split].
    - unfold acct_rel, arel. simpl. rewrite !fset_same. split; [reflexivity|]. split.
      + intros _. apply known_on_selfdestructed.
      + intros k. left. rewrite pslot_put, pslot_remove, N.eqb_refl. reflexivity.
    - exact Hc.
    - split; [|split; reflexivity]. intros b Hb. simpl. rewrite !fset_other by exact Hb.
      split; [reflexivity|]. split; [|reflexivity]. intros k. rewrite pslot_put, pslot_remove.
      destruct (N.eqb_spec b a); [contradiction|reflexivity]. }
  destruct (e_created e) eqn:Ec.
  { (* created *)
    simpl in Hp. destruct (p_accounts p a) as [pacc|] eqn:Epa; [|discriminate].
    destruct (r_accounts r a) as [racc|] eqn:Era; [|destruct Ha; congruence].
    destruct Ha as (Hpa & Hn & Hs). subst pacc.
    unfold p_newly_created in Hp. unfold r_newly_created. simpl in Hp |- *.
    destruct (p_add_contract _ (e_info e)) as [p2|] eqn:Eadd; [|discriminate].
    inversion Hp; subst p' t; clear Hp.
    eexists. split; [reflexivity|].
    assert (Hacc2 : p_accounts p2 = fset (p_accounts p) a (Some (e_info e), on_created (snd racc))).
    { unfold p_add_contract in Eadd. simpl in Eadd.
      destruct (p_contracts p (code_hash (e_info e))); [inversion Eadd; reflexivity|].
      destruct (code (e_info e)); inversion Eadd; reflexivity. }
    assert (Hsl2 : forall b k, pslot p2 b k = if b =? a then None else pslot p b k).
    { intros b k. unfold p_add_contract in Eadd. simpl in Eadd.
      destruct (p_contracts p (code_hash (e_info e))).
      - inversion Eadd; subst p2. rewrite pslot_put, pslot_remove. reflexivity.
      - destruct (code (e_info e)); inversion Eadd; subst p2;
          [unfold pslot, fdel; simpl; destruct (b =? a); reflexivity
          |rewrite pslot_put, pslot_remove; reflexivity]. }
    assert (Hts2 : p_ts p2 = p_ts p).
    { unfold p_add_contract in Eadd. simpl in Eadd.
      destruct (p_contracts p (code_hash (e_info e))); [inversion Eadd; reflexivity|].
      destruct (code (e_info e)); inversion Eadd; reflexivity. }
    assert (Hc2 : contracts_rel d p2 r).
    { intros h. specialize (Hc h). unfold p_add_contract in Eadd. simpl in Eadd.
      destruct (p_contracts p (code_hash (e_info e))) eqn:Eh; [inversion Eadd; subst p2; exact Hc|].
      destruct (code (e_info e)) as [c|] eqn:Ecode; inversion Eadd; subst p2; [|exact Hc]. simpl.
      unfold fset. destruct (N.eqb_spec h (code_hash (e_info e))) as [->|]; [|exact Hc].
      rewrite Eh in Hc. destruct (r_contracts r (code_hash (e_info e))); [discriminate Hc|].
      right. f_equal. symmetry. now apply Hcode. }
    set (ch := changed_storage (e_storage e)).
    set (pfin := match ch with [] => p2 | _ => p_update_storage p2 a ch end).
    assert (Hfin_acc : p_accounts pfin = p_accounts p2) by (unfold pfin; destruct ch; reflexivity).
    assert (Hfin_ts : p_ts pfin = p_ts p2) by (unfold pfin; destruct ch; reflexivity).
    assert (Hfin_c : p_contracts pfin = p_contracts p2) by (unfold pfin; destruct ch; reflexivity).
    assert (Hfin_sl : forall b k, pslot pfin b k = pslot (p_update_storage p2 a ch) b k).
    { intros b k. unfold pfin. destruct ch eqn:E; [symmetry; apply p_update_nil|reflexivity]. }
    split; [|split].
    - unfold acct_rel, arel. rewrite Hfin_acc, Hacc2. simpl. rewrite !fset_same.
      split; [reflexivity|]. split; [discriminate|].
      intros k. rewrite Hfin_sl, pslot_update, N.eqb_refl. unfold rslot; simpl.
      apply slot_rel_insert with (st := on_created (snd racc)); [|auto].
      intros j. left. rewrite Hsl2, N.eqb_refl. reflexivity.
    - intros h. specialize (Hc2 h). simpl. rewrite Hfin_c. exact Hc2.
    - split; [|split; [congruence|reflexivity]]. intros b Hb. rewrite Hfin_acc, Hacc2. simpl.
      rewrite !fset_other by exact Hb. split; [reflexivity|]. split; [|reflexivity].
      intros k. rewrite Hfin_sl, pslot_update, Hsl2. destruct (N.eqb_spec b a); [contradiction|reflexivity]. }
  destruct (info_is_empty (e_info e)) eqn:Ee.
  { (* touched empty *)
    simpl in Hp. destruct (p_accounts p a) as [pacc|] eqn:Epa; [|discriminate].
    destruct (r_accounts r a) as [racc|] eqn:Era; [|destruct Ha; congruence].
    destruct Ha as (Hpa & Hn & Hs). subst pacc.
    unfold p_touch_empty in Hp. unfold r_touch_empty. simpl in Hp |- *.
    inversion Hp; subst p' t; clear Hp.
    eexists. split; [reflexivity|]. split; [|split].
    - unfold acct_rel, arel. simpl. rewrite !fset_same. split; [reflexivity|]. split.
      + intros _. apply known_on_touched.
      + intros k. left. rewrite pslot_put, pslot_remove, N.eqb_refl. reflexivity.
    - exact Hc.
    - split; [|split; reflexivity]. intros b Hb. simpl. rewrite !fset_other by exact Hb.
      split; [reflexivity|]. split; [|reflexivity]. intros k. rewrite pslot_put, pslot_remove.
      destruct (N.eqb_spec b a); [contradiction|reflexivity]. }
  (* change *)
  destruct (p_accounts p a) as [pacc|] eqn:Epa; [|discriminate].
  destruct (r_accounts r a) as [racc|] eqn:Era; [|destruct Ha; congruence].
  destruct Ha as (Hpa & Hn & Hs). subst pacc.
  unfold p_change in Hp. unfold r_change. simpl in Hp |- *.
  set (ch := changed_storage (e_storage e)) in *.
  set (st' := on_changed (snd racc) (had_no_nonce_and_code (ra_info racc))) in *.
  set (p1 := p_put p a (Some (e_info e), st')) in *.
  set (pfin := match ch with [] => p1 | _ => p_update_storage p1 a ch end) in *.
  inversion Hp; subst p' t; clear Hp.
  assert (Hfin_acc : p_accounts pfin = p_accounts p1) by (unfold pfin; destruct ch; reflexivity).
  assert (Hfin_c : p_contracts pfin = p_contracts p) by (unfold pfin; destruct ch; reflexivity).
  assert (Hfin_ts : p_ts pfin = p_ts p) by (unfold pfin; destruct ch; reflexivity).
  assert (Hfin_sl : forall b k, pslot pfin b k = pslot (p_update_storage p1 a ch) b k).
  { intros b k. unfold pfin. destruct ch eqn:E; [symmetry; apply p_update_nil|reflexivity]. }
  eexists. split; [reflexivity|]. split; [|split].
  - unfold acct_rel, arel. rewrite Hfin_acc. simpl. rewrite !fset_same.
    split; [reflexivity|]. split; [discriminate|].
    intros k. rewrite Hfin_sl, pslot_update, N.eqb_refl. unfold rslot; simpl.
    assert (Hm : forall j, slot_rel (snd racc) (pslot p1 a j)
                   (match fst racc with Some (_, m) => m | None => fempty end j)).
    { intros j. specialize (Hs j). unfold rslot in Hs. unfold p1. rewrite pslot_put.
      destruct (fst racc) as [[i m]|]; exact Hs. }
    apply slot_rel_insert with (st := snd racc); [exact Hm|]. apply known_on_changed.
  - intros h. specialize (Hc h). simpl. rewrite Hfin_c. exact Hc.
  - split; [|split; [exact Hfin_ts|reflexivity]]. intros b Hb. rewrite Hfin_acc. simpl.
    rewrite !fset_other by exact Hb. split; [reflexivity|]. split; [|reflexivity].
    intros k. rewrite Hfin_sl, pslot_update. destruct (N.eqb_spec b a); [contradiction|reflexivity].
Qed.

(* ---------------------------------------------------------------- lifting to states *)
Lemma arel_ext d a pa ps ps' ra : (forall k, ps k = ps' k) -> arel d a pa ps ra -> arel d a pa ps' ra.
Proof.
  intros He H. unfold arel in *. destruct ra as [racc|].
  - destruct H as (H1 & H2 & H3). repeat split; auto. intros k. rewrite <- He. apply H3.
  - destruct H as (H1 & H2). split; auto. intros k. rewrite <- He. apply H2.
Qed.

Lemma acct_rel_frame d a p p' r r' b :
  frame a p p' r r' -> b <> a -> acct_rel d p r b -> acct_rel d p' r' b.
Proof.
  intros (Hf & _) Hb H. destruct (Hf b Hb) as (E1 & E2 & E3). unfold acct_rel in *.
  rewrite E1, E3. eapply arel_ext; [|exact H]. intros k. symmetry. apply E2.
Qed.

Lemma apply_account_R d p r a e p' t :
  R d p r -> code_ok_e d e -> p_apply_account p a e = Some (p', t) ->
  exists r', r_apply_account r a e = (r', t) /\ R d p' r'.
Proof.
  intros [Ha Hc Hts] Hcode Hp.
  destruct (apply_account_sim d p r a e p' t (Ha a) Hc Hcode Hp) as (r' & Hr & Ha' & Hc' & Hf).
  exists r'. split; [exact Hr|]. split; [|exact Hc'|].
  - intros b. destruct (N.eq_dec b a) as [->|Hb]; [exact Ha'|]. eapply acct_rel_frame; eauto.
  - destruct Hf as (_ & E1 & E2). congruence.
Qed.

Lemma apply_evm_state_R d es : forall p r p' ts,
  R d p r -> Forall (fun ae => code_ok_e d (snd ae)) es -> p_apply_evm_state p es = Some (p', ts) ->
  exists r', r_apply_evm_state r es = (r', ts) /\ R d p' r'.
Proof.
  induction es as [|[a e] es IH]; intros p r p' ts HR Hcode Hp; simpl in *.
  - inversion Hp; subst. exists r. auto.
  - inversion Hcode as [|x l Hc1 Hc2]; subst.
    destruct (p_apply_account p a e) as [[p1 t]|] eqn:E1; [|discriminate].
    destruct (p_apply_evm_state p1 es) as [[p2 ts2]|] eqn:E2; [|discriminate].
    inversion Hp; subst p' ts; clear Hp.
    destruct (apply_account_R d p r a e p1 t HR Hc1 E1) as (r1 & Hr1 & HR1).
    destruct (IH p1 r1 p2 ts2 HR1 Hc2 E2) as (r2 & Hr2 & HR2).
    exists r2. rewrite Hr1, Hr2. auto.
Qed.

Lemma R_with_ts d p r ts : R d p r -> R d (p_with_ts p ts) (r_with_ts r ts).
Proof. intros [Ha Hc Hts]. split; [exact Ha|exact Hc|reflexivity]. Qed.

(* ---------------------------------------------------------------- loading an account *)
Lemma ra_info_loaded d a : (ra_info (r_loaded d a), snd (r_loaded d a)) = load_pair d a.
Proof. unfold r_loaded, ra_info. destruct (load_pair d a) as [[i|] st]; reflexivity. Qed.

Lemma r_loaded_none_known d a : fst (r_loaded d a) = None -> is_storage_known (snd (r_loaded d a)) = true.
Proof.
  unfold r_loaded. destruct (load_pair_cases d a) as [(_ & E)|(i & _ & [E|E])]; rewrite E; simpl; auto; discriminate.
Qed.

Lemma rslot_loaded d a k : rslot (r_loaded d a) k = None.
Proof. unfold rslot, r_loaded. destruct (load_pair d a) as [[i|] st]; reflexivity. Qed.

Lemma R_rload d p r a r1 racc :
  R d p r -> r_load d r a = (r1, racc) -> R d p r1 /\ r_accounts r1 a = Some racc.
Proof.
  intros [Ha Hc Hts] Hl. unfold r_load in Hl. destruct (r_accounts r a) as [acc|] eqn:Er.
  - inversion Hl; subst. split; [split; auto|exact Er].
  - inversion Hl; subst r1 racc; clear Hl. simpl. split; [|apply fset_same].
    split; [|exact Hc|exact Hts]. intros b. unfold acct_rel. simpl.
    destruct (N.eq_dec b a) as [->|Hb].
    + rewrite fset_same. specialize (Ha a). unfold acct_rel, arel in Ha. rewrite Er in Ha.
      destruct Ha as (Hp & Hs). unfold arel. rewrite Hp. split; [apply ra_info_loaded|].
      split; [apply r_loaded_none_known|]. intros k. left. rewrite Hs, rslot_loaded. reflexivity.
    + rewrite fset_other by exact Hb. apply Ha.
Qed.

Lemma R_pload d p r a p1 pacc racc :
  R d p r -> r_accounts r a = Some racc -> p_load d p a = (p1, pacc) ->
  R d p1 r /\ p_accounts p1 a = Some pacc /\ pacc = (ra_info racc, snd racc).
Proof.
  intros [Ha Hc Hts] Er Hl. unfold p_load in Hl. pose proof (Ha a) as Haa. unfold acct_rel, arel in Haa.
  rewrite Er in Haa. destruct Haa as (Hp & Hn & Hs).
  destruct (p_accounts p a) as [acc|] eqn:Ep.
  - inversion Hl; subst. split; [split; auto|]. split; [exact Ep|reflexivity].
  - inversion Hl; subst p1 pacc; clear Hl. simpl. split; [|split; [apply fset_same|symmetry; exact Hp]].
    split; [|exact Hc|exact Hts]. intros b. unfold acct_rel.
    change (pslot (p_put p a (load_pair d a)) b) with (pslot p b). simpl.
    destruct (N.eq_dec b a) as [->|Hb].
    + rewrite fset_same, Er. unfold arel. split; [symmetry; exact Hp|]. split; assumption.
    + rewrite fset_other by exact Hb. apply Ha.
Qed.

(* replacing the account at [a] on both sides, storage untouched *)
Lemma R_put d p r a racc racc' :
  R d p r -> r_accounts r a = Some racc ->
  (forall k, rslot racc' k = rslot racc k) ->
  (is_storage_known (snd racc) = true -> is_storage_known (snd racc') = true) ->
  (fst racc' = None -> is_storage_known (snd racc') = true) ->
  R d (p_put p a (ra_info racc', snd racc')) (r_put r a racc').
Proof.
  intros [Ha Hc Hts] Er Hsl Hk Hn. split; [|exact Hc|exact Hts].
  intros b. unfold acct_rel.
  change (pslot (p_put p a (ra_info racc', snd racc')) b) with (pslot p b). simpl.
  destruct (N.eq_dec b a) as [->|Hb].
  - rewrite !fset_same. unfold arel. split; [reflexivity|]. split; [exact Hn|].
    intros k. specialize (Ha a). unfold acct_rel, arel in Ha. rewrite Er in Ha.
    destruct Ha as (_ & _ & Hs). rewrite Hsl. destruct (Hs k) as [E|(E1 & E2 & E3)]; [left; exact E|right; auto].
  - rewrite !fset_other by exact Hb. apply Ha.
Qed.

(* ---------------------------------------------------------------- reads *)
Lemma basic_R d p r a p' i :
  R d p r -> p_basic d p a = (p', i) -> exists r', r_basic d r a = (r', i) /\ R d p' r'.
Proof.
  intros HR Hp. unfold p_basic in Hp. unfold r_basic.
  destruct (r_load d r a) as [r1 racc] eqn:Erl.
  destruct (R_rload d p r a r1 racc HR Erl) as (HR1 & Er1).
  destruct (p_load d p a) as [p1 pacc] eqn:Epl.
  destruct (R_pload d p r1 a p1 pacc racc HR1 Er1 Epl) as (HR2 & Ep1 & Epacc). subst pacc.
  inversion Hp; subst. exists r1. auto.
Qed.

(* ---------------------------------------------------------------- increments and drains *)
Lemma touched_code_ok d oi f : code_ok_e d (touched_account oi f).
Proof. unfold code_ok_e, touched_account. simpl. intros _ _ H. discriminate. Qed.

Lemma touch_all_R d bs : forall p r p' es,
  R d p r -> p_touch_all d p bs = (p', es) ->
  exists r', r_touch_all d r bs = (r', es) /\ R d p' r' /\ Forall (fun ae => code_ok_e d (snd ae)) es.
Proof.
  induction bs as [|[a f] bs IH]; intros p r p' es HR Hp; cbn [p_touch_all r_touch_all] in *.
  - inversion Hp; subst. eauto.
  - destruct (p_basic d p a) as [p1 oi] eqn:Eb.
    destruct (basic_R d p r a p1 oi HR Eb) as (r1 & Hr1 & HR1). rewrite Hr1.
    destruct (p_touch_all d p1 bs) as [p2 es2] eqn:Et. inversion Hp; subst p' es; clear Hp.
    destruct (IH p1 r1 p2 es2 HR1 Et) as (r2 & Hr2 & HR2 & Hc). rewrite Hr2.
    exists r2. split; [reflexivity|]. split; [exact HR2|]. constructor; [apply touched_code_ok|exact Hc].
Qed.

Lemma increments_R d bs p r p' ts :
  R d p r -> p_increments d p bs = Some (p', ts) ->
  exists r', r_increments d r bs = (r', ts) /\ R d p' r'.
Proof.
  intros HR Hp. unfold p_increments in Hp. unfold r_increments.
  destruct (p_touch_all d p _) as [p1 es] eqn:Et.
  destruct (touch_all_R d _ p r p1 es HR Et) as (r1 & Hr1 & HR1 & Hc). rewrite Hr1.
  exact (apply_evm_state_R d es p1 r1 p' ts HR1 Hc Hp).
Qed.

Lemma drain_all_R d ads : forall p r p' bals es,
  R d p r -> p_drain_all d p ads = Some (p', bals, es) ->
  exists r', r_drain_all d r ads = Some (r', bals, es) /\ R d p' r' /\ Forall (fun ae => code_ok_e d (snd ae)) es.
Proof.
  induction ads as [|a ads IH]; intros p r p' bals es HR Hp; cbn [p_drain_all r_drain_all] in *.
  - inversion Hp; subst. eauto.
  - destruct (p_basic d p a) as [p1 oi] eqn:Eb.
    destruct (basic_R d p r a p1 oi HR Eb) as (r1 & Hr1 & HR1). rewrite Hr1.
    destruct (_ <=? U128_MAX); [|discriminate].
    destruct (p_drain_all d p1 ads) as [[[p2 bals2] es2]|] eqn:Et; [|discriminate].
    inversion Hp; subst p' bals es; clear Hp.
    destruct (IH p1 r1 p2 bals2 es2 HR1 Et) as (r2 & Hr2 & HR2 & Hc). rewrite Hr2.
    exists r2. split; [reflexivity|]. split; [exact HR2|]. constructor; [apply touched_code_ok|exact Hc].
Qed.

Lemma drains_R d ads p r p' bals ts :
  R d p r -> p_drains d p ads = Some (p', bals, ts) ->
  exists r', r_drains d r ads = Some (r', bals, ts) /\ R d p' r'.
Proof.
  intros HR Hp. unfold p_drains in Hp. unfold r_drains.
  destruct (p_drain_all d p ads) as [[[p1 bals1] es]|] eqn:Et; [|discriminate].
  destruct (drain_all_R d ads p r p1 bals1 es HR Et) as (r1 & Hr1 & HR1 & Hc). rewrite Hr1.
  destruct (p_apply_evm_state p1 es) as [[p2 ts2]|] eqn:Ea; [|discriminate].
  inversion Hp; subst p' bals ts; clear Hp.
  destruct (apply_evm_state_R d es p1 r1 p2 ts2 HR1 Hc Ea) as (r2 & Hr2 & HR2). rewrite Hr2. eauto.
Qed.

Lemma code_R d p r h p' c :
  R d p r -> p_code d p h = (p', c) -> exists r', r_code d r h = (r', c) /\ R d p' r'.
Proof.
  intros [Ha Hc Hts] Hp. unfold p_code in Hp. unfold r_code. pose proof (Hc h) as Hh.
  destruct (r_contracts r h) as [c'|] eqn:Er.
  - rewrite Hh in Hp. inversion Hp; subst. exists r. split; [reflexivity|split; auto].
  - destruct (p_contracts p h) as [c'|] eqn:Ep.
    + destruct Hh as [Hh|Hh]; [discriminate|]. inversion Hh; subst c'. inversion Hp; subst p' c.
      eexists. split; [reflexivity|]. split; [exact Ha| |exact Hts].
      intros h'. simpl. unfold fset. destruct (N.eqb_spec h' h) as [->|]; [exact Ep|apply Hc].
    + inversion Hp; subst p' c. eexists. split; [reflexivity|]. split; [exact Ha| |exact Hts].
      intros h'. simpl. unfold fset. destruct (N.eqb_spec h' h) as [->|]; [reflexivity|apply Hc].
Qed.

Lemma pslot_fill p a k v b j :
  pslot (mkP (p_accounts p) (fset (p_storage p) a (fset (match p_storage p a with Some m => m | None => fempty end) k v))
             (p_contracts p) (p_ts p)) b j =
  if (b =? a) && (j =? k) then Some v else pslot p b j.
Proof.
  unfold pslot, fset. simpl. destruct (N.eqb_spec b a) as [->|]; simpl; [|reflexivity].
  destruct (j =? k); [reflexivity|]. destruct (p_storage p a); reflexivity.
Qed.

Lemma storage_R d p r a k p' w :
  db_wf0 d -> R d p r -> p_storage_read d p a k = (p', w) ->
  exists r', r_storage d r a k = (r', w) /\ R d p' r'.
Proof.
  intros Hwf HR Hp. unfold r_storage.
  destruct (r_load d r a) as [r1 racc] eqn:Erl.
  destruct (R_rload d p r a r1 racc HR Erl) as ([Ha Hc Hts] & Er1).
  pose proof (Ha a) as Haa. unfold acct_rel, arel in Haa. rewrite Er1 in Haa.
  destruct Haa as (Hpa & Hn & Hs). pose proof (Hs k) as Hsk. unfold rslot in Hsk.
  unfold p_storage_read in Hp.
  destruct racc as [[[i m]|] st]; simpl in *.
  - (* account exists on the revm side *)
    destruct (m k) as [v|] eqn:Emk.
    + destruct Hsk as [E|(_ & E & _)]; [|discriminate]. rewrite E in Hp. inversion Hp; subst.
      exists r1. split; [reflexivity|split; auto].
    + assert (Hkn : p_known p a = is_storage_known st).
      { unfold p_known. destruct (p_accounts p a) as [[pi pst]|] eqn:Ep.
        - inversion Hpa; subst. unfold ra_info; simpl. apply orb_false_r.
        - unfold ra_info in Hpa; simpl in Hpa.
          destruct (load_pair_cases d a) as [(_ & E)|(i' & _ & [E|E])]; rewrite E in Hpa; inversion Hpa; reflexivity. }
      destruct Hsk as [E|(E & _ & Ek)].
      * rewrite E, Hkn in Hp. inversion Hp; subst; clear Hp.
        eexists. split; [reflexivity|]. split; [|exact Hc|exact Hts].
        intros b. unfold acct_rel. simpl.
        destruct (N.eq_dec b a) as [->|Hb].
        -- rewrite fset_same. unfold arel. split; [exact Hpa|]. split; [discriminate|].
           intros j. rewrite pslot_fill, N.eqb_refl. unfold rslot, fset; simpl.
           destruct (j =? k); [left; reflexivity|apply Hs].
        -- rewrite fset_other by exact Hb. eapply arel_ext; [|apply Ha].
           intros j. rewrite pslot_fill. destruct (N.eqb_spec b a); [contradiction|reflexivity].
      * rewrite E in Hp. inversion Hp; subst; clear Hp. rewrite Ek.
        eexists. split; [reflexivity|]. split; [|exact Hc|exact Hts].
        intros b. unfold acct_rel. simpl.
        destruct (N.eq_dec b a) as [->|Hb].
        -- rewrite fset_same. unfold arel. split; [exact Hpa|]. split; [discriminate|].
           intros j. unfold rslot, fset; simpl. destruct (N.eqb_spec j k) as [->|]; [left; exact E|apply Hs].
        -- rewrite fset_other by exact Hb. apply Ha.
  - (* no account on the revm side: answers zero, caches nothing *)
    destruct Hsk as [E|(E & _)].
    + rewrite E in Hp.
      assert (Hv : (if p_known p a then 0 else db_storage d a k) = 0).
      { unfold p_known. destruct (p_accounts p a) as [[pi pst]|] eqn:Ep.
        - inversion Hpa; subst. unfold ra_info; simpl. now rewrite orb_true_r.
        - unfold ra_info in Hpa; simpl in Hpa.
          destruct (load_pair_cases d a) as [(Eb & E')|(i' & _ & [E'|E'])]; rewrite E' in Hpa; inversion Hpa.
          now apply Hwf. }
      rewrite Hv in Hp. inversion Hp; subst; clear Hp.
      exists r1. split; [reflexivity|]. split; [|exact Hc|exact Hts].
      intros b. unfold acct_rel. simpl.
      destruct (N.eq_dec b a) as [->|Hb].
      * rewrite Er1. unfold arel. split; [exact Hpa|]. split; [exact Hn|].
        intros j. rewrite pslot_fill, N.eqb_refl. simpl. unfold rslot; simpl.
        destruct (j =? k); [right; auto|apply Hs].
      * eapply arel_ext; [|apply Ha]. intros j. rewrite pslot_fill.
        destruct (N.eqb_spec b a); [contradiction|reflexivity].
    + rewrite E in Hp. inversion Hp; subst. exists r1. split; [reflexivity|split; auto].
Qed.

(* ---------------------------------------------------------------- one operation, a history *)
Definition code_ok (d : db) (o : op) : Prop :=
  match o with OCommit es => Forall (fun ae => code_ok_e d (snd ae)) es | _ => True end.

Lemma step_sim d p r o p' x :
  db_wf0 d -> R d p r -> code_ok d o -> p_step d p o = (p', x) -> x <> OutPanic ->
  exists r', r_step d r o = (r', x) /\ R d p' r'.
Proof.
  intros Hwf HR Hcode Hp Hx. destruct o; simpl in *.
  - destruct (p_apply_evm_state p es) as [[p1 ts]|] eqn:E; [|inversion Hp; subst; contradiction].
    inversion Hp; subst; clear Hp.
    destruct (apply_evm_state_R d es p r p1 ts HR Hcode E) as (r1 & Hr1 & HR1).
    rewrite Hr1. eexists. split; [reflexivity|]. rewrite (R_ts _ _ _ HR1). now apply R_with_ts.
  - destruct (p_increments d p bs) as [[p1 ts]|] eqn:E; [|inversion Hp; subst; contradiction].
    inversion Hp; subst; clear Hp.
    destruct (increments_R d bs p r p1 ts HR E) as (r1 & Hr1 & HR1).
    rewrite Hr1. eexists. split; [reflexivity|]. rewrite (R_ts _ _ _ HR1). now apply R_with_ts.
  - destruct (p_drains d p ads) as [[[p1 bals] ts]|] eqn:E; [|inversion Hp; subst; contradiction].
    inversion Hp; subst; clear Hp.
    destruct (drains_R d ads p r p1 bals ts HR E) as (r1 & Hr1 & HR1).
    rewrite Hr1. eexists. split; [reflexivity|]. rewrite (R_ts _ _ _ HR1). now apply R_with_ts.
  - destruct (p_basic d p a) as [p1 i] eqn:E. inversion Hp; subst; clear Hp.
    destruct (basic_R d p r a _ i HR E) as (r1 & Hr1 & HR1). rewrite Hr1. eauto.
  - destruct (p_storage_read d p a k) as [p1 w] eqn:E. inversion Hp; subst; clear Hp.
    destruct (storage_R d p r a k _ w Hwf HR E) as (r1 & Hr1 & HR1). rewrite Hr1. eauto.
  - destruct (p_code d p h) as [p1 c] eqn:E. inversion Hp; subst; clear Hp.
    destruct (code_R d p r h _ c HR E) as (r1 & Hr1 & HR1). rewrite Hr1. eauto.
  - inversion Hp; subst; clear Hp. rewrite (R_ts _ _ _ HR).
    eexists. split; [reflexivity|]. now apply R_with_ts.
Qed.

Lemma run_sim d ops : forall p r outs p',
  db_wf0 d -> R d p r -> Forall (code_ok d) ops -> p_run d p ops = (outs, p') -> ~ In OutPanic outs ->
  exists r', r_run d r ops = (outs, r') /\ R d p' r'.
Proof.
  induction ops as [|o ops IH]; intros p r outs p' Hwf HR Hcode Hp Hnp; simpl in *.
  - inversion Hp; subst. eauto.
  - inversion Hcode as [|x l Hc1 Hc2]; subst.
    destruct (p_step d p o) as [p1 x] eqn:Es.
    assert (Hx : x <> OutPanic).
    { intros ->. inversion Hp; subst. apply Hnp. left. reflexivity. }
    destruct (step_sim d p r o p1 x Hwf HR Hc1 Es Hx) as (r1 & Hr1 & HR1). rewrite Hr1.
    destruct (p_run d p1 ops) as [xs p2] eqn:Er.
    assert (Ho : outs = x :: xs /\ p' = p2) by (destruct x; inversion Hp; auto; contradiction).
    destruct Ho as [-> ->].
    destruct (IH p1 r1 xs p2 Hwf HR1 Hc2 Er) as (r2 & Hr2 & HR2).
    { intros Hin. apply Hnp. right. exact Hin. }
    rewrite Hr2. exists r2. split; [destruct x; try reflexivity; contradiction|exact HR2].
Qed.

(* ---------------------------------------------------------------- the stronger database condition *)
(* no storage for accounts that are absent, empty, or have neither code nor nonce (an account whose
   storage revm / grevm declare "known" on its first change without wiping anything) *)
Definition bare (d : db) (a : addr) : bool :=
  match db_basic d a with None => true | Some i => info_is_empty i || has_no_code_and_nonce i end.

Definition db_wf (d : db) : Prop := forall a, bare d a = true -> forall k, db_storage d a k = 0.

Lemma db_wf_wf0 d : db_wf d -> db_wf0 d.
Proof. intros H a Ha k. apply H. unfold bare. now rewrite Ha. Qed.
