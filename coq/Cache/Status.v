(* C10 - shared definitions of the Cache group (definitions only, no proofs).

   1. revm's [AccountStatus] and its transition functions, transcribed from
      revm-database-15.0.2/src/states/account_status.rs (cited as AS:<line>).  grevm's
      [CacheAccountInfo] (src/parallel_state.rs:23-190) calls the very same functions, so both
      sides of the simulation use this file.
   2. The data both sides exchange: [info] (revm_state::AccountInfo), the finalised EVM account
      ([eaccount], revm_state::Account as it reaches [commit]), [trans]
      (revm TransitionAccount, transition_account.rs) with [TransitionAccount::update] and
      [TransitionState::add_transitions] (transition_state.rs:36-50), and the backing database.

   Conventions: addresses, slot keys, words, hashes and byte-codes are [N].  Words are U256: the only
   arithmetic is the saturating add of a u128 reward/withdrawal (cache_account.rs:213) and the
   u128 conversion of a drained balance (cache_account.rs:254, `try_into().unwrap()`), both modelled
   explicitly.  Code hashes are data supplied with the info (the model cannot compute keccak): hash 0
   is B256::ZERO, hash 1 is KECCAK_EMPTY, byte-code 0 is `Bytecode::default()`.
   [AccountInfo::account_id] is not modelled (always None in the histories considered).
   Database faults (Err) are not modelled: the database is a total function. *)
From Grevm Require Import Base.Util.
Open Scope N_scope.

(* ------------------------------------------------------------------ AccountStatus (AS:19-37) *)
Inductive status :=
| LoadedNotExisting | Loaded | LoadedEmptyEIP161 | InMemoryChange | Changed
| Destroyed | DestroyedChanged | DestroyedAgain.

Definition status_eqb (a b : status) : bool :=
  match a, b with
  | LoadedNotExisting, LoadedNotExisting | Loaded, Loaded | LoadedEmptyEIP161, LoadedEmptyEIP161
  | InMemoryChange, InMemoryChange | Changed, Changed | Destroyed, Destroyed
  | DestroyedChanged, DestroyedChanged | DestroyedAgain, DestroyedAgain => true
  | _, _ => false
  end.

(* AS:59-68 *)
Definition is_storage_known (s : status) : bool :=
  match s with
  | LoadedNotExisting | InMemoryChange | Destroyed | DestroyedChanged | DestroyedAgain => true
  | Loaded | LoadedEmptyEIP161 | Changed => false
  end.

(* AS:51-56 *)
Definition was_destroyed (s : status) : bool :=
  match s with Destroyed | DestroyedChanged | DestroyedAgain => true | _ => false end.

(* AS:78-97 *)
Definition on_created (s : status) : status :=
  match s with
  | DestroyedAgain | Destroyed | DestroyedChanged => DestroyedChanged
  | LoadedNotExisting | LoadedEmptyEIP161 | Loaded | Changed | InMemoryChange => InMemoryChange
  end.

(* AS:100-111 *)
Definition on_touched_empty_post_eip161 (s : status) : status :=
  match s with
  | LoadedNotExisting => LoadedNotExisting
  | InMemoryChange | Destroyed | LoadedEmptyEIP161 => Destroyed
  | DestroyedAgain | DestroyedChanged => DestroyedAgain
  | Changed | Loaded => Destroyed
  end.

(* AS:114-145 *)
Definition on_changed (s : status) (had_no_nonce_and_code : bool) : status :=
  match s with
  | LoadedNotExisting => InMemoryChange
  | LoadedEmptyEIP161 => InMemoryChange
  | Loaded => if had_no_nonce_and_code then InMemoryChange else Changed
  | Changed => Changed
  | InMemoryChange => InMemoryChange
  | DestroyedChanged => DestroyedChanged
  | Destroyed | DestroyedAgain => DestroyedChanged
  end.

(* AS:148-160 *)
Definition on_selfdestructed (s : status) : status :=
  match s with
  | LoadedNotExisting => LoadedNotExisting
  | DestroyedChanged | DestroyedAgain | Destroyed => DestroyedAgain
  | _ => Destroyed
  end.

(* ------------------------------------------------------------------ AccountInfo *)
Definition addr := N.
Definition key := N.
Definition word := N.
Definition hash := N.
Definition codeid := N.

Definition U256_MAX : N := 2 ^ 256 - 1.
Definition U128_MAX : N := 2 ^ 128 - 1.
Definition HASH_ZERO : hash := 0.
Definition KECCAK_EMPTY : hash := 1.
Definition CODE_DEFAULT : codeid := 0.

Record info := mkInfo { balance : word; nonce : N; code_hash : hash; code : option codeid }.

(* AccountInfo::default (revm-state account_info.rs:59-69) *)
Definition default_info : info := mkInfo 0 0 KECCAK_EMPTY (Some CODE_DEFAULT).

(* account_info.rs:273, 311 *)
Definition info_is_empty (i : info) : bool :=
  ((code_hash i =? KECCAK_EMPTY) || (code_hash i =? HASH_ZERO)) && (balance i =? 0) && (nonce i =? 0).

(* account_info.rs:291 *)
Definition has_no_code_and_nonce (i : info) : bool :=
  (code_hash i =? KECCAK_EMPTY) && (nonce i =? 0).

(* `previous_info.as_ref().map(AccountInfo::has_no_code_and_nonce).unwrap_or_default()` *)
Definition had_no_nonce_and_code (prev : option info) : bool :=
  match prev with Some i => has_no_code_and_nonce i | None => false end.

Definition set_balance (i : info) (b : word) : info :=
  mkInfo b (nonce i) (code_hash i) (code i).

(* U256::saturating_add(U256::from(u128)) *)
Definition sat_add (b inc : N) : N := N.min (b + inc) U256_MAX.

(* ------------------------------------------------------------------ association lists over N *)
Fixpoint alookup {V} (l : list (N * V)) (k : N) : option V :=
  match l with
  | [] => None
  | (k', v) :: l' => if k' =? k then Some v else alookup l' k
  end.

Fixpoint aremove {V} (l : list (N * V)) (k : N) : list (N * V) :=
  match l with
  | [] => []
  | (k', v) :: l' => if k' =? k then aremove l' k else (k', v) :: aremove l' k
  end.

(* replace in place when present, append otherwise (keeps first-insertion order, keys unique) *)
Fixpoint ainsert {V} (l : list (N * V)) (k : N) (v : V) : list (N * V) :=
  match l with
  | [] => [(k, v)]
  | (k', v') :: l' => if k' =? k then (k, v) :: l' else (k', v') :: ainsert l' k v
  end.

(* functional maps with N keys (the caches; dumped by the driver over a known key universe) *)
Definition fmap (V : Type) := N -> option V.
Definition fempty {V} : fmap V := fun _ => None.
Definition fset {V} (m : fmap V) (k : N) (v : V) : fmap V := fun j => if j =? k then Some v else m j.
Definition fdel {V} (m : fmap V) (k : N) : fmap V := fun j => if j =? k then None else m j.

(* ------------------------------------------------------------------ finalised EVM account *)
(* revm_state::Account as handed to DatabaseCommit::commit.  Only what apply_account_state reads:
   status flags Touched / Created / SelfDestructed / LoadedAsNotExisting, info, original_info
   (revm's vacant-entry path, cache.rs:196-209) and the storage with original and present values. *)
Record eaccount := mkEAcc {
  e_info : info;
  e_orig_info : info;
  e_touched : bool;
  e_created : bool;
  e_destructed : bool;
  e_lne : bool;
  e_storage : list (key * (word * word));       (* key -> (original_value, present_value) *)
}.

(* What `DatabaseCommitExt::{increment_balances, drain_balances}` (revm-database-interface 12.1.1,
   lib.rs:287-345) and grevm's `ParallelState::touched_account` hand to the commit for one listed
   address: `Account::from(info)` (original_info = info, no status flag) or
   `Account::new_not_existing` (default info, LoadedAsNotExisting), the balance updated by [f],
   then `mark_touch()`.  No storage. *)
Definition touched_account (oi : option info) (f : info -> info) : eaccount :=
  let i := match oi with Some i => i | None => default_info end in
  mkEAcc (f i) i true false false (match oi with Some _ => false | None => true end) [].

Definition incr_fun (inc : N) : info -> info := fun i => set_balance i (sat_add (balance i) inc).
Definition drain_fun : info -> info := fun i => set_balance i 0.

(* `.filter(|(_, slot)| slot.is_changed()).map(|(key, slot)| (key, slot.into()))`
   (cache.rs:222-227, parallel_state.rs:305-310): StorageSlot {previous_or_original_value, present_value} *)
Definition changed_storage (st : list (key * (word * word))) : list (key * (word * word)) :=
  filter (fun kv => negb (fst (snd kv) =? snd (snd kv))) st.

(* ------------------------------------------------------------------ TransitionAccount *)
Record trans := mkTrans {
  t_info : option info;
  t_status : status;
  t_prev_info : option info;
  t_prev_status : status;
  t_storage : list (key * (word * word));       (* key -> (previous_or_original, present) *)
  t_destroyed : bool;                            (* storage_was_destroyed *)
}.

(* TransitionAccount::update (transition_account.rs:75-108) *)
Fixpoint merge_slots (mine other : list (key * (word * word))) : list (key * (word * word)) :=
  match other with
  | [] => mine
  | (k, (oorig, opres)) :: other' =>
      let mine' :=
        match alookup mine k with
        | None => ainsert mine k (oorig, opres)
        | Some (morig, _) =>
            if morig =? opres then aremove mine k else ainsert mine k (morig, opres)
        end in
      merge_slots mine' other'
  end.

Definition trans_update (self other : trans) : trans :=
  match t_status other with
  | Destroyed | DestroyedAgain =>
      mkTrans (t_info other) (t_status other) (t_prev_info self) (t_prev_status self)
              (t_storage other) true
  | _ =>
      mkTrans (t_info other) (t_status other) (t_prev_info self) (t_prev_status self)
              (merge_slots (t_storage self) (t_storage other)) (t_destroyed self)
  end.

(* TransitionState: address-keyed map; the list order stands for the map's iteration order *)
Definition tstate := list (addr * trans).

(* TransitionState::add_transitions (transition_state.rs:36-50) *)
Fixpoint add_transitions (ts : tstate) (new : list (addr * trans)) : tstate :=
  match new with
  | [] => ts
  | (a, t) :: new' =>
      let ts' := match alookup ts a with
                 | Some old => ainsert ts a (trans_update old t)
                 | None => ainsert ts a t
                 end in
      add_transitions ts' new'
  end.

(* `if let Some(s) = self.transition_state.as_mut() { s.add_transitions(..) }` *)
Definition apply_transition (ts : option tstate) (new : list (addr * trans)) : option tstate :=
  match ts with Some s => Some (add_transitions s new) | None => None end.

(* ------------------------------------------------------------------ backing database *)
Record db := mkDb {
  db_basic : addr -> option info;
  db_storage : addr -> key -> word;
  db_code : hash -> codeid;
}.

(* what both `load_cache_account`s build from `basic` (state.rs:176-183, parallel_state.rs:495-503):
   the cached (info, status) pair *)
Definition load_pair (d : db) (a : addr) : option info * status :=
  match db_basic d a with
  | None => (None, LoadedNotExisting)
  | Some i => if info_is_empty i then (Some default_info, LoadedEmptyEIP161) else (Some i, Loaded)
  end.

(* ------------------------------------------------------------------ operations and outputs *)
Inductive op :=
| OCommit (es : list (addr * eaccount))         (* DatabaseCommit::commit of a finalised EvmState *)
| OIncrement (bs : list (addr * N))             (* increment_balances, u128 amounts *)
| ODrain (ads : list addr)                      (* drain_balances *)
| OBasic (a : addr)                             (* Database::basic *)
| OStorage (a : addr) (k : key)                 (* Database::storage *)
| OCode (h : hash)                              (* Database::code_by_hash *)
| OMerge.                                       (* transition_state.take(): what merge_transitions /
                                                   parallel_take_bundle hand to the bundle builder *)

Inductive out :=
| OutTrans (ts : list (addr * trans))           (* transitions produced (commit, increment) *)
| OutDrain (bal : list N) (ts : list (addr * trans))
| OutInfo (i : option info)
| OutWord (w : word)
| OutCode (c : codeid)
| OutMerged (ts : option tstate)                (* None: built without bundle update *)
| OutPanic.                                     (* the implementation panics (expect/unwrap) *)
