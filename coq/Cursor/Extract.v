From Grevm Require Import Base.Util Cursor.Model.
Require Extraction. Require ExtrOcamlBasic.
Extraction Language OCaml.
Extraction "extract/cursor.ml" init step run cur sstep sruns events_of newest_pos handed.
