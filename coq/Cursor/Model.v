(* Model of src/scheduler/cursor.rs: RewindableCursor (claim_before CAS loop, fetch_min rewind).

   Memory model (DESIGN 3.2): the cursor is modified only by read-modify-write operations, so its
   behaviour is its modification order [hist] (oldest first).  A load by thread [t] may return the
   value at any position not older than what [t] has already observed ([view t]) - per-location
   coherence, which is all C11 guarantees for relaxed/acquire loads of one location.  An RMW reads
   the newest value.  compare_exchange_weak may fail spuriously.  Hence every statement proved
   about accepted event lists holds for every ordering argument the source could carry.

   This file contains definitions only (no proofs), so it still runs when a proof breaks. *)
From Grevm Require Import Base.Util.

Definition tid := nat.

(* what a thread is doing inside the cursor API *)
Inductive pc :=
| Idle
| Claiming (limit : nat)                 (* in claim_before, about to load        *)
| Loaded (limit cur : nat).              (* loaded [cur] < limit, about to CAS    *)

Record cstate := {
  hist : list nat;                       (* modification order, oldest first; never empty *)
  view : tid -> nat;                     (* position in [hist] thread has observed        *)
  pcs : tid -> pc;
  handed : list (tid * nat * nat);       (* ghost: successful claims (thread, index, limit), newest first *)
}.

Definition cur (s : cstate) : nat := last (hist s) 0.
Definition newest_pos (s : cstate) : nat := length (hist s) - 1.

Definition init (v : nat) : cstate :=
  {| hist := [v]; view := fun _ => 0; pcs := fun _ => Idle; handed := [] |}.

Inductive event :=
| CallClaim (t : tid) (limit : nat)
| Load (t : tid) (pos : nat)             (* the load returned the value at modification position pos *)
| RetNone (t : tid)                      (* claim_before returns None (only after a load >= limit)   *)
| CasOk (t : tid)                        (* CAS cur -> cur+1 succeeded: returns Some cur             *)
| CasFail (t : tid)                      (* CAS failed (value changed, or spuriously)                *)
| Rewind (t : tid) (v : nat).            (* fetch_min(v); atomic, any time the thread is Idle        *)

Definition push (s : cstate) (t : tid) (v : nat) (p : pc) (h : list (tid * nat * nat)) : cstate :=
  {| hist := hist s ++ [v]; view := upd (view s) t (length (hist s)); pcs := upd (pcs s) t p;
     handed := h |}.

Definition step (s : cstate) (e : event) : option cstate :=
  match e with
  | CallClaim t limit =>
      match pcs s t with
      | Idle => Some {| hist := hist s; view := view s; pcs := upd (pcs s) t (Claiming limit); handed := handed s |}
      | _ => None
      end
  | Load t pos =>
      match pcs s t with
      | Claiming limit =>
          if Nat.leb (view s t) pos then
            match nth_opt (hist s) pos with
            | Some v =>
                (* the code returns None without a CAS when v >= limit: the pc records which *)
                Some {| hist := hist s; view := upd (view s) t pos;
                        pcs := upd (pcs s) t (Loaded limit v); handed := handed s |}
            | None => None
            end
          else None
      | _ => None
      end
  | RetNone t =>
      match pcs s t with
      | Loaded limit v =>
          if Nat.leb limit v then
            Some {| hist := hist s; view := view s; pcs := upd (pcs s) t Idle; handed := handed s |}
          else None
      | _ => None
      end
  | CasOk t =>
      match pcs s t with
      | Loaded limit v =>
          if Nat.ltb v limit && Nat.eqb (cur s) v then
            Some (push s t (S v) Idle ((t, v, limit) :: handed s))
          else None
      | _ => None
      end
  | CasFail t =>
      match pcs s t with
      | Loaded limit v =>
          if Nat.ltb v limit then
            Some {| hist := hist s; view := view s; pcs := upd (pcs s) t (Claiming limit); handed := handed s |}
          else None
      | _ => None
      end
  | Rewind t v =>
      match pcs s t with
      | Idle => Some (push s t (Nat.min (cur s) v) Idle (handed s))
      | _ => None
      end
  end.

Fixpoint run (s : cstate) (tr : list event) : option cstate :=
  match tr with
  | [] => Some s
  | e :: tr' => match step s e with Some s' => run s' tr' | None => None end
  end.

(* Sequential reference used by the operation-sequence differential: one thread, fresh loads. *)
Inductive sop := SClaim (limit : nat) | SRewind (v : nat).
Inductive sres := RNone | RSome (i : nat) | RPrev (p : nat).

Definition sstep (c : nat) (o : sop) : nat * sres :=
  match o with
  | SClaim limit => if Nat.leb limit c then (c, RNone) else (S c, RSome c)
  | SRewind v => (Nat.min c v, RPrev c)
  end.

Fixpoint sruns (c : nat) (ops : list sop) : list sres * nat :=
  match ops with
  | [] => ([], c)
  | o :: ops' => let '(c', r) := sstep c o in let '(rs, cf) := sruns c' ops' in (r :: rs, cf)
  end.

(* The event list a single thread [t] produces for a sequential op (fresh loads, no spurious failure). *)
Definition events_of (t : tid) (pos : nat) (c : nat) (o : sop) : list event :=
  match o with
  | SClaim limit => if Nat.leb limit c then [CallClaim t limit; Load t pos; RetNone t]
                    else [CallClaim t limit; Load t pos; CasOk t]
  | SRewind v => [Rewind t v]
  end.
