(* Proofs about Cursor/Model.v.  All statements quantify over every accepted event list, i.e. over
   every interleaving of any number of claimers and rewinders with loads as stale as per-location
   coherence allows and spuriously failing CAS. *)
From Grevm Require Import Base.Util Cursor.Model.

Lemma last_app_single {A} (l : list A) (x d : A) : last (l ++ [x]) d = x.
Proof. induction l as [|y l IH]; simpl; auto. destruct (l ++ [x]) eqn:E; auto.
  destruct l; discriminate. Qed.

(* one step: the cursor stays, rises by one handing out the old value, or falls *)
Inductive step_kind (s s' : cstate) : Prop :=
| SkSame : cur s' = cur s -> handed s' = handed s -> step_kind s s'
| SkUp t lim : cur s' = S (cur s) -> handed s' = (t, cur s, lim) :: handed s -> cur s < lim -> step_kind s s'
| SkDown : cur s' <= cur s -> handed s' = handed s -> step_kind s s'.

Lemma cur_push s t v p h : cur (push s t v p h) = v.
Proof. unfold cur, push; simpl. apply last_app_single. Qed.

Lemma step_classify s e s' : step s e = Some s' -> step_kind s s'.
Proof.
  unfold step; intros H.
  destruct e as [t lim1|t pos|t|t|t|t v]; destruct (pcs s t) as [|limit|limit cur0] eqn:Ep; try discriminate.
  - inversion H; subst; now apply SkSame.
  - destruct (Nat.leb (view s t) pos); try discriminate.
    destruct (nth_opt (hist s) pos); try discriminate. inversion H; subst; now apply SkSame.
  - destruct (Nat.leb limit cur0); try discriminate. inversion H; subst; now apply SkSame.
  - destruct (Nat.ltb cur0 limit) eqn:El; simpl in H; try discriminate.
    destruct (Nat.eqb (cur s) cur0) eqn:Ec; try discriminate.
    apply Nat.eqb_eq in Ec. apply Nat.ltb_lt in El. inversion H; subst.
    apply SkUp with (t := t) (lim := limit); [apply cur_push| reflexivity | exact El].
  - destruct (Nat.ltb cur0 limit); try discriminate. inversion H; subst; now apply SkSame.
  - inversion H; subst. apply SkDown; [rewrite cur_push; apply Nat.le_min_l | reflexivity].
Qed.

(* handed only grows, as a suffix-preserving extension *)
Lemma run_handed_ext s tr s' : run s tr = Some s' -> exists new, handed s' = new ++ handed s.
Proof.
  revert s; induction tr as [|e tr IH]; simpl; intros s H.
  - inversion H; subst. now exists [].
  - destruct (step s e) as [s1|] eqn:Es; try discriminate.
    destruct (IH _ H) as [new Hn]. destruct (step_classify _ _ _ Es) as [_ Hh|t lim _ Hh _|_ Hh].
    + exists new. now rewrite Hn, Hh.
    + exists (new ++ [(t, cur s, lim)]). rewrite Hn, Hh, <- app_assoc. reflexivity.
    + exists new. now rewrite Hn, Hh.
Qed.

(* T1: a claim hands out only indices below the limit it was called with *)
Lemma handed_below_limit_inv s tr s' :
  run s tr = Some s' ->
  (forall t i lim, In (t, i, lim) (handed s) -> i < lim) ->
  forall t i lim, In (t, i, lim) (handed s') -> i < lim.
Proof.
  revert s; induction tr as [|e tr IH]; simpl; intros s H Hinv.
  - inversion H; subst; auto.
  - destruct (step s e) as [s1|] eqn:Es; try discriminate.
    apply (IH _ H). intros t i lim Hin.
    destruct (step_classify _ _ _ Es) as [_ Hh|t0 lim0 _ Hh Hlt|_ Hh]; rewrite Hh in Hin.
    + eauto. + destruct Hin as [Heq|Hin]; [inversion Heq; subst; auto | eauto]. + eauto.
Qed.

(* T2: the cursor never passes an index without handing it out *)
Lemma no_index_skipped_gen s tr s' i :
  run s tr = Some s' -> cur s <= i -> i < cur s' ->
  exists new t lim, handed s' = new ++ handed s /\ In (t, i, lim) new.
Proof.
  revert s; induction tr as [|e tr IH]; simpl; intros s H Hle Hlt.
  - inversion H; subst. lia.
  - destruct (step s e) as [s1|] eqn:Es; try discriminate.
    destruct (step_classify _ _ _ Es) as [Hc Hh|t0 lim0 Hc Hh Hl|Hc Hh].
    + destruct (IH s1 H) as (new & t & lim & Hn & Hin); try lia.
      exists new, t, lim. rewrite <- Hh. auto.
    + destruct (Nat.eq_dec i (cur s)) as [->|Hne].
      * destruct (run_handed_ext _ _ _ H) as [new Hn].
        exists (new ++ [(t0, cur s, lim0)]), t0, lim0. split.
        -- rewrite Hn, Hh, <- app_assoc. reflexivity.
        -- apply in_or_app; right; left; reflexivity.
      * destruct (IH s1 H) as (new & t & lim & Hn & Hin); try lia.
        exists (new ++ [(t0, cur s, lim0)]), t, lim. split.
        -- rewrite Hn, Hh, <- app_assoc. reflexivity.
        -- apply in_or_app; left; exact Hin.
    + destruct (IH s1 H) as (new & t & lim & Hn & Hin); try lia.
      exists new, t, lim. rewrite <- Hh. auto.
Qed.

(* without a rewind the cursor never falls, and the indices handed out are strictly increasing:
   each is handed to exactly one claimer *)
Definition is_rewind (e : event) : bool := match e with Rewind _ _ => true | _ => false end.

Fixpoint strictly_decreasing_from (bound : nat) (l : list (tid * nat * nat)) : Prop :=
  match l with
  | [] => True
  | (_, i, _) :: l' => i < bound /\ strictly_decreasing_from i l'
  end.

Lemma sdf_weaken b b' l : b <= b' -> strictly_decreasing_from b l -> strictly_decreasing_from b' l.
Proof. destruct l as [|[[t i] lim] l]; simpl; auto. intros Hb [H1 H2]. split; [lia|auto]. Qed.

Lemma step_no_rewind_mono s e s' : step s e = Some s' -> is_rewind e = false -> cur s <= cur s'.
Proof.
  intros Hs Hr. unfold step in Hs.
  destruct e as [t lim1|t pos|t|t|t|t v]; try discriminate; destruct (pcs s t) as [|limit|limit cur0] eqn:Ep; try discriminate.
  - inversion Hs; subst; auto.
  - destruct (Nat.leb (view s t) pos); try discriminate.
    destruct (nth_opt (hist s) pos); try discriminate. inversion Hs; subst; auto.
  - destruct (Nat.leb limit cur0); try discriminate. inversion Hs; subst; auto.
  - destruct (Nat.ltb cur0 limit) eqn:El; simpl in Hs; try discriminate.
    destruct (Nat.eqb (cur s) cur0) eqn:Ec; try discriminate.
    apply Nat.eqb_eq in Ec. inversion Hs; subst. rewrite cur_push. lia.
  - destruct (Nat.ltb cur0 limit); try discriminate. inversion Hs; subst; auto.
Qed.

Lemma handed_once_inv s tr s' :
  run s tr = Some s' -> forallb (fun e => negb (is_rewind e)) tr = true ->
  strictly_decreasing_from (cur s) (handed s) ->
  strictly_decreasing_from (cur s') (handed s').
Proof.
  revert s; induction tr as [|e tr IH]; simpl; intros s H Hnr Hinv.
  - inversion H; subst; auto.
  - destruct (step s e) as [s1|] eqn:Es; try discriminate.
    apply andb_prop in Hnr as [Hr Hnr]. apply negb_true_iff in Hr.
    apply (IH _ H Hnr).
    pose proof (step_no_rewind_mono _ _ _ Es Hr) as Hm.
    destruct (step_classify _ _ _ Es) as [Hc Hh|t0 lim0 Hc Hh Hl|Hc Hh]; rewrite Hh.
    + eapply sdf_weaken; eauto.
    + simpl. split; [lia|]. exact Hinv.
    + eapply sdf_weaken; eauto.
Qed.

Lemma sdf_NoDup b l : strictly_decreasing_from b l -> NoDup (map (fun x => snd (fst x)) l).
Proof.
  revert b; induction l as [|[[t i] lim] l IH]; simpl; intros b H; [constructor|].
  destruct H as [Hi Hl]. constructor; [|eauto].
  intros Hin. clear IH Hi. revert i Hl Hin. induction l as [|[[t' i'] lim'] l IHl]; simpl; intros i Hl Hin; auto.
  destruct Hl as [Hlt Hl]. destruct Hin as [->|Hin]; [lia|].
  apply (IHl i); auto. eapply sdf_weaken; [|exact Hl]. lia.
Qed.

(* the rewind itself brings the cursor to at most its argument *)
Lemma rewind_lowers s t v s' : step s (Rewind t v) = Some s' -> cur s' <= v /\ cur s' <= cur s.
Proof.
  unfold step. destruct (pcs s t); try discriminate. intros H; inversion H; subst.
  rewrite cur_push. split; [apply Nat.le_min_r | apply Nat.le_min_l].
Qed.

(* sequential refinement: the op-sequence model used by the differential is the acceptor run by a
   single thread with fresh loads *)
Definition seq_ok (s : cstate) (t : tid) : Prop := pcs s t = Idle /\ hist s <> [].

Lemma nth_opt_last {A} (l : list A) d : l <> [] -> nth_opt l (length l - 1) = Some (last l d).
Proof.
  induction l as [|x l IH]; [congruence|]. intros _. destruct l as [|y l]; [reflexivity|].
  assert (IH' := IH ltac:(congruence)). clear IH.
  simpl length in *. rewrite Nat.sub_succ, Nat.sub_0_r in *. exact IH'.
Qed.

Lemma seq_refines s t o :
  seq_ok s t -> view s t <= newest_pos s ->
  exists s', run s (events_of t (newest_pos s) (cur s) o) = Some s' /\
             cur s' = fst (sstep (cur s) o) /\ seq_ok s' t /\ view s' t <= newest_pos s'.
Proof.
  intros [Hpc Hne] Hv. unfold newest_pos in *.
  pose proof (nth_opt_last (hist s) 0 Hne) as Hlast. fold (cur s) in Hlast.
  apply Nat.leb_le in Hv.
  destruct o as [limit|v]; unfold events_of, sstep.
  - destruct (Nat.leb limit (cur s)) eqn:El.
    + unfold run, step. rewrite Hpc. cbn [pcs view hist]. rewrite upd_same.
      rewrite Hv, Hlast. cbn [pcs]. rewrite upd_same, El.
      eexists; split; [reflexivity|]. unfold seq_ok, newest_pos.
      repeat split; cbn [pcs view hist fst]; rewrite ?upd_same; auto.
    + unfold run, step. rewrite Hpc. cbn [pcs view hist]. rewrite upd_same.
      rewrite Hv, Hlast. cbn [pcs]. rewrite upd_same.
      apply Nat.leb_gt in El. assert (Hlt : Nat.ltb (cur s) limit = true) by (apply Nat.ltb_lt; lia).
      rewrite Hlt. unfold cur at 1. cbn [hist]. fold (cur s). rewrite Nat.eqb_refl. cbn [andb].
      eexists; split; [reflexivity|]. rewrite cur_push. unfold seq_ok, newest_pos, push.
      repeat split; cbn [pcs view hist fst]; rewrite ?upd_same; auto.
      * destruct (hist s); [congruence|discriminate].
      * rewrite app_length. simpl. lia.
  - unfold run, step. rewrite Hpc.
    eexists; split; [reflexivity|]. rewrite cur_push. unfold seq_ok, newest_pos, push.
    repeat split; cbn [pcs view hist fst]; rewrite ?upd_same; auto.
    + destruct (hist s); [congruence|discriminate].
    + rewrite app_length. simpl. lia.
Qed.
