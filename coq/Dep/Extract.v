From Grevm Require Import Base.Util Dep.Model.
Require Extraction. Require ExtrOcamlBasic.
Extraction Language OCaml.
Extraction "extract/dep.ml" dinit dstep drun drun_diag.
