(* Dep/Model.v - src/tx_dependency.rs TxDependency, one atomic step per lock region / RMW, as the
   hook points report them (definitions only).

   state[t]  = (onboard, dependency)      guarded by dependent_state[t]
   affect[d] = reverse edges               guarded by affect_txs[d] (held for a whole remove(d))
   index     = execution cursor: modified only by fetch_add / fetch_min (RMWs); its relaxed loads
               are free choices of the events (a stale load can only change which of two correct
               branches is taken: spurious None in next(), hand-off vs. cursor rewind in remove)
   cpub      = published committed index (read live inside key_tx's region)
   cdone     = ghost: number of commit() calls the commit thread has performed; the commit loop
               calls publish_commit(j+1) and then commit(j), for j = 0, 1, ... *)
From Grevm Require Import Base.Util.

Inductive dpc :=
| DIdle
| DFetched (i : nat)                                    (* next(): fetch_add returned i, region pending *)
| DRemoving (d : nat) (pop : bool) (todo : list nat) (nxt : option nat).

Record dstate := {
  ntxs : nat;
  onboard : nat -> bool;
  dep : nat -> option nat;
  affect : nat -> list nat;
  index : nat;
  cpub : nat;
  cdone : nat;
  pcs : nat -> dpc;
  locked : nat -> bool;          (* affect_txs[d] is held by a running remove(d) *)
  claims : list nat;             (* ghost: every hand-out, newest first *)
  fresh : nat -> bool;           (* ghost: t was put on board since its last hand-out *)
}.

Definition dinit (n : nat) : dstate :=
  {| ntxs := n; onboard := fun _ => true; dep := fun _ => None; affect := fun _ => []; index := 0;
     cpub := 0; cdone := 0; pcs := fun _ => DIdle; locked := fun _ => false; claims := []; fresh := fun _ => true |}.

Inductive devent :=
| NextFull (t : nat)
| NextFetch (t i : nat)
| NextClaim (t i : nat) (ok : bool)
| RemoveBegin (t d : nat) (pop : bool) (len : nat)
| Release (t d x a : nat)
| RemoveEnd (t d : nat) (nxt : option nat)
| PublishCommit (v : nat)
| Commit (t j : nat) (onb : bool)
| KeyTx (t x c : nat) (depafter : option nat)
| AddDep (t x d : nat) (dd : option nat)
| AddNone (t x : nat) (onb : bool).

Definition opt_eqb (a b : option nat) : bool :=
  match a, b with Some x, Some y => Nat.eqb x y | None, None => true | _, _ => false end.

Definition is_none (a : option nat) : bool := match a with None => true | Some _ => false end.


Definition set_pc s t p := {| ntxs := ntxs s; onboard := onboard s; dep := dep s; affect := affect s; index := index s;
  cpub := cpub s; cdone := cdone s; pcs := upd (pcs s) t p; locked := locked s; claims := claims s; fresh := fresh s |}.

Fixpoint remove_one (x : nat) (l : list nat) : option (list nat) :=
  match l with
  | [] => None
  | y :: l' => if Nat.eqb x y then Some l' else match remove_one x l' with Some r => Some (y :: r) | None => None end
  end.

Definition dstep (s : dstate) (e : devent) : option dstate :=
  match e with
  | NextFull t => match pcs s t with DIdle => Some s | _ => None end
  | NextFetch t i =>
      match pcs s t with
      | DIdle =>
          if Nat.eqb i (index s) then
            Some {| ntxs := ntxs s; onboard := onboard s; dep := dep s; affect := affect s; index := S i;
                    cpub := cpub s; cdone := cdone s;
                    pcs := upd (pcs s) t (if Nat.ltb i (ntxs s) then DFetched i else DIdle); locked := locked s;
                    claims := claims s; fresh := fresh s |}
          else None
      | _ => None
      end
  | NextClaim t i ok =>
      match pcs s t with
      | DFetched i' =>
          if Nat.eqb i i' && Bool.eqb ok (onboard s i && is_none (dep s i)) then
            Some {| ntxs := ntxs s; onboard := if ok then upd (onboard s) i false else onboard s; dep := dep s;
                    affect := affect s; index := index s; cpub := cpub s; cdone := cdone s;
                    pcs := upd (pcs s) t DIdle; locked := locked s;
                    claims := if ok then i :: claims s else claims s;
                    fresh := if ok then upd (fresh s) i false else fresh s |}
          else None
      | _ => None
      end
  | RemoveBegin t d pop len =>
      match pcs s t with
      | DIdle =>
          if negb (locked s d) && Nat.eqb len (length (affect s d)) && Nat.ltb d (ntxs s) then
            match affect s d with
            | [] => Some s
            | l => Some {| ntxs := ntxs s; onboard := onboard s; dep := dep s; affect := affect s; index := index s;
                           cpub := cpub s; cdone := cdone s; pcs := upd (pcs s) t (DRemoving d pop l None);
                           locked := upd (locked s) d true; claims := claims s; fresh := fresh s |}
            end
          else None
      | _ => None
      end
  | Release t d x a =>
      match pcs s t with
      | DRemoving d' pop todo nxt =>
          if Nat.eqb d d' then
            match remove_one x todo with
            | Some todo' =>
                if opt_eqb (dep s x) (Some d) then
                  if onboard s x then
                    match a with
                    | 2 => if pop && Nat.eqb x (S d) then
                             Some {| ntxs := ntxs s; onboard := upd (onboard s) x false; dep := upd (dep s) x None;
                                     affect := affect s; index := index s; cpub := cpub s; cdone := cdone s;
                                     pcs := upd (pcs s) t (DRemoving d pop todo' (Some x)); locked := locked s;
                                     claims := x :: claims s; fresh := upd (fresh s) x false |}
                           else None
                    | 3 => Some {| ntxs := ntxs s; onboard := onboard s; dep := upd (dep s) x None;
                                   affect := affect s; index := Nat.min (index s) x; cpub := cpub s; cdone := cdone s;
                                   pcs := upd (pcs s) t (DRemoving d pop todo' nxt); locked := locked s;
                                   claims := claims s; fresh := fresh s |}
                    | _ => None
                    end
                  else
                    if Nat.eqb a 1 then
                      Some {| ntxs := ntxs s; onboard := onboard s; dep := upd (dep s) x None;
                              affect := affect s; index := index s; cpub := cpub s; cdone := cdone s;
                              pcs := upd (pcs s) t (DRemoving d pop todo' nxt); locked := locked s;
                              claims := claims s; fresh := fresh s |}
                    else None
                else
                  (* stale reverse edge: x now waits for someone else (or nobody): untouched *)
                  if Nat.eqb a 0 then Some (set_pc s t (DRemoving d pop todo' nxt)) else None
            | None => None
            end
          else None
      | _ => None
      end
  | RemoveEnd t d nxt =>
      match pcs s t with
      | DRemoving d' pop [] nxt' =>
          if Nat.eqb d d' && opt_eqb nxt nxt' then
            Some {| ntxs := ntxs s; onboard := onboard s; dep := dep s; affect := upd (affect s) d [];
                    index := index s; cpub := cpub s; cdone := cdone s; pcs := upd (pcs s) t DIdle; locked := upd (locked s) d false;
                    claims := claims s; fresh := fresh s |}
          else None
      | _ => None
      end
  | PublishCommit v =>
      if Nat.eqb v (S (cdone s)) && Nat.leb (cpub s) v then
        Some {| ntxs := ntxs s; onboard := onboard s; dep := dep s; affect := affect s; index := index s;
                cpub := v; cdone := cdone s; pcs := pcs s; locked := locked s; claims := claims s; fresh := fresh s |}
      else None
  | Commit t j onb =>
      (* the commit loop: publish_commit(j+1) has happened, commit(j) runs once, in order *)
      if Nat.eqb j (cdone s) && Nat.ltb j (cpub s) then
        if Nat.ltb (S j) (ntxs s) then
          if Bool.eqb onb (onboard s (S j)) then
            Some {| ntxs := ntxs s; onboard := onboard s;
                    dep := if onb then upd (dep s) (S j) None else dep s; affect := affect s;
                    index := if onb then Nat.min (index s) (S j) else index s;
                    cpub := cpub s; cdone := S j; pcs := pcs s; locked := locked s; claims := claims s; fresh := fresh s |}
          else None
        else Some {| ntxs := ntxs s; onboard := onboard s; dep := dep s; affect := affect s; index := index s;
                     cpub := cpub s; cdone := S j; pcs := pcs s; locked := locked s; claims := claims s; fresh := fresh s |}
      else None
  | KeyTx t x c depafter =>
      if Nat.eqb c (cpub s) && Nat.ltb x (ntxs s) then
        let d' := if Nat.ltb c x then Some x else dep s x in
        if opt_eqb depafter d' then
          Some {| ntxs := ntxs s; onboard := upd (onboard s) x true; dep := upd (dep s) x d'; affect := affect s;
                  index := if is_none d' then Nat.min (index s) x else index s;
                  cpub := cpub s; cdone := cdone s; pcs := pcs s; locked := locked s; claims := claims s; fresh := upd (fresh s) x true |}
        else None
      else None
  | AddDep t x d dd =>
      if Nat.ltb d x && negb (locked s d) && opt_eqb dd (dep s d) && Nat.ltb x (ntxs s) then
        Some {| ntxs := ntxs s; onboard := upd (upd (onboard s) x true) d true; dep := upd (dep s) x (Some d);
                affect := upd (affect s) d (if existsb (Nat.eqb x) (affect s d) then affect s d else x :: affect s d);
                index := if is_none (dep s d) then Nat.min (index s) d else index s;
                cpub := cpub s; cdone := cdone s; pcs := pcs s; locked := locked s; claims := claims s;
                fresh := upd (upd (fresh s) x true) d true |}
      else None
  | AddNone t x onb =>
      if Bool.eqb onb (onboard s x) && Nat.ltb x (ntxs s) then
        if onb then Some s
        else Some {| ntxs := ntxs s; onboard := upd (onboard s) x true; dep := upd (dep s) x None; affect := affect s;
                     index := Nat.min (index s) x; cpub := cpub s; cdone := cdone s; pcs := pcs s; locked := locked s;
                     claims := claims s; fresh := upd (fresh s) x true |}
      else None
  end.

Fixpoint drun (s : dstate) (tr : list devent) : option dstate :=
  match tr with
  | [] => Some s
  | e :: tr' => match dstep s e with Some s' => drun s' tr' | None => None end
  end.

Fixpoint drun_diag (s : dstate) (tr : list devent) (i : nat) : dstate * option nat :=
  match tr with
  | [] => (s, None)
  | e :: tr' => match dstep s e with Some s' => drun_diag s' tr' (S i) | None => (s, Some i) end
  end.
