(* Dep/Proofs.v - invariants of the dependency-graph model for every accepted event list. *)
From Grevm Require Import Base.Util Dep.Model.

Ltac dcrunch H :=
  repeat match type of H with
  | (if ?c then _ else _) = Some _ => let E := fresh "E" in destruct c eqn:E; try discriminate H
  | match ?x with _ => _ end = Some _ => let E := fresh "E" in destruct x eqn:E; try discriminate H
  | Some _ = Some _ => inversion H; clear H
  end.

Ltac bools :=
  repeat match goal with
  | H : _ && _ = true |- _ => apply andb_prop in H; destruct H
  | H : Nat.eqb _ _ = true |- _ => apply Nat.eqb_eq in H
  | H : Nat.ltb _ _ = true |- _ => apply Nat.ltb_lt in H
  | H : Nat.leb _ _ = true |- _ => apply Nat.leb_le in H
  | H : Nat.ltb _ _ = false |- _ => apply Nat.ltb_ge in H
  | H : Bool.eqb _ _ = true |- _ => apply Bool.eqb_prop in H
  | H : negb _ = true |- _ => apply negb_true_iff in H
  end.

Lemma opt_eqb_eq a b : opt_eqb a b = true -> a = b.
Proof. destruct a, b; simpl; intros H; try discriminate; auto. apply Nat.eqb_eq in H. now subst. Qed.

Lemma opt_eqb_neq a b : opt_eqb a b = false -> a <> b.
Proof. destruct a, b; simpl; intros H E; try discriminate; inversion E; subst. now rewrite Nat.eqb_refl in H. Qed.

Definition pending_claimer (s : dstate) (x : nat) : Prop := exists t, pcs s t = DFetched x.

Record dinv (s : dstate) : Prop := {
  di_edge : forall x d, dep s x = Some d -> d <> x -> In x (affect s d);
  di_self : forall x, dep s x = Some x -> cdone s < x /\ onboard s x = true;
  di_claimable : forall x, x < ntxs s -> onboard s x = true -> dep s x = None -> index s <= x \/ pending_claimer s x;
  di_cpub : cdone s <= cpub s /\ cpub s <= S (cdone s);
  di_fresh : forall x, onboard s x = true -> fresh s x = true;
  di_noself_edge : forall d x, In x (affect s d) -> d < x;
  di_removing : forall t d pop todo nxt, pcs s t = DRemoving d pop todo nxt ->
      locked s d = true /\ forall x, In x (affect s d) -> In x todo \/ dep s x <> Some d;
  di_range : forall x d, dep s x = Some d -> x < ntxs s;
  di_one_remover : forall t1 t2 d p1 l1 n1 p2 l2 n2,
      pcs s t1 = DRemoving d p1 l1 n1 -> pcs s t2 = DRemoving d p2 l2 n2 -> t1 = t2;
}.

Lemma dinv_init n : dinv (dinit n).
Proof.
  constructor; simpl; try discriminate; try contradiction; auto; try lia.
  all: try (intros x _ _ _; left; lia).
Qed.

Lemma remove_one_in x l l' : remove_one x l = Some l' -> forall y, In y l -> y = x \/ In y l'.
Proof.
  revert l'; induction l as [|z l IH]; simpl; intros l' H y Hy; [contradiction|].
  destruct (Nat.eqb_spec x z) as [->|Hne].
  - inversion H; subst. destruct Hy; auto.
  - destruct (remove_one x l) as [r|] eqn:E; [|discriminate]. inversion H; subst.
    destruct Hy as [->|Hy]; [right; left; auto|]. destruct (IH r eq_refl y Hy); auto. right; right; auto.
Qed.

Lemma pending_keep s s' x :
  (forall t, pcs s t = DFetched x -> pcs s' t = DFetched x) -> pending_claimer s x -> pending_claimer s' x.
Proof. intros H [t Ht]. exists t. auto. Qed.

(* ------------------------------------------------------------ per-event preservation *)

Ltac pend_other t :=
  match goal with
  | Hp : pending_claimer _ ?x |- _ =>
      let t' := fresh "t'" in let Ht' := fresh "Ht'" in
      destruct Hp as [t' Ht'];
      destruct (Nat.eq_dec t' t) as [->|?]; [try congruence | right; exists t'; simpl; rewrite ?upd_other by auto; auto]
  end.

Ltac other_removing t Ir :=
  let t' := fresh "t'" in let Ht' := fresh "Ht'" in
  intros t' ? ? ? ? Ht'; cbn [pcs affect dep locked] in Ht' |- *;
  destruct (Nat.eq_dec t' t) as [->|?];
  [ try rewrite upd_same in Ht'; try discriminate Ht' | try (rewrite upd_other in Ht' by auto); eauto ].

Ltac one_remover t Iu :=
  let t1 := fresh "t1" in let t2 := fresh "t2" in let H1 := fresh "H1" in let H2 := fresh "H2" in
  intros t1 t2 ? ? ? ? ? ? ? H1 H2; cbn [pcs] in H1, H2;
  destruct (Nat.eq_dec t1 t) as [->|?]; destruct (Nat.eq_dec t2 t) as [->|?]; auto;
  try rewrite upd_same in H1; try rewrite upd_same in H2;
  try (rewrite upd_other in H1 by auto); try (rewrite upd_other in H2 by auto);
  try discriminate; try (inversion H1; inversion H2; subst; eauto; fail); eauto.

Lemma dinv_nextfetch s t i s' : dinv s -> dstep s (NextFetch t i) = Some s' -> dinv s'.
Proof.
  intros [Ie Is Ic Ip If In' Ir Irg Iu] H. simpl in H. dcrunch H; subst; bools; subst.
  constructor; simpl; auto.
  - intros x Hx Ho Hd. destruct (Ic x Hx Ho Hd) as [Hle|Hp].
    + destruct (Nat.eq_dec x (index s)) as [->|Hne]; [|left; lia].
      right. exists t. simpl. rewrite upd_same. destruct (Nat.ltb_spec (index s) (ntxs s)); [reflexivity|lia].
    + pend_other t.
  - other_removing t Ir. destruct (Nat.ltb (index s) (ntxs s)); discriminate.
  - intros t1 t2 d0 p1 l1 n1 p2 l2 n2 H1 H2.
    destruct (Nat.eq_dec t1 t) as [->|?]; [rewrite upd_same in H1; destruct (Nat.ltb (index s) (ntxs s)); discriminate|].
    destruct (Nat.eq_dec t2 t) as [->|?]; [rewrite upd_same in H2; destruct (Nat.ltb (index s) (ntxs s)); discriminate|].
    rewrite upd_other in H1 by auto. rewrite upd_other in H2 by auto. eauto.
Qed.

Lemma dinv_nextclaim s t i ok s' : dinv s -> dstep s (NextClaim t i ok) = Some s' -> dinv s'.
Proof.
  intros [Ie Is Ic Ip If In' Ir Irg Iu] H. simpl in H. dcrunch H; subst; bools; subst.
  destruct (onboard s i0) eqn:Eo; destruct (is_none (dep s i0)) eqn:Ed; simpl; constructor; simpl; auto.
  all: try (other_removing t Ir; fail).
  all: try (one_remover t Iu; fail).
  - intros x Hx. destruct (Is x Hx) as [A B]. split; auto.
    destruct (Nat.eq_dec x i0) as [->|Hne]; [|now rewrite upd_other].
    rewrite Hx in Ed. discriminate.
  - intros x Hx Ho Hd. destruct (Nat.eq_dec x i0) as [->|Hne]; [rewrite upd_same in Ho; discriminate|].
    rewrite upd_other in Ho by auto. destruct (Ic x Hx Ho Hd) as [|Hp]; auto.
    destruct Hp as [t' Ht']. destruct (Nat.eq_dec t' t) as [->|Hne']; [rewrite E in Ht'; inversion Ht'; congruence|].
    right. exists t'. simpl. now rewrite upd_other.
  - intros x Ho. destruct (Nat.eq_dec x i0) as [->|Hne]; [rewrite upd_same in Ho; discriminate|].
    rewrite upd_other in *; auto.
  - intros x Hx Ho Hd. destruct (Ic x Hx Ho Hd) as [|Hp]; auto.
    destruct Hp as [t' Ht']. destruct (Nat.eq_dec t' t) as [->|Hne'].
    + rewrite E in Ht'. inversion Ht'; subst. destruct (dep s x); [discriminate Hd|discriminate Ed].
    + right. exists t'. simpl. now rewrite upd_other.
  - intros x Hx Ho Hd. destruct (Ic x Hx Ho Hd) as [|Hp]; auto.
    destruct Hp as [t' Ht']. destruct (Nat.eq_dec t' t) as [->|Hne'].
    + rewrite E in Ht'. inversion Ht'; subst. congruence.
    + right. exists t'. simpl. now rewrite upd_other.
  - intros x Hx Ho Hd. destruct (Ic x Hx Ho Hd) as [|Hp]; auto.
    destruct Hp as [t' Ht']. destruct (Nat.eq_dec t' t) as [->|Hne'].
    + rewrite E in Ht'. inversion Ht'; subst. congruence.
    + right. exists t'. simpl. now rewrite upd_other.
Qed.

Lemma dinv_removebegin s t d pop len s' : dinv s -> dstep s (RemoveBegin t d pop len) = Some s' -> dinv s'.
Proof.
  intros [Ie Is Ic Ip If In' Ir Irg Iu] H. simpl in H. dcrunch H; subst; bools; subst; [constructor; auto|].
  constructor; simpl; auto.
  - intros x Hx Ho Hd. destruct (Ic x Hx Ho Hd) as [|Hp]; auto. pend_other t.
  - intros t' d' pop' todo nxt Ht'. destruct (Nat.eq_dec t' t) as [->|Hne].
    + rewrite upd_same in Ht'. inversion Ht'; subst. rewrite upd_same. split; auto.
      intros x Hx. left. rewrite <- E1. exact Hx.
    + rewrite upd_other in Ht' by auto. destruct (Ir _ _ _ _ _ Ht') as [A B]. split; auto.
      destruct (Nat.eq_dec d' d) as [->|Hd]; [rewrite upd_same; auto | rewrite upd_other; auto].
  - intros t1 t2 d0 p1 l1 n1 p2 l2 n2 H1 H2.
    destruct (Nat.eq_dec t1 t) as [->|N1]; destruct (Nat.eq_dec t2 t) as [->|N2]; auto.
    + rewrite upd_same in H1. rewrite upd_other in H2 by auto. inversion H1; subst.
      destruct (Ir _ _ _ _ _ H2) as [A _]. congruence.
    + rewrite upd_same in H2. rewrite upd_other in H1 by auto. inversion H2; subst.
      destruct (Ir _ _ _ _ _ H1) as [A _]. congruence.
    + rewrite upd_other in H1 by auto. rewrite upd_other in H2 by auto. eauto.
Qed.

Ltac one_remover_rel t Iu E :=
  let t1 := fresh "t1" in let t2 := fresh "t2" in let H1 := fresh "H1" in let H2 := fresh "H2" in
  intros t1 t2 ? ? ? ? ? ? ? H1 H2;
  destruct (Nat.eq_dec t1 t) as [->|?]; destruct (Nat.eq_dec t2 t) as [->|?]; auto;
  [ rewrite upd_same in H1; rewrite upd_other in H2 by auto; inversion H1; subst; symmetry; eapply Iu; eauto
  | rewrite upd_same in H2; rewrite upd_other in H1 by auto; inversion H2; subst; eapply Iu; eauto
  | rewrite upd_other in H1 by auto; rewrite upd_other in H2 by auto; eauto ].

Lemma dinv_release s t d x a s' : dinv s -> dstep s (Release t d x a) = Some s' -> dinv s'.
Proof.
  intros [Ie Is Ic Ip If In' Ir Irg Iu] H. simpl in H.
  destruct (pcs s t) as [| |d' pop todo nxt] eqn:E; try discriminate.
  destruct (Nat.eqb_spec d d') as [<-|]; [|discriminate].
  destruct (remove_one x todo) as [todo'|] eqn:Er; [|discriminate].
  destruct (Ir _ _ _ _ _ E) as [Hlock Hrem].
  assert (Hrem' : forall dep', (forall y, y <> x -> dep' y = dep s y) -> dep' x <> Some d ->
                  forall y, In y (affect s d) -> In y todo' \/ dep' y <> Some d).
  { intros dep' Hoth Hx y Hy. destruct (Nat.eq_dec y x) as [->|Hne]; [right; auto|].
    destruct (Hrem y Hy) as [Hin|Hn].
    - destruct (remove_one_in _ _ _ Er y Hin) as [->|]; [congruence|left; auto].
    - right. now rewrite Hoth. }
  assert (Hothers : forall t' d2 pop2 todo2 nxt2 (dep' : nat -> option nat),
             t' <> t -> pcs s t' = DRemoving d2 pop2 todo2 nxt2 ->
             (forall y, y <> x -> dep' y = dep s y) -> (dep' x = None \/ dep' x = dep s x) ->
             locked s d2 = true /\ forall y, In y (affect s d2) -> In y todo2 \/ dep' y <> Some d2).
  { intros t' d2 pop2 todo2 nxt2 dep' Hne Ht' Hoth Hx. destruct (Ir _ _ _ _ _ Ht') as [A B]. split; auto.
    intros y Hy. destruct (B y Hy) as [|Hn]; auto. right.
    destruct (Nat.eq_dec y x) as [->|Hyx]; [destruct Hx as [-> | ->]; [discriminate|auto]|now rewrite Hoth]. }
  destruct (opt_eqb (dep s x) (Some d)) eqn:Ed.
  - apply opt_eqb_eq in Ed. destruct (onboard s x) eqn:Eo.
    + destruct a as [|[|[|[|a]]]]; try discriminate.
      * (* hand-over *) destruct (pop && Nat.eqb x (S d)) eqn:Ep; [|discriminate]. inversion H; subst; clear H.
        constructor; simpl; auto.
        all: try (one_remover_rel t Iu E; fail).
        -- intros y d0 Hy Hne. destruct (Nat.eq_dec y x) as [->|Hyx]; [rewrite upd_same in Hy; discriminate|].
           rewrite upd_other in Hy by auto. auto.
        -- intros y Hy. destruct (Nat.eq_dec y x) as [->|Hyx]; [rewrite upd_same in Hy; discriminate|].
           rewrite upd_other in Hy by auto. rewrite upd_other by auto. auto.
        -- intros y Hyr Ho Hd. destruct (Nat.eq_dec y x) as [->|Hyx]; [rewrite upd_same in Ho; discriminate|].
           rewrite upd_other in Ho by auto. rewrite upd_other in Hd by auto. destruct (Ic y Hyr Ho Hd) as [|Hp]; auto. pend_other t.
        -- intros y Ho. destruct (Nat.eq_dec y x) as [->|Hyx]; [rewrite upd_same in Ho; discriminate|].
           rewrite upd_other in * by auto. auto.
        -- intros t' d2 pop2 todo2 nxt2 Ht'. destruct (Nat.eq_dec t' t) as [->|Hne].
           ++ rewrite upd_same in Ht'. inversion Ht'; subst. split; auto.
              apply Hrem'; [intros; now rewrite upd_other|rewrite upd_same; discriminate].
           ++ rewrite upd_other in Ht' by auto. eapply Hothers; eauto; [intros; now rewrite upd_other|left; now rewrite upd_same].
        -- intros y d0 Hy. destruct (Nat.eq_dec y x) as [->|Hyx]; [rewrite upd_same in Hy; discriminate|].
           rewrite upd_other in Hy by auto. eauto.
      * (* cursor rewound *) inversion H; subst; clear H. constructor; simpl; auto.
        all: try (one_remover_rel t Iu E; fail).
        -- intros y d0 Hy Hne. destruct (Nat.eq_dec y x) as [->|Hyx]; [rewrite upd_same in Hy; discriminate|].
           rewrite upd_other in Hy by auto. auto.
        -- intros y Hy. destruct (Nat.eq_dec y x) as [->|Hyx]; [rewrite upd_same in Hy; discriminate|].
           rewrite upd_other in Hy by auto. auto.
        -- intros y Hyr Ho Hd. destruct (Nat.eq_dec y x) as [->|Hyx]; [left; apply Nat.le_min_r|].
           rewrite upd_other in Hd by auto. destruct (Ic y Hyr Ho Hd) as [|Hp]; [left; lia|]. pend_other t.
        -- intros t' d2 pop2 todo2 nxt2 Ht'. destruct (Nat.eq_dec t' t) as [->|Hne].
           ++ rewrite upd_same in Ht'. inversion Ht'; subst. split; auto.
              apply Hrem'; [intros; now rewrite upd_other|rewrite upd_same; discriminate].
           ++ rewrite upd_other in Ht' by auto. eapply Hothers; eauto; [intros; now rewrite upd_other|left; now rewrite upd_same].
        -- intros y d0 Hy. destruct (Nat.eq_dec y x) as [->|Hyx]; [rewrite upd_same in Hy; discriminate|].
           rewrite upd_other in Hy by auto. eauto.
    + (* not on board: cleared only *)
      destruct (Nat.eqb a 1); [|discriminate]. inversion H; subst; clear H. constructor; simpl; auto.
        all: try (one_remover_rel t Iu E; fail).
      * intros y d0 Hy Hne. destruct (Nat.eq_dec y x) as [->|Hyx]; [rewrite upd_same in Hy; discriminate|].
        rewrite upd_other in Hy by auto. auto.
      * intros y Hy. destruct (Nat.eq_dec y x) as [->|Hyx]; [rewrite upd_same in Hy; discriminate|].
        rewrite upd_other in Hy by auto. auto.
      * intros y Hyr Ho Hd. destruct (Nat.eq_dec y x) as [->|Hyx]; [congruence|].
        rewrite upd_other in Hd by auto. destruct (Ic y Hyr Ho Hd) as [|Hp]; auto. pend_other t.
      * intros t' d2 pop2 todo2 nxt2 Ht'. destruct (Nat.eq_dec t' t) as [->|Hne].
        -- rewrite upd_same in Ht'. inversion Ht'; subst. split; auto.
           apply Hrem'; [intros; now rewrite upd_other|rewrite upd_same; discriminate].
        -- rewrite upd_other in Ht' by auto. eapply Hothers; eauto; [intros; now rewrite upd_other|left; now rewrite upd_same].
      * intros y d0 Hy. destruct (Nat.eq_dec y x) as [->|Hyx]; [rewrite upd_same in Hy; discriminate|].
        rewrite upd_other in Hy by auto. eauto.
  - (* stale edge *) apply opt_eqb_neq in Ed. destruct (Nat.eqb a 0); [|discriminate]. inversion H; subst; clear H.
    constructor; simpl; auto.
        all: try (one_remover_rel t Iu E; fail).
    + intros y Hyr Ho Hd. destruct (Ic y Hyr Ho Hd) as [|Hp]; auto. pend_other t.
    + intros t' d2 pop2 todo2 nxt2 Ht'. destruct (Nat.eq_dec t' t) as [->|Hne].
      * rewrite upd_same in Ht'. inversion Ht'; subst. split; auto; apply Hrem'; auto.
      * rewrite upd_other in Ht' by auto. eauto.
Qed.

Lemma dinv_removeend s t d nxt s' : dinv s -> dstep s (RemoveEnd t d nxt) = Some s' -> dinv s'.
Proof.
  intros [Ie Is Ic Ip If In' Ir Irg Iu] H. simpl in H.
  destruct (pcs s t) as [| |d' pop todo nxt'] eqn:E; try discriminate.
  destruct todo; [|discriminate]. destruct (Nat.eqb_spec d d') as [<-|]; [|discriminate].
  destruct (opt_eqb nxt nxt'); [|discriminate]. simpl in H. inversion H; subst; clear H.
  destruct (Ir _ _ _ _ _ E) as [Hlock Hrem].
  constructor; simpl; auto.
  - intros y d0 Hy Hne. destruct (Nat.eq_dec d0 d) as [->|Hd].
    + exfalso. destruct (Hrem y (Ie y d Hy Hne)) as [[]|Hn]. congruence.
    + rewrite upd_other by auto. auto.
  - intros y Hyr Ho Hd. destruct (Ic y Hyr Ho Hd) as [|Hp]; auto. pend_other t.
  - intros d0 y Hy. destruct (Nat.eq_dec d0 d) as [->|Hd]; [rewrite upd_same in Hy; contradiction|].
    rewrite upd_other in Hy by auto. eauto.
  - intros t' d2 pop2 todo2 nxt2 Ht'. destruct (Nat.eq_dec t' t) as [->|Hne]; [rewrite upd_same in Ht'; discriminate|].
    rewrite upd_other in Ht' by auto. destruct (Ir _ _ _ _ _ Ht') as [A B].
    destruct (Nat.eq_dec d2 d) as [->|Hd].
    + exfalso. apply Hne. eapply Iu; eauto.
    + rewrite !upd_other by auto. split; auto.
  - one_remover t Iu.
Qed.

Lemma dinv_publish s v s' : dinv s -> dstep s (PublishCommit v) = Some s' -> dinv s'.
Proof.
  intros [Ie Is Ic Ip If In' Ir Irg Iu] H. simpl in H. dcrunch H; subst; bools; subst.
  constructor; simpl; auto; lia.
Qed.

Lemma dinv_commit s t j onb s' : dinv s -> dstep s (Commit t j onb) = Some s' -> dinv s'.
Proof.
  intros [Ie Is Ic Ip If In' Ir Irg Iu] H. simpl in H. dcrunch H; subst; bools; subst.
  - (* successor exists *) destruct (onboard s (S (cdone s))) eqn:Eo; constructor; simpl; auto; try lia.
    + intros y d0 Hy Hne. destruct (Nat.eq_dec y (S (cdone s))) as [->|Hyx]; [rewrite upd_same in Hy; discriminate|].
      rewrite upd_other in Hy by auto. auto.
    + intros y Hy. destruct (Nat.eq_dec y (S (cdone s))) as [->|Hyx]; [rewrite upd_same in Hy; discriminate|].
      rewrite upd_other in Hy by auto. destruct (Is y Hy). split; auto. lia.
    + intros y Hyr Ho Hd. destruct (Nat.eq_dec y (S (cdone s))) as [->|Hyx]; [left; apply Nat.le_min_r|].
      rewrite upd_other in Hd by auto. destruct (Ic y Hyr Ho Hd) as [|Hp]; [left; lia|auto].
    + intros t' d2 pop2 todo2 nxt2 Ht'. destruct (Ir _ _ _ _ _ Ht') as [A B]. split; auto.
      intros y Hy. destruct (B y Hy) as [|Hn]; auto. right.
      destruct (Nat.eq_dec y (S (cdone s))) as [->|Hyx]; [rewrite upd_same; discriminate|now rewrite upd_other].
    + intros y d0 Hy. destruct (Nat.eq_dec y (S (cdone s))) as [->|Hyx]; [rewrite upd_same in Hy; discriminate|].
      rewrite upd_other in Hy by auto. eauto.
    + intros y Hy. destruct (Is y Hy) as [A B]. split; auto.
      destruct (Nat.eq_dec y (S (cdone s))) as [->|Hyx]; [congruence|lia].
  - (* no successor *) constructor; simpl; auto; try lia.
    intros y Hy. destruct (Is y Hy) as [A B]. split; auto. pose proof (Irg y y Hy). lia.
Qed.

Lemma dinv_keytx s t x c da s' : dinv s -> dstep s (KeyTx t x c da) = Some s' -> dinv s'.
Proof.
  intros [Ie Is Ic Ip If In' Ir Irg Iu] H. simpl in H. dcrunch H; subst; bools; subst.
  set (d' := if cpub s <? x then Some x else dep s x) in *.
  constructor; simpl; auto.
  - intros y d0 Hy Hne. destruct (Nat.eq_dec y x) as [->|Hyx].
    + rewrite upd_same in Hy. unfold d' in Hy. destruct (cpub s <? x); [inversion Hy; congruence|auto].
    + rewrite upd_other in Hy by auto. auto.
  - intros y Hy. destruct (Nat.eq_dec y x) as [->|Hyx].
    + rewrite !upd_same in *. split; auto. unfold d' in Hy. destruct (Nat.ltb_spec (cpub s) x); [lia|].
      destruct (Is x Hy); auto.
    + rewrite upd_other in Hy by auto. rewrite upd_other by auto. auto.
  - intros y Hyr Ho Hd. destruct (Nat.eq_dec y x) as [->|Hyx].
    + rewrite upd_same in Hd. rewrite Hd. simpl. left. apply Nat.le_min_r.
    + rewrite upd_other in Ho by auto. rewrite upd_other in Hd by auto.
      destruct (Ic y Hyr Ho Hd) as [Hle|Hp]; auto. left. destruct (is_none d'); lia.
  - intros y Ho. destruct (Nat.eq_dec y x) as [->|Hyx]; [now rewrite upd_same|].
    rewrite upd_other in Ho by auto. rewrite upd_other by auto. auto.
  - intros t' d2 pop2 todo2 nxt2 Ht'. destruct (Ir _ _ _ _ _ Ht') as [A B]. split; auto.
    intros y Hy. destruct (B y Hy) as [|Hn]; auto. right.
    destruct (Nat.eq_dec y x) as [->|Hyx]; [|now rewrite upd_other].
    rewrite upd_same. unfold d'. destruct (cpub s <? x); auto.
    pose proof (In' _ _ Hy). intros Heq; inversion Heq; lia.
  - intros y d0 Hy. destruct (Nat.eq_dec y x) as [->|Hyx]; [auto|]. rewrite upd_other in Hy by auto. eauto.
Qed.

Lemma in_add x l y : In y (if existsb (Nat.eqb x) l then l else x :: l) <-> y = x \/ In y l.
Proof.
  destruct (existsb (Nat.eqb x) l) eqn:E.
  - split; auto. intros [->|]; auto. apply existsb_exists in E. destruct E as (z & Hz & Hq). apply Nat.eqb_eq in Hq. now subst.
  - simpl. split; intros [|]; auto.
Qed.

Lemma dinv_adddep s t x d dd s' : dinv s -> dstep s (AddDep t x d dd) = Some s' -> dinv s'.
Proof.
  intros [Ie Is Ic Ip If In' Ir Irg Iu] H. simpl in H. dcrunch H; subst; bools; subst.
  match goal with Hd : opt_eqb _ _ = true |- _ => apply opt_eqb_eq in Hd; subst end.
  constructor; simpl; auto.
  - intros y d0 Hy Hne. destruct (Nat.eq_dec y x) as [->|Hyx].
    + rewrite upd_same in Hy. inversion Hy; subst. rewrite upd_same. apply in_add. auto.
    + rewrite upd_other in Hy by auto. destruct (Nat.eq_dec d0 d) as [->|Hd0]; [rewrite upd_same; apply in_add; right; auto|].
      rewrite upd_other by auto. auto.
  - intros y Hy. destruct (Nat.eq_dec y x) as [->|Hyx]; [rewrite upd_same in Hy; inversion Hy; lia|].
    rewrite upd_other in Hy by auto. destruct (Is y Hy) as [A B]. split; auto.
    destruct (Nat.eq_dec y d) as [->|Hyd]; [now rewrite upd_same|]. rewrite !upd_other by auto. auto.
  - intros y Hyr Ho Hd. destruct (Nat.eq_dec y x) as [->|Hyx]; [rewrite upd_same in Hd; discriminate|].
    rewrite upd_other in Hd by auto. destruct (Nat.eq_dec y d) as [->|Hyd].
    + rewrite Hd. simpl. left. apply Nat.le_min_r.
    + rewrite !upd_other in Ho by auto. destruct (Ic y Hyr Ho Hd) as [Hle|Hp]; auto. left. destruct (is_none (dep s d)); lia.
  - intros y Ho. destruct (Nat.eq_dec y d) as [->|Hyd]; [now rewrite upd_same|].
    rewrite (upd_other _ d) by auto. destruct (Nat.eq_dec y x) as [->|Hyx]; [now rewrite upd_same|].
    rewrite upd_other by auto. rewrite !upd_other in Ho by auto. auto.
  - intros d0 y Hy. destruct (Nat.eq_dec d0 d) as [->|Hd0].
    + rewrite upd_same in Hy. apply in_add in Hy. destruct Hy as [->|Hy]; eauto.
    + rewrite upd_other in Hy by auto. eauto.
  - intros t' d2 pop2 todo2 nxt2 Ht'. destruct (Ir _ _ _ _ _ Ht') as [A B]. split; auto.
    destruct (Nat.eq_dec d2 d) as [->|Hd2]; [congruence|]. rewrite upd_other by auto.
    intros y Hy. destruct (B y Hy) as [|Hn]; auto. right.
    destruct (Nat.eq_dec y x) as [->|Hyx]; [rewrite upd_same; congruence|now rewrite upd_other].
  - intros y d0 Hy. destruct (Nat.eq_dec y x) as [->|Hyx]; [auto|]. rewrite upd_other in Hy by auto. eauto.
Qed.

Lemma dinv_addnone s t x onb s' : dinv s -> dstep s (AddNone t x onb) = Some s' -> dinv s'.
Proof.
  intros [Ie Is Ic Ip If In' Ir Irg Iu] H. simpl in H. dcrunch H; subst; bools; subst; [constructor; auto|].
  constructor; simpl; auto.
  - intros y d0 Hy Hne. destruct (Nat.eq_dec y x) as [->|Hyx]; [rewrite upd_same in Hy; discriminate|].
    rewrite upd_other in Hy by auto. auto.
  - intros y Hy. destruct (Nat.eq_dec y x) as [->|Hyx]; [rewrite upd_same in Hy; discriminate|].
    rewrite upd_other in Hy by auto. rewrite upd_other by auto. auto.
  - intros y Hyr Ho Hd. destruct (Nat.eq_dec y x) as [->|Hyx]; [left; apply Nat.le_min_r|].
    rewrite upd_other in Ho by auto. rewrite upd_other in Hd by auto.
    destruct (Ic y Hyr Ho Hd) as [|Hp]; [left; lia|auto].
  - intros y Ho. destruct (Nat.eq_dec y x) as [->|Hyx]; [now rewrite upd_same|].
    rewrite upd_other in Ho by auto. rewrite upd_other by auto. auto.
  - intros t' d2 pop2 todo2 nxt2 Ht'. destruct (Ir _ _ _ _ _ Ht') as [A B]. split; auto.
    intros y Hy. destruct (B y Hy) as [|Hn]; auto. right.
    destruct (Nat.eq_dec y x) as [->|Hyx]; [rewrite upd_same; discriminate|now rewrite upd_other].
  - intros y d0 Hy. destruct (Nat.eq_dec y x) as [->|Hyx]; [rewrite upd_same in Hy; discriminate|].
    rewrite upd_other in Hy by auto. eauto.
Qed.

Theorem dinv_step s e s' : dinv s -> dstep s e = Some s' -> dinv s'.
Proof.
  intros I H. destruct e.
  - simpl in H. destruct (pcs s t); try discriminate. inversion H; subst. exact I.
  - eapply dinv_nextfetch; eauto.
  - eapply dinv_nextclaim; eauto.
  - eapply dinv_removebegin; eauto.
  - eapply dinv_release; eauto.
  - eapply dinv_removeend; eauto.
  - eapply dinv_publish; eauto.
  - eapply dinv_commit; eauto.
  - eapply dinv_keytx; eauto.
  - eapply dinv_adddep; eauto.
  - eapply dinv_addnone; eauto.
Qed.

Theorem dinv_run s tr s' : dinv s -> drun s tr = Some s' -> dinv s'.
Proof.
  revert s; induction tr as [|e tr IH]; simpl; intros s I H.
  - inversion H; subst; auto.
  - destruct (dstep s e) as [s1|] eqn:E; [|discriminate]. apply (IH s1); auto. eapply dinv_step; eauto.
Qed.
