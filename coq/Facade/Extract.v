From Grevm Require Import Base.Util Facade.Model.
Require Extraction. Require ExtrOcamlBasic.
Extraction Language OCaml.
Extraction "extract/facade.ml" init_state balance sload set_balance sstore exec_op run_body
  adapter_finish adapter_call is_mutator is_err.
