(* Model of grevm's capability-restricted precompile facade and its adapter (property C11).

   Code modelled (read line by line), /repo/src/precompile.rs:
     :65-81    DynParallelPrecompile::to_alloy          (the adapter)
     :146-171  ParallelPrecompileInput::from_alloy      (initial facade state: fault = None)
     :247-251  ParallelPrecompileState {internals, is_static, fault}
     :253-308  balance / sload / set_balance / sstore
     :310-336  ensure_healthy / ensure_mutable / record_fault / take_fault
     :357-361  ParallelPrecompileError::database
   Both execution paths install the adapters through the same build_evm
   (/repo/src/scheduler/executor.rs:143-147, called from GrevmExecutor::new and
   /repo/src/scheduler/fallback.rs:77-85).

   OPAQUE (Section variables): the journal behind alloy's EvmInternals - its state type [J] and the
   four operations the facade uses, each returning the new journal state and [JOk v | JErr e] -
   together with the payload types and projections ([balance_of] is `load.map(|a| a.info.balance)`,
   [setbal_of] is `load.map(|mut a| a.set_balance(balance))`), the halt / fatal / output types of
   revm-precompile, `PrecompileHalt::other_static("state change during static call")`,
   `PrecompileError::Fatal(error.to_string())` and `PrecompileOutput::halt(reason, reservoir)`.

   Every operation returns, besides its result, the list of journal calls it performed ([jcall]);
   "performs no journal call" is [calls = []] together with an unchanged journal state.

   This file contains definitions only (no proofs), so it still runs when a proof breaks. *)
From Grevm Require Import Base.Util.

Inductive jres (X E : Type) := JOk (x : X) | JErr (e : E).
Arguments JOk {X E} x.
Arguments JErr {X E} e.

Inductive result (X E : Type) := Ok (x : X) | Err (e : E).
Arguments Ok {X E} x.
Arguments Err {X E} e.

Section Facade.
  Variable J : Type.                 (* journal (+ database behind it) *)
  Variable addr word : Type.
  Variable dberr : Type.             (* EvmInternalsError *)
  Variable halt fatal out : Type.    (* PrecompileHalt, PrecompileError, PrecompileOutput *)
  Variable acct_load bal_load sload_v sstore_v mut_load setbal_v : Type.

  Variable j_load_account : J -> addr -> J * jres acct_load dberr.          (* internals.load_account      *)
  Variable j_sload : J -> addr -> word -> J * jres sload_v dberr.            (* internals.sload             *)
  Variable j_sstore : J -> addr -> word -> word -> J * jres sstore_v dberr.  (* internals.sstore            *)
  Variable j_load_account_mut : J -> addr -> J * jres mut_load dberr.        (* internals.load_account_mut  *)
  Variable j_set_balance : J -> addr -> word -> J.                           (* JournaledAccount::set_balance on the loaded handle *)
  Variable balance_of : acct_load -> bal_load.
  Variable setbal_of : mut_load -> setbal_v.

  Variable static_halt : halt.                       (* :315-317 *)
  Variable fatal_of_db : dberr -> fatal.             (* :358-360 *)
  Variable halt_output : halt -> word -> out.        (* PrecompileOutput::halt(reason, reservoir) *)

  (* ParallelPrecompileError *)
  Inductive perr := PHalt (h : halt) | PFatal (f : fatal).

  Record pstate := { is_static : bool; fault : option perr }.

  (* from_alloy :146-171 *)
  Definition init_state (static : bool) : pstate := {| is_static := static; fault := None |}.

  Inductive jcall :=
  | CLoadAccount (a : addr)
  | CSload (a : addr) (k : word)
  | CSstore (a : addr) (k v : word)
  | CLoadAccountMut (a : addr)                 (* load failed: nothing set *)
  | CLoadAccountMutSetBalance (a : addr) (v : word).

  (* :310-312   self.fault.clone().map_or(Ok(()), Err) *)
  Definition ensure_healthy (st : pstate) : option perr := fault st.

  (* :325-331   let fault = self.fault.get_or_insert(fault).clone(); Err(fault) *)
  Definition record_fault (st : pstate) (f : perr) : pstate * perr :=
    match fault st with
    | Some g => (st, g)
    | None => ({| is_static := is_static st; fault := Some f |}, f)
    end.

  (* :314-323 *)
  Definition ensure_mutable (st : pstate) : pstate * option perr :=
    match ensure_healthy st with
    | Some f => (st, Some f)
    | None =>
        if is_static st then
          let '(st', f) := record_fault st (PHalt static_halt) in (st', Some f)
        else (st, None)
    end.

  Definition opret (X : Type) : Type := (pstate * J * list jcall * result X perr)%type.

  (* :254-263 *)
  Definition balance (st : pstate) (j : J) (a : addr) : opret bal_load :=
    match ensure_healthy st with
    | Some f => (st, j, [], Err f)
    | None =>
        match j_load_account j a with
        | (j', JOk l) => (st, j', [CLoadAccount a], Ok (balance_of l))
        | (j', JErr e) =>
            let '(st', f) := record_fault st (PFatal (fatal_of_db e)) in
            (st', j', [CLoadAccount a], Err f)
        end
    end.

  (* :266-276 *)
  Definition sload (st : pstate) (j : J) (a : addr) (k : word) : opret sload_v :=
    match ensure_healthy st with
    | Some f => (st, j, [], Err f)
    | None =>
        match j_sload j a k with
        | (j', JOk l) => (st, j', [CSload a k], Ok l)
        | (j', JErr e) =>
            let '(st', f) := record_fault st (PFatal (fatal_of_db e)) in
            (st', j', [CSload a k], Err f)
        end
    end.

  (* :282-293 *)
  Definition set_balance (st : pstate) (j : J) (a : addr) (v : word) : opret setbal_v :=
    match ensure_mutable st with
    | (st1, Some f) => (st1, j, [], Err f)
    | (st1, None) =>
        match j_load_account_mut j a with
        | (j', JOk l) => (st1, j_set_balance j' a v, [CLoadAccountMutSetBalance a v], Ok (setbal_of l))
        | (j', JErr e) =>
            let '(st', f) := record_fault st1 (PFatal (fatal_of_db e)) in
            (st', j', [CLoadAccountMut a], Err f)
        end
    end.

  (* :296-308 *)
  Definition sstore (st : pstate) (j : J) (a : addr) (k v : word) : opret sstore_v :=
    match ensure_mutable st with
    | (st1, Some f) => (st1, j, [], Err f)
    | (st1, None) =>
        match j_sstore j a k v with
        | (j', JOk l) => (st1, j', [CSstore a k v], Ok l)
        | (j', JErr e) =>
            let '(st', f) := record_fault st1 (PFatal (fatal_of_db e)) in
            (st', j', [CSstore a k v], Err f)
        end
    end.

  (* ---------------------------------------------------------------------------------------------
     Scripted precompile bodies: a list of facade operations, each either propagating an error
     (`?`) or ignoring it (`let _ = ...`), then the implementation's own return value. *)
  Inductive op :=
  | OBalance (a : addr)
  | OSload (a : addr) (k : word)
  | OSetBalance (a : addr) (v : word)
  | OSstore (a : addr) (k v : word).

  Inductive mode := Propagate | Ignore.

  Inductive payload :=
  | VBal (v : bal_load) | VSload (v : sload_v) | VSetBal (v : setbal_v) | VSstore (v : sstore_v).

  Definition opres := result payload perr.

  Definition map_res {X} (f : X -> payload) (r : result X perr) : opres :=
    match r with Ok x => Ok (f x) | Err e => Err e end.

  Definition exec_op (st : pstate) (j : J) (o : op) : pstate * J * list jcall * opres :=
    match o with
    | OBalance a => let '(st', j', c, r) := balance st j a in (st', j', c, map_res VBal r)
    | OSload a k => let '(st', j', c, r) := sload st j a k in (st', j', c, map_res VSload r)
    | OSetBalance a v => let '(st', j', c, r) := set_balance st j a v in (st', j', c, map_res VSetBal r)
    | OSstore a k v => let '(st', j', c, r) := sstore st j a k v in (st', j', c, map_res VSstore r)
    end.

  Record body_run := {
    br_state : pstate;
    br_journal : J;
    br_calls : list jcall;           (* all journal calls, in order *)
    br_results : list opres;         (* one per executed operation *)
    br_early : option perr;          (* Some f: a `?` returned f and the body stopped *)
  }.

  Fixpoint run_body (st : pstate) (j : J) (ops : list (op * mode)) : body_run :=
    match ops with
    | [] => {| br_state := st; br_journal := j; br_calls := []; br_results := []; br_early := None |}
    | (o, m) :: rest =>
        let '(st', j', c, r) := exec_op st j o in
        match r, m with
        | Err f, Propagate =>
            {| br_state := st'; br_journal := j'; br_calls := c; br_results := [r]; br_early := Some f |}
        | _, _ =>
            let b := run_body st' j' rest in
            {| br_state := br_state b; br_journal := br_journal b; br_calls := c ++ br_calls b;
               br_results := r :: br_results b; br_early := br_early b |}
        end
    end.

  (* what the adapter hands back to revm: Ok(PrecompileOutput) or Err(PrecompileError) *)
  Definition ares := result out fatal.

  (* :70-79   take_fault().map_or(result, Err), then the three-way match *)
  Definition adapter_finish (reservoir : word) (st_after : pstate) (impl_result : result out perr) : ares :=
    let result := match fault st_after with Some f => Err f | None => impl_result end in
    match result with
    | Ok o => Ok o
    | Err (PHalt h) => Ok (halt_output h reservoir)
    | Err (PFatal e) => Err e
    end.

  (* the whole adapter call for a scripted body whose implementation returns [impl_ret] when no `?`
     fired *)
  Definition adapter_call (static : bool) (reservoir : word) (ops : list (op * mode))
             (impl_ret : result out perr) (j : J) : body_run * ares :=
    let b := run_body (init_state static) j ops in
    let impl_result := match br_early b with Some f => Err f | None => impl_ret end in
    (b, adapter_finish reservoir (br_state b) impl_result).

  Definition is_mutator (o : op) : bool :=
    match o with OSetBalance _ _ | OSstore _ _ _ => true | _ => false end.

  Definition is_err {X} (r : result X perr) : bool := match r with Err _ => true | Ok _ => false end.
End Facade.

(* -------------------------------------------------------------------------------------------------
   A small concrete journal for the Examples: balances and storage as association lists over nat,
   a set of addresses whose load fails. *)
Record tj := { tj_bal : list (nat * nat); tj_sto : list (nat * nat * nat); tj_bad : list nat; tj_log : list nat }.

Fixpoint alist_get (l : list (nat * nat)) (a : nat) : nat :=
  match l with [] => 0 | (b, v) :: l' => if Nat.eqb a b then v else alist_get l' a end.
Fixpoint slist_get (l : list (nat * nat * nat)) (a k : nat) : nat :=
  match l with [] => 0 | (b, c, v) :: l' => if Nat.eqb a b && Nat.eqb k c then v else slist_get l' a k end.
Definition tj_is_bad (j : tj) (a : nat) : bool := existsb (Nat.eqb a) (tj_bad j).
Definition tj_touch (j : tj) (a : nat) : tj :=
  {| tj_bal := tj_bal j; tj_sto := tj_sto j; tj_bad := tj_bad j; tj_log := a :: tj_log j |}.

Definition tj_load (j : tj) (a : nat) : tj * jres nat nat :=
  if tj_is_bad j a then (j, JErr a) else (tj_touch j a, JOk (alist_get (tj_bal j) a)).
Definition tj_sload (j : tj) (a k : nat) : tj * jres nat nat :=
  if tj_is_bad j a then (j, JErr a) else (tj_touch j a, JOk (slist_get (tj_sto j) a k)).
Definition tj_sstore (j : tj) (a k v : nat) : tj * jres nat nat :=
  if tj_is_bad j a then (j, JErr a)
  else ({| tj_bal := tj_bal j; tj_sto := (a, k, v) :: tj_sto j; tj_bad := tj_bad j; tj_log := a :: tj_log j |},
        JOk (slist_get (tj_sto j) a k)).
Definition tj_load_mut (j : tj) (a : nat) : tj * jres nat nat :=
  if tj_is_bad j a then (j, JErr a) else (tj_touch j a, JOk (alist_get (tj_bal j) a)).
Definition tj_set_balance (j : tj) (a v : nat) : tj :=
  {| tj_bal := (a, v) :: tj_bal j; tj_sto := tj_sto j; tj_bad := tj_bad j; tj_log := tj_log j |}.

(* halt := nat (0 = the static halt), fatal := nat, out := nat * nat *)
Definition toy_call (static : bool) (ops : list (op nat nat * mode)) (impl_ret : result (nat * nat) (perr nat nat)) (j : tj) :=
  adapter_call tj nat nat nat nat nat (nat * nat) nat nat nat nat nat nat
    tj_load tj_sload tj_sstore tj_load_mut tj_set_balance (fun x => x) (fun x => x)
    0 (fun e => 100 + e) (fun h r => (h, r)) static 7 ops impl_ret j.
