(* Proofs about Facade/Model.v (property C11).  Section variables: the opaque journal and payload
   types of Model.v; no hypotheses about them - every statement holds for any journal. *)
From Grevm Require Import Base.Util Facade.Model.

Section FacadeProofs.
  Variable J : Type.
  Variable addr word : Type.
  Variable dberr : Type.
  Variable halt fatal out : Type.
  Variable acct_load bal_load sload_v sstore_v mut_load setbal_v : Type.
  Variable j_load_account : J -> addr -> J * jres acct_load dberr.
  Variable j_sload : J -> addr -> word -> J * jres sload_v dberr.
  Variable j_sstore : J -> addr -> word -> word -> J * jres sstore_v dberr.
  Variable j_load_account_mut : J -> addr -> J * jres mut_load dberr.
  Variable j_set_balance : J -> addr -> word -> J.
  Variable balance_of : acct_load -> bal_load.
  Variable setbal_of : mut_load -> setbal_v.
  Variable static_halt : halt.
  Variable fatal_of_db : dberr -> fatal.
  Variable halt_output : halt -> word -> out.

  Notation perr := (perr halt fatal).
  Notation pstate := (pstate halt fatal).
  Notation PHalt := (PHalt halt fatal).
  Notation PFatal := (PFatal halt fatal).
  Notation op := (op addr word).
  Notation jcall := (jcall addr word).
  Notation opres := (opres halt fatal bal_load sload_v sstore_v setbal_v).
  Notation record_fault := (record_fault halt fatal).
  Notation ensure_mutable := (ensure_mutable halt fatal static_halt).
  Notation balance := (balance J addr word dberr halt fatal acct_load bal_load j_load_account balance_of fatal_of_db).
  Notation sload := (sload J addr word dberr halt fatal sload_v j_sload fatal_of_db).
  Notation set_balance :=
    (set_balance J addr word dberr halt fatal mut_load setbal_v j_load_account_mut j_set_balance
       setbal_of static_halt fatal_of_db).
  Notation sstore := (sstore J addr word dberr halt fatal sstore_v j_sstore static_halt fatal_of_db).
  Notation exec_op :=
    (exec_op J addr word dberr halt fatal acct_load bal_load sload_v sstore_v mut_load setbal_v
       j_load_account j_sload j_sstore j_load_account_mut j_set_balance balance_of setbal_of
       static_halt fatal_of_db).
  Notation run_body :=
    (run_body J addr word dberr halt fatal acct_load bal_load sload_v sstore_v mut_load setbal_v
       j_load_account j_sload j_sstore j_load_account_mut j_set_balance balance_of setbal_of
       static_halt fatal_of_db).
  Notation adapter_finish := (adapter_finish word halt fatal out halt_output).
  Notation adapter_call :=
    (adapter_call J addr word dberr halt fatal out acct_load bal_load sload_v sstore_v mut_load setbal_v
       j_load_account j_sload j_sstore j_load_account_mut j_set_balance balance_of setbal_of
       static_halt fatal_of_db halt_output).
  Notation mk st f := ({| is_static := is_static _ _ st; fault := f |} : pstate).

  (* what the adapter does with a fault *)
  Definition enforce (f : perr) (reservoir : word) : result out fatal :=
    match f with
    | Model.PHalt _ _ h => Ok (halt_output h reservoir)
    | Model.PFatal _ _ e => Err e
    end.

  (* ------------------------------------------------------------------ record_fault / ensure_* *)

  Lemma record_fault_some (st : pstate) f g : fault _ _ st = Some g -> record_fault st f = (st, g).
  Proof. unfold Model.record_fault. now intros ->. Qed.

  Lemma record_fault_none (st : pstate) f :
    fault _ _ st = None -> record_fault st f = (mk st (Some f), f).
  Proof. unfold Model.record_fault. now intros ->. Qed.

  Lemma ensure_mutable_faulted (st : pstate) f :
    fault _ _ st = Some f -> ensure_mutable st = (st, Some f).
  Proof. unfold Model.ensure_mutable, ensure_healthy. now intros ->. Qed.

  Lemma ensure_mutable_static (st : pstate) :
    fault _ _ st = None -> is_static _ _ st = true ->
    ensure_mutable st = (mk st (Some (PHalt static_halt)), Some (PHalt static_halt)).
  Proof.
    intros Hf Hs. unfold Model.ensure_mutable, ensure_healthy. rewrite Hf, Hs.
    rewrite record_fault_none by exact Hf. now rewrite Hs.
  Qed.

  Lemma ensure_mutable_ok (st : pstate) :
    fault _ _ st = None -> is_static _ _ st = false -> ensure_mutable st = (st, None).
  Proof. intros Hf Hs. unfold Model.ensure_mutable, ensure_healthy. now rewrite Hf, Hs. Qed.

  (* ------------------------------------------------------------------ fault_sticky, one operation *)

  Lemma balance_faulted st j a f : fault _ _ st = Some f -> balance st j a = (st, j, [], Err f).
  Proof. unfold Model.balance, ensure_healthy. now intros ->. Qed.

  Lemma sload_faulted st j a k f : fault _ _ st = Some f -> sload st j a k = (st, j, [], Err f).
  Proof. unfold Model.sload, ensure_healthy. now intros ->. Qed.

  Lemma set_balance_faulted st j a v f :
    fault _ _ st = Some f -> set_balance st j a v = (st, j, [], Err f).
  Proof. intros H. unfold Model.set_balance. now rewrite (ensure_mutable_faulted st f H). Qed.

  Lemma sstore_faulted st j a k v f :
    fault _ _ st = Some f -> sstore st j a k v = (st, j, [], Err f).
  Proof. intros H. unfold Model.sstore. now rewrite (ensure_mutable_faulted st f H). Qed.

  Lemma exec_op_faulted st j (o : op) f :
    fault _ _ st = Some f -> exec_op st j o = (st, j, [], Err f).
  Proof.
    intros H. destruct o; unfold Model.exec_op.
    - now rewrite (balance_faulted st j a f H).
    - now rewrite (sload_faulted st j a k f H).
    - now rewrite (set_balance_faulted st j a v f H).
    - now rewrite (sstore_faulted st j a k v f H).
  Qed.

  (* ------------------------------------------------------------------ static_refuses_before_change *)

  Lemma set_balance_static st j a v :
    fault _ _ st = None -> is_static _ _ st = true ->
    set_balance st j a v = (mk st (Some (PHalt static_halt)), j, [], Err (PHalt static_halt)).
  Proof. intros Hf Hs. unfold Model.set_balance. now rewrite (ensure_mutable_static st Hf Hs). Qed.

  Lemma sstore_static st j a k v :
    fault _ _ st = None -> is_static _ _ st = true ->
    sstore st j a k v = (mk st (Some (PHalt static_halt)), j, [], Err (PHalt static_halt)).
  Proof. intros Hf Hs. unfold Model.sstore. now rewrite (ensure_mutable_static st Hf Hs). Qed.

  Lemma exec_op_static_mutator st j (o : op) :
    fault _ _ st = None -> is_static _ _ st = true -> is_mutator _ _ o = true ->
    exec_op st j o = (mk st (Some (PHalt static_halt)), j, [], Err (PHalt static_halt)).
  Proof.
    intros Hf Hs Hm. destruct o; try discriminate; unfold Model.exec_op.
    - now rewrite (set_balance_static st j a v Hf Hs).
    - now rewrite (sstore_static st j a k v Hf Hs).
  Qed.

  (* ------------------------------------------------------------------ facade_calls_are_journal_calls *)

  Lemma balance_healthy st j a :
    fault _ _ st = None ->
    balance st j a =
    match j_load_account j a with
    | (j', JOk l) => (st, j', [CLoadAccount _ _ a], Ok (balance_of l))
    | (j', JErr e) => (mk st (Some (PFatal (fatal_of_db e))), j', [CLoadAccount _ _ a], Err (PFatal (fatal_of_db e)))
    end.
  Proof.
    intros Hf. unfold Model.balance, ensure_healthy. rewrite Hf.
    destruct (j_load_account j a) as [j' [l|e]]; [reflexivity|]. now rewrite record_fault_none.
  Qed.

  Lemma sload_healthy st j a k :
    fault _ _ st = None ->
    sload st j a k =
    match j_sload j a k with
    | (j', JOk l) => (st, j', [CSload _ _ a k], Ok l)
    | (j', JErr e) => (mk st (Some (PFatal (fatal_of_db e))), j', [CSload _ _ a k], Err (PFatal (fatal_of_db e)))
    end.
  Proof.
    intros Hf. unfold Model.sload, ensure_healthy. rewrite Hf.
    destruct (j_sload j a k) as [j' [l|e]]; [reflexivity|]. now rewrite record_fault_none.
  Qed.

  Lemma set_balance_healthy st j a v :
    fault _ _ st = None -> is_static _ _ st = false ->
    set_balance st j a v =
    match j_load_account_mut j a with
    | (j', JOk l) => (st, j_set_balance j' a v, [CLoadAccountMutSetBalance _ _ a v], Ok (setbal_of l))
    | (j', JErr e) => (mk st (Some (PFatal (fatal_of_db e))), j', [CLoadAccountMut _ _ a], Err (PFatal (fatal_of_db e)))
    end.
  Proof.
    intros Hf Hs. unfold Model.set_balance. rewrite (ensure_mutable_ok st Hf Hs).
    destruct (j_load_account_mut j a) as [j' [l|e]]; [reflexivity|]. now rewrite record_fault_none.
  Qed.

  Lemma sstore_healthy st j a k v :
    fault _ _ st = None -> is_static _ _ st = false ->
    sstore st j a k v =
    match j_sstore j a k v with
    | (j', JOk l) => (st, j', [CSstore _ _ a k v], Ok l)
    | (j', JErr e) => (mk st (Some (PFatal (fatal_of_db e))), j', [CSstore _ _ a k v], Err (PFatal (fatal_of_db e)))
    end.
  Proof.
    intros Hf Hs. unfold Model.sstore. rewrite (ensure_mutable_ok st Hf Hs).
    destruct (j_sstore j a k v) as [j' [l|e]]; [reflexivity|]. now rewrite record_fault_none.
  Qed.

  (* ------------------------------------------------------------------ per-operation summary *)

  (* whatever the state: at most one journal call; an Ok result means exactly one call and an
     unchanged facade state; an Err result is the recorded fault; a previously recorded fault is
     kept; is_static never changes; a healthy state stays healthy unless the op returns Err *)
  Lemma exec_op_summary st j (o : op) :
    let '(st', j', c, r) := exec_op st j o in
    length c <= 1 /\
    is_static _ _ st' = is_static _ _ st /\
    (forall g, fault _ _ st = Some g -> st' = st /\ j' = j /\ c = [] /\ r = Err g) /\
    (forall x, r = Ok x -> st' = st /\ length c = 1 /\ fault _ _ st = None) /\
    (forall f, r = Err f -> fault _ _ st' = Some f).
  Proof.
    destruct (fault _ _ st) as [g|] eqn:Hf.
    { rewrite (exec_op_faulted st j o g Hf). cbn.
      repeat split; auto; intros; try discriminate; try congruence. }
    destruct o as [a|a k|a v|a k v]; unfold Model.exec_op.
    - rewrite (balance_healthy st j a Hf). destruct (j_load_account j a) as [j' [l|e]]; cbn;
        repeat split; auto; intros; try discriminate; try congruence.
    - rewrite (sload_healthy st j a k Hf). destruct (j_sload j a k) as [j' [l|e]]; cbn;
        repeat split; auto; intros; try discriminate; try congruence.
    - destruct (is_static _ _ st) eqn:Hs.
      + rewrite (set_balance_static st j a v Hf Hs). cbn.
        repeat split; auto; intros; try discriminate; try congruence.
      + rewrite (set_balance_healthy st j a v Hf Hs). destruct (j_load_account_mut j a) as [j' [l|e]]; cbn;
          repeat split; auto; intros; try discriminate; try congruence.
    - destruct (is_static _ _ st) eqn:Hs.
      + rewrite (sstore_static st j a k v Hf Hs). cbn.
        repeat split; auto; intros; try discriminate; try congruence.
      + rewrite (sstore_healthy st j a k v Hf Hs). destruct (j_sstore j a k v) as [j' [l|e]]; cbn;
          repeat split; auto; intros; try discriminate; try congruence.
  Qed.

  (* ------------------------------------------------------------------ runs of scripted bodies *)

  (* fault_sticky for a whole suffix: from a faulted state nothing reaches the journal *)
  Lemma run_body_faulted ops : forall st j f,
    fault _ _ st = Some f ->
    let b := run_body st j ops in
    br_state _ _ _ _ _ _ _ _ _ b = st /\ br_journal _ _ _ _ _ _ _ _ _ b = j /\
    br_calls _ _ _ _ _ _ _ _ _ b = [] /\
    Forall (fun r => r = Err f) (br_results _ _ _ _ _ _ _ _ _ b) /\
    (br_early _ _ _ _ _ _ _ _ _ b = None \/ br_early _ _ _ _ _ _ _ _ _ b = Some f).
  Proof.
    induction ops as [|[o m] rest IH]; intros st j f Hf; cbn.
    - repeat split; auto.
    - rewrite (exec_op_faulted st j o f Hf). destruct m; cbn.
      + repeat split; auto.
      + destruct (IH st j f Hf) as (H1 & H2 & H3 & H4 & H5). cbn in *.
        rewrite H1, H2, H3. repeat split; auto.
  Qed.

  Lemma run_body_app ops1 : forall st j ops2,
    br_early _ _ _ _ _ _ _ _ _ (run_body st j ops1) = None ->
    let b1 := run_body st j ops1 in
    let b2 := run_body (br_state _ _ _ _ _ _ _ _ _ b1) (br_journal _ _ _ _ _ _ _ _ _ b1) ops2 in
    run_body st j (ops1 ++ ops2) =
    {| br_state := br_state _ _ _ _ _ _ _ _ _ b2; br_journal := br_journal _ _ _ _ _ _ _ _ _ b2;
       br_calls := br_calls _ _ _ _ _ _ _ _ _ b1 ++ br_calls _ _ _ _ _ _ _ _ _ b2;
       br_results := br_results _ _ _ _ _ _ _ _ _ b1 ++ br_results _ _ _ _ _ _ _ _ _ b2;
       br_early := br_early _ _ _ _ _ _ _ _ _ b2 |}.
  Proof.
    induction ops1 as [|[o m] rest IH]; intros st j ops2 He; cbn in *.
    - destruct (run_body st j ops2); reflexivity.
    - destruct (exec_op st j o) as [[[st' j'] c] r] eqn:E.
      destruct r as [x|f]; [|destruct m]; cbn in *; try discriminate.
      + rewrite (IH st' j' ops2 He). cbn. now rewrite app_assoc.
      + rewrite (IH st' j' ops2 He). cbn. now rewrite app_assoc.
  Qed.

  (* every error any operation of a run returned is the fault the facade holds at the end; a
     `?`-propagated error too; a fault present at the start is still the one held at the end *)
  Lemma run_body_errs ops : forall st j,
    let b := run_body st j ops in
    (forall g, fault _ _ st = Some g -> fault _ _ (br_state _ _ _ _ _ _ _ _ _ b) = Some g) /\
    Forall (fun r => forall f, r = Err f -> fault _ _ (br_state _ _ _ _ _ _ _ _ _ b) = Some f)
           (br_results _ _ _ _ _ _ _ _ _ b) /\
    (forall f, br_early _ _ _ _ _ _ _ _ _ b = Some f -> fault _ _ (br_state _ _ _ _ _ _ _ _ _ b) = Some f) /\
    is_static _ _ (br_state _ _ _ _ _ _ _ _ _ b) = is_static _ _ st.
  Proof.
    induction ops as [|[o m] rest IH]; intros st j; cbn.
    - repeat split; auto. intros; discriminate.
    - pose proof (exec_op_summary st j o) as S.
      destruct (exec_op st j o) as [[[st' j'] c] r] eqn:E.
      destruct S as (Sc & Ss & Sg & Sok & Serr).
      assert (Hmono : forall g, fault _ _ st = Some g -> fault _ _ st' = Some g).
      { intros g Hg. destruct (Sg g Hg) as (-> & _). exact Hg. }
      destruct (IH st' j') as (I1 & I2 & I3 & I4). cbn in *.
      destruct r as [x|f]; [|destruct m]; cbn.
      + split; [intros g Hg; apply I1, Hmono, Hg|].
        split; [constructor; [intros; discriminate|exact I2]|].
        split; [exact I3|congruence].
      + split; [exact Hmono|].
        split; [constructor; [|constructor]; intros f' H; inversion H; subst; now apply Serr|].
        split; [intros f' H; inversion H; subst; now apply Serr|exact Ss].
      + split; [intros g Hg; apply I1, Hmono, Hg|].
        split; [constructor; [|exact I2]; intros f' H; inversion H; subst; apply I1; now apply Serr|].
        split; [exact I3|congruence].
  Qed.

  Lemma exec_op_err_recorded st j (o : op) st' j' c f :
    exec_op st j o = (st', j', c, Err f) -> fault _ _ st' = Some f.
  Proof.
    intros E. pose proof (exec_op_summary st j o) as S. rewrite E in S.
    destruct S as (_ & _ & _ & _ & Serr). now apply Serr.
  Qed.

  (* fault_sticky, whole-body form: once an operation of the body has returned an error that the
     implementation ignored, the rest of the body reaches the journal not once, every later
     operation returns that same error, and the facade still holds it at the end *)
  Lemma fault_sticky_after_first st j pre (o : op) post st' j' c f :
    let b1 := run_body st j pre in
    br_early _ _ _ _ _ _ _ _ _ b1 = None ->
    exec_op (br_state _ _ _ _ _ _ _ _ _ b1) (br_journal _ _ _ _ _ _ _ _ _ b1) o = (st', j', c, Err f) ->
    let b := run_body st j (pre ++ (o, Ignore) :: post) in
    br_journal _ _ _ _ _ _ _ _ _ b = j' /\
    br_calls _ _ _ _ _ _ _ _ _ b = br_calls _ _ _ _ _ _ _ _ _ b1 ++ c /\
    (exists tail, br_results _ _ _ _ _ _ _ _ _ b = br_results _ _ _ _ _ _ _ _ _ b1 ++ Err f :: tail /\
                  Forall (fun r => r = Err f) tail) /\
    fault _ _ (br_state _ _ _ _ _ _ _ _ _ b) = Some f.
  Proof.
    intros b1 He E b. subst b. rewrite (run_body_app pre st j ((o, Ignore) :: post) He). fold b1.
    cbn. rewrite E. cbn.
    pose proof (exec_op_err_recorded _ _ _ _ _ _ _ E) as Hf.
    destruct (run_body_faulted post st' j' f Hf) as (H1 & H2 & H3 & H4 & _). cbn in *.
    rewrite H1, H2, H3, app_nil_r. repeat split; auto.
    eexists; split; [reflexivity|exact H4].
  Qed.

  (* number of journal calls: one per successful operation, plus at most one failing call *)
  Fixpoint count_ok (rs : list opres) : nat :=
    match rs with [] => 0 | Ok _ :: rs' => S (count_ok rs') | Err _ :: rs' => count_ok rs' end.

  Lemma run_body_calls_faulted ops st j f :
    fault _ _ st = Some f ->
    br_calls _ _ _ _ _ _ _ _ _ (run_body st j ops) = [] /\
    count_ok (br_results _ _ _ _ _ _ _ _ _ (run_body st j ops)) = 0.
  Proof.
    intros Hf. destruct (run_body_faulted ops st j f Hf) as (_ & _ & Hc & Hr & _). split; [exact Hc|].
    cbn in Hr. induction Hr as [|r rs Hr1 _ IH]; [reflexivity|]. subst r. exact IH.
  Qed.

  Lemma run_body_calls ops : forall st j,
    let b := run_body st j ops in
    count_ok (br_results _ _ _ _ _ _ _ _ _ b) <= length (br_calls _ _ _ _ _ _ _ _ _ b) /\
    length (br_calls _ _ _ _ _ _ _ _ _ b) <= S (count_ok (br_results _ _ _ _ _ _ _ _ _ b)) /\
    (fault _ _ (br_state _ _ _ _ _ _ _ _ _ b) = None ->
       length (br_calls _ _ _ _ _ _ _ _ _ b) = count_ok (br_results _ _ _ _ _ _ _ _ _ b) /\
       length (br_calls _ _ _ _ _ _ _ _ _ b) = length (br_results _ _ _ _ _ _ _ _ _ b)).
  Proof.
    induction ops as [|[o m] rest IH]; intros st j; cbn.
    - repeat split; auto.
    - pose proof (exec_op_summary st j o) as S.
      destruct (exec_op st j o) as [[[st' j'] c] r] eqn:E.
      destruct S as (Sc & Ss & Sg & Sok & Serr).
      destruct r as [x|f].
      + destruct (Sok x eq_refl) as (-> & Hc1 & _).
        destruct (IH st j') as (I1 & I2 & I3). cbn in *. rewrite app_length, Hc1.
        split; [lia|]. split; [lia|]. intros Hn. destruct (I3 Hn). split; lia.
      + pose proof (Serr f eq_refl) as Hf'.
        destruct m; cbn.
        * split; [lia|]. split; [lia|]. intros Hn. congruence.
        * destruct (run_body_calls_faulted rest st' j' f Hf') as (Hc0 & Hk0).
          cbn in *. rewrite Hc0, Hk0, app_nil_r.
          split; [lia|]. split; [lia|].
          intros Hn. pose proof (run_body_errs rest st' j') as (I1 & _). cbn in I1.
          rewrite (I1 f Hf') in Hn. discriminate.
  Qed.

  (* ------------------------------------------------------------------ adapter_enforces_fault *)

  Lemma adapter_finish_fault reservoir (st : pstate) impl f :
    fault _ _ st = Some f -> adapter_finish reservoir st impl = enforce f reservoir.
  Proof. unfold Model.adapter_finish, enforce. intros ->. destruct f; reflexivity. Qed.

  Lemma adapter_finish_healthy reservoir (st : pstate) impl :
    fault _ _ st = None ->
    adapter_finish reservoir st impl =
    match impl with Ok o => Ok o | Err f => enforce f reservoir end.
  Proof. unfold Model.adapter_finish, enforce. intros ->. destruct impl as [o|[h|e]]; reflexivity. Qed.

  (* any error any facade operation returned during the body decides the adapter's answer, whatever
     the implementation did with it and whatever it returned *)
  Lemma adapter_call_enforces static reservoir ops impl j f :
    let '(b, a) := adapter_call static reservoir ops impl j in
    In (Err f) (br_results _ _ _ _ _ _ _ _ _ b) -> a = enforce f reservoir.
  Proof.
    unfold Model.adapter_call.
    pose proof (run_body_errs ops (init_state halt fatal static) j) as (_ & H2 & _ & _).
    cbn in H2. intros Hin. rewrite Forall_forall in H2.
    apply adapter_finish_fault. exact (H2 _ Hin f eq_refl).
  Qed.

  (* no operation failed: the implementation's own result goes through *)
  Lemma adapter_call_healthy static reservoir ops impl j :
    let '(b, a) := adapter_call static reservoir ops impl j in
    fault _ _ (br_state _ _ _ _ _ _ _ _ _ b) = None ->
    br_early _ _ _ _ _ _ _ _ _ b = None /\
    a = match impl with Ok o => Ok o | Err f => enforce f reservoir end.
  Proof.
    unfold Model.adapter_call. intros Hn.
    pose proof (run_body_errs ops (init_state halt fatal static) j) as (_ & _ & H3 & _). cbn in H3.
    assert (He : br_early _ _ _ _ _ _ _ _ _ (run_body (init_state halt fatal static) j ops) = None).
    { destruct (br_early _ _ _ _ _ _ _ _ _ _) as [f|] eqn:E; auto. rewrite (H3 f eq_refl) in Hn. discriminate. }
    split; [exact He|]. rewrite He. now apply adapter_finish_healthy.
  Qed.
End FacadeProofs.

(* ------------------------------------------------------------------ Examples (toy journal) *)

Definition tj0 : tj := {| tj_bal := [(1, 50)]; tj_sto := [(1, 2, 9)]; tj_bad := [66]; tj_log := [] |}.

(* non-static: a failing load (address 66) is ignored by the implementation, which then writes and
   returns Ok: the write never reaches the journal, the adapter returns the fatal error *)
Example toy_ignored_db_fault :
  let '(b, a) := toy_call false
      [(OBalance _ _ 1, Ignore); (OSload _ _ 66 0, Ignore); (OSstore _ _ 1 2 77, Ignore); (OSetBalance _ _ 1 0, Ignore)]
      (Ok (1, 1)) tj0 in
  (br_calls _ _ _ _ _ _ _ _ _ b, tj_sto (br_journal _ _ _ _ _ _ _ _ _ b), tj_bal (br_journal _ _ _ _ _ _ _ _ _ b), a)
  = ([CLoadAccount _ _ 1; CSload _ _ 66 0], [(1, 2, 9)], [(1, 50)], Err 166).
Proof. vm_compute. reflexivity. Qed.

(* static: the write is refused before any change, the halt carries the reservoir (7) *)
Example toy_static_write :
  let '(b, a) := toy_call true [(OSload _ _ 1 2, Propagate); (OSstore _ _ 1 2 77, Ignore); (OBalance _ _ 1, Ignore)]
      (Ok (1, 1)) tj0 in
  (br_calls _ _ _ _ _ _ _ _ _ b, tj_sto (br_journal _ _ _ _ _ _ _ _ _ b), a)
  = ([CSload _ _ 1 2], [(1, 2, 9)], Ok (0, 7)).
Proof. vm_compute. reflexivity. Qed.

(* healthy: every operation is one journal call and the implementation's result goes through *)
Example toy_healthy :
  let '(b, a) := toy_call false [(OSload _ _ 1 2, Propagate); (OSstore _ _ 1 2 77, Propagate); (OSetBalance _ _ 1 5, Propagate)]
      (Ok (3, 4)) tj0 in
  (br_calls _ _ _ _ _ _ _ _ _ b, slist_get (tj_sto (br_journal _ _ _ _ _ _ _ _ _ b)) 1 2,
   alist_get (tj_bal (br_journal _ _ _ _ _ _ _ _ _ b)) 1, a)
  = ([CSload _ _ 1 2; CSstore _ _ 1 2 77; CLoadAccountMutSetBalance _ _ 1 5], 77, 5, Ok (3, 4)).
Proof. vm_compute. reflexivity. Qed.
