(* Flat group: concrete, non-trivial instances showing that the hypotheses of the property theorems are
   satisfiable and what the theorems say on the scenarios named in C08 / C09. *)
From Grevm Require Import Base.Util Flat.Model Flat.ProofsBase Flat.ProofsStorage.

Definition h1 : N := 0x1111%N.   (* code hashes *)
Definition h2 : N := 0x2222%N.
Definition A : N := 0xa0%N.
Definition B : N := 0xa1%N.

Definition eoa (bal nonce : N) : info := mkInfo bal nonce keccak_empty None.
Definition con (bal nonce h : N) : info := mkInfo bal nonce h (Some (h + 1)%N).   (* code = f(hash) *)

Definition ex_base : base :=
  mkBase (fun a => if N.eqb a A then Some (con 5 1 h1) else None)
         (fun h => (h + 1)%N)
         (fun a s => if N.eqb a A then (if N.eqb s 0 then 42 else if N.eqb s 1 then 7 else 0)%N else 0%N).

Definition acct (t sd c : bool) (i : info) (sl : list (N * N * N)) : account := mkAcct t sd c i sl.
Definition snap_of (o : option info) (a : N) : N -> option abasic :=
  fun x => if N.eqb x a then option_map abasic_of o else None.

(* tx0 writes slot 0 of A; tx1 self-destructs A; tx2 re-creates A writing slot 1 in the constructor;
   tx3 creates and destroys B in one transaction; tx4 is a post-Cancun self-destruct of A (balance
   moved, classification Updated, storage kept); tx5 only loads A *)
Definition ex_effs : list txeff := [
  mkTx [(A, acct true false false (con 5 1 h1) [(0, 42, 5)])] (snap_of (Some (con 5 1 h1)) A) 1 false;
  mkTx [(A, acct true true false (con 0 1 h1) [])] (snap_of (Some (con 5 1 h1)) A) 1 false;
  mkTx [(A, acct true false true (con 0 1 h2) [(1, 0, 9)])] (snap_of None A) 2 false;
  mkTx [(B, acct true true true (con 0 1 h2) [(0, 0, 3)])] (snap_of None B) 1 false;
  mkTx [(A, acct true false false (con 0 1 h2) [(2, 0, 0)])] (snap_of (Some (con 0 1 h2)) A) 1 false;
  mkTx [(A, acct false false false (con 0 1 h2) [])] (snap_of (Some (con 0 1 h2)) A) 1 false ]%N.

Example ex_effs_nodup : addrs_nodup ex_effs.
Proof. repeat constructor; cbn; intuition discriminate. Qed.

Definition ex_read (t : nat) (a s : N) : res N :=
  ac_val (rd_storage (publish_all (fun _ => false) ex_effs) (backing_of ex_base) t a s).

(* slot 0 / slot 1 of A as seen by transactions 0..6: untouched 42/7; own write 5; zero after the
   deletion (both slots); the creating transaction's own write 9 with slot 0 still zero; storage kept
   across the Updated (post-Cancun self-destruct) classification *)
Example ex_storage_A :
  map (fun t => (ex_read t A 0, ex_read t A 1)) [0; 1; 2; 3; 4; 5; 6] =
  [(Ok 42, Ok 7); (Ok 5, Ok 7); (Ok 0, Ok 0); (Ok 0, Ok 9); (Ok 0, Ok 9); (Ok 0, Ok 9); (Ok 0, Ok 9)]%N.
Proof. vm_compute. reflexivity. Qed.

(* created and destroyed in one transaction: absent before and after, storage zero *)
Example ex_storage_B : map (fun t => ex_read t B 0) [3; 4; 5] = [Ok 0; Ok 0; Ok 0]%N.
Proof. vm_compute. reflexivity. Qed.

Example ex_struct_agrees :
  map (fun t => Ok (s_stor (apply_all (sstate_of ex_base) (firstn t ex_effs)) A 1)) [0; 1; 2; 3; 4; 5; 6] =
  map (fun t => ex_read t A 1) [0; 1; 2; 3; 4; 5; 6].
Proof. vm_compute. reflexivity. Qed.

(* ------------------------------------------------------------------------------------- C09 *)
From Grevm Require Import Flat.ProofsBasic Flat.ProofsRead.

Definition cf9 (h : N) : N := (h + 1)%N.
Definition base9 : base :=
  mkBase (fun a => if N.eqb a A then Some (eoa 10 0) else None) cf9
         (fun a s => if N.eqb a A then (if N.eqb s 0 then 42 else 0)%N else 0%N).

(* tx0 delegates A to h1 (EIP-7702 set), tx1 re-points it to h2, tx2 is a call to the delegated A that
   writes its storage (account fields unchanged: nothing but the slot is published), tx3 clears the
   delegation, tx4 sets it again to the previous target h1, tx5 deploys a contract at B *)
Definition effs9 : list txeff := [
  mkTx [(A, acct true false false (con 10 1 h1) [])] (snap_of (Some (eoa 10 0)) A) 1 false;
  mkTx [(A, acct true false false (con 10 2 h2) [])] (snap_of (Some (con 10 1 h1)) A) 1 false;
  mkTx [(A, acct true false false (con 10 2 h2) [(0, 42, 1)])] (snap_of (Some (con 10 2 h2)) A) 3 false;
  mkTx [(A, acct true false false (eoa 10 3) [])] (snap_of (Some (con 10 2 h2)) A) 1 false;
  mkTx [(A, acct true false false (con 10 4 h1) [])] (snap_of (Some (eoa 10 3)) A) 1 true;
  mkTx [(B, acct true false true (con 0 1 h2) [(0, 0, 5)])] (snap_of None B) 1 false ]%N.

Example base9_ok : base_ok cf9 base9.
Proof.
  intros a i H Hne. unfold base9 in H. cbn [base_info] in H. destruct (N.eqb a A); [|discriminate].
  inversion H; subst. vm_compute in Hne. discriminate.
Qed.

Example effs9_consistent : consistent_from cf9 (fun _ => false) (sstate_of base9) effs9.
Proof.
  cbn [consistent_from effs9]. unfold tx_ok.
  repeat match goal with |- _ /\ _ => split end; try exact I;
    try (repeat constructor; cbn; intuition discriminate).
  all: constructor; [|constructor]; unfold acct_ok, info_ok; intros _; vm_compute;
    repeat match goal with |- _ /\ _ => split end; intros; try reflexivity; try discriminate.
  all: match goal with H : Some _ = Some ?p |- _ => inversion H; subst; clear H end; left; discriminate.
Qed.

Definition read9 (t : nat) : res (option info) :=
  ac_val (rd_basic (publish_all (fun _ => false) effs9) (backing_of base9) (fun _ => false)
                   (fun _ => BenBlocked 0) t A).

(* what transactions 0..6 see for A: EOA; delegated to h1; re-pointed to h2; unchanged by the storage
   write; cleared (no code, nonce bumped); set again to h1 *)
Example ex9_reads :
  map read9 [0; 1; 2; 3; 4; 5; 6] =
  [Ok (Some (eoa 10 0)); Ok (Some (con 10 1 h1)); Ok (Some (con 10 2 h2)); Ok (Some (con 10 2 h2));
   Ok (Some (eoa 10 3)); Ok (Some (con 10 4 h1)); Ok (Some (con 10 4 h1))]%N.
Proof. vm_compute. reflexivity. Qed.

(* re-delegation keeps the storage: slot 0 of A is 42 until tx2 writes 1, whatever the code does *)
Example ex9_storage :
  map (fun t => ac_val (rd_storage (publish_all (fun _ => false) effs9) (backing_of base9) t A 0)) [0; 1; 2; 3; 4; 5; 6] =
  [Ok 42; Ok 42; Ok 42; Ok 1; Ok 1; Ok 1; Ok 1]%N.
Proof. vm_compute. reflexivity. Qed.

(* the memory holds exactly: Basic at 0,1,3,4 (not at 2), Code at 0,1,4 (none for the clearing tx 3) *)
Example ex9_versions :
  map (fun k => (match publish_all (fun _ => false) effs9 (LBasic A) k with Some _ => true | None => false end,
                 match publish_all (fun _ => false) effs9 (LCode A) k with Some _ => true | None => false end))
      [0; 1; 2; 3; 4] =
  [(true, true); (true, true); (false, false); (true, false); (true, true)].
Proof. vm_compute. reflexivity. Qed.

(* hypotheses of the read-set theorems are satisfiable: published memories are kinded *)
Example ex9_kinded : kinded (publish_tx (fun _ => false) mv_empty 0 (mkTx [(A, acct true false false (con 10 1 h1) [])] (snap_of (Some (eoa 10 0)) A) 1 false)).
Proof. apply publish_kinded. intros l k e H. discriminate. Qed.

(* ---------------------------------------------------------- read set determines value: instances *)
From Grevm Require Import Flat.ProofsCommit.

Definition m9 : mvmem := publish_all (fun _ => false) effs9.
Definition m9_upto (n : nat) : mvmem := publish_all (fun _ => false) (firstn n effs9).

Lemma version_determines_refl : forall m, version_determines m m.
Proof. intros m l k e e' H1 H2 _. congruence. Qed.

(* hypotheses of C09_readset_determines_basic are satisfiable: an atomic read of A by tx 3 in the full
   memory, validated against the same memory *)
Example ex9_readset_hyps :
  let ac := rd_basic2 m9 m9 (backing_of base9) (fun _ => false) (fun _ => BenBlocked 0) 3 A in
  ac_reads ac = [(LBasic A, RMv 1 1); (LCode A, RMv 1 1)] /\
  (forall l v, In (l, v) (ac_reads ac) -> resolve m9 l 3 = v).
Proof.
  split; [vm_compute; reflexivity|].
  intros l v H. vm_compute in H. destruct H as [H|[H|[]]]; inversion H; subst; vm_compute; reflexivity.
Qed.

(* a racing reader: tx 2 looks up Basic(A) before tx 1 (the re-point) has published and Code(A) after.
   It returns the OLD hash h1 with the NEW code; the Basic version it recorded (tx 0) is not what the
   validation memory resolves (tx 1): the hypothesis of the theorem fails, i.e. validation rejects *)
Example ex9_race_is_detected :
  let ac := rd_basic2 (m9_upto 1) (m9_upto 2) (backing_of base9) (fun _ => false) (fun _ => BenBlocked 0) 2 A in
  ac_val ac = Ok (Some (mkInfo 10 1 h1 (Some (cf9 h2)))) /\
  ac_reads ac = [(LBasic A, RMv 0 1); (LCode A, RMv 1 1)] /\
  resolve (m9_upto 2) (LBasic A) 2 = RMv 1 1.
Proof. vm_compute. repeat split; reflexivity. Qed.

(* the storage analogue: tx 3 of [ex_effs] looks up the reset marker before tx 1 (the destroying tx) and
   tx 2 (the re-creation) have published, and the slot after: it returns the constructor's write
   without having seen the reset; the recorded marker version (none) differs from the validated one *)
Definition m8_upto (n : nat) : mvmem := publish_all (fun _ => false) (firstn n ex_effs).
Example ex8_race_is_detected :
  let ac := rd_storage2 (m8_upto 1) (m8_upto 3) (backing_of ex_base) 3 A 0 in
  ac_val ac = Ok 5%N /\
  ac_reads ac = [(LReset A, RStorage); (LStorage A 0, RMv 0 1)] /\
  resolve (m8_upto 3) (LReset A) 3 = RMv 2 2 /\
  ac_val (rd_storage (m8_upto 3) (backing_of ex_base) 3 A 0) = Ok 0%N.
Proof. vm_compute. repeat split; reflexivity. Qed.

Example ex8_readset_hyps :
  let ac := rd_storage2 (m8_upto 3) (m8_upto 3) (backing_of ex_base) 3 A 1 in
  kinded (m8_upto 3) /\ version_determines (m8_upto 3) (m8_upto 3) /\
  (forall l v, In (l, v) (ac_reads ac) -> resolve (m8_upto 3) l 3 = v).
Proof.
  split; [apply publish_all_kinded|]. split; [apply version_determines_refl|].
  intros l v H. vm_compute in H. destruct H as [H|[H|[]]]; inversion H; subst; vm_compute; reflexivity.
Qed.

(* hypotheses of C09_publish_minimal_sound are satisfiable with a suppressed write: tx 2 of [effs9]
   (a storage write by the delegated account) publishes neither Basic nor Code *)
Example ex9_minimal_hyps :
  let acct2 := acct true false false (con 10 2 h2) [(0, 42, 1)]%N in
  classify acct2 = Updated (con 10 2 h2) [(0, 1)]%N /\
  info_ok cf9 (Some (con 10 2 h2)) (con 10 2 h2) /\
  assoc_last (LBasic A) (writes_of_account (fun _ => false) (snap_of (Some (con 10 2 h2)) A) A acct2) = None /\
  assoc_last (LCode A) (writes_of_account (fun _ => false) (snap_of (Some (con 10 2 h2)) A) A acct2) = None.
Proof.
  cbv zeta. split; [vm_compute; reflexivity|]. split; [|split; vm_compute; reflexivity].
  unfold info_ok. vm_compute. split; [reflexivity|discriminate].
Qed.

(* the publication rule after the repair of the BundleState::contracts difference: the Basic entry of a
   code-less account keeps the code field of the finalised account (here the empty bytecode, identity 1),
   an account with code is published without it *)
Example ex_publish_info_rule :
  publish_info (mkInfo 3 1 keccak_empty (Some 1%N)) = mkInfo 3 1 keccak_empty (Some 1%N) /\
  publish_info (con 3 1 h1) = mkInfo 3 1 h1 None /\
  ac_val (rd_basic (publish_tx (fun _ => false) mv_empty 0
                      (mkTx [(B, acct true false true (mkInfo 3 1 keccak_empty (Some 1%N)) [])] (snap_of None B) 1 false))
                   (backing_of ex_base) (fun _ => false) (fun _ => BenBlocked 0) 1 B)
  = Ok (Some (mkInfo 3 1 keccak_empty (Some 1%N))).
Proof. vm_compute. repeat split; reflexivity. Qed.
