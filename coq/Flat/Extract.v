From Grevm Require Import Base.Util Flat.Model.
Require Extraction. Require ExtrOcamlBasic.
Extraction Language OCaml.
Extraction "extract/flat.ml" keccak_empty classify apply_struct apply_effect mv_empty mv_insert mv_remove mv_read
  resolve rd_basic rd_storage rd_code publish_writes begin_incarnation do_basic do_storage do_finish do_discard
  publish_all apply_all struct_basic norm backing_of sstate_of.
