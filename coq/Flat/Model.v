(* Model of the flat multi-version encoding of account state used by grevm (group Flat, C08/C09).

   Code modelled (read line by line):
     src/incarnation_db.rs:116-216   publish_writes / publish_storage_reset / publish_value
     src/incarnation_db.rs:218-246   code_by_address
     src/incarnation_db.rs:255-310   Database::basic
     src/incarnation_db.rs:316-356   Database::storage
     src/incarnation_db.rs:74-114    begin_incarnation / finish_incarnation / discard_incarnation
     src/account.rs:22-35            FinalizedAccount classification
     src/model.rs:56-72              AccountBasic::from(&AccountInfo)
     src/model.rs:74-105             MemoryValue / MemoryEntry / LocationAndType
     revm-state-12 account_info.rs:273,305,311   is_empty / is_empty_code_hash / ..empty_or_zero

   Reference ("in-order") semantics: a structured state  addr -> option info,  addr -> slot -> N
   with [apply_effect] over the finalised account effects Unchanged | Deleted | Created | Updated.

   Opaque callees (values supplied by the caller, not modelled here): the backing store
   ([backing]: basic_ref / code_by_hash_ref / storage_ref, each of which may fail) and the
   beneficiary history ([bmatch], [bresolve]; its semantics belong to C07).

   Multi-version memory is [loc -> txid -> option entry]: a DashMap of BTreeMaps keyed by txid;
   [BTreeMap::insert] replaces, [range(..t).next_back()] is [latest_before].

   This file contains definitions only (no proofs). *)
From Grevm Require Import Base.Util.

(* ------------------------------------------------------------------------------------ values *)

(* KECCAK256("") *)
Definition keccak_empty : N :=
  0xc5d2460186f7233c927e7db2dcc703c0e500b653ca82273b7bfad8045d85a470%N.

(* revm_state::AccountInfo (account_id is carried through untouched and not modelled).
   [i_code] is the identity of the byte string (the driver uses the bytes themselves). *)
Record info := mkInfo { i_bal : N; i_nonce : N; i_hash : N; i_code : option N }.

Definition empty_code_hash (i : info) : bool := N.eqb (i_hash i) keccak_empty.
(* AccountInfo::is_empty: code hash is KECCAK_EMPTY *or zero*, balance 0, nonce 0 *)
Definition info_is_empty (i : info) : bool :=
  (empty_code_hash i || N.eqb (i_hash i) 0) && N.eqb (i_bal i) 0 && N.eqb (i_nonce i) 0.
(* the account without its code field: the comparison key of the theorems ([norm], the invariants) *)
Definition strip (i : info) : info :=
  {| i_bal := i_bal i; i_nonce := i_nonce i; i_hash := i_hash i; i_code := None |}.
(* what publish_writes puts into a Basic entry:
     AccountInfo { code: if has_code { None } else { info.code.clone() }, ..info.clone() }
   incarnation_db.rs:171-178 - the code travels through the Code location and is stripped here, except
   for a code-less account, which keeps its (empty or absent) code field exactly as finalised so that a
   later transaction reads what revm's cache would return (repair of the BundleState::contracts
   difference, see DESIGN.md findings) *)
Definition publish_info (i : info) : info :=
  {| i_bal := i_bal i; i_nonce := i_nonce i; i_hash := i_hash i;
     i_code := if empty_code_hash i then i_code i else None |}.

(* model.rs:56-72 *)
Record abasic := mkAb { ab_bal : N; ab_nonce : N; ab_hash : option N }.
Definition abasic_of (i : info) : abasic :=
  {| ab_bal := i_bal i; ab_nonce := i_nonce i;
     ab_hash := if empty_code_hash i then None else Some (i_hash i) |}.

(* revm_state::Account as far as grevm looks at it: three status flags, info, storage slots
   (slot, original value, present value) *)
Record account := mkAcct {
  a_touched : bool; a_selfdestructed : bool; a_created : bool;
  a_info : info; a_slots : list (N * N * N) }.

(* EvmStorageSlot::is_changed / Account::changed_storage_slots *)
Definition slot_changed (x : N * N * N) : bool := negb (N.eqb (snd (fst x)) (snd x)).
Definition changed_slots (a : account) : list (N * N) :=
  map (fun x => (fst (fst x), snd x)) (filter slot_changed (a_slots a)).

(* account.rs:10-35, with the changed slots the consumers attach to Created / Updated *)
Inductive effect :=
| Unchanged
| Deleted
| Created (i : info) (sl : list (N * N))
| Updated (i : info) (sl : list (N * N)).

Definition classify (a : account) : effect :=
  if negb (a_touched a) then Unchanged
  else if a_selfdestructed a then Deleted
  else if a_created a then Created (a_info a) (changed_slots a)
  else if info_is_empty (a_info a) then Deleted
  else Updated (a_info a) (changed_slots a).

(* ------------------------------------------------------------------- reference: structured state *)

Record sstate := mkS { s_info : N -> option info; s_stor : N -> N -> N }.

Definition updN {A} (f : N -> A) (k : N) (x : A) : N -> A := fun j => if N.eqb j k then x else f j.

Definition write_slots (sl : list (N * N)) (f : N -> N) : N -> N :=
  fold_left (fun g x => updN g (fst x) (snd x)) sl f.

Definition apply_effect (st : sstate) (a : N) (e : effect) : sstate :=
  match e with
  | Unchanged => st
  | Deleted => {| s_info := updN (s_info st) a None; s_stor := updN (s_stor st) a (fun _ => 0%N) |}
  | Created i sl => {| s_info := updN (s_info st) a (Some i);
                       s_stor := updN (s_stor st) a (write_slots sl (fun _ => 0%N)) |}
  | Updated i sl => {| s_info := updN (s_info st) a (Some i);
                       s_stor := updN (s_stor st) a (write_slots sl (s_stor st a)) |}
  end.

(* one transaction's finalised EvmState, in order *)
Definition apply_struct (st : sstate) (changes : list (N * account)) : sstate :=
  fold_left (fun s x => apply_effect s (fst x) (classify (snd x))) changes st.

(* ------------------------------------------------------------------- multi-version memory *)

Inductive loc := LBasic (a : N) | LStorage (a s : N) | LReset (a : N) | LCode (a : N).

Definition loc_eqb (x y : loc) : bool :=
  match x, y with
  | LBasic a, LBasic b => N.eqb a b
  | LStorage a s, LStorage b t => N.eqb a b && N.eqb s t
  | LReset a, LReset b => N.eqb a b
  | LCode a, LCode b => N.eqb a b
  | _, _ => false
  end.

Definition loc_addr (l : loc) : N :=
  match l with LBasic a => a | LStorage a _ => a | LReset a => a | LCode a => a end.

Inductive mvalue := VBasic (i : option info) | VCode (c : N) | VStorage (v : N) | VReset.

Record entry := mkEntry { e_inc : nat; e_data : mvalue; e_est : bool }.

Definition mvmem := loc -> nat -> option entry.
Definition mv_empty : mvmem := fun _ _ => None.
Definition mv_insert (m : mvmem) (l : loc) (k : nat) (e : entry) : mvmem :=
  fun l' k' => if loc_eqb l' l && Nat.eqb k' k then Some e else m l' k'.
Definition mv_remove (m : mvmem) (l : loc) (k : nat) : mvmem :=
  fun l' k' => if loc_eqb l' l && Nat.eqb k' k then None else m l' k'.

(* writes.range(..t).next_back() *)
Fixpoint latest_before (f : nat -> option entry) (t : nat) : option (nat * entry) :=
  match t with
  | O => None
  | S t' => match f t' with Some e => Some (t', e) | None => latest_before f t' end
  end.

Definition mv_read (m : mvmem) (l : loc) (t : nat) : option (nat * entry) := latest_before (m l) t.

(* model.rs:48-53 *)
Inductive rversion := RMv (k inc : nat) | RBen (tag : N) | RStorage.

(* what scheduler validation re-computes for a location: newest version below t, whatever its kind *)
Definition resolve (m : mvmem) (l : loc) (t : nat) : rversion :=
  match mv_read m l t with Some (k, e) => RMv k (e_inc e) | None => RStorage end.

(* --------------------------------------------------------------------------- opaque callees *)

Inductive res (A : Type) := Ok (x : A) | Err.
Arguments Ok {A} x. Arguments Err {A}.

Record backing := mkBacking {
  b_basic : N -> res (option info);
  b_code : N -> res N;            (* code_by_hash_ref *)
  b_storage : N -> N -> res N }.

(* Beneficiary::resolve_before(txid): Ok(account, version) | Err(blocker) *)
Inductive benres := BenOk (i : option info) (tag : N) | BenBlocked (k : nat).

(* ------------------------------------------------------------------------------- readers *)

(* what one Database call does to the incarnation's scratch state, and what it returns *)
Record access (A : Type) := mkAccess {
  ac_val : res A;
  ac_reads : list (loc * rversion);   (* read_set.insert, in program order *)
  ac_block : list nat;                (* blocking_txs.insert *)
  ac_bben : bool;                     (* blocked_by_beneficiary = true *)
  ac_snap : option (N * abasic) }.    (* account_snapshots.insert *)
Arguments mkAccess {A}. Arguments ac_val {A}. Arguments ac_reads {A}. Arguments ac_block {A}.
Arguments ac_bben {A}. Arguments ac_snap {A}.

Definition est_block (k : nat) (e : entry) : list nat := if e_est e then [k] else [].

(* incarnation_db.rs:218-246; [m] is the memory as seen by this lookup *)
Definition rd_code (m : mvmem) (bk : backing) (t : nat) (a h : N) : access N :=
  let l := LCode a in
  match mv_read m l t with
  | Some (k, e) =>
      match e_data e with
      | VCode c => mkAccess (Ok c) [(l, RMv k (e_inc e))] (est_block k e) false None
      | _ => match b_code bk h with
             | Ok c => mkAccess (Ok c) [(l, RStorage)] [] false None
             | Err => mkAccess Err [] [] false None        (* `?` before read_set.insert *)
             end
      end
  | None => match b_code bk h with
            | Ok c => mkAccess (Ok c) [(l, RStorage)] [] false None
            | Err => mkAccess Err [] [] false None
            end
  end.

(* lines 303-309: fill the code when the hash is not KECCAK_EMPTY and no code is attached *)
Definition fill_code (mc : mvmem) (bk : backing) (t : nat) (a : N) (r : option info)
    (reads : list (loc * rversion)) (blk : list nat) (bben : bool) (snap : option (N * abasic))
    : access (option info) :=
  match r with
  | Some i =>
      if negb (empty_code_hash i) && (match i_code i with None => true | Some _ => false end) then
        let c := rd_code mc bk t a (i_hash i) in
        match ac_val c with
        | Ok code => mkAccess (Ok (Some {| i_bal := i_bal i; i_nonce := i_nonce i;
                                          i_hash := i_hash i; i_code := Some code |}))
                              (reads ++ ac_reads c) (blk ++ ac_block c) bben snap
        | Err => mkAccess Err (reads ++ ac_reads c) (blk ++ ac_block c) bben snap
        end
      else mkAccess (Ok r) reads blk bben snap
  | None => mkAccess (Ok None) reads blk bben snap
  end.

(* incarnation_db.rs:255-310.  [mb] is the memory seen by the Basic lookup, [mc] the memory seen by
   the (later) Code lookup: the two are separate DashMap accesses, a writer may publish in between *)
Definition rd_basic2 (mb mc : mvmem) (bk : backing) (bmatch : N -> bool) (bresolve : nat -> benres)
    (t : nat) (a : N) : access (option info) :=
  let l := LBasic a in
  if bmatch a then
    match bresolve t with
    | BenOk r tag =>
        fill_code mc bk t a r [(l, RBen tag)] [] false
                  (match r with Some i => Some (a, abasic_of i) | None => None end)
    | BenBlocked k => mkAccess (Ok None) [] [k] true None
    end
  else
    let mvhit := match mv_read mb l t with
                 | Some (k, e) => match e_data e with VBasic r => Some (k, e, r) | _ => None end
                 | None => None
                 end in
    match mvhit with
    | Some (k, e, r) =>
        fill_code mc bk t a r [(l, RMv k (e_inc e))] (est_block k e) false
                  (match r with Some i => Some (a, abasic_of i) | None => None end)
    | None =>
        match b_basic bk a with
        | Ok r => fill_code mc bk t a r [(l, RStorage)] [] false
                            (match r with Some i => Some (a, abasic_of i) | None => None end)
        | Err => mkAccess Err [] [] false None              (* `?` at line 294 *)
        end
    end.

Definition rd_basic (m : mvmem) := rd_basic2 m m.

(* incarnation_db.rs:316-356.  [mr] is the memory seen by the StorageReset lookup, [ms] the one seen
   by the slot lookup *)
Definition rd_storage2 (mr ms : mvmem) (bk : backing) (t : nat) (a s : N) : access N :=
  let lr := LReset a in
  let ls := LStorage a s in
  let rhit := match mv_read mr lr t with
              | Some (k, e) => match e_data e with VReset => Some (k, e) | _ => None end
              | None => None
              end in
  let whit := match mv_read ms ls t with
              | Some (k, e) => match e_data e with VStorage v => Some (k, e, v) | _ => None end
              | None => None
              end in
  let rver := match rhit with Some (k, e) => RMv k (e_inc e) | None => RStorage end in
  let wver := match whit with Some (k, e, _) => RMv k (e_inc e) | None => RStorage end in
  let blk := (match rhit with Some (k, e) => est_block k e | None => [] end) ++
             (match whit with Some (k, e, _) => est_block k e | None => [] end) in
  let reads := [(lr, rver); (ls, wver)] in
  let from_reset_or_db :=
    match rhit with
    | Some _ => Ok 0%N
    | None => b_storage bk a s
    end in
  let val :=
    match whit with
    | Some (wk, _, v) =>
        match rhit with
        | None => Ok v
        | Some (rk, _) => if Nat.leb rk wk then Ok v else from_reset_or_db   (* slot_txid >= reset_txid *)
        end
    | None => from_reset_or_db
    end in
  mkAccess val reads blk false None.

Definition rd_storage (m : mvmem) := rd_storage2 m m.

(* incarnation_db.rs storage() after fix 1f61367: when the incarnation has already recorded a version
   [rv] for the account's StorageReset marker, that version is reused (the marker is not looked up
   again, nothing is added to blocking_txs for it) and only the slot lookup is fresh *)
Definition rd_storage_rec (rv : rversion) (ms : mvmem) (bk : backing) (t : nat) (a s : N) : access N :=
  let lr := LReset a in
  let ls := LStorage a s in
  let rk := match rv with RMv k _ => Some k | _ => None end in
  let whit := match mv_read ms ls t with
              | Some (k, e) => match e_data e with VStorage v => Some (k, e, v) | _ => None end
              | None => None
              end in
  let rver := match rv with RMv k i => RMv k i | _ => RStorage end in
  let wver := match whit with Some (k, e, _) => RMv k (e_inc e) | None => RStorage end in
  let blk := match whit with Some (k, e, _) => est_block k e | None => [] end in
  let reads := [(lr, rver); (ls, wver)] in
  let from_reset_or_db :=
    match rk with
    | Some _ => Ok 0%N
    | None => b_storage bk a s
    end in
  let val :=
    match whit with
    | Some (wk, _, v) =>
        match rk with
        | None => Ok v
        | Some rk => if Nat.leb rk wk then Ok v else from_reset_or_db
        end
    | None => from_reset_or_db
    end in
  mkAccess val reads blk false None.

(* ------------------------------------------------------------------------------- publication *)

Definition none_or {A} (o : option A) (p : A -> bool) : bool :=
  match o with None => true | Some x => p x end.
Definition optN_eqb (x y : option N) : bool :=
  match x, y with Some a, Some b => N.eqb a b | None, None => true | _, _ => false end.

(* incarnation_db.rs:149-151 *)
Definition code_changed (snap : option abasic) (i : info) : bool :=
  negb (empty_code_hash i) &&
  (match i_code i with Some _ => true | None => false end) &&
  none_or snap (fun b => negb (optN_eqb (ab_hash b) (Some (i_hash i)))).

(* incarnation_db.rs:163-167 *)
Definition basic_changed (snap : option abasic) (i : info) : bool :=
  code_changed snap i ||
  none_or snap (fun b => negb (N.eqb (ab_nonce b) (i_nonce i)) || negb (N.eqb (ab_bal b) (i_bal i))).

Definition info_writes (bmatch : N -> bool) (snap : option abasic) (a : N) (i : info) : list (loc * mvalue) :=
  (if code_changed snap i then
     match i_code i with Some c => [(LCode a, VCode c)] | None => [] end else []) ++
  (if negb (bmatch a) && basic_changed snap i then [(LBasic a, VBasic (Some (publish_info i)))] else []).

Definition slot_writes (a : N) (sl : list (N * N)) : list (loc * mvalue) :=
  map (fun x => (LStorage a (fst x), VStorage (snd x))) sl.

(* the body of the loop at incarnation_db.rs:118-185 for one (address, account), in program order *)
Definition writes_of_account (bmatch : N -> bool) (snaps : N -> option abasic) (a : N) (acct : account)
    : list (loc * mvalue) :=
  match classify acct with
  | Unchanged => []
  | Deleted => (if bmatch a then [] else [(LBasic a, VBasic None)]) ++ [(LReset a, VReset)]
  | Created i sl => [(LReset a, VReset)] ++ info_writes bmatch (snaps a) a i ++ slot_writes a sl
  | Updated i sl => info_writes bmatch (snaps a) a i ++ slot_writes a sl
  end.

Definition writes_of (bmatch : N -> bool) (snaps : N -> option abasic) (changes : list (N * account))
    : list (loc * mvalue) :=
  flat_map (fun x => writes_of_account bmatch snaps (fst x) (snd x)) changes.

(* publish_value, lines 204-216 *)
Definition publish_list (m : mvmem) (k inc : nat) (est : bool) (ws : list (loc * mvalue)) : mvmem :=
  fold_left (fun m' x => mv_insert m' (fst x) k (mkEntry inc (snd x) est)) ws m.

(* publish_writes: the new memory and the write set (as the list of published locations) *)
Definition publish_writes (m : mvmem) (k inc : nat) (est : bool) (bmatch : N -> bool)
    (snaps : N -> option abasic) (changes : list (N * account)) : mvmem * list loc :=
  let ws := writes_of bmatch snaps changes in
  (publish_list m k inc est ws, map fst ws).

(* ----------------------------------------------------------------- incarnation scratch state *)

Record istate := mkI {
  is_txid : nat; is_inc : nat;
  is_reads : list (loc * rversion);     (* HashMap: insert replaces *)
  is_snaps : list (N * abasic);         (* HashMap: insert replaces *)
  is_block : list nat;                  (* HashSet *)
  is_bben : bool }.

Fixpoint rs_insert (rs : list (loc * rversion)) (l : loc) (v : rversion) : list (loc * rversion) :=
  match rs with
  | [] => [(l, v)]
  | (l', v') :: r => if loc_eqb l' l then (l, v) :: r else (l', v') :: rs_insert r l v
  end.
Fixpoint sn_insert (sn : list (N * abasic)) (a : N) (b : abasic) : list (N * abasic) :=
  match sn with
  | [] => [(a, b)]
  | (a', b') :: r => if N.eqb a' a then (a, b) :: r else (a', b') :: sn_insert r a b
  end.
Fixpoint sn_get (sn : list (N * abasic)) (a : N) : option abasic :=
  match sn with
  | [] => None
  | (a', b) :: r => if N.eqb a' a then Some b else sn_get r a
  end.
Fixpoint set_add (s : list nat) (k : nat) : list nat :=
  match s with
  | [] => [k]
  | k' :: r => if Nat.eqb k' k then s else k' :: set_add r k
  end.

Definition begin_incarnation (k inc : nat) : istate := mkI k inc [] [] [] false.

Definition absorb {A} (st : istate) (ac : access A) : istate :=
  mkI (is_txid st) (is_inc st)
      (fold_left (fun rs x => rs_insert rs (fst x) (snd x)) (ac_reads ac) (is_reads st))
      (match ac_snap ac with Some (a, b) => sn_insert (is_snaps st) a b | None => is_snaps st end)
      (fold_left set_add (ac_block ac) (is_block st))
      (is_bben st || ac_bben ac).

Definition do_basic (st : istate) (m : mvmem) (bk : backing) (bmatch : N -> bool)
    (bresolve : nat -> benres) (a : N) : istate * res (option info) :=
  let ac := rd_basic m bk bmatch bresolve (is_txid st) a in (absorb st ac, ac_val ac).

Fixpoint rs_get (rs : list (loc * rversion)) (l : loc) : option rversion :=
  match rs with
  | [] => None
  | (l', v) :: r => if loc_eqb l' l then Some v else rs_get r l
  end.

(* the storage access of an incarnation that saw memory [mr] at the marker lookup (if it makes one)
   and [ms] at the slot lookup *)
Definition storage_access (st : istate) (mr ms : mvmem) (bk : backing) (a s : N) : access N :=
  match rs_get (is_reads st) (LReset a) with
  | Some rv => rd_storage_rec rv ms bk (is_txid st) a s
  | None => rd_storage2 mr ms bk (is_txid st) a s
  end.

Definition do_storage (st : istate) (m : mvmem) (bk : backing) (a s : N) : istate * res N :=
  let ac := storage_access st m m bk a s in (absorb st ac, ac_val ac).

(* the code before fix 1f61367: the marker is looked up again by every slot read and the recorded
   version is replaced (finding F8; refuted in ProofsAttempt.v) *)
Definition do_storage_old (st : istate) (mr ms : mvmem) (bk : backing) (a s : N) : istate * res N :=
  let ac := rd_storage2 mr ms bk (is_txid st) a s in (absorb st ac, ac_val ac).

Record accesses := mkAccesses {
  acc_reads : list (loc * rversion); acc_writes : list loc; acc_block : list nat; acc_bben : bool }.

(* finish_incarnation, lines 90-100 *)
Definition do_finish (st : istate) (m : mvmem) (bmatch : N -> bool) (changes : list (N * account))
    : istate * mvmem * accesses :=
  let est := match is_block st with [] => false | _ => true end in
  let '(m', ws) := publish_writes m (is_txid st) (is_inc st) est bmatch (sn_get (is_snaps st)) changes in
  (mkI (is_txid st) (is_inc st) [] [] [] false, m',
   mkAccesses (is_reads st) ws (is_block st) (is_bben st)).

(* discard_incarnation, lines 103-114 *)
Definition do_discard (st : istate) : istate * accesses :=
  (mkI (is_txid st) (is_inc st) [] [] [] false, mkAccesses [] [] (is_block st) (is_bben st)).

(* ------------------------------------------------------- whole-block publication (for the theorems) *)

(* what transaction k hands to finish_incarnation: its finalised state, the snapshots taken by its
   account reads, and the (irrelevant for values) incarnation number and estimate flag *)
Record txeff := mkTx {
  te_changes : list (N * account); te_snaps : N -> option abasic; te_inc : nat; te_est : bool }.

Definition publish_tx (bmatch : N -> bool) (m : mvmem) (k : nat) (e : txeff) : mvmem :=
  fst (publish_writes m k (te_inc e) (te_est e) bmatch (te_snaps e) (te_changes e)).

Fixpoint publish_from (bmatch : N -> bool) (m : mvmem) (k : nat) (effs : list txeff) : mvmem :=
  match effs with
  | [] => m
  | e :: r => publish_from bmatch (publish_tx bmatch m k e) (S k) r
  end.

Definition publish_all (bmatch : N -> bool) (effs : list txeff) : mvmem := publish_from bmatch mv_empty 0 effs.

Definition apply_all (st : sstate) (effs : list txeff) : sstate :=
  fold_left (fun s e => apply_struct s (te_changes e)) effs st.

(* a backing store that never fails, from total functions *)
Record base := mkBase { base_info : N -> option info; base_code : N -> N; base_stor : N -> N -> N }.
Definition backing_of (b : base) : backing :=
  mkBacking (fun a => Ok (base_info b a)) (fun h => Ok (base_code b h)) (fun a s => Ok (base_stor b a s)).
Definition sstate_of (b : base) : sstate := mkS (base_info b) (base_stor b).

(* what in-order revm hands to the interpreter for an account: code loaded by hash when absent *)
Definition fill_from (b : base) (i : info) : info :=
  if negb (empty_code_hash i) && (match i_code i with None => true | Some _ => false end)
  then {| i_bal := i_bal i; i_nonce := i_nonce i; i_hash := i_hash i; i_code := Some (base_code b (i_hash i)) |}
  else i.
Definition struct_basic (b : base) (st : sstate) (a : N) : option info :=
  option_map (fill_from b) (s_info st a).

(* accounts without code are compared without their (meaningless) code field *)
Definition norm (i : info) : info := if empty_code_hash i then strip i else i.

(* ------------------------------------------------------------ hypotheses of the C09 theorems *)

(* what revm guarantees about a finalised post-state [i] of an account whose in-order pre-state is [pre]:
   code is attached whenever the hash is not KECCAK_EMPTY and is the code of that hash ([cf]: code is a
   function of its hash); code disappears (other than by deletion) only through an EIP-7702 clearing
   authorisation, which bumps the nonce *)
Definition info_ok (cf : N -> N) (pre : option info) (i : info) : Prop :=
  (empty_code_hash i = false -> i_code i = Some (cf (i_hash i))) /\
  (empty_code_hash i = true -> forall p, pre = Some p -> empty_code_hash p = false ->
     i_nonce p <> i_nonce i \/ i_bal p <> i_bal i).

(* in-order consistency of one written (non-beneficiary) account: the snapshot taken by the writer's
   read is the in-order pre-state *)
Definition acct_ok (cf : N -> N) (bm : N -> bool) (st : sstate) (sn : N -> option abasic) (a : N)
    (acct : account) : Prop :=
  bm a = false ->
  match classify acct with
  | Created i _ | Updated i _ => sn a = option_map abasic_of (s_info st a) /\ info_ok cf (s_info st a) i
  | _ => True
  end.

Definition tx_ok (cf : N -> N) (bm : N -> bool) (st : sstate) (e : txeff) : Prop :=
  NoDup (map fst (te_changes e)) /\
  Forall (fun x => acct_ok cf bm st (te_snaps e) (fst x) (snd x)) (te_changes e).

Fixpoint consistent_from (cf : N -> N) (bm : N -> bool) (st : sstate) (effs : list txeff) : Prop :=
  match effs with
  | [] => True
  | e :: r => tx_ok cf bm st e /\ consistent_from cf bm (apply_struct st (te_changes e)) r
  end.

(* the block-start store knows the code of every account it holds *)
Definition base_ok (cf : N -> N) (b : base) : Prop :=
  forall a i, base_info b a = Some i -> empty_code_hash i = false ->
    base_code b (i_hash i) = cf (i_hash i) /\ (i_code i = None \/ i_code i = Some (cf (i_hash i))).
