(* Flat group, C08 / C11: the read set of a whole incarnation. The scheduler validates ONE recorded
   version per location (the read set is a map: a later insert replaces), while one incarnation
   resolves several slots of an account, each against the account's reset marker, possibly while
   writers publish in between. Finding F8: the code before fix 1f61367 looked the marker up again for
   every slot and replaced the recorded version, so a validated read set did not determine the
   values read ([old_read_set_unsound]); the repaired code reuses the first recorded marker version
   and then it does ([attempt_reads_determined]). No axioms. *)
From Grevm Require Import Base.Util Flat.Model Flat.ProofsBase Flat.ProofsStorage Flat.ProofsBasic Flat.ProofsRead.

(* ------------------------------------------------------------------ the read set as a map *)

Lemma rs_get_insert_same : forall rs l v, rs_get (rs_insert rs l v) l = Some v.
Proof.
  induction rs as [|[l' v'] r IH]; intros l v; cbn [rs_insert rs_get].
  - now rewrite loc_eqb_refl.
  - destruct (loc_eqb l' l) eqn:E; cbn [rs_get].
    + now rewrite loc_eqb_refl.
    + rewrite E. apply IH.
Qed.

Lemma rs_get_insert_other : forall rs l l' v, l' <> l -> rs_get (rs_insert rs l v) l' = rs_get rs l'.
Proof.
  induction rs as [|[l0 v0] r IH]; intros l l' v Hne; cbn [rs_insert rs_get].
  - rewrite loc_eqb_neq; [reflexivity|]. intros ->. now apply Hne.
  - destruct (loc_eqb l0 l) eqn:E; cbn [rs_get].
    + apply loc_eqb_eq in E; subst l0. rewrite (loc_eqb_neq l l') by (intros ->; now apply Hne). reflexivity.
    + destruct (loc_eqb l0 l'); [reflexivity|]. now apply IH.
Qed.

Lemma rs_get_In : forall rs l v, rs_get rs l = Some v -> In (l, v) rs.
Proof.
  induction rs as [|[l' v'] r IH]; intros l v H; cbn [rs_get] in H; [discriminate|].
  destruct (loc_eqb l' l) eqn:E.
  - apply loc_eqb_eq in E; subst. inversion H; subst. now left.
  - right. now apply IH.
Qed.

(* ------------------------------------------------------------------ what one access records *)

Definition reset_ver (m : mvmem) (a : N) (t : nat) : rversion :=
  match mv_read m (LReset a) t with
  | Some (k, e) => match e_data e with VReset => RMv k (e_inc e) | _ => RStorage end
  | None => RStorage
  end.
Definition slot_ver (m : mvmem) (a s : N) (t : nat) : rversion :=
  match mv_read m (LStorage a s) t with
  | Some (k, e) => match e_data e with VStorage _ => RMv k (e_inc e) | _ => RStorage end
  | None => RStorage
  end.
Definition rk_of (rv : rversion) : option nat := match rv with RMv k _ => Some k | _ => None end.
Definition clean (rv : rversion) : Prop := match rv with RBen _ => False | _ => True end.
Definition norm_rv (rv : rversion) : rversion := match rv with RMv k i => RMv k i | _ => RStorage end.

(* Database::storage's value from the two hits and the backing answer *)
Definition stor_res (r : option nat) (w : option (nat * N)) (dbv : res N) : res N :=
  match w with
  | Some (wk, v) => match r with
                    | None => Ok v
                    | Some rk => if Nat.leb rk wk then Ok v else Ok 0%N
                    end
  | None => match r with Some _ => Ok 0%N | None => dbv end
  end.

Lemma rd2_val : forall mr ms bk t a s,
  ac_val (rd_storage2 mr ms bk t a s) = stor_res (reset_hit mr a t) (slot_hit ms a s t) (b_storage bk a s).
Proof.
  intros. unfold rd_storage2, reset_hit, slot_hit, stor_res. cbn [ac_val].
  destruct (mv_read mr (LReset a) t) as [[rk re]|]; destruct (mv_read ms (LStorage a s) t) as [[wk we]|];
    try destruct (e_data re); try destruct (e_data we); try reflexivity;
    try (destruct (Nat.leb rk wk); reflexivity).
Qed.

Lemma rd2_reads : forall mr ms bk t a s,
  ac_reads (rd_storage2 mr ms bk t a s) = [(LReset a, reset_ver mr a t); (LStorage a s, slot_ver ms a s t)].
Proof.
  intros. unfold rd_storage2, reset_ver, slot_ver. cbn [ac_reads].
  destruct (mv_read mr (LReset a) t) as [[rk re]|]; destruct (mv_read ms (LStorage a s) t) as [[wk we]|];
    try destruct (e_data re); try destruct (e_data we); reflexivity.
Qed.

Lemma rec_val : forall rv ms bk t a s,
  ac_val (rd_storage_rec rv ms bk t a s) = stor_res (rk_of rv) (slot_hit ms a s t) (b_storage bk a s).
Proof.
  intros. unfold rd_storage_rec, rk_of, slot_hit, stor_res. cbn [ac_val].
  destruct rv as [k i|tag|]; destruct (mv_read ms (LStorage a s) t) as [[wk we]|];
    try destruct (e_data we); try reflexivity; try (destruct (Nat.leb k wk); reflexivity).
Qed.

Lemma rec_reads : forall rv ms bk t a s,
  ac_reads (rd_storage_rec rv ms bk t a s) = [(LReset a, norm_rv rv); (LStorage a s, slot_ver ms a s t)].
Proof.
  intros. unfold rd_storage_rec, norm_rv, slot_ver. cbn [ac_reads].
  destruct rv; destruct (mv_read ms (LStorage a s) t) as [[wk we]|]; try destruct (e_data we); reflexivity.
Qed.

Lemma rk_of_reset_ver : forall m a t, rk_of (reset_ver m a t) = reset_hit m a t.
Proof.
  intros. unfold rk_of, reset_ver, reset_hit. destruct (mv_read m (LReset a) t) as [[k e]|]; [|reflexivity].
  destruct (e_data e); reflexivity.
Qed.

Lemma reset_ver_clean : forall m a t, clean (reset_ver m a t).
Proof.
  intros. unfold reset_ver. destruct (mv_read m (LReset a) t) as [[k e]|]; [|exact I]. destruct (e_data e); exact I.
Qed.

Lemma norm_rv_clean : forall rv, clean (norm_rv rv).
Proof. intros [k i|tag|]; exact I. Qed.

Lemma norm_rv_id : forall rv, clean rv -> norm_rv rv = rv.
Proof. intros [k i|tag|] H; [reflexivity|destruct H|reflexivity]. Qed.

Lemma rk_of_norm : forall rv, rk_of (norm_rv rv) = rk_of rv.
Proof. intros [k i|tag|]; reflexivity. Qed.

(* ------------------------------------------------------------------ validation of one location *)

(* the marker: in a kinded memory the validated version fixes the hit *)
Lemma validated_marker : forall m' a t rv,
  kinded m' -> clean rv -> resolve m' (LReset a) t = rv -> reset_hit m' a t = rk_of rv.
Proof.
  intros m' a t rv K C H. unfold reset_hit. destruct rv as [k i|tag|]; [|destruct C|].
  - apply resolve_some in H as [e [R1 [R2 R3]]]. rewrite R1.
    pose proof (K _ _ _ R3) as Kk. cbn [kind_ok] in Kk. destruct (e_data e); try discriminate. reflexivity.
  - apply resolve_none in H. now rewrite H.
Qed.

(* the slot: the validated version fixes hit and value, also when the reader saw an older memory *)
Lemma validated_slot : forall ms m' a s t,
  kinded ms -> kinded m' -> version_determines ms m' ->
  resolve m' (LStorage a s) t = slot_ver ms a s t -> slot_hit m' a s t = slot_hit ms a s t.
Proof.
  intros ms m' a s t Ks K' V H. unfold slot_ver in H. unfold slot_hit.
  destruct (mv_read ms (LStorage a s) t) as [[k e]|] eqn:Es.
  - pose proof (Ks _ _ _ (mv_read_entry _ _ _ _ _ Es)) as Kk. cbn [kind_ok] in Kk.
    destruct (e_data e) eqn:Ed; try discriminate.
    apply resolve_some in H as [e' [R1 [R2 R3]]]. rewrite R1.
    assert (Hd : e_data e = e_data e').
    { eapply V; eauto. eapply mv_read_entry; eauto. }
    rewrite <- Hd, Ed. reflexivity.
  - apply resolve_none in H. now rewrite H.
Qed.

(* ------------------------------------------------------------------ an incarnation's storage reads *)

(* address, slot, memory at the marker lookup (if one is made), memory at the slot lookup *)
Definition sread := (N * N * mvmem * mvmem)%type.
Definition sr_slot (r : sread) : loc := match r with (a, s, _, _) => LStorage a s end.

Definition step_new (bk : backing) (st : istate) (r : sread) : istate * res N :=
  match r with (a, s, mr, ms) => let ac := storage_access st mr ms bk a s in (absorb st ac, ac_val ac) end.
Definition step_old (bk : backing) (st : istate) (r : sread) : istate * res N :=
  match r with (a, s, mr, ms) => do_storage_old st mr ms bk a s end.

Fixpoint run (step : istate -> sread -> istate * res N) (st : istate) (rs : list sread) : istate * list (res N) :=
  match rs with
  | [] => (st, [])
  | r :: rs' => let p := step st r in let q := run step (fst p) rs' in (fst q, snd p :: snd q)
  end.

Definition mems_ok (m' : mvmem) (rs : list sread) : Prop :=
  forall a s mr ms, In (a, s, mr, ms) rs ->
    kinded mr /\ kinded ms /\ version_determines mr m' /\ version_determines ms m'.

Lemma absorb_two : forall st (ac : access N) l1 v1 l2 v2,
  ac_reads ac = [(l1, v1); (l2, v2)] ->
  is_reads (absorb st ac) = rs_insert (rs_insert (is_reads st) l1 v1) l2 v2 /\ is_txid (absorb st ac) = is_txid st.
Proof. intros st ac l1 v1 l2 v2 H. unfold absorb. cbn [is_reads is_txid]. rewrite H. cbn [fold_left fst snd]. now split. Qed.

(* what the repaired access leaves in the read set *)
Lemma step_new_facts : forall bk st a s mr ms t,
  is_txid st = t ->
  let p := step_new bk st (a, s, mr, ms) in
  exists rv,
    clean rv /\
    rs_get (is_reads (fst p)) (LReset a) = Some rv /\
    rs_get (is_reads (fst p)) (LStorage a s) = Some (slot_ver ms a s t) /\
    snd p = stor_res (rk_of rv) (slot_hit ms a s t) (b_storage bk a s) /\
    is_txid (fst p) = t /\
    (forall l, l <> LReset a -> l <> LStorage a s -> rs_get (is_reads (fst p)) l = rs_get (is_reads st) l) /\
    (forall rv0, clean rv0 -> rs_get (is_reads st) (LReset a) = Some rv0 -> rv = rv0).
Proof.
  intros bk st a s mr ms t Ht. cbn [step_new fst snd]. unfold storage_access. rewrite Ht.
  assert (Hne : LReset a <> LStorage a s) by discriminate.
  destruct (rs_get (is_reads st) (LReset a)) as [rv0|] eqn:Eg.
  - exists (norm_rv rv0).
    destruct (absorb_two st _ _ _ _ _ (rec_reads rv0 ms bk t a s)) as [Hr Hx]. rewrite Hr, Hx.
    repeat split.
    + apply norm_rv_clean.
    + rewrite rs_get_insert_other by exact Hne. apply rs_get_insert_same.
    + apply rs_get_insert_same.
    + rewrite rec_val. now rewrite rk_of_norm.
    + exact Ht.
    + intros l H1 H2. rewrite rs_get_insert_other by exact H2. now rewrite rs_get_insert_other by exact H1.
    + intros rv1 C H. inversion H; subst. now apply norm_rv_id.
  - exists (reset_ver mr a t).
    destruct (absorb_two st _ _ _ _ _ (rd2_reads mr ms bk t a s)) as [Hr Hx]. rewrite Hr, Hx.
    repeat split.
    + apply reset_ver_clean.
    + rewrite rs_get_insert_other by exact Hne. apply rs_get_insert_same.
    + apply rs_get_insert_same.
    + rewrite rd2_val. now rewrite rk_of_reset_ver.
    + exact Ht.
    + intros l H1 H2. rewrite rs_get_insert_other by exact H2. now rewrite rs_get_insert_other by exact H1.
    + intros rv1 C H. discriminate.
Qed.

(* a recorded version survives the rest of the incarnation, unless a later read is of that very slot *)
Lemma run_new_keeps : forall bk t rs st l v,
  is_txid st = t -> clean v ->
  rs_get (is_reads st) l = Some v ->
  (forall r, In r rs -> sr_slot r <> l) ->
  rs_get (is_reads (fst (run (step_new bk) st rs))) l = Some v.
Proof.
  intros bk t. induction rs as [|[[[a s] mr] ms] rs IH]; intros st l v Ht C Hg Hn; cbn [run fst]; [exact Hg|].
  destruct (step_new_facts bk st a s mr ms t Ht) as [rv [C1 [G1 [G2 [_ [Hx [Hoth Hsame]]]]]]].
  apply IH.
  - exact Hx.
  - exact C.
  - destruct (loc_eqb l (LReset a)) eqn:E1.
    + apply loc_eqb_eq in E1; subst l. rewrite G1. f_equal. now apply Hsame.
    + assert (H1 : l <> LReset a) by (intros ->; now rewrite loc_eqb_refl in E1).
      assert (H2 : l <> LStorage a s).
      { intros ->. apply (Hn (a, s, mr, ms)); [now left|reflexivity]. }
      now rewrite Hoth.
  - intros r Hr. apply Hn. now right.
Qed.

Definition in_order_value (m' : mvmem) (bk : backing) (t : nat) (r : sread) : res N :=
  match r with (a, s, _, _) => ac_val (rd_storage m' bk t a s) end.

Lemma run_new_sound : forall bk m' t, kinded m' -> forall rs st,
  is_txid st = t ->
  NoDup (map sr_slot rs) ->
  mems_ok m' rs ->
  (forall l v, rs_get (is_reads (fst (run (step_new bk) st rs))) l = Some v -> resolve m' l t = v) ->
  snd (run (step_new bk) st rs) = map (in_order_value m' bk t) rs.
Proof.
  intros bk m' t K'. induction rs as [|[[[a s] mr] ms] rs IH]; intros st Ht Hnd Hm Hval; cbn [run fst snd map]; [reflexivity|].
  cbn [run fst] in Hval.
  destruct (step_new_facts bk st a s mr ms t Ht) as [rv [C1 [G1 [G2 [Hv [Hx [_ _]]]]]]].
  cbn [map] in Hnd. apply NoDup_cons_iff in Hnd as [Hnotin Hnd']. cbn [sr_slot] in Hnotin.
  destruct (Hm a s mr ms (or_introl eq_refl)) as [_ [Ks [_ Vs]]].
  f_equal.
  - (* this read's value *)
    rewrite Hv. cbn [in_order_value]. unfold rd_storage. rewrite rd2_val.
    assert (P1 : rs_get (is_reads (fst (run (step_new bk) (fst (step_new bk st (a, s, mr, ms))) rs))) (LReset a) = Some rv).
    { eapply run_new_keeps; eauto. intros [[[a' s'] mr'] ms'] _. discriminate. }
    assert (P2 : rs_get (is_reads (fst (run (step_new bk) (fst (step_new bk st (a, s, mr, ms))) rs))) (LStorage a s)
                 = Some (slot_ver ms a s t)).
    { eapply run_new_keeps; eauto.
      - unfold slot_ver. destruct (mv_read ms (LStorage a s) t) as [[k e]|]; [|exact I]. destruct (e_data e); exact I.
      - intros r Hr Heq. apply Hnotin. rewrite <- Heq. now apply in_map. }
    apply Hval in P1. apply Hval in P2.
    rewrite (validated_marker m' a t rv K' C1 P1).
    rewrite (validated_slot ms m' a s t Ks K' Vs P2). reflexivity.
  - apply IH; try assumption.
    intros a' s' mr' ms' Hin. apply (Hm a' s' mr' ms'). now right.
Qed.

(* THE THEOREM (repaired code): an incarnation reads any number of storage slots (each at most once:
   revm's journal loads a slot from the database once per transaction), every lookup possibly against
   a different memory because writers publish concurrently; if every version in its final read set
   still resolves at validation time, then every value it read is the value an execution against the
   validated memory reads. *)
Theorem attempt_reads_determined : forall bk m' t inc rs,
  kinded m' ->
  NoDup (map sr_slot rs) ->
  mems_ok m' rs ->
  (forall l v, In (l, v) (is_reads (fst (run (step_new bk) (begin_incarnation t inc) rs))) -> resolve m' l t = v) ->
  snd (run (step_new bk) (begin_incarnation t inc) rs) = map (in_order_value m' bk t) rs.
Proof.
  intros bk m' t inc rs K' Hnd Hm Hval. apply run_new_sound; try assumption; [reflexivity|].
  intros l v Hg. apply Hval. now apply rs_get_In.
Qed.

(* [do_storage] (what the extracted model and the differential harness run) is [step_new] with one memory *)
Lemma do_storage_is_step_new : forall st m bk a s, do_storage st m bk a s = step_new bk st (a, s, m, m).
Proof. reflexivity. Qed.

(* ------------------------------------------------------------------ finding F8: the old code *)

Definition f8_A : N := 0xa0%N.
Definition f8_m1 : mvmem := mv_insert mv_empty (LStorage f8_A 0) 0 (mkEntry 1 (VStorage 9) false).
Definition f8_m2 : mvmem := mv_insert f8_m1 (LReset f8_A) 1 (mkEntry 1 VReset false).
Definition f8_bk : backing := mkBacking (fun _ => Ok None) (fun _ => Ok 0%N) (fun _ _ => Ok 0%N).
(* transaction 2 reads slot 0 before transaction 1 has published its marker, and slot 1 after *)
Definition f8_reads : list sread := [(f8_A, 0%N, f8_m1, f8_m1); (f8_A, 1%N, f8_m2, f8_m2)].

Lemma f8_kinded1 : kinded f8_m1.
Proof.
  unfold kinded, f8_m1, mv_insert, mv_empty. intros l k e H.
  destruct (loc_eqb l (LStorage f8_A 0) && Nat.eqb k 0) eqn:E; [|discriminate].
  apply andb_true_iff in E as [E _]. apply loc_eqb_eq in E; subst. now inversion H.
Qed.

Lemma f8_kinded2 : kinded f8_m2.
Proof.
  unfold kinded, f8_m2, mv_insert. intros l k e H.
  destruct (loc_eqb l (LReset f8_A) && Nat.eqb k 1) eqn:E.
  - apply andb_true_iff in E as [E _]. apply loc_eqb_eq in E; subst. now inversion H.
  - now apply f8_kinded1 in H.
Qed.

Lemma f8_vd12 : version_determines f8_m1 f8_m2.
Proof.
  unfold version_determines, f8_m2, mv_insert. intros l k e e' H1 H2 _.
  destruct (loc_eqb l (LReset f8_A) && Nat.eqb k 1) eqn:E.
  - apply andb_true_iff in E as [E _]. apply loc_eqb_eq in E; subst.
    unfold f8_m1, mv_insert, mv_empty in H1. cbn in H1. discriminate.
  - congruence.
Qed.

Lemma f8_vd22 : version_determines f8_m2 f8_m2.
Proof. unfold version_determines. intros. congruence. Qed.

(* The same hypotheses, the code before the fix: the final read set validates against the memory
   every writer has finished publishing into, yet the incarnation read 9 for slot 0 where that memory
   (and in-order execution: transaction 1 removed the account) gives 0. *)
Theorem old_read_set_unsound :
  kinded f8_m2 /\ NoDup (map sr_slot f8_reads) /\ mems_ok f8_m2 f8_reads /\
  (forall l v, In (l, v) (is_reads (fst (run (step_old f8_bk) (begin_incarnation 2 1) f8_reads))) -> resolve f8_m2 l 2 = v) /\
  snd (run (step_old f8_bk) (begin_incarnation 2 1) f8_reads) = [Ok 9%N; Ok 0%N] /\
  map (in_order_value f8_m2 f8_bk 2) f8_reads = [Ok 0%N; Ok 0%N].
Proof.
  split; [exact f8_kinded2|]. split.
  { cbn. repeat constructor; cbn; intuition discriminate. }
  split.
  { intros a s mr ms [H|[H|[]]]; inversion H; subst.
    - repeat split; [exact f8_kinded1|exact f8_kinded1|exact f8_vd12|exact f8_vd12].
    - repeat split; [exact f8_kinded2|exact f8_kinded2|exact f8_vd22|exact f8_vd22]. }
  split.
  { intros l v H. vm_compute in H. destruct H as [H|[H|[H|[]]]]; inversion H; subst; vm_compute; reflexivity. }
  split; vm_compute; reflexivity.
Qed.

(* the repaired code on the same reads: the recorded marker version is the first one (none), which no
   longer resolves once transaction 1 has published - validation fails and the attempt is retried *)
Example new_code_rejects_f8 :
  rs_get (is_reads (fst (run (step_new f8_bk) (begin_incarnation 2 1) f8_reads))) (LReset f8_A) = Some RStorage /\
  resolve f8_m2 (LReset f8_A) 2 = RMv 1 1.
Proof. split; vm_compute; reflexivity. Qed.
