(* Flat group, base lemmas: location equality, write lookup, what publication leaves in the memory,
   what in-order application leaves in the structured state. No axioms. *)
From Grevm Require Import Base.Util Flat.Model.

(* ------------------------------------------------------------------------------ small facts *)

Lemma loc_eqb_eq : forall x y, loc_eqb x y = true <-> x = y.
Proof.
  intros [a|a s|a|a] [b|b t|b|b]; cbn [loc_eqb]; split; intros H; try discriminate; try congruence.
  - apply N.eqb_eq in H. congruence.
  - inversion H; subst. apply N.eqb_refl.
  - apply andb_true_iff in H as [H1 H2]. apply N.eqb_eq in H1, H2. congruence.
  - inversion H; subst. now rewrite !N.eqb_refl.
  - apply N.eqb_eq in H. congruence.
  - inversion H; subst. apply N.eqb_refl.
  - apply N.eqb_eq in H. congruence.
  - inversion H; subst. apply N.eqb_refl.
Qed.

Lemma loc_eqb_refl : forall x, loc_eqb x x = true.
Proof. intros x. now apply loc_eqb_eq. Qed.

Lemma loc_eqb_neq : forall x y, x <> y -> loc_eqb x y = false.
Proof. intros x y H. destruct (loc_eqb x y) eqn:E; [apply loc_eqb_eq in E; contradiction|reflexivity]. Qed.

Lemma loc_eqb_addr : forall x y, loc_addr x <> loc_addr y -> loc_eqb x y = false.
Proof. intros x y H. apply loc_eqb_neq. intros ->. now apply H. Qed.

Lemma updN_same {A} (f : N -> A) k x : updN f k x k = x.
Proof. unfold updN. now rewrite N.eqb_refl. Qed.

Lemma updN_other {A} (f : N -> A) k j x : j <> k -> updN f k x j = f j.
Proof. unfold updN. intros H. destruct (N.eqb_spec j k); [contradiction|reflexivity]. Qed.

(* ------------------------------------------------------------------------------ latest_before *)

Lemma latest_before_S : forall f t,
  latest_before f (S t) = match f t with Some e => Some (t, e) | None => latest_before f t end.
Proof. reflexivity. Qed.

Lemma latest_before_lt : forall f t k e, latest_before f t = Some (k, e) -> k < t /\ f k = Some e.
Proof.
  intros f t; induction t as [|t IH]; intros k e H; cbn [latest_before] in H; [discriminate|].
  destruct (f t) eqn:E.
  - inversion H; subst. split; [lia|assumption].
  - apply IH in H as [H1 H2]. split; [lia|assumption].
Qed.

Lemma latest_before_newest : forall f t k e j, latest_before f t = Some (k, e) -> k < j -> j < t -> f j = None.
Proof.
  intros f t; induction t as [|t IH]; intros k e j H Hkj Hjt; cbn [latest_before] in H; [lia|].
  destruct (f t) eqn:E.
  - inversion H; subst. lia.
  - destruct (Nat.eq_dec j t) as [->|Hne]; [assumption|]. eapply IH; eauto. lia.
Qed.

Lemma latest_before_none : forall f t, latest_before f t = None -> forall j, j < t -> f j = None.
Proof.
  intros f t; induction t as [|t IH]; intros H j Hj; [lia|]. cbn [latest_before] in H.
  destruct (f t) eqn:E; [discriminate|]. destruct (Nat.eq_dec j t) as [->|Hne]; [assumption|].
  apply IH; [assumption|lia].
Qed.

Lemma latest_before_ext : forall f g t, (forall j, j < t -> f j = g j) -> latest_before f t = latest_before g t.
Proof.
  intros f g t; induction t as [|t IH]; intros H; [reflexivity|]. cbn [latest_before].
  rewrite <- (H t) by lia. destruct (f t); [reflexivity|]. apply IH. intros j Hj. apply H. lia.
Qed.

(* ------------------------------------------------------------------------------ write lookup *)

(* the value the last write to [l] in the list leaves behind (BTreeMap::insert replaces) *)
Fixpoint assoc_last (l : loc) (ws : list (loc * mvalue)) : option mvalue :=
  match ws with
  | [] => None
  | (l', v) :: r => match assoc_last l r with
                    | Some x => Some x
                    | None => if loc_eqb l l' then Some v else None
                    end
  end.

Lemma assoc_last_app : forall l x y,
  assoc_last l (x ++ y) = match assoc_last l y with Some v => Some v | None => assoc_last l x end.
Proof.
  intros l x y; induction x as [|[l' v] x IH]; cbn [assoc_last app].
  - now destruct (assoc_last l y).
  - rewrite IH. destruct (assoc_last l y); [reflexivity|]. reflexivity.
Qed.

Lemma assoc_last_In : forall l ws v, assoc_last l ws = Some v -> In (l, v) ws.
Proof.
  intros l ws; induction ws as [|[l' v'] r IH]; intros v H; cbn [assoc_last] in H; [discriminate|].
  destruct (assoc_last l r) eqn:E.
  - inversion H; subst. right. now apply IH.
  - destruct (loc_eqb l l') eqn:El; [|discriminate]. apply loc_eqb_eq in El; subst. inversion H; subst. now left.
Qed.

Lemma assoc_last_none_addr : forall l ws,
  (forall l' v, In (l', v) ws -> loc_addr l' <> loc_addr l) -> assoc_last l ws = None.
Proof.
  intros l ws; induction ws as [|[l' v'] r IH]; intros H; cbn [assoc_last]; [reflexivity|].
  rewrite IH by (intros; eapply H; right; eauto).
  rewrite loc_eqb_addr; [reflexivity|]. intros E. eapply H; [left; reflexivity|]. now symmetry.
Qed.

Lemma publish_list_spec : forall ws m k inc est l k',
  publish_list m k inc est ws l k' =
  if Nat.eqb k' k then match assoc_last l ws with
                       | Some v => Some (mkEntry inc v est)
                       | None => m l k'
                       end
  else m l k'.
Proof.
  unfold publish_list. intros ws; induction ws as [|[l' v'] r IH] using rev_ind; intros m k inc est l k'.
  - cbn. now destruct (Nat.eqb k' k).
  - rewrite fold_left_app. cbn [fold_left fst snd]. unfold mv_insert at 1.
    rewrite assoc_last_app. cbn [assoc_last].
    destruct (Nat.eqb k' k) eqn:Ek.
    + destruct (loc_eqb l l') eqn:El; cbn [andb].
      * reflexivity.
      * specialize (IH m k inc est l k'). rewrite Ek in IH. exact IH.
    + rewrite andb_false_r. specialize (IH m k inc est l k'). rewrite Ek in IH. exact IH.
Qed.

(* ------------------------------------------------------------------ writes of one finalised state *)

Definition find_acct (a : N) (ch : list (N * account)) : option account :=
  match find (fun x => N.eqb (fst x) a) ch with Some x => Some (snd x) | None => None end.

Lemma find_acct_In : forall a ch acct, find_acct a ch = Some acct -> In (a, acct) ch.
Proof.
  unfold find_acct. intros a ch acct H. destruct (find _ ch) as [[a' x]|] eqn:E; [|discriminate].
  apply find_some in E as [E1 E2]. cbn in E2. apply N.eqb_eq in E2. subst. now inversion H; subst.
Qed.

Lemma find_acct_notin : forall a ch, ~ In a (map fst ch) -> find_acct a ch = None.
Proof.
  unfold find_acct. intros a ch H. destruct (find _ ch) as [[a' x]|] eqn:E; [|reflexivity].
  apply find_some in E as [E1 E2]. cbn in E2. apply N.eqb_eq in E2. subst.
  exfalso. apply H. apply in_map_iff. now exists (a, x).
Qed.

Lemma find_acct_cons : forall a a' x ch,
  find_acct a ((a', x) :: ch) = if N.eqb a' a then Some x else find_acct a ch.
Proof. unfold find_acct. intros. cbn [find fst]. now destruct (N.eqb a' a). Qed.

Lemma info_writes_addr : forall bm sn a i l v, In (l, v) (info_writes bm sn a i) -> loc_addr l = a.
Proof.
  unfold info_writes. intros bm sn a i l v H. apply in_app_iff in H as [H|H].
  - destruct (code_changed sn i); [|contradiction]. destruct (i_code i); [|contradiction].
    destruct H as [H|[]]. now inversion H.
  - destruct (negb (bm a) && basic_changed sn i); [|contradiction]. destruct H as [H|[]]. now inversion H.
Qed.

Lemma slot_writes_addr : forall a sl l v, In (l, v) (slot_writes a sl) -> loc_addr l = a.
Proof. unfold slot_writes. intros a sl l v H. apply in_map_iff in H as [x [H _]]. now inversion H. Qed.

Lemma writes_of_account_addr : forall bm sn a acct l v,
  In (l, v) (writes_of_account bm sn a acct) -> loc_addr l = a.
Proof.
  unfold writes_of_account. intros bm sn a acct l v H. destruct (classify acct).
  - contradiction.
  - apply in_app_iff in H as [H|H].
    + destruct (bm a); [contradiction|]. destruct H as [H|[]]. now inversion H.
    + destruct H as [H|[]]. now inversion H.
  - apply in_app_iff in H as [H|H]; [destruct H as [H|[]]; now inversion H|].
    apply in_app_iff in H as [H|H]; [eapply info_writes_addr|eapply slot_writes_addr]; eauto.
  - apply in_app_iff in H as [H|H]; [eapply info_writes_addr|eapply slot_writes_addr]; eauto.
Qed.

Lemma writes_of_lookup : forall bm sn ch l,
  NoDup (map fst ch) ->
  assoc_last l (writes_of bm sn ch) =
  match find_acct (loc_addr l) ch with
  | Some acct => assoc_last l (writes_of_account bm sn (loc_addr l) acct)
  | None => None
  end.
Proof.
  unfold writes_of. intros bm sn ch l; induction ch as [|[a x] ch IH]; intros Hnd; [reflexivity|].
  cbn [flat_map fst snd]. rewrite assoc_last_app. rewrite find_acct_cons.
  cbn [map fst] in Hnd. inversion Hnd as [|? ? Hnotin Hnd']; subst.
  rewrite IH by assumption. destruct (N.eqb_spec a (loc_addr l)) as [->|Hne].
  - rewrite find_acct_notin by assumption. reflexivity.
  - assert (E : assoc_last l (writes_of_account bm sn a x) = None).
    { apply assoc_last_none_addr. intros l' v H. apply writes_of_account_addr in H. congruence. }
    rewrite E. destruct (find_acct (loc_addr l) ch) as [acct|]; [|reflexivity].
    now destruct (assoc_last l (writes_of_account bm sn (loc_addr l) acct)).
Qed.

(* lookups inside the writes of one account *)

Fixpoint assoc_lastN (s : N) (sl : list (N * N)) : option N :=
  match sl with
  | [] => None
  | (s', v) :: r => match assoc_lastN s r with
                    | Some x => Some x
                    | None => if N.eqb s s' then Some v else None
                    end
  end.

Lemma assoc_lastN_app : forall s x y,
  assoc_lastN s (x ++ y) = match assoc_lastN s y with Some v => Some v | None => assoc_lastN s x end.
Proof.
  intros s x y; induction x as [|[s' v] x IH]; cbn [assoc_lastN app].
  - now destruct (assoc_lastN s y).
  - rewrite IH. now destruct (assoc_lastN s y).
Qed.

Lemma write_slots_spec : forall sl f s,
  write_slots sl f s = match assoc_lastN s sl with Some v => v | None => f s end.
Proof.
  unfold write_slots. intros sl; induction sl as [|[s' v] r IH] using rev_ind; intros f s; [reflexivity|].
  rewrite fold_left_app, assoc_lastN_app. cbn [fold_left fst snd assoc_lastN]. unfold updN at 1.
  destruct (N.eqb s s'); [reflexivity|apply IH].
Qed.

Lemma slot_writes_storage : forall a sl s,
  assoc_last (LStorage a s) (slot_writes a sl) = option_map VStorage (assoc_lastN s sl).
Proof.
  unfold slot_writes. intros a sl s; induction sl as [|[s' v] r IH]; [reflexivity|].
  cbn [map assoc_last assoc_lastN fst snd]. rewrite IH. destruct (assoc_lastN s r); [reflexivity|].
  cbn [loc_eqb option_map]. rewrite N.eqb_refl. cbn [andb]. now destruct (N.eqb s s').
Qed.

Lemma slot_writes_other : forall a sl l,
  (forall s, l <> LStorage a s) -> assoc_last l (slot_writes a sl) = None.
Proof.
  unfold slot_writes. intros a sl l H; induction sl as [|[s' v] r IH]; [reflexivity|].
  cbn [map assoc_last fst snd]. rewrite IH. rewrite loc_eqb_neq; [reflexivity|apply H].
Qed.

Lemma info_writes_basic : forall bm sn a i,
  assoc_last (LBasic a) (info_writes bm sn a i) =
  if negb (bm a) && basic_changed sn i then Some (VBasic (Some (publish_info i))) else None.
Proof.
  unfold info_writes. intros. rewrite assoc_last_app.
  destruct (negb (bm a) && basic_changed sn i); cbn [assoc_last loc_eqb]; [now rewrite N.eqb_refl|].
  destruct (code_changed sn i); [|reflexivity]. now destruct (i_code i).
Qed.

Lemma info_writes_code : forall bm sn a i,
  assoc_last (LCode a) (info_writes bm sn a i) =
  if code_changed sn i then option_map VCode (i_code i) else None.
Proof.
  unfold info_writes. intros. rewrite assoc_last_app.
  assert (E : assoc_last (LCode a) (if negb (bm a) && basic_changed sn i then [(LBasic a, VBasic (Some (publish_info i)))] else []) = None)
    by now destruct (negb (bm a) && basic_changed sn i).
  rewrite E. destruct (code_changed sn i); [|reflexivity].
  destruct (i_code i); cbn [assoc_last loc_eqb option_map]; [now rewrite N.eqb_refl|reflexivity].
Qed.

Lemma info_writes_not_info : forall bm sn a i l,
  (l <> LBasic a) -> (l <> LCode a) -> assoc_last l (info_writes bm sn a i) = None.
Proof.
  unfold info_writes. intros bm sn a i l H1 H2. rewrite assoc_last_app.
  destruct (negb (bm a) && basic_changed sn i); cbn [assoc_last].
  - rewrite (loc_eqb_neq _ _ H1). destruct (code_changed sn i); [|reflexivity].
    destruct (i_code i); cbn [assoc_last]; [now rewrite (loc_eqb_neq _ _ H2)|reflexivity].
  - destruct (code_changed sn i); [|reflexivity].
    destruct (i_code i); cbn [assoc_last]; [now rewrite (loc_eqb_neq _ _ H2)|reflexivity].
Qed.

(* the four kinds of location, per classification *)

Lemma account_writes_reset : forall bm sn a acct,
  assoc_last (LReset a) (writes_of_account bm sn a acct) =
  match classify acct with Deleted | Created _ _ => Some VReset | _ => None end.
Proof.
  unfold writes_of_account. intros. destruct (classify acct); [reflexivity| | |].
  - rewrite assoc_last_app. cbn [assoc_last loc_eqb]. now rewrite N.eqb_refl.
  - rewrite !assoc_last_app. rewrite slot_writes_other by discriminate.
    rewrite info_writes_not_info by discriminate. cbn [assoc_last loc_eqb]. now rewrite N.eqb_refl.
  - rewrite assoc_last_app. rewrite slot_writes_other by discriminate.
    now rewrite info_writes_not_info by discriminate.
Qed.

Lemma account_writes_storage : forall bm sn a acct s,
  assoc_last (LStorage a s) (writes_of_account bm sn a acct) =
  match classify acct with
  | Created _ sl | Updated _ sl => option_map VStorage (assoc_lastN s sl)
  | _ => None
  end.
Proof.
  unfold writes_of_account. intros. destruct (classify acct); [reflexivity| | |].
  - rewrite assoc_last_app. cbn [assoc_last loc_eqb]. now destruct (bm a).
  - rewrite !assoc_last_app, slot_writes_storage. destruct (assoc_lastN s sl); [reflexivity|].
    cbn [option_map]. now rewrite info_writes_not_info by discriminate.
  - rewrite assoc_last_app, slot_writes_storage. destruct (assoc_lastN s sl); [reflexivity|].
    cbn [option_map]. now rewrite info_writes_not_info by discriminate.
Qed.

Lemma account_writes_basic : forall bm sn a acct,
  assoc_last (LBasic a) (writes_of_account bm sn a acct) =
  match classify acct with
  | Unchanged => None
  | Deleted => if bm a then None else Some (VBasic None)
  | Created i _ | Updated i _ =>
      if negb (bm a) && basic_changed (sn a) i then Some (VBasic (Some (publish_info i))) else None
  end.
Proof.
  unfold writes_of_account. intros. destruct (classify acct); [reflexivity| | |].
  - rewrite assoc_last_app. cbn [assoc_last loc_eqb]. destruct (bm a); [reflexivity|].
    cbn [assoc_last loc_eqb]. now rewrite N.eqb_refl.
  - rewrite !assoc_last_app. rewrite slot_writes_other by discriminate. rewrite info_writes_basic.
    now destruct (negb (bm a) && basic_changed (sn a) i).
  - rewrite assoc_last_app. rewrite slot_writes_other by discriminate. now rewrite info_writes_basic.
Qed.

Lemma account_writes_code : forall bm sn a acct,
  assoc_last (LCode a) (writes_of_account bm sn a acct) =
  match classify acct with
  | Created i _ | Updated i _ => if code_changed (sn a) i then option_map VCode (i_code i) else None
  | _ => None
  end.
Proof.
  unfold writes_of_account. intros. destruct (classify acct); [reflexivity| | |].
  - rewrite assoc_last_app. cbn [assoc_last loc_eqb]. now destruct (bm a).
  - rewrite !assoc_last_app. rewrite slot_writes_other by discriminate. rewrite info_writes_code.
    now destruct (code_changed (sn a) i); [destruct (i_code i)|].
  - rewrite assoc_last_app. rewrite slot_writes_other by discriminate. now rewrite info_writes_code.
Qed.

(* -------------------------------------------------------------------- whole-block publication *)

Definition tx_writes (bm : N -> bool) (e : txeff) : list (loc * mvalue) :=
  writes_of bm (te_snaps e) (te_changes e).

Lemma publish_tx_spec : forall bm m k e l k',
  publish_tx bm m k e l k' =
  if Nat.eqb k' k then match assoc_last l (tx_writes bm e) with
                       | Some v => Some (mkEntry (te_inc e) v (te_est e))
                       | None => m l k'
                       end
  else m l k'.
Proof. intros. unfold publish_tx, publish_writes. cbn [fst]. apply publish_list_spec. Qed.

Lemma publish_from_spec : forall bm effs m k0 l k,
  publish_from bm m k0 effs l k =
  if Nat.ltb k k0 then m l k
  else match nth_opt effs (k - k0) with
       | Some e => match assoc_last l (tx_writes bm e) with
                   | Some v => Some (mkEntry (te_inc e) v (te_est e))
                   | None => m l k
                   end
       | None => m l k
       end.
Proof.
  intros bm effs; induction effs as [|e r IH]; intros m k0 l k; cbn [publish_from].
  - destruct (Nat.ltb k k0); [reflexivity|]. now destruct (k - k0).
  - rewrite IH. rewrite publish_tx_spec.
    destruct (Nat.ltb_spec k (S k0)) as [H1|H1]; destruct (Nat.ltb_spec k k0) as [H2|H2]; try lia.
    + destruct (Nat.eqb_spec k k0); [lia|reflexivity].
    + assert (k = k0) by lia; subst. rewrite Nat.sub_diag, Nat.eqb_refl. reflexivity.
    + destruct (Nat.eqb_spec k k0); [lia|].
      replace (k - k0) with (S (k - S k0)) by lia. reflexivity.
Qed.

Lemma publish_all_spec : forall bm effs l k,
  publish_all bm effs l k =
  match nth_opt effs k with
  | Some e => option_map (fun v => mkEntry (te_inc e) v (te_est e)) (assoc_last l (tx_writes bm e))
  | None => None
  end.
Proof.
  intros. unfold publish_all. rewrite publish_from_spec. cbn [Nat.ltb Nat.leb]. rewrite Nat.sub_0_r.
  destruct (nth_opt effs k); [|reflexivity]. now destruct (assoc_last l (tx_writes bm t)).
Qed.

(* the entry transaction [k] left at a location of address [loc_addr l] *)
Lemma publish_all_at : forall bm effs l k e,
  nth_opt effs k = Some e -> NoDup (map fst (te_changes e)) ->
  publish_all bm effs l k =
  match find_acct (loc_addr l) (te_changes e) with
  | Some acct => option_map (fun v => mkEntry (te_inc e) v (te_est e))
                            (assoc_last l (writes_of_account bm (te_snaps e) (loc_addr l) acct))
  | None => None
  end.
Proof.
  intros bm effs l k e Hn Hnd. rewrite publish_all_spec, Hn. unfold tx_writes.
  rewrite writes_of_lookup by assumption. now destruct (find_acct (loc_addr l) (te_changes e)).
Qed.

Lemma publish_all_beyond : forall bm effs l k, nth_opt effs k = None -> publish_all bm effs l k = None.
Proof. intros. now rewrite publish_all_spec, H. Qed.

(* ------------------------------------------------------------------ in-order structured state *)

Definition eff_info (e : effect) (old : option info) : option info :=
  match e with Unchanged => old | Deleted => None | Created i _ | Updated i _ => Some i end.
Definition eff_stor (e : effect) (old : N -> N) : N -> N :=
  match e with
  | Unchanged => old
  | Deleted => fun _ => 0%N
  | Created _ sl => write_slots sl (fun _ => 0%N)
  | Updated _ sl => write_slots sl old
  end.

Lemma apply_effect_at : forall st a e,
  s_info (apply_effect st a e) a = eff_info e (s_info st a) /\
  s_stor (apply_effect st a e) a = eff_stor e (s_stor st a).
Proof. intros st a [| |i sl|i sl]; cbn [apply_effect s_info s_stor eff_info eff_stor]; rewrite ?updN_same; auto. Qed.

Lemma apply_effect_other : forall st a e b, b <> a ->
  s_info (apply_effect st a e) b = s_info st b /\ s_stor (apply_effect st a e) b = s_stor st b.
Proof.
  intros st a [| |i sl|i sl] b H; cbn [apply_effect s_info s_stor]; rewrite ?updN_other by assumption; auto.
Qed.

Lemma apply_struct_spec : forall ch st a, NoDup (map fst ch) ->
  s_info (apply_struct st ch) a =
    match find_acct a ch with Some acct => eff_info (classify acct) (s_info st a) | None => s_info st a end /\
  s_stor (apply_struct st ch) a =
    match find_acct a ch with Some acct => eff_stor (classify acct) (s_stor st a) | None => s_stor st a end.
Proof.
  unfold apply_struct. intros ch; induction ch as [|[a' x] r IH]; intros st a Hnd; [now split|].
  cbn [fold_left fst snd]. cbn [map fst] in Hnd. inversion Hnd as [|? ? Hnotin Hnd']; subst.
  rewrite find_acct_cons. destruct (IH (apply_effect st a' (classify x)) a Hnd') as [I1 I2].
  rewrite I1, I2. destruct (N.eqb_spec a' a) as [->|Hne].
  - rewrite find_acct_notin by assumption. apply apply_effect_at.
  - destruct (apply_effect_other st a' (classify x) a) as [O1 O2]; [congruence|].
    rewrite O1, O2. now destruct (find_acct a r).
Qed.

Lemma apply_all_snoc : forall effs st e,
  apply_all st (effs ++ [e]) = apply_struct (apply_all st effs) (te_changes e).
Proof. intros. unfold apply_all. now rewrite fold_left_app. Qed.

Lemma firstn_S_nth : forall {A} (l : list A) k x, nth_opt l k = Some x -> firstn (S k) l = firstn k l ++ [x].
Proof.
  intros A l; induction l as [|y l IH]; intros [|k] x H; cbn [nth_opt] in H; try discriminate.
  - now inversion H.
  - cbn [firstn app]. f_equal. now apply IH.
Qed.

Lemma firstn_S_none : forall {A} (l : list A) k, nth_opt l k = None -> firstn (S k) l = firstn k l.
Proof.
  intros A l; induction l as [|y l IH]; intros [|k] H; cbn [nth_opt] in H; try discriminate; try reflexivity.
  cbn [firstn]. f_equal. now apply IH.
Qed.

Lemma nth_opt_In' : forall {A} (l : list A) k x, nth_opt l k = Some x -> In x l.
Proof. intros. eapply nth_opt_In; eauto. Qed.
