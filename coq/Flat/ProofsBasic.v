(* Flat group, C09: the flat account read (Basic versions with the code stripped (kept for code-less accounts) + Code versions +
   backing store) equals the structured in-order account, code included. No axioms. *)
From Grevm Require Import Base.Util Flat.Model Flat.ProofsBase Flat.ProofsStorage.

Definition with_code (i : info) (c : N) : info :=
  {| i_bal := i_bal i; i_nonce := i_nonce i; i_hash := i_hash i; i_code := Some c |}.
Definition needs_code (i : info) : bool :=
  negb (empty_code_hash i) && (match i_code i with None => true | Some _ => false end).
Definition fill_with (c : N -> N) (i : info) : info := if needs_code i then with_code i (c (i_hash i)) else i.

Lemma fill_from_with : forall b i, fill_from b i = fill_with (base_code b) i.
Proof. reflexivity. Qed.

Definition basic_hit (m : mvmem) (a : N) (t : nat) : option (nat * option info) :=
  match mv_read m (LBasic a) t with
  | Some (k, e) => match e_data e with VBasic r => Some (k, r) | _ => None end
  | None => None
  end.
Definition code_hit (m : mvmem) (a : N) (t : nat) : option N :=
  match mv_read m (LCode a) t with
  | Some (k, e) => match e_data e with VCode c => Some c | _ => None end
  | None => None
  end.
Definition flat_info (m : mvmem) (b : base) (a : N) (t : nat) : option info :=
  match basic_hit m a t with Some (_, r) => r | None => base_info b a end.
Definition rc (m : mvmem) (b : base) (a : N) (t : nat) (h : N) : N :=
  match code_hit m a t with Some c => c | None => base_code b h end.

Lemma rd_code_val : forall m b t a h,
  ac_val (rd_code m (backing_of b) t a h) = Ok (rc m b a t h).
Proof.
  intros. unfold rd_code, rc, code_hit. cbn [backing_of b_code].
  destruct (mv_read m (LCode a) t) as [[k e]|]; [|reflexivity]. now destruct (e_data e).
Qed.

Lemma fill_code_val : forall m b t a r reads blk bben snap,
  ac_val (fill_code m (backing_of b) t a r reads blk bben snap) = Ok (option_map (fill_with (rc m b a t)) r).
Proof.
  intros. unfold fill_code. destruct r as [i|]; [|reflexivity]. cbn [option_map]. unfold fill_with, needs_code.
  destruct (negb (empty_code_hash i) && match i_code i with None => true | Some _ => false end); [|reflexivity].
  rewrite rd_code_val. reflexivity.
Qed.

Lemma rd_basic_val : forall m b bm br t a, bm a = false ->
  ac_val (rd_basic m (backing_of b) bm br t a) = Ok (option_map (fill_with (rc m b a t)) (flat_info m b a t)).
Proof.
  intros m b bm br t a Hb. unfold rd_basic, rd_basic2, flat_info, basic_hit. rewrite Hb.
  destruct (mv_read m (LBasic a) t) as [[k e]|].
  - destruct (e_data e); cbn [backing_of b_basic]; apply fill_code_val.
  - cbn [backing_of b_basic]. apply fill_code_val.
Qed.

Lemma basic_hit_S : forall m a t,
  basic_hit m a (S t) =
  match m (LBasic a) t with
  | Some e => match e_data e with VBasic r => Some (t, r) | _ => None end
  | None => basic_hit m a t
  end.
Proof. intros. unfold basic_hit, mv_read. rewrite latest_before_S. now destruct (m (LBasic a) t). Qed.

Lemma code_hit_S : forall m a t,
  code_hit m a (S t) =
  match m (LCode a) t with
  | Some e => match e_data e with VCode c => Some c | _ => None end
  | None => code_hit m a t
  end.
Proof. intros. unfold code_hit, mv_read. rewrite latest_before_S. now destruct (m (LCode a) t). Qed.

(* ---------------------------------------------------------------- suppression is sound (C09 core) *)

(* the published Basic value has the account fields of the post-state *)
Lemma strip_publish_info : forall i, strip (publish_info i) = strip i.
Proof. reflexivity. Qed.

Lemma strip_eq : forall p i, i_bal p = i_bal i -> i_nonce p = i_nonce i -> i_hash p = i_hash i -> strip p = strip i.
Proof. intros [? ? ? ?] [? ? ? ?]; cbn. intros; subst. reflexivity. Qed.

Lemma abasic_hash_some : forall p h, ab_hash (abasic_of p) = Some h -> empty_code_hash p = false /\ i_hash p = h.
Proof. intros p h. cbn [abasic_of ab_hash]. destruct (empty_code_hash p); [discriminate|]. intros H; inversion H; auto. Qed.

(* the Code entry is suppressed only if the hash that was read is the post-state hash *)
Lemma code_suppressed_same : forall cf pre i,
  info_ok cf pre i -> empty_code_hash i = false ->
  code_changed (option_map abasic_of pre) i = false ->
  exists p, pre = Some p /\ empty_code_hash p = false /\ i_hash p = i_hash i.
Proof.
  intros cf pre i [Hwf _] Hne Hcc. unfold code_changed in Hcc. rewrite Hne, (Hwf Hne) in Hcc. cbn [negb andb] in Hcc.
  destruct pre as [p|]; [|discriminate]. cbn [option_map none_or] in Hcc.
  apply negb_false_iff in Hcc. exists p. split; [reflexivity|].
  destruct (ab_hash (abasic_of p)) as [h|] eqn:Eh; [|discriminate]. cbn [optN_eqb] in Hcc. apply N.eqb_eq in Hcc. subst h.
  now apply abasic_hash_some.
Qed.

(* the Basic entry is suppressed only if balance, nonce and code hash are what was read *)
Lemma basic_suppressed_same : forall cf pre i,
  info_ok cf pre i ->
  basic_changed (option_map abasic_of pre) i = false ->
  exists p, pre = Some p /\ strip p = strip i.
Proof.
  intros cf pre i Hok Hbc. unfold basic_changed in Hbc. apply orb_false_iff in Hbc as [Hcc Hnb].
  destruct pre as [p|]; [|discriminate]. cbn [option_map none_or] in Hnb.
  apply orb_false_iff in Hnb as [Hn Hb]. apply negb_false_iff in Hn, Hb.
  cbn [abasic_of ab_nonce ab_bal] in Hn, Hb. apply N.eqb_eq in Hn, Hb.
  exists p. split; [reflexivity|]. apply strip_eq; [assumption|assumption|].
  destruct (empty_code_hash i) eqn:Ei.
  - destruct (empty_code_hash p) eqn:Ep.
    + unfold empty_code_hash in *. apply N.eqb_eq in Ei, Ep. congruence.
    + destruct Hok as [_ H2]. destruct (H2 Ei p eq_refl Ep); congruence.
  - destruct (code_suppressed_same cf (Some p) i Hok Ei Hcc) as [p' [E [_ Hh]]]. now inversion E; subst.
Qed.

(* ------------------------------------------------------------------------- consistency plumbing *)

Lemma consistent_nth : forall cf bm effs st k e,
  consistent_from cf bm st effs -> nth_opt effs k = Some e -> tx_ok cf bm (apply_all st (firstn k effs)) e.
Proof.
  intros cf bm effs; induction effs as [|e0 r IH]; intros st k e Hc Hn; [destruct k; discriminate|].
  destruct Hc as [H0 Hr]. destruct k as [|k]; cbn [nth_opt] in Hn.
  - inversion Hn; subst. exact H0.
  - cbn [firstn]. unfold apply_all. cbn [fold_left]. apply IH; assumption.
Qed.

Lemma consistent_nodup : forall cf bm effs st, consistent_from cf bm st effs -> addrs_nodup effs.
Proof.
  intros cf bm effs; induction effs as [|e0 r IH]; intros st Hc; [constructor|].
  destruct Hc as [[H0 _] Hr]. constructor; [exact H0|eapply IH; eauto].
Qed.

Lemma tx_ok_acct : forall cf bm st e a acct,
  tx_ok cf bm st e -> find_acct a (te_changes e) = Some acct -> acct_ok cf bm st (te_snaps e) a acct.
Proof.
  intros cf bm st e a acct [_ H] Hf. apply find_acct_In in Hf. eapply Forall_forall in H; [|exact Hf]. exact H.
Qed.

Section Block.
  Variable cf : N -> N.             (* code is a function of its hash *)
  Variable bm : N -> bool.
  Variable b : base.
  Variable effs : list txeff.
  Hypothesis Hbase : base_ok cf b.
  Hypothesis Hcons : consistent_from cf bm (sstate_of b) effs.

  Let m := publish_all bm effs.
  Let S_ (t : nat) := apply_all (sstate_of b) (firstn t effs).

  Definition basic_inv (t : nat) (a : N) : Prop :=
    option_map strip (flat_info m b a t) = option_map strip (s_info (S_ t) a) /\
    (forall i, s_info (S_ t) a = Some i -> empty_code_hash i = false ->
       rc m b a t (i_hash i) = cf (i_hash i) /\ i_code (fill_from b i) = Some (cf (i_hash i))) /\
    (forall i, flat_info m b a t = Some i -> empty_code_hash i = false ->
       i_code i = None \/ i_code i = Some (cf (i_hash i))).

  Lemma basic_inv_all : forall t a, bm a = false -> basic_inv t a.
  Proof.
    intros t a Hb; induction t as [|t IH].
    - unfold basic_inv, flat_info, rc. subst m S_. cbn.
      split; [reflexivity|]. split.
      + intros i Hi Hne. destruct (Hbase a i Hi Hne) as [H1 H2]. split; [exact H1|].
        unfold fill_from. destruct H2 as [H2|H2]; rewrite H2, Hne; cbn; congruence.
      + intros i Hi Hne. now destruct (Hbase a i Hi Hne).
    - destruct IH as [IA [IB ID]]. unfold basic_inv, flat_info, rc in *. rewrite basic_hit_S, code_hit_S.
      subst m S_. cbn beta in *.
      destruct (nth_opt effs t) as [e|] eqn:En.
      2:{ rewrite !publish_all_beyond by assumption. rewrite (firstn_S_none _ _ En). auto. }
      pose proof (consistent_nth _ _ _ _ _ _ Hcons En) as Hok. pose proof (proj1 Hok) as Hn.
      rewrite (publish_all_at bm effs (LBasic a) t e En Hn), (publish_all_at bm effs (LCode a) t e En Hn).
      cbn [loc_addr]. rewrite (firstn_S_nth _ _ _ En), apply_all_snoc.
      destruct (apply_struct_spec (te_changes e) (apply_all (sstate_of b) (firstn t effs)) a Hn) as [Hs _].
      rewrite Hs. clear Hs.
      destruct (find_acct a (te_changes e)) as [acct|] eqn:Ef; [|auto].
      pose proof (tx_ok_acct _ _ _ _ _ _ Hok Ef Hb) as Hacct.
      rewrite account_writes_basic, account_writes_code. rewrite Hb. cbn [negb andb].
      set (st := apply_all (sstate_of b) (firstn t effs)) in *.
      assert (Hcase : forall i sl, (classify acct = Created i sl \/ classify acct = Updated i sl) ->
                te_snaps e a = option_map abasic_of (s_info st a) /\ info_ok cf (s_info st a) i).
      { intros i sl [E|E]; rewrite E in Hacct; exact Hacct. }
      assert (Hmain : forall i,
                te_snaps e a = option_map abasic_of (s_info st a) -> info_ok cf (s_info st a) i ->
                option_map strip
                  (match (match option_map (fun v => mkEntry (te_inc e) v (te_est e))
                                  (if basic_changed (te_snaps e a) i then Some (VBasic (Some (publish_info i))) else None) with
                          | Some e0 => match e_data e0 with VBasic r => Some (t, r) | _ => None end
                          | None => basic_hit (publish_all bm effs) a t
                          end) with
                   | Some (_, r) => r
                   | None => base_info b a
                   end) = Some (strip i) /\
                (forall i0, Some i = Some i0 -> empty_code_hash i0 = false ->
                   match (match option_map (fun v => mkEntry (te_inc e) v (te_est e))
                                  (if code_changed (te_snaps e a) i then option_map VCode (i_code i) else None) with
                          | Some e0 => match e_data e0 with VCode c => Some c | _ => None end
                          | None => code_hit (publish_all bm effs) a t
                          end) with
                   | Some c => c
                   | None => base_code b (i_hash i0)
                   end = cf (i_hash i0) /\ i_code (fill_from b i0) = Some (cf (i_hash i0))) /\
                (forall i0,
                   match (match option_map (fun v => mkEntry (te_inc e) v (te_est e))
                                  (if basic_changed (te_snaps e a) i then Some (VBasic (Some (publish_info i))) else None) with
                          | Some e0 => match e_data e0 with VBasic r => Some (t, r) | _ => None end
                          | None => basic_hit (publish_all bm effs) a t
                          end) with
                   | Some (_, r) => r
                   | None => base_info b a
                   end = Some i0 -> empty_code_hash i0 = false ->
                   i_code i0 = None \/ i_code i0 = Some (cf (i_hash i0)))).
      { intros i Hsn Hiok. rewrite Hsn. split; [|split].
        - destruct (basic_changed (option_map abasic_of (s_info st a)) i) eqn:Ebc; cbn [option_map e_data].
          + reflexivity.
          + destruct (basic_suppressed_same cf _ i Hiok Ebc) as [p [Ep Hst]]. rewrite IA, Ep. cbn [option_map]. now rewrite Hst.
        - intros i0 E Hne. inversion E; subst i0. clear E.
          assert (Hcode : i_code i = Some (cf (i_hash i))) by (apply (proj1 Hiok); exact Hne).
          split.
          + destruct (code_changed (option_map abasic_of (s_info st a)) i) eqn:Ecc; rewrite ?Hcode; cbn [option_map e_data].
            * reflexivity.
            * destruct (code_suppressed_same cf _ i Hiok Hne Ecc) as [p [Ep [Hpne Hh]]].
              destruct (IB p Ep Hpne) as [IB1 _]. rewrite <- Hh. exact IB1.
          + unfold fill_from. rewrite Hcode, Hne. cbn. exact Hcode.
        - destruct (basic_changed (option_map abasic_of (s_info st a)) i) eqn:Ebc; cbn [option_map e_data].
          + intros i0 E Hne0. inversion E; subst. left.
            unfold publish_info, empty_code_hash in Hne0. cbn [i_hash] in Hne0.
            unfold publish_info, empty_code_hash. cbn [i_code i_hash]. now rewrite Hne0.
          + exact ID. }
      destruct (classify acct) as [| |i sl|i sl] eqn:Ecl; cbn [eff_info option_map e_data].
      + auto.
      + (* Deleted *) split; [reflexivity|]. split; intros i E; discriminate.
      + destruct (Hcase i sl (or_introl eq_refl)) as [Hsn Hiok]. exact (Hmain i Hsn Hiok).
      + destruct (Hcase i sl (or_intror eq_refl)) as [Hsn Hiok]. exact (Hmain i Hsn Hiok).
  Qed.

  Lemma norm_fill_eq : forall (c : N -> N) i' i,
    strip i' = strip i ->
    (empty_code_hash i = false -> i_code (fill_with c i') = i_code (fill_from b i)) ->
    norm (fill_with c i') = norm (fill_from b i).
  Proof.
    intros c [b1 n1 h1 c1] [b2 n2 h2 c2] Hs Hc. unfold strip in Hs. cbn in Hs. inversion Hs; subst. clear Hs.
    unfold empty_code_hash in Hc. cbn [i_hash] in Hc.
    destruct (N.eqb h2 keccak_empty) eqn:E.
    - destruct c1, c2; unfold norm, fill_with, fill_from, needs_code, empty_code_hash, with_code, strip;
        cbn; rewrite ?E; cbn; rewrite ?E; reflexivity.
    - specialize (Hc eq_refl). revert Hc.
      destruct c1, c2; unfold norm, fill_with, fill_from, needs_code, empty_code_hash, with_code, strip;
        cbn; rewrite ?E; cbn; rewrite ?E; intros Hc; inversion Hc; subst; reflexivity.
  Qed.

  (* C09 *)
  Theorem basic_code_refines_struct_ : forall br t a, bm a = false ->
    exists r, ac_val (rd_basic m (backing_of b) bm br t a) = Ok r /\
              option_map norm r = option_map norm (struct_basic b (S_ t) a).
  Proof.
    intros br t a Hb. rewrite (rd_basic_val m b bm br t a Hb). eexists; split; [reflexivity|].
    destruct (basic_inv_all t a Hb) as [IA [IB ID]]. unfold struct_basic.
    destruct (flat_info m b a t) as [i'|] eqn:Ef; destruct (s_info (S_ t) a) as [i|] eqn:Es; cbn [option_map] in *; try discriminate; [|reflexivity].
    assert (Hst : strip i' = strip i) by congruence.
    assert (Hh : i_hash i' = i_hash i) by (unfold strip in Hst; now inversion Hst).
    f_equal. apply norm_fill_eq; [exact Hst|].
    intros Hne. destruct (IB i eq_refl Hne) as [B1 B2]. rewrite B2.
    assert (Hne' : empty_code_hash i' = false) by (unfold empty_code_hash in *; congruence).
    unfold fill_with, needs_code. rewrite Hne'. cbn [negb andb].
    destruct (ID i' eq_refl Hne') as [D|D]; rewrite D; cbn [with_code i_code]; congruence.
  Qed.
End Block.
