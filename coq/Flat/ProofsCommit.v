(* Flat group: account reads through a backing store that already holds a committed prefix of the block
   (ordered commit, parallel_state.rs:296-359) return the same in-order account. No axioms. *)
From Grevm Require Import Base.Util Flat.Model Flat.ProofsBase Flat.ProofsStorage Flat.ProofsBasic Flat.ProofsRead.

Lemma publish_all_kinded : forall bm effs, kinded (publish_all bm effs).
Proof.
  intros bm effs l k e H. rewrite publish_all_spec in H. destruct (nth_opt effs k) as [x|]; [|discriminate].
  destruct (assoc_last l (tx_writes bm x)) as [v|] eqn:Ea; [|discriminate].
  inversion H; subst. cbn [e_data]. apply assoc_last_In in Ea. eapply writes_kinded; eauto.
Qed.

Lemma basic_hit_none_mono : forall m a t c, kinded m -> basic_hit m a t = None -> c <= t -> basic_hit m a c = None.
Proof.
  intros m a t c K H Hc. induction Hc as [|t' Hc IH]; [assumption|]. apply IH.
  rewrite basic_hit_S in H. destruct (m (LBasic a) t') as [e|] eqn:E; [|assumption].
  apply K in E. cbn [kind_ok] in E. destruct (e_data e); discriminate.
Qed.

Theorem basic_committed_prefix : forall cf bm b effs,
  base_ok cf b -> consistent_from cf bm (sstate_of b) effs ->
  forall (br : nat -> benres) c t a, c <= t -> bm a = false ->
  exists r, ac_val (rd_basic (publish_all bm effs) (backing_of (committed_base b effs c)) bm br t a) = Ok r /\
            option_map norm r = option_map norm (struct_basic b (apply_all (sstate_of b) (firstn t effs)) a).
Proof.
  intros cf bm b effs Hbase Hcons br c t a Hc Hb.
  set (m := publish_all bm effs). set (b' := committed_base b effs c).
  rewrite (rd_basic_val m b' bm br t a Hb). eexists; split; [reflexivity|].
  assert (Hrc : forall h, rc m b' a t h = rc m b a t h) by reflexivity.
  destruct (basic_hit m a t) as [[k r]|] eqn:Eh.
  - (* an in-block Basic version decides: the store is not consulted for the account fields *)
    destruct (basic_code_refines_struct_ cf bm b effs Hbase Hcons br t a Hb) as [r0 [R1 R2]].
    change (publish_all bm effs) with m in R1. rewrite (rd_basic_val m b bm br t a Hb) in R1. inversion R1 as [R1']. rewrite <- R2, <- R1'.
    unfold flat_info. fold m. rewrite Eh. reflexivity.
  - pose proof (basic_hit_none_mono m a t c (publish_all_kinded bm effs) Eh Hc) as Ehc.
    destruct (basic_inv_all cf bm b effs Hbase Hcons t a Hb) as [At [Bt _]].
    destruct (basic_inv_all cf bm b effs Hbase Hcons c a Hb) as [Ac [Bc _]].
    unfold flat_info in At, Ac. fold m in At, Ac. rewrite Eh in At. rewrite Ehc in Ac.
    unfold flat_info. rewrite Eh. subst b'. cbn [committed_base base_info]. unfold struct_basic.
    destruct (s_info (apply_all (sstate_of b) (firstn c effs)) a) as [ic|] eqn:Ec;
      destruct (s_info (apply_all (sstate_of b) (firstn t effs)) a) as [it|] eqn:Et;
      destruct (base_info b a) as [ib|]; cbn [option_map] in *; try discriminate; try reflexivity.
    assert (Hst : strip ic = strip it) by congruence.
    assert (Hh : i_hash ic = i_hash it) by (unfold strip in Hst; now inversion Hst).
    f_equal. apply norm_fill_eq; [exact Hst|]. intros Hne.
    destruct (Bt it eq_refl Hne) as [B1 B2]. rewrite B2.
    assert (Hne' : empty_code_hash ic = false) by (unfold empty_code_hash in *; congruence).
    destruct (Bc ic eq_refl Hne') as [C1 C2].
    unfold fill_with, needs_code. rewrite Hne'. cbn [negb andb].
    destruct (i_code ic) as [x|] eqn:Ex; cbn [with_code i_code].
    + unfold fill_from in C2. rewrite Ex, Hne' in C2. cbn in C2. rewrite Ex in C2. congruence.
    + rewrite Hrc, Hh. subst m. now rewrite B1.
Qed.
