(* Flat group: the read set of an access determines its value (so version validation, C01, detects every
   change, racing writers included), and suppressed publications are sound. No axioms. *)
From Grevm Require Import Base.Util Flat.Model Flat.ProofsBase Flat.ProofsStorage Flat.ProofsBasic.

(* a location only ever holds values of its own kind (publish_writes guarantees it, see [publish_kinded]) *)
Definition kind_ok (l : loc) (v : mvalue) : bool :=
  match l, v with
  | LBasic _, VBasic _ | LStorage _ _, VStorage _ | LReset _, VReset | LCode _, VCode _ => true
  | _, _ => false
  end.
Definition kinded (m : mvmem) : Prop := forall l k e, m l k = Some e -> kind_ok l (e_data e) = true.

(* one (txid, incarnation) publishes one value per location *)
Definition version_determines (m m' : mvmem) : Prop :=
  forall l k e e', m l k = Some e -> m' l k = Some e' -> e_inc e = e_inc e' -> e_data e = e_data e'.

Lemma writes_kinded : forall bm sn ch l v, In (l, v) (writes_of bm sn ch) -> kind_ok l v = true.
Proof.
  unfold writes_of. intros bm sn ch l v H. apply in_flat_map in H as [[a acct] [_ H]]. cbn [fst snd] in H.
  unfold writes_of_account in H.
  assert (Hi : forall i, In (l, v) (info_writes bm (sn a) a i) -> kind_ok l v = true).
  { unfold info_writes. intros i Hi. apply in_app_iff in Hi as [Hi|Hi].
    - destruct (code_changed (sn a) i); [|contradiction]. destruct (i_code i); [|contradiction].
      destruct Hi as [Hi|[]]. now inversion Hi.
    - destruct (negb (bm a) && basic_changed (sn a) i); [|contradiction]. destruct Hi as [Hi|[]]. now inversion Hi. }
  assert (Hs : forall sl, In (l, v) (slot_writes a sl) -> kind_ok l v = true).
  { unfold slot_writes. intros sl Hs. apply in_map_iff in Hs as [x [Hs _]]. now inversion Hs. }
  destruct (classify acct).
  - contradiction.
  - apply in_app_iff in H as [H|H].
    + destruct (bm a); [contradiction|]. destruct H as [H|[]]. now inversion H.
    + destruct H as [H|[]]. now inversion H.
  - apply in_app_iff in H as [H|H]; [destruct H as [H|[]]; now inversion H|].
    apply in_app_iff in H as [H|H]; eauto.
  - apply in_app_iff in H as [H|H]; eauto.
Qed.

Theorem publish_kinded : forall m k inc est bm sn ch,
  kinded m -> kinded (fst (publish_writes m k inc est bm sn ch)).
Proof.
  unfold kinded, publish_writes. cbn [fst]. intros m k inc est bm sn ch Hm l k' e He.
  rewrite publish_list_spec in He. destruct (Nat.eqb k' k); [|eauto].
  destruct (assoc_last l (writes_of bm sn ch)) as [v|] eqn:Ea; [|eauto].
  inversion He; subst. cbn [e_data]. apply assoc_last_In in Ea. eapply writes_kinded; eauto.
Qed.

(* --- resolve vs the kind-filtered hits, in a kinded memory *)

Lemma resolve_some : forall m l t k inc,
  resolve m l t = RMv k inc -> exists e, mv_read m l t = Some (k, e) /\ e_inc e = inc /\ m l k = Some e.
Proof.
  unfold resolve. intros m l t k inc H. destruct (mv_read m l t) as [[k' e]|] eqn:E; [|discriminate].
  inversion H; subst. exists e. repeat split. unfold mv_read in E. now apply latest_before_lt in E.
Qed.

Lemma resolve_none : forall m l t, resolve m l t = RStorage -> mv_read m l t = None.
Proof. unfold resolve. intros m l t H. now destruct (mv_read m l t) as [[k e]|]. Qed.

Lemma mv_read_entry : forall m l t k e, mv_read m l t = Some (k, e) -> m l k = Some e.
Proof. unfold mv_read. intros. now apply latest_before_lt in H. Qed.

(* C08 part: storage.  [mr] / [ms] are the memories the two lookups of the (possibly racing) reader
   saw, [m'] is the memory at validation time *)
Theorem readset_determines_storage : forall mr ms m' bk t a s,
  kinded mr -> kinded ms -> kinded m' -> version_determines mr m' -> version_determines ms m' ->
  (forall l v, In (l, v) (ac_reads (rd_storage2 mr ms bk t a s)) -> resolve m' l t = v) ->
  ac_val (rd_storage m' bk t a s) = ac_val (rd_storage2 mr ms bk t a s).
Proof.
  intros mr ms m' bk t a s Kr Ks K' Vr Vs H.
  assert (Hr : match mv_read m' (LReset a) t with
               | Some (k, e) => match e_data e with VReset => Some (k, e) | _ => None end | None => None end = None /\
               match mv_read mr (LReset a) t with
               | Some (k, e) => match e_data e with VReset => Some (k, e) | _ => None end | None => None end = None
               \/ exists k e e', mv_read m' (LReset a) t = Some (k, e') /\ mv_read mr (LReset a) t = Some (k, e) /\
                                 e_data e = VReset /\ e_data e' = VReset).
  { specialize (H (LReset a)). unfold rd_storage2 in H. cbn [ac_reads] in H.
    destruct (mv_read mr (LReset a) t) as [[k e]|] eqn:Er.
    - pose proof (Kr _ _ _ (mv_read_entry _ _ _ _ _ Er)) as Kk. cbn [kind_ok] in Kk.
      destruct (e_data e) eqn:Ed; try discriminate.
      specialize (H _ (or_introl eq_refl)). apply resolve_some in H as [e' [R1 [R2 R3]]].
      right. exists k, e, e'. repeat split; try assumption.
      rewrite <- Ed. symmetry. eapply Vr; eauto. eapply mv_read_entry; eauto.
    - specialize (H _ (or_introl eq_refl)). apply resolve_none in H. rewrite H. now left. }
  assert (Hw : match mv_read m' (LStorage a s) t with
               | Some (k, e) => match e_data e with VStorage v => Some (k, e, v) | _ => None end | None => None end = None /\
               match mv_read ms (LStorage a s) t with
               | Some (k, e) => match e_data e with VStorage v => Some (k, e, v) | _ => None end | None => None end = None
               \/ exists k e e' v, mv_read m' (LStorage a s) t = Some (k, e') /\ mv_read ms (LStorage a s) t = Some (k, e) /\
                                   e_data e = VStorage v /\ e_data e' = VStorage v).
  { specialize (H (LStorage a s)). unfold rd_storage2 in H. cbn [ac_reads] in H.
    destruct (mv_read ms (LStorage a s) t) as [[k e]|] eqn:Es.
    - pose proof (Ks _ _ _ (mv_read_entry _ _ _ _ _ Es)) as Kk. cbn [kind_ok] in Kk.
      destruct (e_data e) eqn:Ed; try discriminate.
      specialize (H _ (or_intror (or_introl eq_refl))). apply resolve_some in H as [e' [R1 [R2 R3]]].
      right. exists k, e, e', v. repeat split; try assumption.
      rewrite <- Ed. symmetry. eapply Vs; eauto. eapply mv_read_entry; eauto.
    - specialize (H _ (or_intror (or_introl eq_refl))). apply resolve_none in H. rewrite H. now left. }
  unfold rd_storage, rd_storage2. cbn [ac_val].
  destruct Hr as [[Hr1 Hr2]|[rk [re [re' [Hr1 [Hr2 [Hr3 Hr4]]]]]]];
  destruct Hw as [[Hw1 Hw2]|[wk [we [we' [wv [Hw1 [Hw2 [Hw3 Hw4]]]]]]]].
  - now rewrite Hr1, Hr2, Hw1, Hw2.
  - rewrite Hr1, Hr2, Hw1, Hw2, Hw3, Hw4. reflexivity.
  - rewrite Hw1, Hw2, Hr1, Hr2, Hr3, Hr4. reflexivity.
  - rewrite Hr1, Hr2, Hr3, Hr4, Hw1, Hw2, Hw3, Hw4. reflexivity.
Qed.

(* C09 part: account + code.  [mb] / [mc] are the memories seen by the Basic and by the (later) Code
   lookup: a re-pointing writer may publish in between *)
Theorem readset_determines_basic : forall mb mc m' bk bm br t a r,
  bm a = false ->
  kinded mb -> kinded mc -> kinded m' -> version_determines mb m' -> version_determines mc m' ->
  ac_val (rd_basic2 mb mc bk bm br t a) = Ok r ->
  (forall l v, In (l, v) (ac_reads (rd_basic2 mb mc bk bm br t a)) -> resolve m' l t = v) ->
  ac_val (rd_basic m' bk bm br t a) = Ok r.
Proof.
  intros mb mc m' bk bm br t a r Hb Kb Kc K' Vb Vc Hval H.
  unfold rd_basic, rd_basic2 in *. rewrite Hb in *.
  (* the Code lookup: same value whenever it is performed *)
  assert (Hcode : forall reads blk bben snap rds0 blk0 i0,
            ac_val (fill_code mc bk t a (Some i0) reads blk bben snap) = Ok r ->
            (forall l v, In (l, v) (ac_reads (fill_code mc bk t a (Some i0) reads blk bben snap)) -> resolve m' l t = v) ->
            ac_val (fill_code m' bk t a (Some i0) rds0 blk0 bben snap) = Ok r).
  { intros reads blk bben snap rds0 blk0 i0 Hv Hr. unfold fill_code in *.
    destruct (negb (empty_code_hash i0) && match i_code i0 with None => true | Some _ => false end); [|exact Hv].
    assert (Hc : ac_val (rd_code m' bk t a (i_hash i0)) = ac_val (rd_code mc bk t a (i_hash i0))).
    { unfold rd_code in *.
      destruct (mv_read mc (LCode a) t) as [[k e]|] eqn:Ec.
      - pose proof (Kc _ _ _ (mv_read_entry _ _ _ _ _ Ec)) as Kk. cbn [kind_ok] in Kk.
        destruct (e_data e) eqn:Ed; try discriminate.
        cbn [ac_val ac_reads] in Hr.
        assert (Hres : resolve m' (LCode a) t = RMv k (e_inc e)).
        { apply Hr. cbn [ac_val] in *. apply in_or_app. right. now left. }
        apply resolve_some in Hres as [e' [R1 [R2 R3]]]. rewrite R1.
        assert (Ed' : e_data e' = VCode c).
        { rewrite <- Ed. symmetry. eapply Vc; eauto. eapply mv_read_entry; eauto. }
        rewrite Ed'. reflexivity.
      - destruct (b_code bk (i_hash i0)) eqn:Eb; rewrite ?Eb in Hr, Hv; cbn [ac_val ac_reads] in Hr, Hv.
        + assert (Hres : resolve m' (LCode a) t = RStorage).
          { apply Hr. apply in_or_app. right. now left. }
          apply resolve_none in Hres. rewrite Hres. reflexivity.
        + discriminate. }
    rewrite Hc. destruct (ac_val (rd_code mc bk t a (i_hash i0))); [exact Hv|discriminate]. }
  assert (Hnone : forall m0 reads blk bben snap, ac_val (fill_code m0 bk t a None reads blk bben snap) = Ok None) by reflexivity.
  destruct (mv_read mb (LBasic a) t) as [[k e]|] eqn:Eb.
  - pose proof (Kb _ _ _ (mv_read_entry _ _ _ _ _ Eb)) as Kk. cbn [kind_ok] in Kk.
    destruct (e_data e) as [ri| | |] eqn:Ed; try discriminate.
    assert (Hres : resolve m' (LBasic a) t = RMv k (e_inc e)).
    { apply H. destruct ri as [i0|]; unfold fill_code; cbn [ac_reads].
      - destruct (negb (empty_code_hash i0) && match i_code i0 with None => true | Some _ => false end).
        + destruct (ac_val (rd_code mc bk t a (i_hash i0))); cbn [ac_reads]; apply in_or_app; left; now left.
        + now left.
      - now left. }
    apply resolve_some in Hres as [e' [R1 [R2 R3]]]. rewrite R1.
    assert (Ed' : e_data e' = VBasic ri).
    { rewrite <- Ed. symmetry. eapply Vb; eauto. eapply mv_read_entry; eauto. }
    rewrite Ed'. destruct ri as [i0|].
    + eapply Hcode; eauto.
    + rewrite Hnone in *. exact Hval.
  - destruct (b_basic bk a) as [ri|] eqn:Ebk; [|discriminate].
    assert (Hres : resolve m' (LBasic a) t = RStorage).
    { apply H. destruct ri as [i0|]; unfold fill_code; cbn [ac_reads].
      - destruct (negb (empty_code_hash i0) && match i_code i0 with None => true | Some _ => false end).
        + destruct (ac_val (rd_code mc bk t a (i_hash i0))); cbn [ac_reads]; apply in_or_app; left; now left.
        + now left.
      - now left. }
    apply resolve_none in Hres. rewrite Hres. destruct ri as [i0|].
    + eapply Hcode; eauto.
    + rewrite Hnone in *. exact Hval.
Qed.

(* ---------------------------------------------------------------------- publish_minimal_sound *)

(* a Basic / Code write is only left out when the value in-order readers would get is unchanged *)
Theorem publish_minimal_sound_ : forall cf bm sn a acct i sl pre,
  (classify acct = Created i sl \/ classify acct = Updated i sl) ->
  bm a = false -> sn a = option_map abasic_of pre -> info_ok cf pre i ->
  (assoc_last (LBasic a) (writes_of_account bm sn a acct) = None ->
     exists p, pre = Some p /\ strip p = strip i) /\
  (assoc_last (LCode a) (writes_of_account bm sn a acct) = None -> empty_code_hash i = false ->
     exists p, pre = Some p /\ empty_code_hash p = false /\ i_hash p = i_hash i).
Proof.
  intros cf bm sn a acct i sl pre Hcl Hb Hsn Hok. rewrite account_writes_basic, account_writes_code.
  assert (E : match classify acct with
              | Created i0 _ | Updated i0 _ => i0 = i
              | _ => False end) by (destruct Hcl as [-> | ->]; reflexivity).
  destruct (classify acct) as [| |i0 sl0|i0 sl0]; try contradiction; subst i0; rewrite Hb, Hsn; cbn [negb andb].
  all: split.
  all: try (intros H; destruct (basic_changed (option_map abasic_of pre) i) eqn:Ebc; [discriminate|];
            eapply basic_suppressed_same; eauto).
  all: intros H Hne; destruct (code_changed (option_map abasic_of pre) i) eqn:Ecc;
       [rewrite (proj1 Hok Hne) in H; discriminate|eapply code_suppressed_same; eauto].
Qed.

(* the nonce-bump hypothesis of [info_ok] is needed: a post-state that loses its code with the balance and
   nonce it was read with is classified Updated and publishes nothing, so a later reader keeps the old hash *)
Definition pm_pre : info := mkInfo 5 1 0x1111 (Some 7%N).
Definition pm_post : info := mkInfo 5 1 keccak_empty None.
Definition pm_acct : account := mkAcct true false false pm_post [].
Theorem publish_minimal_needs_nonce_bump :
  classify pm_acct = Updated pm_post [] /\
  writes_of_account (fun _ => false) (fun _ => Some (abasic_of pm_pre)) 1%N pm_acct = [] /\
  strip pm_pre <> strip pm_post.
Proof. split; [vm_compute; reflexivity|]. split; [vm_compute; reflexivity|]. vm_compute. discriminate. Qed.
