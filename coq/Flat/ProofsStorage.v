(* Flat group, C08: the flat storage read (reset marker + slot versions + backing store) equals the
   structured in-order storage, for every block of finalised states. No axioms. *)
From Grevm Require Import Base.Util Flat.Model Flat.ProofsBase.

(* every transaction's finalised state has one entry per address (it is a HashMap in the code) *)
Definition addrs_nodup (effs : list txeff) : Prop :=
  Forall (fun e => NoDup (map fst (te_changes e))) effs.

Lemma addrs_nodup_nth : forall effs k e, addrs_nodup effs -> nth_opt effs k = Some e -> NoDup (map fst (te_changes e)).
Proof. intros effs k e H Hn. eapply Forall_forall in H; [exact H|]. eapply nth_opt_In; eauto. Qed.

(* the value Database::storage computes from the two lookups (lines 347-355) *)
Definition stor_val (r : option nat) (w : option (nat * N)) (basev : N) : N :=
  match w with
  | Some (wk, v) => match r with
                    | None => v
                    | Some rk => if Nat.leb rk wk then v else 0%N
                    end
  | None => match r with Some _ => 0%N | None => basev end
  end.

(* newest reset marker / slot version below t, in a published block *)
Definition reset_hit (m : mvmem) (a : N) (t : nat) : option nat :=
  match mv_read m (LReset a) t with
  | Some (k, e) => match e_data e with VReset => Some k | _ => None end
  | None => None
  end.
Definition slot_hit (m : mvmem) (a s : N) (t : nat) : option (nat * N) :=
  match mv_read m (LStorage a s) t with
  | Some (k, e) => match e_data e with VStorage v => Some (k, v) | _ => None end
  | None => None
  end.

Lemma rd_storage_val : forall m b t a s,
  ac_val (rd_storage m (backing_of b) t a s) = Ok (stor_val (reset_hit m a t) (slot_hit m a s t) (base_stor b a s)).
Proof.
  intros. unfold rd_storage, rd_storage2, reset_hit, slot_hit, stor_val. cbn [ac_val backing_of b_storage].
  destruct (mv_read m (LReset a) t) as [[rk re]|]; destruct (mv_read m (LStorage a s) t) as [[wk we]|];
    try destruct (e_data re); try destruct (e_data we); try reflexivity;
    try (destruct (Nat.leb rk wk); reflexivity).
Qed.

Lemma reset_hit_lt : forall m a t k, reset_hit m a t = Some k -> k < t.
Proof.
  unfold reset_hit, mv_read. intros m a t k H. destruct (latest_before _ t) as [[k' e]|] eqn:E; [|discriminate].
  apply latest_before_lt in E as [E _]. destruct (e_data e); try discriminate. now inversion H; subst.
Qed.

Lemma slot_hit_lt : forall m a s t k v, slot_hit m a s t = Some (k, v) -> k < t.
Proof.
  unfold slot_hit, mv_read. intros m a s t k v H. destruct (latest_before _ t) as [[k' e]|] eqn:E; [|discriminate].
  apply latest_before_lt in E as [E _]. destruct (e_data e); try discriminate. now inversion H; subst.
Qed.

Lemma reset_hit_S : forall m a t,
  reset_hit m a (S t) =
  match m (LReset a) t with
  | Some e => match e_data e with VReset => Some t | _ => None end
  | None => reset_hit m a t
  end.
Proof. intros. unfold reset_hit, mv_read. rewrite latest_before_S. now destruct (m (LReset a) t). Qed.

Lemma slot_hit_S : forall m a s t,
  slot_hit m a s (S t) =
  match m (LStorage a s) t with
  | Some e => match e_data e with VStorage v => Some (t, v) | _ => None end
  | None => slot_hit m a s t
  end.
Proof. intros. unfold slot_hit, mv_read. rewrite latest_before_S. now destruct (m (LStorage a s) t). Qed.

Section Block.
  Variable bm : N -> bool.          (* Beneficiary::matches *)
  Variable b : base.                (* block-start backing store *)
  Variable effs : list txeff.
  Hypothesis Hnd : addrs_nodup effs.

  Let m := publish_all bm effs.
  Let S_ (t : nat) := apply_all (sstate_of b) (firstn t effs).

  Lemma storage_inv : forall t a s,
    stor_val (reset_hit m a t) (slot_hit m a s t) (base_stor b a s) = s_stor (S_ t) a s.
  Proof.
    intros t a s; induction t as [|t IH].
    - reflexivity.
    - rewrite reset_hit_S, slot_hit_S. subst m S_. cbn beta.
      destruct (nth_opt effs t) as [e|] eqn:En.
      + pose proof (addrs_nodup_nth _ _ _ Hnd En) as Hn.
        rewrite (publish_all_at bm effs (LReset a) t e En Hn).
        rewrite (publish_all_at bm effs (LStorage a s) t e En Hn). cbn [loc_addr].
        rewrite (firstn_S_nth _ _ _ En), apply_all_snoc.
        destruct (apply_struct_spec (te_changes e) (apply_all (sstate_of b) (firstn t effs)) a Hn) as [_ Hs].
        rewrite Hs. clear Hs.
        destruct (find_acct a (te_changes e)) as [acct|]; [|exact IH].
        rewrite account_writes_reset, account_writes_storage.
        destruct (classify acct) as [| |i sl|i sl]; cbn [option_map eff_stor e_data].
        * exact IH.
        * (* Deleted: the marker is newer than every slot version *)
          destruct (slot_hit (publish_all bm effs) a s t) as [[wk v]|] eqn:Ew; cbn [stor_val]; [|reflexivity].
          apply slot_hit_lt in Ew. destruct (Nat.leb_spec t wk); [lia|reflexivity].
        * (* Created: own writes win the tie, everything else is zero *)
          rewrite write_slots_spec. destruct (assoc_lastN s sl) as [v|]; cbn [option_map e_data stor_val].
          -- now rewrite Nat.leb_refl.
          -- destruct (slot_hit (publish_all bm effs) a s t) as [[wk v]|] eqn:Ew; cbn [stor_val]; [|reflexivity].
             apply slot_hit_lt in Ew. destruct (Nat.leb_spec t wk); [lia|reflexivity].
        * (* Updated: no marker; a written slot is newer than any older marker *)
          rewrite write_slots_spec. destruct (assoc_lastN s sl) as [v|]; cbn [option_map e_data stor_val].
          -- destruct (reset_hit (publish_all bm effs) a t) as [rk|] eqn:Er; [|reflexivity].
             apply reset_hit_lt in Er. destruct (Nat.leb_spec rk t); [reflexivity|lia].
          -- exact IH.
      + rewrite !publish_all_beyond by assumption. rewrite (firstn_S_none _ _ En). exact IH.
  Qed.

  (* C08 *)
  Theorem flat_refines_struct_storage : forall t a s,
    ac_val (rd_storage m (backing_of b) t a s) = Ok (s_stor (S_ t) a s).
  Proof. intros. rewrite rd_storage_val. f_equal. apply storage_inv. Qed.


  (* Ordered commit moves a prefix of the block into the backing store (parallel_state.rs:296-359
     applies the same classification: storage removed on destroy / create / empty-touch, changed slots
     written).  Reading through a store that already holds the first c <= t transactions gives the
     same value: a marker or slot version below t decides alone, and without one nothing below t
     (hence below c) touched the slot. *)
  Lemma reset_hit_none_mono : forall a t c, reset_hit m a t = None -> c <= t -> reset_hit m a c = None.
  Proof.
    intros a t c H Hc. induction Hc as [|t' Hc IH]; [assumption|]. apply IH.
    rewrite reset_hit_S in H. destruct (m (LReset a) t') as [e|] eqn:E; [|assumption].
    exfalso. subst m. rewrite publish_all_spec in E. destruct (nth_opt effs t') as [x|]; [|discriminate].
    destruct (assoc_last (LReset a) (tx_writes bm x)) as [v|] eqn:Ea; [|discriminate].
    inversion E; subst e. cbn [e_data] in H. apply assoc_last_In in Ea.
    unfold tx_writes, writes_of in Ea. apply in_flat_map in Ea as [[a' acct] [_ Ea]]. cbn [fst snd] in Ea.
    assert (Hv : v = VReset).
    { unfold writes_of_account in Ea. destruct (classify acct).
      - contradiction.
      - apply in_app_iff in Ea as [Ea|Ea]; [destruct (bm a'); [contradiction|]; destruct Ea as [Ea|[]]; inversion Ea|].
        destruct Ea as [Ea|[]]. now inversion Ea.
      - apply in_app_iff in Ea as [Ea|Ea]; [destruct Ea as [Ea|[]]; now inversion Ea|].
        apply in_app_iff in Ea as [Ea|Ea].
        + unfold info_writes in Ea. apply in_app_iff in Ea as [Ea|Ea].
          * destruct (code_changed _ _); [|contradiction]. destruct (i_code i); [|contradiction]. destruct Ea as [Ea|[]]; inversion Ea.
          * destruct (negb (bm a') && _); [|contradiction]. destruct Ea as [Ea|[]]; inversion Ea.
        + unfold slot_writes in Ea. apply in_map_iff in Ea as [y [Ea _]]. inversion Ea.
      - apply in_app_iff in Ea as [Ea|Ea].
        + unfold info_writes in Ea. apply in_app_iff in Ea as [Ea|Ea].
          * destruct (code_changed _ _); [|contradiction]. destruct (i_code i); [|contradiction]. destruct Ea as [Ea|[]]; inversion Ea.
          * destruct (negb (bm a') && _); [|contradiction]. destruct Ea as [Ea|[]]; inversion Ea.
        + unfold slot_writes in Ea. apply in_map_iff in Ea as [y [Ea _]]. inversion Ea. }
    subst v. discriminate.
  Qed.

  Lemma slot_hit_none_mono : forall a s t c, slot_hit m a s t = None -> c <= t -> slot_hit m a s c = None.
  Proof.
    intros a s t c H Hc. induction Hc as [|t' Hc IH]; [assumption|]. apply IH.
    rewrite slot_hit_S in H. destruct (m (LStorage a s) t') as [e|] eqn:E; [|assumption].
    exfalso. subst m. rewrite publish_all_spec in E. destruct (nth_opt effs t') as [x|]; [|discriminate].
    destruct (assoc_last (LStorage a s) (tx_writes bm x)) as [v|] eqn:Ea; [|discriminate].
    inversion E; subst e. cbn [e_data] in H. apply assoc_last_In in Ea.
    unfold tx_writes, writes_of in Ea. apply in_flat_map in Ea as [[a' acct] [_ Ea]]. cbn [fst snd] in Ea.
    assert (Hv : exists w, v = VStorage w).
    { assert (Hi : forall sn i, In (LStorage a s, v) (info_writes bm sn a' i) -> exists w, v = VStorage w).
      { intros sn i Hi. unfold info_writes in Hi. apply in_app_iff in Hi as [Hi|Hi].
        - destruct (code_changed _ _); [|contradiction]. destruct (i_code i); [|contradiction]. destruct Hi as [Hi|[]]; inversion Hi.
        - destruct (negb (bm a') && _); [|contradiction]. destruct Hi as [Hi|[]]; inversion Hi. }
      assert (Hs : forall sl, In (LStorage a s, v) (slot_writes a' sl) -> exists w, v = VStorage w).
      { intros sl Hs. unfold slot_writes in Hs. apply in_map_iff in Hs as [y [Hs _]]. inversion Hs. eauto. }
      unfold writes_of_account in Ea. destruct (classify acct).
      - contradiction.
      - apply in_app_iff in Ea as [Ea|Ea]; [destruct (bm a'); [contradiction|]; destruct Ea as [Ea|[]]; inversion Ea|].
        destruct Ea as [Ea|[]]. inversion Ea.
      - apply in_app_iff in Ea as [Ea|Ea]; [destruct Ea as [Ea|[]]; inversion Ea|].
        apply in_app_iff in Ea as [Ea|Ea]; eauto.
      - apply in_app_iff in Ea as [Ea|Ea]; eauto. }
    destruct Hv as [w ->]. discriminate.
  Qed.

  Definition committed_base (c : nat) : base :=
    mkBase (s_info (S_ c)) (base_code b) (s_stor (S_ c)).

  Theorem storage_committed_prefix : forall c t a s, c <= t ->
    ac_val (rd_storage m (backing_of (committed_base c)) t a s) = Ok (s_stor (S_ t) a s).
  Proof.
    intros c t a s Hc. rewrite rd_storage_val. f_equal. rewrite <- storage_inv. cbn [committed_base base_stor].
    destruct (reset_hit m a t) as [rk|] eqn:Er; destruct (slot_hit m a s t) as [[wk v]|] eqn:Ew; cbn [stor_val]; try reflexivity.
    rewrite <- (storage_inv c a s).
    now rewrite (reset_hit_none_mono a t c Er Hc), (slot_hit_none_mono a s t c Ew Hc).
  Qed.
End Block.
