From Grevm Require Import Base.Util Frontier.Model.
Require Extraction. Require ExtrOcamlBasic.
Extraction Language OCaml.
Extraction "extract/frontier.ml" finit fstep frun frun_diag fcur lowest_unset.
