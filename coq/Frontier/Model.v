(* Frontier/Model.v - src/scheduler/context.rs ExecutionFrontier (publish / advance / current), one
   atomic step per atomic operation, in source order (definitions only).

   flags  : executed[i], set once (store true, Release), never cleared
   fhist  : modification order of `frontier` (oldest first); modified only by fetch_max
   A load of the frontier may return any value of [fhist] not older than what the thread has seen
   ([view]); a load of a flag may return false although the flag is set (stale), never true for an
   unset flag.  "fresh" in an event records that the load returned the newest value. *)
From Grevm Require Import Base.Util.

Inductive fpc :=
| FIdle
| FPub1 (i : nat)                       (* publish(i): loaded the frontier, i >= it, about to store the flag *)
| FPub2 (i : nat)                       (* flag stored, about to reload the frontier                          *)
| FAdv (ret : bool) (lo start e : nat)  (* advance(start): flags [start, e) seen set; ret: called by current() *)
| FAdvMax (ret : bool) (lo start e : nat) (* scan stopped at e > start: about to fetch_max(e)                *)
| FCur (lo f : nat)                     (* current(): loaded f, about to look at flag f                      *)
| FCurRet (lo : nat).                   (* current(): about to do the final load                             *)

Record fstate := {
  fn : nat;
  flags : nat -> bool;
  fhist : list nat;
  fview : nat -> nat;
  fpcs : nat -> fpc;
  returned : list (nat * nat * nat);     (* ghost: (thread, lo, value returned) by current() calls whose last frontier load was
                                            fresh; lo = the first index with an unset flag when the call started, or 0 if one of
                                            the call's flag loads was stale *)
}.

Definition finit (n : nat) : fstate :=
  {| fn := n; flags := fun _ => false; fhist := [0]; fview := fun _ => 0; fpcs := fun _ => FIdle; returned := [] |}.

Definition fcur (s : fstate) : nat := last (fhist s) 0.

(* the first index whose flag is not set (bounded by n) *)
Fixpoint first_unset (flags : nat -> bool) (n k : nat) : nat :=
  match n with
  | O => k
  | S n' => if flags k then first_unset flags n' (S k) else k
  end.
Definition lowest_unset (s : fstate) : nat := first_unset (flags s) (fn s) 0.

Inductive fevent :=
| PubLoad1 (t i pos : nat)              (* publish(i): first frontier load returned fhist[pos]  *)
| FlagStore (t i : nat)
| PubLoad2 (t i pos : nat)
| FlagLoad (t e : nat) (b : bool)       (* advance: executed[e].load returned b                  *)
| ScanEnd (t : nat)                     (* advance: e reached executed.len()                     *)
| FetchMax (t v prev : nat)
| CurLoad (t pos : nat)
| CurFlag (t : nat) (b : bool)          (* current(): executed[frontier].load                    *)
| CurRet (t pos : nat).

Definition setf s fl h v p r := {| fn := fn s; flags := fl; fhist := h; fview := v; fpcs := p; returned := r |}.

Definition load_ok (s : fstate) (t pos : nat) : option nat :=
  if Nat.leb (fview s t) pos then nth_opt (fhist s) pos else None.

Definition fstep (s : fstate) (e : fevent) : option fstate :=
  match e with
  | PubLoad1 t i pos =>
      match fpcs s t, load_ok s t pos with
      | FIdle, Some f =>
          if Nat.ltb i (fn s) then
            Some (setf s (flags s) (fhist s) (upd (fview s) t pos)
                       (upd (fpcs s) t (if Nat.ltb i f then FIdle else FPub1 i)) (returned s))
          else None
      | _, _ => None
      end
  | FlagStore t i =>
      match fpcs s t with
      | FPub1 i' => if Nat.eqb i i' then
                      Some (setf s (upd (flags s) i true) (fhist s) (fview s) (upd (fpcs s) t (FPub2 i)) (returned s))
                    else None
      | _ => None
      end
  | PubLoad2 t i pos =>
      match fpcs s t, load_ok s t pos with
      | FPub2 i', Some f =>
          if Nat.eqb i i' then
            Some (setf s (flags s) (fhist s) (upd (fview s) t pos)
                       (upd (fpcs s) t (if Nat.eqb i f then FAdv false 0 f f else FIdle)) (returned s))
          else None
      | _, _ => None
      end
  | FlagLoad t e b =>
      match fpcs s t with
      | FAdv ret lo start e' =>
          if Nat.eqb e e' && Nat.ltb e (fn s) && (negb b || flags s e) then
            (* a stale-false load forfeits the call's catch-up claim: its lower bound becomes 0 *)
            let lo := if negb b && flags s e then 0 else lo in
            Some (setf s (flags s) (fhist s) (fview s)
                       (upd (fpcs s) t (if b then FAdv ret lo start (S e)
                                        else if Nat.eqb e start then (if ret then FCurRet lo else FIdle)
                                        else FAdvMax ret lo start e)) (returned s))
          else None
      | _ => None
      end
  | ScanEnd t =>
      match fpcs s t with
      | FAdv ret lo start e =>
          if Nat.eqb e (fn s) then
            Some (setf s (flags s) (fhist s) (fview s)
                       (upd (fpcs s) t (if Nat.eqb e start then (if ret then FCurRet lo else FIdle)
                                        else FAdvMax ret lo start e)) (returned s))
          else None
      | _ => None
      end
  | FetchMax t v prev =>
      match fpcs s t with
      | FAdvMax ret lo start e =>
          if Nat.eqb v e && Nat.eqb prev (fcur s) then
            let nv := Nat.max prev e in
            Some (setf s (flags s) (fhist s ++ [nv]) (upd (fview s) t (length (fhist s)))
                       (upd (fpcs s) t (FAdv ret lo nv nv)) (returned s))
          else None
      | _ => None
      end
  | CurLoad t pos =>
      match fpcs s t, load_ok s t pos with
      | FIdle, Some f =>
          Some (setf s (flags s) (fhist s) (upd (fview s) t pos)
                     (upd (fpcs s) t (FCur (lowest_unset s) f)) (returned s))
      | _, _ => None
      end
  | CurFlag t b =>
      match fpcs s t with
      | FCur lo f =>
          if (negb b || (Nat.ltb f (fn s) && flags s f)) then
            if b then Some (setf s (flags s) (fhist s) (fview s) (upd (fpcs s) t (FAdv true lo f f)) (returned s))
            else
              (* no help needed (or a stale flag load): current() returns the value it loaded; the
                 lower bound is only claimed for a truthful load *)
              Some (setf s (flags s) (fhist s) (fview s) (upd (fpcs s) t FIdle)
                         (if Nat.ltb f (fn s) && flags s f then returned s else (t, lo, f) :: returned s))
          else None
      | _ => None
      end
  | CurRet t pos =>
      match fpcs s t, load_ok s t pos with
      | FCurRet lo, Some f =>
          Some (setf s (flags s) (fhist s) (upd (fview s) t pos) (upd (fpcs s) t FIdle)
                     (if Nat.eqb pos (length (fhist s) - 1) then (t, lo, f) :: returned s else returned s))
      | _, _ => None
      end
  end.

Fixpoint frun (s : fstate) (tr : list fevent) : option fstate :=
  match tr with
  | [] => Some s
  | e :: tr' => match fstep s e with Some s' => frun s' tr' | None => None end
  end.

Fixpoint frun_diag (s : fstate) (tr : list fevent) (i : nat) : fstate * option nat :=
  match tr with
  | [] => (s, None)
  | e :: tr' => match fstep s e with Some s' => frun_diag s' tr' (S i) | None => (s, Some i) end
  end.
