(* Frontier/Proofs.v - the first-unexecuted frontier never passes an unexecuted transaction,
   is monotone, and a scan makes progress; for every accepted event list (any number of
   publishers, advancers and readers, stale frontier loads, stale-false flag loads). *)
From Grevm Require Import Base.Util Frontier.Model.

Definition below_set (s : fstate) (v : nat) : Prop := v <= fn s /\ forall k, k < v -> flags s k = true.

Definition pc_ok (s : fstate) (p : fpc) : Prop :=
  match p with
  | FAdv _ _ start e => start <= e /\ below_set s e
  | FAdvMax _ _ start e => start < e /\ below_set s e
  | FCur _ f => below_set s f
  | _ => True
  end.

Record finv (s : fstate) : Prop := {
  fi_sound : forall v, In v (fhist s) -> below_set s v;
  fi_mono : forall v, In v (fhist s) -> v <= fcur s;
  fi_nonempty : fhist s <> [];
  fi_pcs : forall t, pc_ok s (fpcs s t);
  fi_ret : forall t lo r, In (t, lo, r) (returned s) -> below_set s r;
}.

Lemma finv_init n : finv (finit n).
Proof.
  constructor; simpl.
  - intros v [<-|[]]. split; [lia|intros; lia].
  - intros v [<-|[]]. unfold fcur; simpl. lia.
  - discriminate.
  - intros t. exact I.
  - intros t lo r [].
Qed.

Lemma last_app1 (l : list nat) x d : last (l ++ [x]) d = x.
Proof. induction l as [|y l IH]; simpl; auto. destruct (l ++ [x]) eqn:E; auto. destruct l; discriminate. Qed.

Lemma below_set_flag s v i h vw p r :
  below_set s v -> below_set (setf s (upd (flags s) i true) h vw p r) v.
Proof.
  intros [A B]. split; auto. intros k Hk. simpl. unfold upd. destruct (Nat.eqb k i); auto.
Qed.

Lemma last_in (l : list nat) d : l <> [] -> In (last l d) l.
Proof.
  induction l as [|x l IH]; [congruence|]. intros _. destruct l as [|y l]; [left; reflexivity|].
  right. apply IH. discriminate.
Qed.

Lemma below_set_frame s s' v : fn s' = fn s -> flags s' = flags s -> below_set s v -> below_set s' v.
Proof. intros Hn Hf. unfold below_set. rewrite Hn, Hf. auto. Qed.

Ltac bs := eapply below_set_frame; [reflexivity|reflexivity|]; eauto.

Lemma load_in s t pos f : load_ok s t pos = Some f -> In f (fhist s).
Proof. unfold load_ok. destruct (Nat.leb (fview s t) pos); [|discriminate]. apply nth_opt_In. Qed.

Ltac fcrunch H :=
  repeat match type of H with
  | (if ?c then _ else _) = Some _ => let E := fresh "E" in destruct c eqn:E; try discriminate H
  | match ?x with _ => _ end = Some _ => let E := fresh "E" in destruct x eqn:E; try discriminate H
  | Some _ = Some _ => inversion H; clear H
  end.

Ltac pcs_other t Ip :=
  let t' := fresh "t'" in
  intros t'; simpl; destruct (Nat.eq_dec t' t) as [->|?];
  [ rewrite upd_same | rewrite upd_other by auto; apply Ip ].

(* below_set / pc_ok do not depend on views, pcs or the ghost *)
Lemma pc_ok_frame s s' p :
  fn s' = fn s -> flags s' = flags s -> pc_ok s p -> pc_ok s' p.
Proof.
  intros Hn Hf. unfold pc_ok, below_set. rewrite Hn, Hf. auto.
Qed.

Theorem finv_step s e s' : finv s -> fstep s e = Some s' -> finv s'.
Proof.
  intros [Is Im Ine Ip Ir] H.
  assert (Hframe : forall fl h v p r, fl = flags s -> h = fhist s ->
            (forall t, pc_ok s (p t)) -> (forall t lo x, In (t, lo, x) r -> below_set s x) ->
            finv (setf s fl h v p r)).
  { intros fl h v p r -> -> Hp Hr. constructor; simpl; auto. }
  destruct e; simpl in H.
  - (* PubLoad1 *) fcrunch H; subst; apply Hframe; auto.
    all: intros t'; destruct (Nat.eq_dec t' t) as [->|?]; [rewrite upd_same; destruct (Nat.ltb i n); exact I | rewrite upd_other by auto; apply Ip].
  - (* FlagStore *) fcrunch H; subst. apply Nat.eqb_eq in E0. subst.
    constructor; simpl; auto.
    + intros v Hv. apply below_set_flag. auto.
    + intros t'. destruct (Nat.eq_dec t' t) as [->|?]; [rewrite upd_same; exact I|rewrite upd_other by auto].
      specialize (Ip t'). destruct (fpcs s t'); simpl in *; auto.
      * destruct Ip as [A B]; split; auto. apply below_set_flag; auto.
      * destruct Ip as [A B]; split; auto. apply below_set_flag; auto.
      * apply below_set_flag; auto.
    + intros t' lo r Hr. apply below_set_flag. eauto.
  - (* PubLoad2 *) fcrunch H; subst; apply Hframe; auto.
    all: intros t'; destruct (Nat.eq_dec t' t) as [->|?]; [rewrite upd_same | rewrite upd_other by auto; apply Ip].
    destruct (Nat.eqb i n); [|exact I].
    simpl. split; auto. apply Is. eapply load_in; eauto.
  - (* FlagLoad *) fcrunch H; subst. apply andb_prop in E0. destruct E0 as [E0 Eb]. apply andb_prop in E0. destruct E0 as [Ee El].
    apply Nat.eqb_eq in Ee. apply Nat.ltb_lt in El. subst.
    pose proof (Ip t) as Pt. rewrite E in Pt. simpl in Pt. destruct Pt as [Hse [Hle Hall]].
    apply Hframe; auto.
    intros t'; destruct (Nat.eq_dec t' t) as [->|?]; [rewrite upd_same | rewrite upd_other by auto; apply Ip].
    destruct b; simpl.
    + simpl in Eb. split; [lia|]. split; [lia|]. intros k Hk. destruct (Nat.eq_dec k e0) as [->|]; auto. apply Hall. lia.
    + destruct (Nat.eqb_spec e0 start); [destruct ret; exact I|]. simpl. split; [lia|]. split; auto.
  - (* ScanEnd *) fcrunch H; subst. apply Nat.eqb_eq in E0.
    pose proof (Ip t) as Pt. rewrite E in Pt. simpl in Pt. destruct Pt as [Hse [Hle Hall]].
    apply Hframe; auto.
    intros t'; destruct (Nat.eq_dec t' t) as [->|?]; [rewrite upd_same | rewrite upd_other by auto; apply Ip].
    destruct (Nat.eqb_spec e start); [destruct ret; exact I|]. simpl. split; [lia|]. split; auto.
  - (* FetchMax *) fcrunch H; subst. apply andb_prop in E0. destruct E0 as [Ev Epv]. apply Nat.eqb_eq in Ev, Epv. subst.
    pose proof (Ip t) as Pt. rewrite E in Pt. simpl in Pt. destruct Pt as [Hse Hbe].
    assert (Hcur : below_set s (fcur s)) by (apply Is; apply last_in; auto).
    assert (Hnv : below_set s (Nat.max (fcur s) e)).
    { destruct (Nat.max_spec (fcur s) e) as [[_ ->]|[_ ->]]; auto. }
    constructor; simpl.
    + intros v Hv. apply in_app_or in Hv. destruct Hv as [Hv|[<-|[]]]; bs.
    + intros v Hv. unfold fcur. simpl. rewrite last_app1. apply in_app_or in Hv. destruct Hv as [Hv|[<-|[]]]; auto.
      specialize (Im v Hv). unfold fcur in Im. lia.
    + destruct (fhist s); discriminate.
    + intros t'. destruct (Nat.eq_dec t' t) as [->|?]; [rewrite upd_same | rewrite upd_other by auto].
      * simpl. split; auto; bs.
      * eapply pc_ok_frame; [| |apply Ip]; reflexivity.
    + intros t' lo' r Hr. bs.
  - (* CurLoad *) fcrunch H; subst; apply Hframe; auto.
    intros t'; destruct (Nat.eq_dec t' t) as [->|?]; [rewrite upd_same | rewrite upd_other by auto; apply Ip].
    simpl. apply Is. eapply load_in; eauto.
  - (* CurFlag *) fcrunch H; subst.
    + pose proof (Ip t) as Pt. rewrite E in Pt. simpl in Pt.
      apply Hframe; auto.
      intros t'; destruct (Nat.eq_dec t' t) as [->|?]; [rewrite upd_same | rewrite upd_other by auto; apply Ip].
      simpl. split; auto.
    + pose proof (Ip t) as Pt. rewrite E in Pt. simpl in Pt.
      apply Hframe; auto.
      * intros t'; destruct (Nat.eq_dec t' t) as [->|?]; [rewrite upd_same; exact I | rewrite upd_other by auto; apply Ip].
      * intros t' lo' r Hr. destruct (Nat.ltb f (fn s) && flags s f); eauto.
        destruct Hr as [Heq|Hr]; eauto. inversion Heq; subst. exact Pt.
  - (* CurRet *) fcrunch H; subst.
    apply Hframe; auto.
    + intros t'; destruct (Nat.eq_dec t' t) as [->|?]; [rewrite upd_same; exact I | rewrite upd_other by auto; apply Ip].
    + intros t' lo' r Hr. destruct (Nat.eqb pos (length (fhist s) - 1)); eauto.
      destruct Hr as [Heq|Hr]; eauto. inversion Heq; subst. apply Is. eapply load_in; eauto.
Qed.

Theorem finv_run s tr s' : finv s -> frun s tr = Some s' -> finv s'.
Proof.
  revert s; induction tr as [|e tr IH]; simpl; intros s I H.
  - inversion H; subst; auto.
  - destruct (fstep s e) as [s1|] eqn:E; [|discriminate]. apply (IH s1); auto. eapply finv_step; eauto.
Qed.
