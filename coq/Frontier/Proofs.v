(* Frontier/Proofs.v - the first-unexecuted frontier never passes an unexecuted transaction,
   is monotone, and a scan makes progress; for every accepted event list (any number of
   publishers, advancers and readers, stale frontier loads, stale-false flag loads). *)
From Grevm Require Import Base.Util Frontier.Model.

Definition below_set (s : fstate) (v : nat) : Prop := v <= fn s /\ forall k, k < v -> flags s k = true.

Definition pc_ok (s : fstate) (p : fpc) : Prop :=
  match p with
  | FAdv _ lo start e => start <= e /\ below_set s e /\ start <= fcur s /\ lo <= lowest_unset s
  | FAdvMax _ lo start e => start < e /\ below_set s e /\ lo <= e
  | FCur lo f => below_set s f /\ lo <= lowest_unset s /\ f <= fcur s
  | FCurRet lo => lo <= fcur s
  | _ => True
  end.

(* first_unset: the first index in [k, k+n) whose flag is unset, or k+n *)
Lemma first_unset_bounds fl n k : k <= first_unset fl n k <= k + n.
Proof. revert k; induction n as [|n IH]; intros k; simpl; [lia|]. destruct (fl k); [specialize (IH (S k))|]; lia. Qed.

Lemma first_unset_all_set fl n k j : k <= j -> j < first_unset fl n k -> fl j = true.
Proof.
  revert k; induction n as [|n IH]; intros k Hk Hj; simpl in Hj; [lia|].
  destruct (fl k) eqn:E; [|lia]. destruct (Nat.eq_dec j k) as [->|]; auto. apply (IH (S k)); auto; lia.
Qed.

Lemma first_unset_ge fl n k v : (forall j, k <= j -> j < v -> fl j = true) -> v <= k + n -> v <= first_unset fl n k.
Proof.
  revert k; induction n as [|n IH]; intros k Hall Hv; simpl; [lia|].
  destruct (fl k) eqn:E.
  - apply IH; [|lia]. intros j H1 H2. apply Hall; lia.
  - destruct (le_lt_dec v k); auto. rewrite Hall in E; [discriminate|lia|lia].
Qed.

Lemma first_unset_mono fl fl' n k : (forall j, fl j = true -> fl' j = true) -> first_unset fl n k <= first_unset fl' n k.
Proof.
  intros H. revert k; induction n as [|n IH]; intros k; simpl; auto.
  destruct (fl k) eqn:E.
  - rewrite (H _ E). apply IH.
  - pose proof (first_unset_bounds fl' n (S k)). destruct (fl' k); lia.
Qed.

Lemma below_le_lowest s v : below_set s v -> v <= lowest_unset s.
Proof. intros [A B]. apply first_unset_ge; [intros j _ Hj; auto|lia]. Qed.

Lemma lowest_le_n s : lowest_unset s <= fn s.
Proof. pose proof (first_unset_bounds (flags s) (fn s) 0). unfold lowest_unset. lia. Qed.

Lemma lowest_exact s e : below_set s e -> (e = fn s \/ flags s e = false) -> lowest_unset s = e.
Proof.
  intros B H. pose proof (below_le_lowest _ _ B). pose proof (lowest_le_n s).
  destruct H as [->|H]; [lia|].
  destruct (le_lt_dec (lowest_unset s) e); [lia|].
  rewrite (first_unset_all_set (flags s) (fn s) 0 e) in H; [discriminate|lia|auto].
Qed.

Record finv (s : fstate) : Prop := {
  fi_sound : forall v, In v (fhist s) -> below_set s v;
  fi_mono : forall v, In v (fhist s) -> v <= fcur s;
  fi_nonempty : fhist s <> [];
  fi_pcs : forall t, pc_ok s (fpcs s t);
  fi_ret : forall t lo r, In (t, lo, r) (returned s) -> below_set s r /\ lo <= r;
}.

Lemma finv_init n : finv (finit n).
Proof.
  constructor; simpl.
  - intros v [<-|[]]. split; [lia|intros; lia].
  - intros v [<-|[]]. unfold fcur; simpl. lia.
  - discriminate.
  - intros t. exact I.
  - intros t lo r [].
Qed.

Lemma last_app1 (l : list nat) x d : last (l ++ [x]) d = x.
Proof. induction l as [|y l IH]; simpl; auto. destruct (l ++ [x]) eqn:E; auto. destruct l; discriminate. Qed.

Lemma below_set_flag s v i h vw p r :
  below_set s v -> below_set (setf s (upd (flags s) i true) h vw p r) v.
Proof.
  intros [A B]. split; auto. intros k Hk. simpl. unfold upd. destruct (Nat.eqb k i); auto.
Qed.

Lemma lowest_flag s i h vw p r :
  lowest_unset s <= lowest_unset (setf s (upd (flags s) i true) h vw p r).
Proof.
  unfold lowest_unset. simpl. apply first_unset_mono. intros j Hj. unfold upd. destruct (Nat.eqb j i); auto.
Qed.

Lemma last_in (l : list nat) d : l <> [] -> In (last l d) l.
Proof.
  induction l as [|x l IH]; [congruence|]. intros _. destruct l as [|y l]; [left; reflexivity|].
  right. apply IH. discriminate.
Qed.

Lemma below_set_frame s s' v : fn s' = fn s -> flags s' = flags s -> below_set s v -> below_set s' v.
Proof. intros Hn Hf. unfold below_set. rewrite Hn, Hf. auto. Qed.

Ltac bs := eapply below_set_frame; [reflexivity|reflexivity|]; eauto.

Lemma nth_opt_last (l : list nat) f d : nth_opt l (length l - 1) = Some f -> last l d = f.
Proof.
  induction l as [|x l IH]; simpl; [discriminate|]. destruct l as [|y l]; simpl in *.
  - intros H; inversion H; auto.
  - rewrite Nat.sub_0_r in *. intros H. apply IH. exact H.
Qed.

Lemma load_fresh s t f : load_ok s t (length (fhist s) - 1) = Some f -> f = fcur s.
Proof. unfold load_ok. destruct (Nat.leb _ _); [|discriminate]. intros H. symmetry. apply nth_opt_last. exact H. Qed.

Lemma load_in s t pos f : load_ok s t pos = Some f -> In f (fhist s).
Proof. unfold load_ok. destruct (Nat.leb (fview s t) pos); [|discriminate]. apply nth_opt_In. Qed.

Ltac fcrunch H :=
  repeat match type of H with
  | (if ?c then _ else _) = Some _ => let E := fresh "E" in destruct c eqn:E; try discriminate H
  | match ?x with _ => _ end = Some _ => let E := fresh "E" in destruct x eqn:E; try discriminate H
  | Some _ = Some _ => inversion H; clear H
  end.

(* pc_ok depends on n, the flags and (monotonically) on the newest frontier value only *)
Lemma pc_ok_frame s s' p :
  fn s' = fn s -> flags s' = flags s -> fcur s <= fcur s' -> pc_ok s p -> pc_ok s' p.
Proof.
  intros Hn Hf Hc. unfold pc_ok, below_set, lowest_unset. rewrite Hn, Hf.
  destruct p; auto; intuition lia.
Qed.

Theorem finv_step s e s' : finv s -> fstep s e = Some s' -> finv s'.
Proof.
  intros [Is Im Ine Ip Ir] H.
  assert (Hframe : forall fl h v p r, fl = flags s -> h = fhist s ->
            (forall t, pc_ok s (p t)) -> (forall t lo x, In (t, lo, x) r -> below_set s x /\ lo <= x) ->
            finv (setf s fl h v p r)).
  { intros fl h v p r -> -> Hp Hr. constructor; simpl; auto. }
  destruct e; simpl in H.
  - (* PubLoad1 *) fcrunch H; subst; apply Hframe; auto.
    all: intros t'; destruct (Nat.eq_dec t' t) as [->|?]; [rewrite upd_same; destruct (Nat.ltb i n); exact I | rewrite upd_other by auto; apply Ip].
  - (* FlagStore *) fcrunch H; subst. apply Nat.eqb_eq in E0. subst.
    constructor; simpl; auto.
    + intros v Hv. apply below_set_flag. auto.
    + intros t'. destruct (Nat.eq_dec t' t) as [->|?]; [rewrite upd_same; exact I|rewrite upd_other by auto].
      specialize (Ip t'). pose proof (lowest_flag s i0 (fhist s) (fview s) (upd (fpcs s) t (FPub2 i0)) (returned s)) as Hl.
      destruct (fpcs s t'); simpl in *; auto.
      * destruct Ip as [A [B [C D]]]; repeat split; auto; try (apply below_set_flag; auto); try apply B. lia.
      * destruct Ip as [A [B C]]; repeat split; auto; try (apply below_set_flag; auto); apply B.
      * destruct Ip as [B [D F]]; repeat split; auto; try (apply below_set_flag; auto); try apply B. lia.
    + intros t' lo r Hr. destruct (Ir _ _ _ Hr) as [A B]. split; auto. apply below_set_flag. auto.
  - (* PubLoad2 *) fcrunch H; subst; apply Hframe; auto.
    all: intros t'; destruct (Nat.eq_dec t' t) as [->|?]; [rewrite upd_same | rewrite upd_other by auto; apply Ip].
    destruct (Nat.eqb i n); [|exact I].
    assert (Hin : In n (fhist s)) by (eapply load_in; eauto).
    simpl. repeat split; auto; try apply (Is _ Hin); lia.
  - (* FlagLoad *) fcrunch H; subst. apply andb_prop in E0. destruct E0 as [E0 Eb]. apply andb_prop in E0. destruct E0 as [Ee El].
    apply Nat.eqb_eq in Ee. apply Nat.ltb_lt in El. subst.
    pose proof (Ip t) as Pt. rewrite E in Pt. simpl in Pt. destruct Pt as [Hse [[Hle Hall] [Hsc Hlo]]].
    apply Hframe; auto.
    intros t'; destruct (Nat.eq_dec t' t) as [->|?]; [rewrite upd_same | rewrite upd_other by auto; apply Ip].
    destruct b; simpl.
    + simpl in Eb. repeat split; auto; try lia.
      intros k Hk. destruct (Nat.eq_dec k e0) as [->|]; auto. apply Hall. lia.
    + assert (Hlo' : (if flags s e0 then 0 else lo) <= e0).
      { destruct (flags s e0) eqn:Ef; [lia|]. rewrite (lowest_exact s e0) in Hlo; auto. split; auto. }
      destruct (Nat.eqb_spec e0 start).
      * destruct ret; [|exact I]. simpl. lia.
      * simpl. repeat split; auto; lia.
  - (* ScanEnd *) fcrunch H; subst. apply Nat.eqb_eq in E0.
    pose proof (Ip t) as Pt. rewrite E in Pt. simpl in Pt. destruct Pt as [Hse [[Hle Hall] [Hsc Hlo]]].
    pose proof (lowest_le_n s) as Hn.
    apply Hframe; auto.
    intros t'; destruct (Nat.eq_dec t' t) as [->|?]; [rewrite upd_same | rewrite upd_other by auto; apply Ip].
    destruct (Nat.eqb_spec e start).
    * destruct ret; [|exact I]. simpl. lia.
    * simpl. repeat split; auto; lia.
  - (* FetchMax *) fcrunch H; subst. apply andb_prop in E0. destruct E0 as [Ev Epv]. apply Nat.eqb_eq in Ev, Epv. subst.
    pose proof (Ip t) as Pt. rewrite E in Pt. simpl in Pt. destruct Pt as [Hse [Hbe Hlo]].
    assert (Hcur : below_set s (fcur s)) by (apply Is; apply last_in; auto).
    assert (Hnv : below_set s (Nat.max (fcur s) e)).
    { destruct (Nat.max_spec (fcur s) e) as [[_ ->]|[_ ->]]; auto. }
    assert (Hc' : forall vw p r, fcur (setf s (flags s) (fhist s ++ [Nat.max (fcur s) e]) vw p r) = Nat.max (fcur s) e).
    { intros. unfold fcur at 1. simpl. apply last_app1. }
    constructor; simpl.
    + intros v Hv. apply in_app_or in Hv. destruct Hv as [Hv|[<-|[]]]; bs.
    + intros v Hv. rewrite Hc'. apply in_app_or in Hv. destruct Hv as [Hv|[<-|[]]]; auto.
      specialize (Im v Hv). lia.
    + destruct (fhist s); discriminate.
    + intros t'. destruct (Nat.eq_dec t' t) as [->|?]; [rewrite upd_same | rewrite upd_other by auto].
      * simpl. rewrite Hc'. repeat split; auto; try (apply Hnv; fail); try lia.
        pose proof (below_le_lowest _ _ Hbe) as Hb. unfold lowest_unset in *. simpl. lia.
      * eapply pc_ok_frame; [| | |apply Ip]; try reflexivity. rewrite Hc'. lia.
    + intros t' lo' r Hr. destruct (Ir _ _ _ Hr). split; auto; bs.
  - (* CurLoad *) fcrunch H; subst; apply Hframe; auto.
    intros t'; destruct (Nat.eq_dec t' t) as [->|?]; [rewrite upd_same | rewrite upd_other by auto; apply Ip].
    assert (Hin : In n (fhist s)) by (eapply load_in; eauto).
    simpl. repeat split; auto; apply (Is _ Hin).
  - (* CurFlag *) fcrunch H; subst.
    + pose proof (Ip t) as Pt. rewrite E in Pt. simpl in Pt. destruct Pt as [Pb [Pl Pf]].
      apply Hframe; auto.
      intros t'; destruct (Nat.eq_dec t' t) as [->|?]; [rewrite upd_same | rewrite upd_other by auto; apply Ip].
      simpl. repeat split; auto; try apply Pb.
    + pose proof (Ip t) as Pt. rewrite E in Pt. simpl in Pt. destruct Pt as [Pb [Pl Pf]].
      apply Hframe; auto.
      * intros t'; destruct (Nat.eq_dec t' t) as [->|?]; [rewrite upd_same; exact I | rewrite upd_other by auto; apply Ip].
      * intros t' lo' r Hr. destruct (Nat.ltb f (fn s) && flags s f) eqn:Ef; eauto.
        destruct Hr as [Heq|Hr]; eauto. inversion Heq; subst. split; auto.
        rewrite (lowest_exact s r) in Pl; auto.
        apply andb_false_iff in Ef. destruct Ef as [Ef|Ef]; auto.
        apply Nat.ltb_ge in Ef. destruct Pb. left. lia.
  - (* CurRet *) fcrunch H; subst.
    pose proof (Ip t) as Pt. rewrite E in Pt. simpl in Pt.
    apply Hframe; auto.
    + intros t'; destruct (Nat.eq_dec t' t) as [->|?]; [rewrite upd_same; exact I | rewrite upd_other by auto; apply Ip].
    + intros t' lo' r Hr. destruct (Nat.eqb_spec pos (length (fhist s) - 1)); eauto.
      destruct Hr as [Heq|Hr]; eauto. inversion Heq; subst. split; [apply Is; eapply load_in; eauto|].
      (* a fresh load returns the newest value *)
      rewrite (load_fresh _ _ _ E0). exact Pt.
Qed.

Theorem finv_run s tr s' : finv s -> frun s tr = Some s' -> finv s'.
Proof.
  revert s; induction tr as [|e tr IH]; simpl; intros s I H.
  - inversion H; subst; auto.
  - destruct (fstep s e) as [s1|] eqn:E; [|discriminate]. apply (IH s1); auto. eapply finv_step; eauto.
Qed.
