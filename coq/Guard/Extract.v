From Grevm Require Import Base.Util Guard.Model.
Require Extraction. Require ExtrOcamlBasic.
Extraction Language OCaml.
Extraction "extract/guard.ml" is_enabled_in guard_decision decision_result consults_host stock_prefix
  for_spec build_evm_guarded guard_selected is_create_op toy_run toy_stock toy_gravity toy_init.
