(* Model of grevm's delegated-CREATE guard (property C12).

   Code modelled (read line by line):
     /repo/src/delegated_safety/instructions.rs:14-49   gravity_instructions, guarded_create
     /repo/src/delegated_safety/config.rs:8-55          DelegatedSafetyConfig, for_spec
     /repo/src/scheduler/executor.rs:119-149            build_evm (table selection, :138-142)
     /repo/src/scheduler.rs:197-199                     Scheduler::build normalises the policy
     /repo/src/scheduler/fallback.rs:77-85              the sequential path calls the same build_evm
   and, from revm (the reference the guard is compared with):
     revm-interpreter-37.0.3/src/instructions/contract.rs:26-128   contract::create  (prefix :31-36)
     revm-interpreter-37.0.3/src/instructions.rs:290,295,465,470   stock table / static gas of CREATE(2)
     revm-interpreter-37.0.3/src/interpreter.rs:295-340            Interpreter::step / run_plain
     revm-handler-20.0.3/src/instructions.rs:99-107                insert_instruction
     revm-primitives-24.0.1/src/hardfork.rs:15-103                 SpecId, is_enabled_in
     revm-context-interface-19.0.3/src/host.rs:153-174             Host::load_account_delegated

   Everything revm does that does not depend on which instruction table is installed is OPAQUE here:
   it is a [Section] variable of [Machine] (the machine state, fetching an opcode, charging static
   gas, halting a frame, the frame driver, the host's account load, the body of the stock create
   instruction after its two-check prefix, every other stock instruction and its static gas).  The
   theorems are therefore statements about *any* interpreter of that shape (DESIGN 6/C12 "Scope").

   This file contains definitions only (no proofs), so it still runs when a proof breaks. *)
From Grevm Require Import Base.Util.

(* ------------------------------------------------------------------------------------------------
   SpecId as its u8 discriminant (hardfork.rs:15-77).  *)
Definition spec := nat.
Definition FRONTIER : spec := 0.
Definition HOMESTEAD : spec := 1.
Definition TANGERINE : spec := 2.
Definition SPURIOUS_DRAGON : spec := 3.
Definition BYZANTIUM : spec := 4.
Definition PETERSBURG : spec := 5.
Definition ISTANBUL : spec := 6.
Definition BERLIN : spec := 7.
Definition LONDON : spec := 8.
Definition MERGE : spec := 9.
Definition SHANGHAI : spec := 10.
Definition CANCUN : spec := 11.
Definition PRAGUE : spec := 12.
Definition OSAKA : spec := 13.
Definition AMSTERDAM : spec := 14.

(* hardfork.rs:101-103   self as u8 >= other as u8 *)
Definition is_enabled_in (self other : spec) : bool := Nat.leb other self.

(* opcodes (revm-bytecode opcode.rs) *)
Definition CREATE : nat := 240.   (* 0xf0 *)
Definition CREATE2 : nat := 245.  (* 0xf5 *)
Definition is_create_op (op : nat) : bool := Nat.eqb op CREATE || Nat.eqb op CREATE2.

(* InstructionResult: the variants the guard / the step function name explicitly; everything else
   an opaque instruction may return is [OtherResult]. *)
Inductive iresult :=
| StateChangeDuringStaticCall
| NotActivated
| FatalExternalError
| OutOfGas
| OtherResult (code : nat).

(* InstructionExecResult = Result<(), InstructionResult> *)
Inductive res := Ok | Err (r : iresult).

(* Option<StateLoad<AccountLoad>> as far as the guard looks at it: None, or the field
   is_delegate_account_cold : Option<bool> (Some _ <=> the loaded account carries an EIP-7702
   designator, host.rs:164-171). *)
Inductive load_result :=
| LoadFailed
| Loaded (is_delegate_account_cold : option bool).

(* ------------------------------------------------------------------------------------------------
   The guard's decision as a pure function of what it inspects, in the code's order
   (instructions.rs:28-46).  This is the function extracted and compared with the real
   guarded_create on every generated case. *)
Inductive decision :=
| DStatic            (* :28-30  Err(StateChangeDuringStaticCall), host not consulted           *)
| DPrePetersburg     (* :32-34  Err(NotActivated), host not consulted                          *)
| DFatal             (* :39-41  load_account_delegated returned None: Err(FatalExternalError)  *)
| DDelegated         (* :45-47  designator present: Err(NotActivated)                          *)
| DStock.            (* :49     contract::create::<IS_CREATE2>(context)                        *)

Definition pre_petersburg_create2 (is_create2 : bool) (sp : spec) : bool :=
  is_create2 && negb (is_enabled_in sp PETERSBURG).

Definition guard_decision (is_static is_create2 : bool) (sp : spec) (ld : load_result) : decision :=
  if is_static then DStatic
  else if pre_petersburg_create2 is_create2 sp then DPrePetersburg
  else match ld with
       | LoadFailed => DFatal
       | Loaded (Some _) => DDelegated
       | Loaded None => DStock
       end.

(* None = falls through to the stock instruction *)
Definition decision_result (d : decision) : option iresult :=
  match d with
  | DStatic => Some StateChangeDuringStaticCall
  | DPrePetersburg => Some NotActivated
  | DFatal => Some FatalExternalError
  | DDelegated => Some NotActivated
  | DStock => None
  end.

(* does guarded_create reach host.load_account_delegated at all? *)
Definition consults_host (is_static is_create2 : bool) (sp : spec) : bool :=
  negb is_static && negb (pre_petersburg_create2 is_create2 sp).

(* The stock instruction's prefix (contract.rs:31-36): Some r = it returns Err(r) before touching
   stack/gas/memory; None = it goes on to the body. *)
Definition stock_prefix (is_static is_create2 : bool) (sp : spec) : option iresult :=
  if is_static then Some StateChangeDuringStaticCall
  else if pre_petersburg_create2 is_create2 sp then Some NotActivated
  else None.

(* ------------------------------------------------------------------------------------------------
   Policy and table selection. *)
Record safety := {
  forbid_delegated_create : bool;
  reserve_delegated_balance : bool;
}.
Definition safety_disabled : safety :=
  {| forbid_delegated_create := false; reserve_delegated_balance := false |}.

(* config.rs:49-55 *)
Definition for_spec (c : safety) (sp : spec) : safety :=
  if is_enabled_in sp PRAGUE then c else safety_disabled.

(* executor.rs:140  the local gate in build_evm *)
Definition build_evm_guarded (forbid : bool) (sp : spec) : bool :=
  forbid && is_enabled_in sp PRAGUE.

(* scheduler.rs:197-199 then GrevmExecutor::new / fallback.rs:79-85 pass
   config.delegated_safety.forbid_delegated_create to build_evm *)
Definition guard_selected (c : safety) (sp : spec) : bool :=
  build_evm_guarded (forbid_delegated_create (for_spec c sp)) sp.

(* ------------------------------------------------------------------------------------------------
   The abstract interpreter. *)
Section Machine.
  Variable St : Type.                       (* the whole EVM: frames, journal, gas, memory ...     *)
  Variable addr : Type.

  (* read-only views of the running frame *)
  Variable is_static : St -> bool.           (* interpreter.runtime_flag.is_static()               *)
  Variable spec_of : St -> spec.             (* interpreter.runtime_flag.spec_id()                 *)
  Variable target_address : St -> addr.      (* interpreter.input.target_address()                 *)
  Variable fetch : St -> nat.                (* bytecode.opcode()                                  *)

  (* table-independent plumbing of Interpreter::step / run_plain and of the frame driver *)
  Variable pending : St -> bool.             (* bytecode.is_end(): the frame has an action pending *)
  Variable drive : St -> St.                 (* frame driver: push / pop a frame, finish the tx    *)
  Variable advance : St -> St.               (* bytecode.relative_jump(1)                          *)
  Variable charge : nat -> St -> option St.  (* gas.record_cost_unsafe(static gas); None = OOG     *)
  Variable halt_err : iresult -> St -> St.   (* if action().is_none() { halt(e) }                  *)

  (* host.load_account_delegated(address): may change the state (warm set, cached code) *)
  Variable host_load_delegated : addr -> St -> St * load_result.

  (* stock instructions *)
  Variable create_body : bool -> St -> St * res.      (* contract.rs:38-127 for IS_CREATE2 = b     *)
  Variable other_instr : spec -> nat -> St -> St * res.  (* every other entry of the stock table   *)
  Variable other_gas : spec -> nat -> nat.             (* gas_table_spec(spec)[op] for those        *)

  Definition instr := St -> St * res.
  Record entry := { e_fn : instr; e_gas : nat }.
  Definition table := nat -> entry.

  (* contract.rs:26-128 *)
  Definition stock_create (is_create2 : bool) : instr := fun s =>
    if is_static s then (s, Err StateChangeDuringStaticCall)                       (* :31 *)
    else if pre_petersburg_create2 is_create2 (spec_of s) then (s, Err NotActivated)  (* :34-36 *)
    else create_body is_create2 s.

  (* instructions.rs:25-49 *)
  Definition guarded_create (is_create2 : bool) : instr := fun s =>
    if is_static s then (s, Err StateChangeDuringStaticCall)                       (* :28-30 *)
    else if pre_petersburg_create2 is_create2 (spec_of s) then (s, Err NotActivated)  (* :32-34 *)
    else
      let recipient := target_address s in                                           (* :38 *)
      let '(s1, ld) := host_load_delegated recipient s in                            (* :39 *)
      match ld with
      | LoadFailed => (s1, Err FatalExternalError)                                   (* :40 *)
      | Loaded (Some _) => (s1, Err NotActivated)                                    (* :45-47 *)
      | Loaded None => stock_create is_create2 s1                                    (* :49 *)
      end.

  (* EthInstructions::new_mainnet_with_spec(spec): instruction_table() + gas_table_spec(spec).
     The static gas of CREATE and CREATE2 is 0 in gas_table_impl (instructions.rs:465,470) and no
     spec changes it (gas_table_spec :90-130); the harness compares the real tables for every spec. *)
  Definition stock_table (sp : spec) : table := fun op =>
    if Nat.eqb op CREATE then {| e_fn := stock_create false; e_gas := 0 |}
    else if Nat.eqb op CREATE2 then {| e_fn := stock_create true; e_gas := 0 |}
    else {| e_fn := other_instr sp op; e_gas := other_gas sp op |}.

  (* revm-handler instructions.rs:99-107 *)
  Definition insert_instruction (t : table) (opcode : nat) (i : instr) (gas : nat) : table :=
    fun op => if Nat.eqb op opcode then {| e_fn := i; e_gas := gas |} else t op.

  (* instructions.rs:14-23 *)
  Definition gravity_instructions (sp : spec) : table :=
    insert_instruction
      (insert_instruction (stock_table sp) CREATE (guarded_create false) 0)
      CREATE2 (guarded_create true) 0.

  (* executor.rs:138-142 *)
  Definition build_evm_table (forbid : bool) (sp : spec) : table :=
    if build_evm_guarded forbid sp then gravity_instructions sp else stock_table sp.

  (* scheduler.rs:197-199 + the two call sites of build_evm *)
  Definition scheduler_table (c : safety) (sp : spec) : table :=
    build_evm_table (forbid_delegated_create (for_spec c sp)) sp.

  (* interpreter.rs:295-321 (step) + :331-339 (an Err ends the loop; halt unless an action is set) *)
  Definition istep (t : table) (s : St) : St :=
    let op := fetch s in
    let s1 := advance s in
    let e := t op in
    match charge (e_gas e) s1 with
    | None => halt_err OutOfGas s1
    | Some s2 =>
        match e_fn e s2 with
        | (s3, Ok) => s3
        | (s3, Err r) => halt_err r s3
        end
    end.

  (* one step of the whole machine: the frame driver when an action is pending, else one opcode *)
  Definition mstep (t : table) (s : St) : St :=
    if pending s then drive s else istep t s.

  Fixpoint run (t : table) (fuel : nat) (s : St) : St :=
    match fuel with
    | O => s
    | S f => run t f (mstep t s)
    end.

  (* "the next machine step executes CREATE/CREATE2 and the guard does not fall through to the
     stock instruction": the frame is not static, CREATE2 is activated, and the load of the frame's
     own address fails or finds a designator. *)
  Definition delegated_create_at (s : St) : bool :=
    negb (pending s) && is_create_op (fetch s) &&
    match charge 0 (advance s) with
    | None => false
    | Some s2 =>
        match guard_decision (is_static s2) (Nat.eqb (fetch s) CREATE2) (spec_of s2)
                (snd (host_load_delegated (target_address s2) s2)) with
        | DFatal | DDelegated => true
        | _ => false
        end
    end.

  (* The assumption DESIGN 6/C12 names: loading the running frame's own address through the host
     returns the state unchanged when the account carries no designator (the frame's account is
     already warm and its code already loaded).  Premise of the lifting theorems; measured on real
     revm by the program differential. *)
  Definition own_load_unobservable : Prop :=
    forall s, snd (host_load_delegated (target_address s) s) = Loaded None ->
              fst (host_load_delegated (target_address s) s) = s.

  (* weaker, easier to read: the next step is a CREATE/CREATE2 in a frame whose own address does not
     load as a plain (designator-free) account *)
  Definition create_in_nonplain_context (s : St) : bool :=
    negb (pending s) && is_create_op (fetch s) &&
    match charge 0 (advance s) with
    | None => false
    | Some s2 =>
        match snd (host_load_delegated (target_address s2) s2) with
        | Loaded None => false
        | _ => true
        end
    end.
End Machine.

(* ------------------------------------------------------------------------------------------------
   A small concrete instance (used for the Examples beside the theorems; also shows the section
   hypotheses of Proofs.v are satisfiable together). *)
Record toy := {
  t_code : list nat;                 (* remaining opcodes of the running frame *)
  t_static : bool;
  t_spec : spec;
  t_designator : option bool;        (* the running frame's own account: Some _ = delegated *)
  t_nonce : nat;                     (* nonce of the running frame's account *)
  t_out : list nat;                  (* effects so far, newest first *)
  t_halt : option iresult;
}.

Definition toy_set_out (s : toy) (o : list nat) : toy :=
  {| t_code := t_code s; t_static := t_static s; t_spec := t_spec s; t_designator := t_designator s;
     t_nonce := t_nonce s; t_out := o; t_halt := t_halt s |}.
Definition toy_fetch (s : toy) : nat := hd 0 (t_code s).
Definition toy_pending (s : toy) : bool :=
  match t_halt s, t_code s with None, _ :: _ => false | _, _ => true end.
Definition toy_advance (s : toy) : toy :=
  {| t_code := tl (t_code s); t_static := t_static s; t_spec := t_spec s;
     t_designator := t_designator s; t_nonce := t_nonce s; t_out := t_out s; t_halt := t_halt s |}.
Definition toy_charge (g : nat) (s : toy) : option toy := Some s.
Definition toy_halt (r : iresult) (s : toy) : toy :=
  {| t_code := t_code s; t_static := t_static s; t_spec := t_spec s; t_designator := t_designator s;
     t_nonce := t_nonce s; t_out := t_out s; t_halt := Some r |}.
Definition toy_load (_ : unit) (s : toy) : toy * load_result := (s, Loaded (t_designator s)).
(* the create body advances the creating account's nonce *)
Definition toy_create_body (c2 : bool) (s : toy) : toy * res :=
  ({| t_code := t_code s; t_static := t_static s; t_spec := t_spec s; t_designator := t_designator s;
      t_nonce := S (t_nonce s); t_out := (if c2 then CREATE2 else CREATE) :: t_out s;
      t_halt := t_halt s |}, Ok).
Definition toy_other (_ : spec) (op : nat) (s : toy) : toy * res := (toy_set_out s (op :: t_out s), Ok).
Definition toy_gas (_ : spec) (_ : nat) : nat := 3.

Definition toy_stock (sp : spec) : table toy :=
  stock_table toy t_static t_spec toy_create_body toy_other toy_gas sp.
Definition toy_gravity (sp : spec) : table toy :=
  gravity_instructions toy unit t_static t_spec (fun _ => tt) toy_load toy_create_body toy_other toy_gas sp.
Definition toy_run (t : table toy) : nat -> toy -> toy :=
  run toy toy_fetch toy_pending (fun s => s) toy_advance toy_charge toy_halt t.
Definition toy_init (code : list nat) (static : bool) (sp : spec) (d : option bool) : toy :=
  {| t_code := code; t_static := static; t_spec := sp; t_designator := d; t_nonce := 7;
     t_out := []; t_halt := None |}.
