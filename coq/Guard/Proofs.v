(* Proofs about Guard/Model.v (property C12).

   Section variables: the opaque machine of Model.v (any state type, any plumbing, any host, any
   stock instruction bodies).  One section hypothesis, [load_own_plain_noop]: loading the running
   frame's own address through the host leaves the machine state unchanged when the account carries
   no designator (the frame's account is already warm and its code already loaded).  This is the
   assumption DESIGN 6/C12 names; the program differential measures it (gas, warm sets, state). *)
From Grevm Require Import Base.Util Guard.Model.

(* ------------------------------------------------------------------------------ pure facts *)

Lemma is_enabled_in_spec (a b : spec) : is_enabled_in a b = true <-> b <= a.
Proof. unfold is_enabled_in. apply Nat.leb_le. Qed.

Lemma is_create_op_spec op : is_create_op op = true <-> op = CREATE \/ op = CREATE2.
Proof.
  unfold is_create_op. rewrite orb_true_iff, !Nat.eqb_eq. tauto.
Qed.

Ltac fin :=
  repeat match goal with
  | H : _ /\ _ |- _ => destruct H
  | H : exists _, _ |- _ => destruct H
  | H : ?a = true -> _ |- _ => specialize (H eq_refl)
  end; try discriminate; try lia; try congruence; eauto.

(* the decision table, stated as equivalences: the five outcomes, in the code's order *)
Lemma guard_decision_cases static c2 sp ld :
  (guard_decision static c2 sp ld = DStatic <-> static = true) /\
  (guard_decision static c2 sp ld = DPrePetersburg <->
     static = false /\ c2 = true /\ sp < PETERSBURG) /\
  (guard_decision static c2 sp ld = DFatal <->
     static = false /\ (c2 = true -> PETERSBURG <= sp) /\ ld = LoadFailed) /\
  (guard_decision static c2 sp ld = DDelegated <->
     static = false /\ (c2 = true -> PETERSBURG <= sp) /\ exists cold, ld = Loaded (Some cold)) /\
  (guard_decision static c2 sp ld = DStock <->
     static = false /\ (c2 = true -> PETERSBURG <= sp) /\ ld = Loaded None).
Proof.
  unfold guard_decision, pre_petersburg_create2, is_enabled_in, PETERSBURG.
  destruct static, c2; cbn [andb negb];
    try destruct (Nat.leb_spec 5 sp) as [Hle|Hlt]; cbn [negb];
    try destruct ld as [|[cold|]];
    repeat split; intros; fin.
Qed.

Lemma consults_host_decision static c2 sp ld :
  consults_host static c2 sp = false <->
  (guard_decision static c2 sp ld = DStatic \/ guard_decision static c2 sp ld = DPrePetersburg).
Proof.
  unfold consults_host, guard_decision.
  destruct static; cbn [negb andb]; [intuition|].
  destruct (pre_petersburg_create2 c2 sp); cbn [negb]; [intuition|].
  destruct ld as [|[c|]]; split; intros H; try discriminate; destruct H; discriminate.
Qed.

(* whenever the guard stops before the host, the stock prefix returns the very same error *)
Lemma decision_prefix_agree static c2 sp ld :
  consults_host static c2 sp = false ->
  decision_result (guard_decision static c2 sp ld) = stock_prefix static c2 sp.
Proof.
  unfold consults_host, guard_decision, stock_prefix.
  destruct static; cbn [negb andb]; [reflexivity|].
  destruct (pre_petersburg_create2 c2 sp); cbn [negb]; [reflexivity|discriminate].
Qed.

Lemma consults_host_prefix static c2 sp :
  consults_host static c2 sp = true <-> stock_prefix static c2 sp = None.
Proof.
  unfold consults_host, stock_prefix.
  destruct static; cbn [negb andb]; [split; discriminate|].
  destruct (pre_petersburg_create2 c2 sp); cbn [negb]; split; auto; discriminate.
Qed.

(* selection *)
Lemma guard_selected_spec c sp :
  guard_selected c sp = true <-> forbid_delegated_create c = true /\ PRAGUE <= sp.
Proof.
  unfold guard_selected, build_evm_guarded, for_spec.
  destruct (is_enabled_in sp PRAGUE) eqn:E.
  - rewrite andb_true_r. apply is_enabled_in_spec in E. tauto.
  - cbn. split; [discriminate|]. intros [_ H]. apply is_enabled_in_spec in H. congruence.
Qed.

Lemma for_spec_before_prague c sp : sp < PRAGUE -> for_spec c sp = safety_disabled.
Proof.
  intros H. unfold for_spec. destruct (is_enabled_in sp PRAGUE) eqn:E; auto.
  apply is_enabled_in_spec in E. lia.
Qed.

Lemma for_spec_from_prague c sp : PRAGUE <= sp -> for_spec c sp = c.
Proof.
  intros H. unfold for_spec. destruct (is_enabled_in sp PRAGUE) eqn:E; auto.
  apply is_enabled_in_spec in H. congruence.
Qed.

(* ------------------------------------------------------------------------------ the machine *)
Section MachineProofs.
  Variable St : Type.
  Variable addr : Type.
  Variable is_static : St -> bool.
  Variable spec_of : St -> spec.
  Variable target_address : St -> addr.
  Variable fetch : St -> nat.
  Variable pending : St -> bool.
  Variable drive : St -> St.
  Variable advance : St -> St.
  Variable charge : nat -> St -> option St.
  Variable halt_err : iresult -> St -> St.
  Variable host_load_delegated : addr -> St -> St * load_result.
  Variable create_body : bool -> St -> St * res.
  Variable other_instr : spec -> nat -> St -> St * res.
  Variable other_gas : spec -> nat -> nat.

  Notation stock_create := (stock_create St is_static spec_of create_body).
  Notation guarded_create :=
    (guarded_create St addr is_static spec_of target_address host_load_delegated create_body).
  Notation stock_table := (stock_table St is_static spec_of create_body other_instr other_gas).
  Notation gravity_instructions :=
    (gravity_instructions St addr is_static spec_of target_address host_load_delegated create_body
       other_instr other_gas).
  Notation build_evm_table :=
    (build_evm_table St addr is_static spec_of target_address host_load_delegated create_body
       other_instr other_gas).
  Notation scheduler_table :=
    (scheduler_table St addr is_static spec_of target_address host_load_delegated create_body
       other_instr other_gas).
  Notation istep := (istep St fetch advance charge halt_err).
  Notation mstep := (mstep St fetch pending drive advance charge halt_err).
  Notation run := (run St fetch pending drive advance charge halt_err).
  Notation delegated_create_at :=
    (delegated_create_at St addr is_static spec_of target_address fetch pending advance charge
       host_load_delegated).
  Notation create_in_nonplain_context :=
    (create_in_nonplain_context St addr target_address fetch pending advance charge
       host_load_delegated).
  Notation load s := (host_load_delegated (target_address s) s).

  (* the stock instruction is its prefix followed by the body *)
  Lemma stock_create_prefix c2 s :
    stock_create c2 s =
    match stock_prefix (is_static s) c2 (spec_of s) with
    | Some r => (s, Err r)
    | None => create_body c2 s
    end.
  Proof.
    unfold Model.stock_create, stock_prefix.
    destruct (is_static s); [reflexivity|].
    destruct (pre_petersburg_create2 c2 (spec_of s)); reflexivity.
  Qed.

  (* guard_decision_table: what guarded_create returns in each of the five cases, including which
     machine state it returns (the host is not consulted in the first two). *)
  Lemma guarded_create_decision c2 s :
    guarded_create c2 s =
    match guard_decision (is_static s) c2 (spec_of s) (snd (load s)) with
    | DStatic => (s, Err StateChangeDuringStaticCall)
    | DPrePetersburg => (s, Err NotActivated)
    | DFatal => (fst (load s), Err FatalExternalError)
    | DDelegated => (fst (load s), Err NotActivated)
    | DStock => stock_create c2 (fst (load s))
    end.
  Proof.
    unfold Model.guarded_create, guard_decision.
    destruct (is_static s); [reflexivity|].
    destruct (pre_petersburg_create2 c2 (spec_of s)); [reflexivity|].
    destruct (load s) as [s1 ld]; cbn [fst snd].
    destruct ld as [|[cold|]]; reflexivity.
  Qed.

  (* in every halting case the result is the one [decision_result] names *)
  Lemma guarded_create_result c2 s r :
    decision_result (guard_decision (is_static s) c2 (spec_of s) (snd (load s))) = Some r ->
    snd (guarded_create c2 s) = Err r.
  Proof.
    rewrite guarded_create_decision.
    destruct (guard_decision _ _ _ _); cbn [decision_result snd]; intros H; inversion H; reflexivity.
  Qed.

  Hypothesis load_own_plain_noop :
    forall s, snd (load s) = Loaded None -> fst (load s) = s.

  (* guard_eq_stock_unless_delegated: static frame, pre-Petersburg CREATE2, or a frame whose own
     account carries no designator: the guarded instruction IS the stock one (same state, same
     result), error cases included. *)
  Lemma guarded_eq_stock c2 s :
    match guard_decision (is_static s) c2 (spec_of s) (snd (load s)) with
    | DFatal | DDelegated => False
    | _ => True
    end ->
    guarded_create c2 s = stock_create c2 s.
  Proof.
    rewrite guarded_create_decision.
    unfold guard_decision, Model.stock_create.
    destruct (is_static s) eqn:Hs; [reflexivity|].
    destruct (pre_petersburg_create2 c2 (spec_of s)) eqn:Hp; [reflexivity|].
    destruct (snd (load s)) as [|[cold|]] eqn:Hl; try contradiction.
    intros _. rewrite (load_own_plain_noop s Hl), Hs, Hp. reflexivity.
  Qed.

  Lemma guarded_eq_stock_plain c2 s :
    snd (load s) = Loaded None -> guarded_create c2 s = stock_create c2 s.
  Proof.
    intros H. apply guarded_eq_stock. rewrite H. unfold guard_decision.
    destruct (is_static s); auto. destruct (pre_petersburg_create2 _ _); auto.
  Qed.

  Lemma guarded_eq_stock_static c2 s :
    is_static s = true -> guarded_create c2 s = stock_create c2 s.
  Proof. intros H. apply guarded_eq_stock. unfold guard_decision. now rewrite H. Qed.

  Lemma guarded_eq_stock_pre_petersburg s :
    spec_of s < PETERSBURG -> guarded_create true s = stock_create true s.
  Proof.
    intros H. apply guarded_eq_stock. unfold guard_decision, pre_petersburg_create2.
    destruct (is_static s); auto.
    replace (is_enabled_in (spec_of s) PETERSBURG) with false; [exact I|].
    symmetry. destruct (is_enabled_in _ _) eqn:E; auto. apply is_enabled_in_spec in E. lia.
  Qed.

  (* and when the frame's account does carry a designator (non-static, CREATE2 activated) the guard
     halts with NotActivated without running any part of the stock instruction *)
  Lemma guarded_halts_delegated c2 s cold :
    is_static s = false -> pre_petersburg_create2 c2 (spec_of s) = false ->
    snd (load s) = Loaded (Some cold) ->
    guarded_create c2 s = (fst (load s), Err NotActivated).
  Proof.
    intros Hs Hp Hl. rewrite guarded_create_decision. unfold guard_decision.
    now rewrite Hs, Hp, Hl.
  Qed.

  (* ---------------------------------------------------------------- tables *)

  Lemma gravity_at_create sp :
    gravity_instructions sp CREATE = {| e_fn := guarded_create false; e_gas := 0 |}.
  Proof. reflexivity. Qed.

  Lemma gravity_at_create2 sp :
    gravity_instructions sp CREATE2 = {| e_fn := guarded_create true; e_gas := 0 |}.
  Proof. reflexivity. Qed.

  (* table_differs_only_at_create *)
  Lemma gravity_other sp op :
    op <> CREATE -> op <> CREATE2 -> gravity_instructions sp op = stock_table sp op.
  Proof.
    intros H1 H2. unfold Model.gravity_instructions, insert_instruction.
    destruct (Nat.eqb_spec op CREATE2); [contradiction|].
    destruct (Nat.eqb_spec op CREATE); [contradiction|]. reflexivity.
  Qed.

  Lemma gravity_other_b sp op :
    is_create_op op = false -> gravity_instructions sp op = stock_table sp op.
  Proof.
    unfold is_create_op. rewrite orb_false_iff, !Nat.eqb_neq. intros [H1 H2].
    now apply gravity_other.
  Qed.

  (* static gas is the stock one for every opcode, the two replaced ones included *)
  Lemma gravity_gas sp op : e_gas _ (gravity_instructions sp op) = e_gas _ (stock_table sp op).
  Proof.
    unfold Model.gravity_instructions, insert_instruction, Model.stock_table.
    destruct (Nat.eqb_spec op CREATE2) as [->|H2]; [reflexivity|].
    destruct (Nat.eqb_spec op CREATE) as [->|H1]; reflexivity.
  Qed.

  (* inert_before_prague_or_disabled *)
  Lemma scheduler_table_stock c sp :
    sp < PRAGUE \/ forbid_delegated_create c = false -> scheduler_table c sp = stock_table sp.
  Proof.
    intros H. unfold Model.scheduler_table, Model.build_evm_table.
    fold (guard_selected c sp).
    destruct (guard_selected c sp) eqn:E; [|reflexivity].
    apply guard_selected_spec in E. destruct E as [E1 E2]. destruct H; [lia|congruence].
  Qed.

  Lemma scheduler_table_gravity c sp :
    PRAGUE <= sp -> forbid_delegated_create c = true -> scheduler_table c sp = gravity_instructions sp.
  Proof.
    intros H1 H2. unfold Model.scheduler_table, Model.build_evm_table.
    fold (guard_selected c sp).
    replace (guard_selected c sp) with true; [reflexivity|].
    symmetry. apply guard_selected_spec. auto.
  Qed.

  (* build_evm on its own (callers other than Scheduler): same gate *)
  Lemma build_evm_table_stock forbid sp :
    sp < PRAGUE \/ forbid = false -> build_evm_table forbid sp = stock_table sp.
  Proof.
    intros H. unfold Model.build_evm_table, build_evm_guarded.
    destruct H as [H | ->]; [|reflexivity].
    replace (is_enabled_in sp PRAGUE) with false; [now rewrite andb_false_r|].
    symmetry. destruct (is_enabled_in sp PRAGUE) eqn:E; auto. apply is_enabled_in_spec in E. lia.
  Qed.

  (* ---------------------------------------------------------------- lifting to runs *)

  Lemma run_S_end t n s : run t (S n) s = mstep t (run t n s).
  Proof.
    revert s. induction n as [|n IH]; intros s; [reflexivity|].
    change (run t (S (S n)) s) with (run t (S n) (mstep t s)). rewrite IH. reflexivity.
  Qed.

  (* one machine step: the two tables agree unless the step is a delegated-context create *)
  Lemma mstep_agree sp s :
    delegated_create_at s = false -> mstep (gravity_instructions sp) s = mstep (stock_table sp) s.
  Proof.
    intros Hd. unfold Model.mstep, Model.delegated_create_at in *.
    destruct (pending s) eqn:Hp; [reflexivity|]. cbn [negb andb] in Hd.
    destruct (is_create_op (fetch s)) eqn:Hc.
    2:{ unfold Model.istep. now rewrite (gravity_other_b sp _ Hc). }
    cbn [andb] in Hd.
    assert (Hc2 : Nat.eqb (fetch s) CREATE2 = false -> fetch s = CREATE).
    { intros Hn. apply is_create_op_spec in Hc. apply Nat.eqb_neq in Hn. tauto. }
    unfold Model.istep.
    destruct (Nat.eqb (fetch s) CREATE2) eqn:E2.
    - apply Nat.eqb_eq in E2. rewrite E2. rewrite gravity_at_create2.
      unfold Model.stock_table. cbn [Nat.eqb CREATE2 CREATE e_gas e_fn].
      destruct (charge 0 (advance s)) as [s2|]; [|reflexivity].
      rewrite guarded_eq_stock; [reflexivity|].
      destruct (guard_decision _ _ _ _); try discriminate; exact I.
    - rewrite (Hc2 eq_refl). rewrite gravity_at_create.
      unfold Model.stock_table. cbn [Nat.eqb CREATE e_gas e_fn].
      destruct (charge 0 (advance s)) as [s2|]; [|reflexivity].
      rewrite guarded_eq_stock; [reflexivity|].
      destruct (guard_decision _ _ _ _); try discriminate; exact I.
  Qed.

  (* runs_equal_unless_delegated_create: the run with the guarded table and the run with the stock
     table, from the same state, coincide step for step up to (and including the state in which)
     the first CREATE/CREATE2 executes in a delegated context - all programs, all fuels. *)
  Lemma runs_agree_prefix sp s n :
    (forall k, k < n -> delegated_create_at (run (stock_table sp) k s) = false) ->
    forall k, k <= n -> run (gravity_instructions sp) k s = run (stock_table sp) k s.
  Proof.
    intros Hn k. induction k as [|k IH]; intros Hk; [reflexivity|].
    rewrite !run_S_end. rewrite IH by lia. apply mstep_agree. apply Hn. lia.
  Qed.

  Lemma create_nonplain_weaker s :
    create_in_nonplain_context s = false -> delegated_create_at s = false.
  Proof.
    unfold Model.create_in_nonplain_context, Model.delegated_create_at.
    destruct (negb (pending s) && is_create_op (fetch s)); [|auto]. cbn [andb].
    destruct (charge 0 (advance s)) as [s2|]; [|auto].
    destruct (snd (load s2)) as [|[c|]]; try discriminate. intros _.
    unfold guard_decision. destruct (is_static s2); auto.
    destruct (pre_petersburg_create2 _ _); auto.
  Qed.

  Lemma runs_agree_no_nonplain_create sp s n :
    (forall k, k < n -> create_in_nonplain_context (run (stock_table sp) k s) = false) ->
    run (gravity_instructions sp) n s = run (stock_table sp) n s.
  Proof.
    intros H. apply (runs_agree_prefix sp s n); [|lia].
    intros k Hk. apply create_nonplain_weaker. auto.
  Qed.

  (* exactness: at the first delegated-context create the guarded run halts that frame with
     NotActivated (on the state the host load left), whatever the stock instruction would do *)
  Lemma first_delegated_create_halts sp s n s2 cold :
    (forall k, k < n -> delegated_create_at (run (stock_table sp) k s) = false) ->
    let sn := run (stock_table sp) n s in
    pending sn = false -> is_create_op (fetch sn) = true ->
    charge 0 (advance sn) = Some s2 ->
    is_static s2 = false ->
    pre_petersburg_create2 (Nat.eqb (fetch sn) CREATE2) (spec_of s2) = false ->
    snd (load s2) = Loaded (Some cold) ->
    run (gravity_instructions sp) (S n) s = halt_err NotActivated (fst (load s2)).
  Proof.
    intros Hn sn Hp Hc Hch Hs Hpp Hl.
    rewrite run_S_end. rewrite (runs_agree_prefix sp s n Hn n (le_n _)). fold sn.
    unfold Model.mstep. rewrite Hp. unfold Model.istep.
    apply is_create_op_spec in Hc. destruct Hc as [Hc|Hc]; rewrite Hc in *.
    - rewrite gravity_at_create. cbn [e_gas e_fn]. rewrite Hch.
      change (Nat.eqb CREATE CREATE2) with false in Hpp.
      now rewrite (guarded_halts_delegated false s2 cold Hs Hpp Hl).
    - rewrite gravity_at_create2. cbn [e_gas e_fn]. rewrite Hch.
      change (Nat.eqb CREATE2 CREATE2) with true in Hpp.
      now rewrite (guarded_halts_delegated true s2 cold Hs Hpp Hl).
  Qed.

  (* before Prague, or with the switch off, the engine's runs ARE stock runs (no hypothesis on the
     program at all) *)
  Lemma scheduler_runs_stock c sp fuel s :
    sp < PRAGUE \/ forbid_delegated_create c = false ->
    run (scheduler_table c sp) fuel s = run (stock_table sp) fuel s.
  Proof. intros H. now rewrite scheduler_table_stock. Qed.
End MachineProofs.

(* ---------------------------------------------------------------- the toy instance *)

Lemma toy_load_noop :
  forall s : toy, snd (toy_load tt s) = Loaded None -> fst (toy_load tt s) = s.
Proof. reflexivity. Qed.

(* a delegated frame running  PUSH-like(1) ; CREATE ; 2 : the stock run advances the nonce, the
   guarded run halts at the CREATE with the nonce untouched *)
Example toy_delegated_stock :
  let s := toy_run (toy_stock PRAGUE) 5 (toy_init [1; CREATE; 2] false PRAGUE (Some false)) in
  (t_nonce s, t_out s, t_halt s) = (8, [2; CREATE; 1], None).
Proof. vm_compute. reflexivity. Qed.

Example toy_delegated_guarded :
  let s := toy_run (toy_gravity PRAGUE) 5 (toy_init [1; CREATE; 2] false PRAGUE (Some false)) in
  (t_nonce s, t_out s, t_halt s) = (7, [1], Some NotActivated).
Proof. vm_compute. reflexivity. Qed.

(* a plain frame: both runs create *)
Example toy_plain_guarded :
  let s := toy_run (toy_gravity PRAGUE) 5 (toy_init [1; CREATE2; 2] false PRAGUE None) in
  (t_nonce s, t_out s, t_halt s) = (8, [2; CREATE2; 1], None).
Proof. vm_compute. reflexivity. Qed.

(* static frame / pre-Petersburg CREATE2: the stock errors, also in a delegated frame *)
Example toy_static_guarded :
  t_halt (toy_run (toy_gravity PRAGUE) 5 (toy_init [CREATE] true PRAGUE (Some true)))
  = Some StateChangeDuringStaticCall.
Proof. vm_compute. reflexivity. Qed.

Example toy_byzantium_create2 :
  t_halt (toy_run (toy_gravity BYZANTIUM) 5 (toy_init [CREATE2] false BYZANTIUM (Some true)))
  = Some NotActivated
  /\ t_halt (toy_run (toy_stock BYZANTIUM) 5 (toy_init [CREATE2] false BYZANTIUM (Some true)))
  = Some NotActivated.
Proof. vm_compute. split; reflexivity. Qed.
