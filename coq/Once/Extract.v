From Grevm Require Import Base.Util Once.Model.
Require Extraction. Require ExtrOcamlBasic.
Extraction Language OCaml.
Extraction "extract/once.ml" oinit ostep orun orun_diag.
