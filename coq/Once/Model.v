(* Once/Model.v - src/scheduler/control.rs run_once: every public entry point (execute,
   parallel_execute, fallback_sequential) reads the committed index (for the error's txid), then
   compare_exchange(false -> true) on [started]; only the winner runs the block.
   [started] is modified by RMWs only, so the statement is independent of the memory ordering. *)
From Grevm Require Import Base.Util.

Inductive cpc := CIdle | CEntered | CWon | CRan | CLost.

Record ostate := {
  started : bool;
  calls : nat -> cpc;
  body_runs : list nat;       (* ghost: which calls ran the block *)
  state_touched : list nat;   (* ghost: which calls touched outcomes / state / cursors *)
}.

Definition oinit : ostate := {| started := false; calls := fun _ => CIdle; body_runs := []; state_touched := [] |}.

Inductive oevent :=
| OEnter (c : nat)              (* read committed_idx for the error message *)
| OCas (c : nat) (ok : bool)    (* started.compare_exchange(false, true)    *)
| OBody (c : nat)               (* the closure: executes the block          *)
| OReturnErr (c : nat).         (* "a Scheduler can execute only once"      *)

Definition ostep (s : ostate) (e : oevent) : option ostate :=
  match e with
  | OEnter c =>
      match calls s c with
      | CIdle => Some {| started := started s; calls := upd (calls s) c CEntered; body_runs := body_runs s; state_touched := state_touched s |}
      | _ => None
      end
  | OCas c ok =>
      match calls s c with
      | CEntered =>
          if Bool.eqb ok (negb (started s)) then
            Some {| started := true; calls := upd (calls s) c (if ok then CWon else CLost);
                    body_runs := body_runs s; state_touched := state_touched s |}
          else None
      | _ => None
      end
  | OBody c =>
      match calls s c with
      | CWon => Some {| started := started s; calls := upd (calls s) c CRan;
                        body_runs := c :: body_runs s; state_touched := c :: state_touched s |}
      | _ => None
      end
  | OReturnErr c =>
      match calls s c with
      | CLost => Some s
      | _ => None
      end
  end.

Fixpoint orun (s : ostate) (tr : list oevent) : option ostate :=
  match tr with
  | [] => Some s
  | e :: tr' => match ostep s e with Some s' => orun s' tr' | None => None end
  end.

Fixpoint orun_diag (s : ostate) (tr : list oevent) (i : nat) : ostate * option nat :=
  match tr with
  | [] => (s, None)
  | e :: tr' => match ostep s e with Some s' => orun_diag s' tr' (S i) | None => (s, Some i) end
  end.
