From Grevm Require Import Base.Util Once.Model.

Definition is_winner (x : cpc) : bool := match x with CWon | CRan => true | _ => false end.

Record oinv (s : ostate) : Prop := {
  oi_unique : forall c d, is_winner (calls s c) = true -> is_winner (calls s d) = true -> c = d;
  oi_started : forall c, is_winner (calls s c) = true \/ calls s c = CLost -> started s = true;
  oi_body : forall c, In c (body_runs s) -> calls s c = CRan;
  oi_nodup : NoDup (body_runs s);
  oi_touch : forall c, In c (state_touched s) -> In c (body_runs s);
  oi_not_started : started s = false -> body_runs s = [] /\ state_touched s = [];
}.

Lemma oinv_init : oinv oinit.
Proof. constructor; simpl; auto; try discriminate; try contradiction.
  - intros c [H|H]; discriminate. - constructor. Qed.

Lemma oinv_step s e s' : oinv s -> ostep s e = Some s' -> oinv s'.
Proof.
  intros [Iu Is Ib In' It Ins] H. destruct e as [c|c ok|c|c]; simpl in H.
  - destruct (calls s c) eqn:E; try discriminate. inversion H; subst. constructor; simpl; auto.
    + intros a d Ha Hd. destruct (Nat.eq_dec a c) as [->|Ha']; [rewrite upd_same in Ha; discriminate|].
      destruct (Nat.eq_dec d c) as [->|Hd']; [rewrite upd_same in Hd; discriminate|].
      rewrite upd_other in Ha, Hd by auto. auto.
    + intros a Ha. destruct (Nat.eq_dec a c) as [->|Ha']; [rewrite upd_same in Ha; destruct Ha; discriminate|].
      rewrite upd_other in Ha by auto. eauto.
    + intros a Ha. destruct (Nat.eq_dec a c) as [->|Ha']; [apply Ib in Ha; congruence|].
      rewrite upd_other by auto. auto.
  - destruct (calls s c) eqn:E; try discriminate. destruct (Bool.eqb ok (negb (started s))) eqn:Eb; try discriminate.
    apply Bool.eqb_prop in Eb. inversion H; subst. constructor; simpl; auto.
    + intros a d Ha Hd.
      assert (Hw : forall x, x <> c -> is_winner (calls s x) = true -> started s = true) by (intros; eapply Is; eauto).
      destruct (Nat.eq_dec a c) as [->|Ha']; destruct (Nat.eq_dec d c) as [->|Hd']; auto.
      * rewrite upd_same in Ha. rewrite upd_other in Hd by auto. destruct (started s) eqn:Es; simpl in Ha; [discriminate|].
        apply Hw in Hd; auto. discriminate.
      * rewrite upd_same in Hd. rewrite upd_other in Ha by auto. destruct (started s) eqn:Es; simpl in Hd; [discriminate|].
        apply Hw in Ha; auto. discriminate.
      * rewrite upd_other in Ha, Hd by auto. auto.
    + intros a Ha. destruct (Nat.eq_dec a c) as [->|Ha']; [apply Ib in Ha; congruence|].
      rewrite upd_other by auto. auto.
    + discriminate.
  - destruct (calls s c) eqn:E; try discriminate. inversion H; subst. constructor; simpl; auto.
    + intros a d Ha Hd. apply Iu.
      * destruct (Nat.eq_dec a c) as [->|Ha']; [now rewrite E|now rewrite upd_other in Ha by auto].
      * destruct (Nat.eq_dec d c) as [->|Hd']; [now rewrite E|now rewrite upd_other in Hd by auto].
    + intros a Ha. apply (Is c). left. now rewrite E.
    + intros a [<-|Ha]; [now rewrite upd_same|].
      destruct (Nat.eq_dec a c) as [->|Ha']; [now rewrite upd_same|]. rewrite upd_other by auto. auto.
    + constructor; auto. intros Hin. apply Ib in Hin. congruence.
    + intros a [<-|Ha]; [left; auto|right; auto].
    + intros Hs. assert (started s = true) by (apply (Is c); left; now rewrite E). congruence.
  - destruct (calls s c) eqn:E; try discriminate. inversion H; subst. constructor; auto.
Qed.

Lemma oinv_run s tr s' : oinv s -> orun s tr = Some s' -> oinv s'.
Proof.
  revert s; induction tr as [|e tr IH]; simpl; intros s I H.
  - inversion H; subst; auto.
  - destruct (ostep s e) as [s1|] eqn:E; [|discriminate]. apply (IH s1); auto. eapply oinv_step; eauto.
Qed.
