(* C01 - parallel execution equals in-order revm execution.
   Property theorems only (closed by [exact] / tiny glue) + assumption audit.
   Model: Stm/Spec.v (in-order reference over arbitrary deterministic readers), Stm/Core.v
   (acceptor of the scheduler's hook-level events).  Any number of worker threads: the model has no
   thread count, an accepted event list is any interleaving of the per-transaction critical
   sections and of the finality and commit steps. *)
From Grevm Require Import Base.Util Stm.Spec Stm.Core Stm.Inv Stm.Safety.

(* whatever the interleaving, the committed outcomes followed by the sequential replay of the
   uncommitted suffix (what execute() returns, control.rs post_execute / fallback.rs) are the
   in-order outcomes, with the in-order first fatal error (index, error) or none *)
Theorem C01_returned_result_is_in_order :
  forall (b : block) (tr : list event) (s : state),
    run_trace b init tr = Some s ->
    replay_suffix b s = (fst (fst (seq_block b)), snd (seq_block b)).
Proof. exact replay_is_in_order. Qed.

(* a run that committed every transaction in the parallel phase returns exactly the in-order outcomes *)
Theorem C01_full_parallel_run_exact :
  forall (b : block) (tr : list event) (s : state),
    run_trace b init tr = Some s -> cidx s = ntx b ->
    outs s = fst (fst (seq_block b)) /\ snd (seq_block b) = None.
Proof.
  intros b tr s H Hc. pose proof (replay_is_in_order b tr s H) as R.
  unfold replay_suffix in R. rewrite Hc in R. unfold ntx in R. rewrite skipn_all in R. simpl in R.
  rewrite app_nil_r in R. inversion R. split; congruence.
Qed.

(* the invariant behind it holds in every reachable state *)
Theorem C01_invariant_reachable :
  forall (b : block) (tr : list event) (s : state), run_trace b init tr = Some s -> Inv b s.
Proof. exact Inv_reachable. Qed.

Print Assumptions C01_returned_result_is_in_order.
Print Assumptions C01_full_parallel_run_exact.
Print Assumptions C01_invariant_reachable.
