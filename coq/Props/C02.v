(* C02 - commits are in order, exactly once, final, and equal the in-order effect. *)
From Grevm Require Import Base.Util Stm.Spec Stm.Core Stm.Inv Stm.Safety.

(* at every instant (every reachable state, i.e. after every single commit) the committed outcomes
   and the committed entries are exactly the in-order execution of the first [cidx] transactions *)
Theorem C02_committed_prefix_exact :
  forall (b : block) (tr : list event) (s : state),
    run_trace b init tr = Some s ->
    exists Sg, seq_from b vempty 0 (firstn (cidx s) (txs b)) = (outs s, Sg, None) /\
               forall l k, Sg l k = mvstore s (cidx s) l k.
Proof. exact committed_prefix_exact. Qed.

(* every commit event hits exactly the next index; a commit that is refused changes nothing *)
Theorem C02_commits_in_order_exactly_once :
  forall (b : block) (s : state) (j kind : nat) (s' : state),
    Inv b s -> step b s (CDone j kind) = Some s' ->
    j = cidx s /\ (kind = 0 -> cidx s' = S j) /\ (kind <> 0 -> cidx s' = cidx s /\ outs s' = outs s).
Proof. exact commits_in_order. Qed.

(* a speculative result computed from state a predecessor changed afterwards is never final (hence
   never committed): a final transaction's last incarnation read, at every lookup, exactly the
   entry of the latest final predecessor - same writer, incarnation, value, not an estimate - or
   the pre-state where no predecessor wrote; and its own entries are exactly its write set *)
Theorem C02_final_reads_exact :
  forall (b : block) (tr : list event) (s : state) (j : nat),
    run_trace b init tr = Some s -> st s j = Final -> final_ok b s j.
Proof. exact final_reads_exact. Qed.

Print Assumptions C02_committed_prefix_exact.
Print Assumptions C02_commits_in_order_exactly_once.
Print Assumptions C02_final_reads_exact.
