(* C03 - invalid transactions are skipped exactly as in-order validation dictates. *)
From Grevm Require Import Base.Util Stm.Spec Stm.Core Stm.Lemmas Stm.Inv Stm.Safety.

(* the parallel phase never decides a skip: it only commits transactions whose nonce matches the
   committed (in-order exact, C02) state, and leaves everything else to the sequential replay *)
Theorem C03_parallel_commit_requires_in_order_nonce :
  forall (b : block) (s : state) (j : nat) (s' : state),
    step b s (CDone j 0) = Some s' -> nonce_ok b s j = true.
Proof.
  intros b s j s' H. unfold step in H. destruct (finished s); [discriminate|].
  unfold do_cdone in H. destruct (ctaken s); [|discriminate].
  apply guard_some in H. destruct H as [_ H].
  destruct (res s j) as [[lg rw [ws out|r|e]]|]; try discriminate.
  apply guard_some in H. destruct H as [Hg _]. apply andb_prop in Hg. tauto.
Qed.

(* skip positions and reasons of the returned outcome list are the in-order ones (C01), i.e. those
   of revm's validation against the state left by the preceding transactions *)
Theorem C03_skips_are_in_order :
  forall (b : block) (tr : list event) (s : state),
    run_trace b init tr = Some s ->
    fst (replay_suffix b s) = fst (fst (seq_block b)).
Proof. intros b tr s H. rewrite (replay_is_in_order b tr s H). reflexivity. Qed.

(* a skipped transaction changes nothing: the next transaction runs against the same store *)
Theorem C03_skip_changes_nothing :
  forall (b : block) (s : vstore) (j : nat) (t : tx) (ts : list tx) (r : nat),
    seq_tx b s j t = RInvalid r ->
    seq_from b s j (t :: ts) =
      let '(os, s', e) := seq_from b s (S j) ts in (OSkip r :: os, s', e).
Proof. intros b s j t ts r H. simpl. rewrite H. reflexivity. Qed.

(* with nonce checking disabled no nonce-based skip exists: validation is the body's own *)
Theorem C03_nonce_check_off_no_nonce_skip :
  forall (b : block) (s : vstore) (j : nat) (t : tx),
    chk b = false -> seq_tx b s j t = run b s j (body t).
Proof. intros b s j t H. unfold seq_tx. now rewrite H. Qed.

Print Assumptions C03_parallel_commit_requires_in_order_nonce.
Print Assumptions C03_skips_are_in_order.
Print Assumptions C03_skip_changes_nothing.
Print Assumptions C03_nonce_check_off_no_nonce_skip.
