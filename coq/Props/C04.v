(* C04 - errors are faithful and leave an exact committed prefix. *)
From Grevm Require Import Base.Util Stm.Spec Stm.Core Stm.Inv Stm.Safety.

(* Whenever the parallel phase is abandoned - for any reason, at any point of any interleaving -
   the committed outcomes and entries are an exact in-order prefix (C02), and the sequential replay
   from that prefix returns exactly the in-order first fatal error (index and error) or none:
   an error met only by a speculative attempt is never the one returned by the replay. *)
Theorem C04_error_after_replay_is_in_order :
  forall (b : block) (tr : list event) (s : state),
    run_trace b init tr = Some s ->
    snd (replay_suffix b s) = snd (seq_block b) /\
    fst (replay_suffix b s) = fst (fst (seq_block b)).
Proof. intros b tr s H. rewrite (replay_is_in_order b tr s H). split; reflexivity. Qed.

(* the in-order reference stops at the first fatal error: the outcomes returned with an error
   (i, e) are exactly i outcomes - the committed prefix is exact and ends at the failing index *)
Lemma seq_from_error_prefix b : forall ts s j os s' i e,
  seq_from b s j ts = (os, s', Some (i, e)) -> i = j + length os.
Proof.
  induction ts as [|t ts IH]; intros s j os s' i e H; simpl in H; [discriminate|].
  destruct (seq_tx b s j t) as [ws out|r|e0].
  - destruct (seq_from b (vwrite s j ws) (S j) ts) as [[os1 s1] e1] eqn:E. inversion H; subst.
    apply IH in E. simpl. lia.
  - destruct (seq_from b s (S j) ts) as [[os1 s1] e1] eqn:E. inversion H; subst.
    apply IH in E. simpl. lia.
  - inversion H; subst. simpl. lia.
Qed.

Theorem C04_error_index_is_prefix_length :
  forall (b : block) (tr : list event) (s : state) (i e : nat),
    run_trace b init tr = Some s ->
    snd (replay_suffix b s) = Some (i, e) -> i = length (fst (replay_suffix b s)).
Proof.
  intros b tr s i e H He. rewrite (replay_is_in_order b tr s H) in *. simpl in *.
  unfold seq_block in *. destruct (seq_from b vempty 0 (txs b)) as [[os s'] err] eqn:E. simpl in *. subst.
  apply seq_from_error_prefix in E. exact E.
Qed.

Print Assumptions C04_error_after_replay_is_in_order.
Print Assumptions C04_error_index_is_prefix_length.
