(* C05 - every execution terminates: no deadlock, lost wake-up, stall or stranded thread.

   What is proved here is the safety core of the termination argument at protocol level; the
   scheduling objects the argument rests on are C15 (validation cursor), C16 (dependency graph) and
   C17 (wait slots), and the composed liveness claim is checked dynamically by the deterministic
   driver on every driven run of every protocol property (deadlock = nobody runnable, stall =
   progress needs a park_timeout to expire, livelock = step budget).  See DESIGN.md section 6 C05:
   this property is claimed at level "proof" only for the statements below ([..._partial]); the
   fairness step is not proved. *)
From Grevm Require Import Base.Util Stm.Spec Stm.Core Stm.Inv Stm.InvProofs1 Stm.Safety.

(* finality, commit publication and the committed index only ever advance, one step at a time,
   and stay ordered: no transaction can be left behind a boundary that moved past it *)
Theorem C05_boundaries_ordered_partial :
  forall (b : block) (tr : list event) (s : state),
    run_trace b init tr = Some s ->
    cidx s <= fpub s /\ fpub s <= fidx s /\ fidx s <= ntx b /\
    (forall j, st s j = Final <-> j < fidx s).
Proof.
  intros b tr s H. destruct (Inv_reachable b tr s H) as (I1 & _).
  destruct (i1_commit b s I1) as (A & B & _). repeat split; auto.
  - apply (i1_fidx b s I1).
  - apply (i1_final b s I1).
  - apply (i1_final b s I1).
Qed.

(* a critical section can only be open on a transaction of the block that is not final: a final
   transaction is never locked again, so the finality and commit threads never wait for a worker
   on a transaction they have passed *)
Theorem C05_no_critical_section_on_final_partial :
  forall (b : block) (tr : list event) (s : state) (j : nat),
    run_trace b init tr = Some s -> cs s j <> None -> st s j <> Final /\ j < ntx b.
Proof.
  intros b tr s j H Hc. destruct (Inv_reachable b tr s H) as (I1 & _). split.
  - apply (cs_not_final b s j I1 Hc).
  - apply (cs_in_range b s j I1 Hc).
Qed.

Print Assumptions C05_boundaries_ordered_partial.
Print Assumptions C05_no_critical_section_on_final_partial.
