(* C05 - every execution terminates: no deadlock, lost wake-up, stall or stranded thread.

   What is proved here is the safety core of the termination argument at protocol level; the
   scheduling objects the argument rests on are C15 (validation cursor), C16 (dependency graph) and
   C17 (wait slots), and the composed liveness claim is checked dynamically by the deterministic
   driver on every driven run of every protocol property (deadlock = nobody runnable, stall =
   progress needs a park_timeout to expire, livelock = step budget).  See DESIGN.md section 6 C05:
   this property is claimed at level "proof" only for the statements below ([..._partial]); the
   fairness step is not proved. *)
From Grevm Require Import Base.Util Stm.Spec Stm.Core Stm.Lemmas Stm.Inv Stm.InvProofs1 Stm.Safety Stm.Head.

(* finality, commit publication and the committed index only ever advance, one step at a time,
   and stay ordered: no transaction can be left behind a boundary that moved past it *)
Theorem C05_boundaries_ordered_partial :
  forall (b : block) (tr : list event) (s : state),
    run_trace b init tr = Some s ->
    cidx s <= fpub s /\ fpub s <= fidx s /\ fidx s <= ntx b /\
    (forall j, st s j = Final <-> j < fidx s).
Proof.
  intros b tr s H. destruct (Inv_reachable b tr s H) as (I1 & _).
  destruct (i1_commit b s I1) as (A & B & _). repeat split; auto.
  - apply (i1_fidx b s I1).
  - apply (i1_final b s I1).
  - apply (i1_final b s I1).
Qed.

(* a critical section can only be open on a transaction of the block that is not final: a final
   transaction is never locked again, so the finality and commit threads never wait for a worker
   on a transaction they have passed *)
Theorem C05_no_critical_section_on_final_partial :
  forall (b : block) (tr : list event) (s : state) (j : nat),
    run_trace b init tr = Some s -> cs s j <> None -> st s j <> Final /\ j < ntx b.
Proof.
  intros b tr s j H Hc. destruct (Inv_reachable b tr s H) as (I1 & _). split.
  - apply (cs_not_final b s j I1 Hc).
  - apply (cs_in_range b s j I1 Hc).
Qed.

(* the inductive step of the termination argument: once every predecessor of j is final
   (j = fidx), an attempt of j that begins then can meet no estimate in multi-version memory (it
   is never blocked behind a predecessor), and every multi-version read its result records still
   resolves whenever it is validated - however the other transactions, the finality and the commit
   threads interleave afterwards.  So, as far as multi-version reads go, the head transaction
   needs at most one more attempt; by induction on j every transaction needs finitely many.
   (Reads of the fee recipient are validated by the reward history: C07.) *)
Theorem C05_head_attempt_is_never_invalidated_partial :
  forall (b : block) tr1 s0 j n s1 tr2 s,
    run_trace b init tr1 = Some s0 -> j = fidx s0 -> step b s0 (XBegin j n) = Some s1 ->
    run_trace b s1 tr2 = Some s -> inc s j = n ->
    (forall l w e, lb (mv s l) j = Some (w, e) -> eest e = false) /\
    (st s j <> Executing -> forall r l ver, res s j = Some r ->
       lookup_ver l (mv_reads (rlog r)) = Some ver -> resolves s j l ver = true).
Proof. exact head_attempt_stable. Qed.

(* non-vacuity: a two-transaction block in which tx 1 reads what tx 0 wrote; tx 0 is executed,
   validated and made final, then tx 1's first attempt begins at the head, reads tx 0's entry and
   settles *)
Definition ex_t0 : tx := {| body := Done (ROk [(0, 5)] 1); nonce_loc := 7; tx_nonce := 0 |}.
Definition ex_t1 : tx :=
  {| body := Rd 0 (fun o => Done (ROk [] (match o with Some (_, v) => v | None => 0 end))); nonce_loc := 8; tx_nonce := 0 |}.
Definition ex_b : block :=
  {| txs := [ex_t0; ex_t1]; pre := fun _ => 0; marker := fun _ => None; nonce_of := fun v => v; chk := false;
     nonce_reason := fun _ _ => 0; ben_loc := None; ben_obs := fun _ => 0 |}.
Definition ex_tr1 : list event :=
  [XClaim 0 Initial 0; XBegin 0 1; XPublish 0 0 1 5 false; XRet 0 1 0 false; XStatus 0 false true; Tick 0 1;
   Lower 0 0 1; XEnd 0 1; VClaim 0 Executed 1; VBegin 0 1 2; VScanned 0 false; VStatus 0 false 2; VEnd 0;
   Finalize 0 1 1; XClaim 1 Initial 0].
Definition ex_tr2 : list event := [XRead 1 0 (Some (0, 1)) false; XRet 1 1 0 false; XStatus 1 false true].
Example C05_head_attempt_witness :
  exists s0 s1 s, run_trace ex_b init ex_tr1 = Some s0 /\ fidx s0 = 1 /\ step ex_b s0 (XBegin 1 1) = Some s1 /\
                  run_trace ex_b s1 ex_tr2 = Some s /\ inc s 1 = 1 /\ st s 1 = Executed /\
                  exists r, res s 1 = Some r /\ lookup_ver 0 (mv_reads (rlog r)) = Some (Some (0, 1)).
Proof.
  destruct (run_trace ex_b init ex_tr1) as [s0|] eqn:E0; [|vm_compute in E0; discriminate].
  destruct (step ex_b s0 (XBegin 1 1)) as [s1|] eqn:E1.
  2:{ revert E1. vm_compute in E0. inversion E0; subst. vm_compute. discriminate. }
  destruct (run_trace ex_b s1 ex_tr2) as [s|] eqn:E2.
  2:{ revert E2. vm_compute in E0. inversion E0; subst. vm_compute in E1. inversion E1; subst. vm_compute. discriminate. }
  exists s0, s1, s. vm_compute in E0. inversion E0; subst. vm_compute in E1. inversion E1; subst.
  vm_compute in E2. inversion E2; subst. repeat split; try reflexivity.
  eexists. split; reflexivity.
Qed.

(* ... and the finality guard never refuses the head: a validation of j that begins while every
   predecessor of j is final and ends without conflict leaves the finality step enabled in every
   later state in which j is still the head, Unconfirmed and unlocked - no rewind that can still
   be published covers it.  With the previous theorem: once its predecessors are final a
   transaction needs at most one more execution, one validation and the finality step. *)
Theorem C05_head_validation_is_finalisable_partial :
  forall (b : block) tr1 s0 j n ts s1 tr2 s,
    run_trace b init tr1 = Some s0 -> j = fidx s0 -> step b s0 (VBegin j n ts) = Some s1 ->
    run_trace b s1 tr2 = Some s ->
    fidx s = j -> st s j = Unconfirmed -> cs s j = None -> finished s = false ->
    exists s', step b s (Finalize j (inc s j) (Nat.max (carried s) (lower s j))) = Some s'.
Proof. exact head_validation_is_finalisable. Qed.

(* non-vacuity, continuing the witness above: tx 1 is validated at the head and is finalisable *)
Definition ex_pre : list event := ex_tr1 ++ [XBegin 1 1] ++ ex_tr2 ++ [XEnd 1 1; VClaim 1 Executed 1].
Definition ex_post : list event := [VCheck 1 0 (Some (0, 1)) false; VScanned 1 false; VStatus 1 false 3; VEnd 1].
Example C05_head_validation_witness :
  exists s0 s1 s, run_trace ex_b init ex_pre = Some s0 /\ fidx s0 = 1 /\ step ex_b s0 (VBegin 1 1 3) = Some s1 /\
                  run_trace ex_b s1 ex_post = Some s /\ fidx s = 1 /\ st s 1 = Unconfirmed /\ cs s 1 = None /\
                  finished s = false.
Proof.
  destruct (run_trace ex_b init ex_pre) as [s0|] eqn:E0; [|vm_compute in E0; discriminate].
  destruct (step ex_b s0 (VBegin 1 1 3)) as [s1|] eqn:E1.
  2:{ revert E1. vm_compute in E0. inversion E0; subst. vm_compute. discriminate. }
  destruct (run_trace ex_b s1 ex_post) as [s|] eqn:E2.
  2:{ revert E2. vm_compute in E0. inversion E0; subst. vm_compute in E1. inversion E1; subst. vm_compute. discriminate. }
  exists s0, s1, s. vm_compute in E0. inversion E0; subst. vm_compute in E1. inversion E1; subst.
  vm_compute in E2. inversion E2; subst. repeat split; reflexivity.
Qed.

Print Assumptions C05_boundaries_ordered_partial.
Print Assumptions C05_head_validation_is_finalisable_partial.
Print Assumptions C05_head_attempt_is_never_invalidated_partial.
Print Assumptions C05_no_critical_section_on_final_partial.
