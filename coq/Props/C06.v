(* C06 - results do not depend on worker count, thresholds, sequential mode or timing. *)
From Grevm Require Import Base.Util Stm.Spec Stm.Core Stm.Inv Stm.Safety.

(* two executions of the same block - any worker counts, any schedules, any point at which the
   parallel phase was abandoned for the sequential replay (including "immediately": forced
   sequential, below the size threshold, fallback_sequential()) - return the same outcomes and
   the same error *)
Theorem C06_config_and_schedule_independent :
  forall (b : block) (tr1 tr2 : list event) (s1 s2 : state),
    run_trace b init tr1 = Some s1 -> run_trace b init tr2 = Some s2 ->
    replay_suffix b s1 = replay_suffix b s2.
Proof.
  intros b tr1 tr2 s1 s2 H1 H2.
  rewrite (replay_is_in_order b tr1 s1 H1), (replay_is_in_order b tr2 s2 H2). reflexivity.
Qed.

(* the purely sequential path is the empty trace *)
Theorem C06_sequential_path_is_reference :
  forall (b : block), replay_suffix b init = (fst (fst (seq_block b)), snd (seq_block b)).
Proof. intros b. exact (replay_is_in_order b [] init eq_refl). Qed.

Print Assumptions C06_config_and_schedule_independent.
Print Assumptions C06_sequential_path_is_reference.
