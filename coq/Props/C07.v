(* C07 - fee-recipient accounting is exact, deferred or immediate.
   This file contains only property theorems (closed by [exact]) and their assumption audit.
   The model is Ben/Model.v; satisfiability examples for every hypothesis are in Ben/ProofsExamples.v. *)
From Grevm Require Import Base.Util Ben.Model Ben.Proofs Ben.ProofsReward.
Open Scope N_scope.

(* --- reads fold exactly the preceding credits, in transaction order ------------------------- *)

(* if the entries below the reader are exact with effects e_0..e_{t-1} (any incarnations), the
   read is the in-order fold of those effects over the block anchor: each reward credited with
   revm's checked add in transaction order (an overflowing credit is skipped individually), a
   snapshot replaces the value; the version is the chain down to the nearest snapshot *)
Theorem C07_resolve_exact :
  forall h ies, exact_prefix (entries h) ies ->
  resolve_before h (length ies) =
  Some (inr (fold_left apply_effect (map snd ies) (anchor h), chain_spec ies)).
Proof. exact resolve_exact. Qed.

Theorem C07_chain_spec_In :
  forall ies t i,
  In (t, i) (chain_spec ies) <->
  (t < length ies)%nat /\ (exists e, nth_opt ies t = Some (i, e)) /\
  forall j ie, (t < j < length ies)%nat -> nth_opt ies j = Some ie -> is_snapshot (snd ie) = false.
Proof. exact chain_spec_In. Qed.

(* a read is blocked by k exactly when k is the newest estimate above the nearest snapshot *)
Theorem C07_resolve_blocked_iff :
  forall h t k, (t <= length (entries h))%nat ->
  (resolve_before h t = Some (inl k) <->
   (k < t)%nat /\ is_estimate_at (entries h) k /\
   forall j, (k < j < t)%nat -> is_reward_or_unchanged_at (entries h) j).
Proof. exact resolve_blocked_iff. Qed.

(* --- incarnation guards --------------------------------------------------------------------- *)

Theorem C07_record_stale_noop :
  forall h t i v e, nth_opt (entries h) t = Some e -> i <= inc e -> record h t i v = Some (h, false).
Proof. exact record_stale_noop. Qed.

Theorem C07_record_monotone :
  forall h ops k e e',
  nth_opt (entries h) k = Some e -> nth_opt (entries (mrun h ops)) k = Some e' -> inc e <= inc e'.
Proof. exact record_monotone. Qed.

Theorem C07_invalidate_exact_incarnation :
  forall h t i e, nth_opt (entries h) t = Some e -> inc e <> i -> invalidate h t i = Some (h, false).
Proof. exact invalidate_other_incarnation_noop. Qed.

Theorem C07_invalidate_same_incarnation :
  forall h t e, nth_opt (entries h) t = Some e ->
  exists h', invalidate h t (inc e) = Some (h', true) /\ anchor h' = anchor h /\
    length (entries h') = length (entries h) /\
    nth_opt (entries h') t = Some (mkEntry (inc e) Estimate) /\
    forall k, k <> t -> nth_opt (entries h') k = nth_opt (entries h) k.
Proof. exact invalidate_same_incarnation. Qed.

(* (txid, incarnation) identifies one effect, over every sequence of records / invalidations *)
Theorem C07_effect_of_version_unique :
  forall h ops k i e1 e2,
  nth_opt (entries h) k = Some (mkEntry i (Exact e1)) ->
  nth_opt (entries (mrun h ops)) k = Some (mkEntry i (Exact e2)) ->
  e1 = e2.
Proof. exact effect_of_version_unique. Qed.

(* a read that validates would resolve now to exactly the account read then *)
Theorem C07_validate_sound :
  forall h ops t a v dep,
  resolve_before h t = Some (inr (a, v)) ->
  validate (mrun h ops) t v = Some (true, dep) ->
  resolve_before (mrun h ops) t = Some (inr (a, v)).
Proof. exact validate_sound. Qed.

(* --- the reward arithmetic ------------------------------------------------------------------- *)

Theorem C07_reward_formula_eq :
  forall cfg basefee tx g, from_gas cfg basefee tx g = hook_amount cfg basefee tx g.
Proof. exact reward_formula_eq. Qed.

Theorem C07_reward_pre_london :
  forall cfg basefee tx g, fee_disabled cfg = false -> spec cfg < LONDON ->
  from_gas cfg basefee tx g = Some ((effective_gas_price tx basefee * effective_used g) mod U128).
Proof. exact from_gas_pre_london. Qed.

Theorem C07_reward_london :
  forall cfg basefee tx g, fee_disabled cfg = false -> LONDON <= spec cfg ->
  from_gas cfg basefee tx g =
  Some (((effective_gas_price tx basefee - basefee) * effective_used g) mod U128).
Proof. exact from_gas_london. Qed.

Theorem C07_priority_price_1559 :
  forall tx basefee p, 2 <= tx_type tx -> prio_fee tx = Some p -> basefee + p < U128 ->
  effective_gas_price tx basefee - basefee = N.min (gas_price tx - basefee) p.
Proof. exact priority_price_1559. Qed.

(* a non-zero reward through revm's own hook (load, touch, checked add, finalize, commit) is apply_to *)
Theorem C07_apply_to_eq_revm_hook :
  forall cfg basefee tx g db r,
  hook_amount cfg basefee tx g = Some r -> r <> 0 ->
  let j := option_map (finalize (spec cfg)) (revm_hook cfg basefee tx g None db) in
  commit_acct db j = Some (apply_to r db) /\
  from_execution None j = Some (Snapshot (Some (apply_to r db))).
Proof. exact apply_to_eq_revm_hook. Qed.

(* only a non-zero reward with the beneficiary outside the journal is deferred *)
Theorem C07_deferral_rule :
  forall m cfg basefee tx g journal db j' r,
  mode_apply m cfg basefee tx g journal db = (j', Some r) ->
  m = Deferred /\ r <> 0 /\ journal = None /\ j' = None /\ from_gas cfg basefee tx g = Some r.
Proof. exact deferral_rule. Qed.

(* an absent, unloaded beneficiary is materialised exactly by a non-zero credit (state-clearing forks) *)
Theorem C07_absent_materialised_only_by_nonzero :
  forall cfg basefee tx g,
  spec_enabled (spec cfg) SPURIOUS_DRAGON = true ->
  let '(j, d) := mode_apply Deferred cfg basefee tx g None None in
  exists c', commit_fold None (option_map (finalize (spec cfg)) j) d = Some c' /\
    (c' <> None <-> exists r, from_gas cfg basefee tx g = Some r /\ r <> 0) /\
    (forall r, from_gas cfg basefee tx g = Some r -> r <> 0 -> c' = Some (mkAcct r 0 0)).
Proof. exact absent_materialised_only_by_nonzero. Qed.

Theorem C07_absent_stays_absent_without_credit :
  forall h t a v,
  anchor h = None ->
  resolve_before h t = Some (inr (a, v)) ->
  (forall k i, In (k, i) v -> exists i', nth_opt (entries h) k = Some (mkEntry i' (Exact Unchanged))) ->
  a = None.
Proof. exact absent_stays_absent_without_credit. Qed.

(* --- deferred = immediate --------------------------------------------------------------------- *)

(* one transaction with an arbitrary body, from the same beneficiary value *)
Theorem C07_deferred_step_eq_immediate :
  forall cfg basefee tx c,
  let '(j, d) := exec_tx Deferred cfg basefee tx c in
  exists e, from_execution d j = Some e /\
            commit_fold c j d = Some (imm_step cfg basefee c tx) /\
            apply_effect c e = imm_step cfg basefee c tx.
Proof. exact deferred_step_eq_immediate. Qed.

(* a block: committed account and every later read equal in-order revm, after every transaction *)
Theorem C07_deferred_fold_eq_immediate :
  forall cfg basefee a txs incs n,
  length incs = length txs -> (length txs <= n)%nat -> Forall (fun i => 0 < i) incs ->
  exists h,
    def_run cfg basefee (new_hist a n, a, 0%nat) (combine txs incs) =
      Some (h, imm_after cfg basefee a txs, length txs) /\
    forall t, (t <= length txs)%nat ->
      exists v, resolve_before h t = Some (inr (imm_after cfg basefee a (firstn t txs), v)).
Proof. exact deferred_fold_eq_immediate. Qed.

Print Assumptions C07_resolve_exact.
Print Assumptions C07_chain_spec_In.
Print Assumptions C07_resolve_blocked_iff.
Print Assumptions C07_record_stale_noop.
Print Assumptions C07_record_monotone.
Print Assumptions C07_invalidate_exact_incarnation.
Print Assumptions C07_invalidate_same_incarnation.
Print Assumptions C07_effect_of_version_unique.
Print Assumptions C07_validate_sound.
Print Assumptions C07_reward_formula_eq.
Print Assumptions C07_reward_pre_london.
Print Assumptions C07_reward_london.
Print Assumptions C07_priority_price_1559.
Print Assumptions C07_apply_to_eq_revm_hook.
Print Assumptions C07_deferral_rule.
Print Assumptions C07_absent_materialised_only_by_nonzero.
Print Assumptions C07_absent_stays_absent_without_credit.
Print Assumptions C07_deferred_step_eq_immediate.
Print Assumptions C07_deferred_fold_eq_immediate.
