(* C08 - in-block account deletion, creation and storage reset are seen correctly.
   This file contains only property theorems (closed by [exact]) and their assumption audit.
   Model: Flat/Model.v (src/incarnation_db.rs publish_writes / storage, src/account.rs). *)
From Grevm Require Import Base.Util Flat.Model Flat.ProofsBase Flat.ProofsStorage Flat.ProofsBasic Flat.ProofsRead Flat.ProofsAttempt.

(* For every block of finalised per-transaction states (one entry per address in each), every
   reading transaction index t, address and slot: the flat read (newest reset marker vs newest slot
   version below t, tie to the slot, marker masks the backing store) returns exactly the storage of
   the structured in-order state after the first t transactions - zero after a deletion or creation,
   the creating transaction's own writes, untouched storage where the classification is Updated,
   create+destroy in one transaction - whatever the beneficiary, incarnation numbers and estimate
   flags are. *)
Theorem C08_flat_refines_struct :
  forall (bm : N -> bool) (b : base) (effs : list txeff),
  addrs_nodup effs ->
  forall t a s,
  ac_val (rd_storage (publish_all bm effs) (backing_of b) t a s) =
  Ok (s_stor (apply_all (sstate_of b) (firstn t effs)) a s).
Proof. exact flat_refines_struct_storage. Qed.

(* The storage read is determined by the versions it recorded for StorageReset(a) AND Storage(a, s): if
   both locations resolve to the recorded versions at validation time (in a memory where a version
   determines its value), the validated memory yields the same value - even when the reader's two
   lookups saw different memories (a destroying transaction published between them). *)
Theorem C08_readset_determines_storage :
  forall mr ms m' bk t a s,
  kinded mr -> kinded ms -> kinded m' -> version_determines mr m' -> version_determines ms m' ->
  (forall l v, In (l, v) (ac_reads (rd_storage2 mr ms bk t a s)) -> resolve m' l t = v) ->
  ac_val (rd_storage m' bk t a s) = ac_val (rd_storage2 mr ms bk t a s).
Proof. exact readset_determines_storage. Qed.

(* publication keeps every location holding values of its own kind (hypothesis [kinded] above) *)
Theorem C08_publish_kinded :
  forall m k inc est bm sn ch, kinded m -> kinded (fst (publish_writes m k inc est bm sn ch)).
Proof. exact publish_kinded. Qed.

(* Ordered commit may already have moved the first c <= t transactions into the backing store (with
   the storage of destroyed / created / empty-touched accounts cleared, parallel_state.rs:296-359):
   the read returns the same in-order value through any such store. *)
Theorem C08_storage_through_committed_prefix :
  forall (bm : N -> bool) (b : base) (effs : list txeff),
  addrs_nodup effs ->
  forall c t a s, c <= t ->
  ac_val (rd_storage (publish_all bm effs) (backing_of (committed_base b effs c)) t a s) =
  Ok (s_stor (apply_all (sstate_of b) (firstn t effs)) a s).
Proof. exact storage_committed_prefix. Qed.

(* The whole incarnation (repaired code, fix 1f61367; finding F8). The scheduler validates one recorded
   version per location, and an incarnation resolves several slots of an account against the account's
   reset marker while writers publish concurrently. [run (step_new bk)] is the repaired
   IncarnationDb::storage (the first recorded marker version is reused; [do_storage], which the
   differential harness runs against the real code, is [step_new] with one memory). If every version of
   the final read set still resolves at validation time, every slot value the incarnation read is the
   value an execution against the validated memory reads. Each slot is read at most once (revm's journal
   loads a slot from the database once per transaction). *)
Theorem C08_attempt_reads_determined :
  forall bk m' t inc (rs : list sread),
  kinded m' ->
  NoDup (map sr_slot rs) ->
  mems_ok m' rs ->
  (forall l v, In (l, v) (is_reads (fst (run (step_new bk) (begin_incarnation t inc) rs))) -> resolve m' l t = v) ->
  snd (run (step_new bk) (begin_incarnation t inc) rs) = map (in_order_value m' bk t) rs.
Proof. exact attempt_reads_determined. Qed.

(* The same statement is FALSE of the code before the fix ([step_old]: the marker is looked up again for
   every slot and the recorded version replaced): transaction 1 publishes its marker between the two
   slot reads of transaction 2; every hypothesis holds, the read set validates, and slot 0 was read as 9
   where the validated memory gives 0. Replayed on the real code: seeded/findings/C11-F8-unfixed-tree-replay.json *)
Theorem C08_old_read_set_unsound_refuted :
  kinded f8_m2 /\ NoDup (map sr_slot f8_reads) /\ mems_ok f8_m2 f8_reads /\
  (forall l v, In (l, v) (is_reads (fst (run (step_old f8_bk) (begin_incarnation 2 1) f8_reads))) -> resolve f8_m2 l 2 = v) /\
  snd (run (step_old f8_bk) (begin_incarnation 2 1) f8_reads) = [Ok 9%N; Ok 0%N] /\
  map (in_order_value f8_m2 f8_bk 2) f8_reads = [Ok 0%N; Ok 0%N].
Proof. exact old_read_set_unsound. Qed.

Print Assumptions C08_flat_refines_struct.
Print Assumptions C08_attempt_reads_determined.
Print Assumptions C08_old_read_set_unsound_refuted.
Print Assumptions C08_storage_through_committed_prefix.
Print Assumptions C08_readset_determines_storage.
Print Assumptions C08_publish_kinded.
