(* C09 - in-block code changes (CREATE, EIP-7702 set / re-point / clear) reach later txs.
   This file contains only property theorems (closed by [exact]) and their assumption audit.
   Model: Flat/Model.v (src/incarnation_db.rs publish_writes / basic / code_by_address). *)
From Grevm Require Import Base.Util Flat.Model Flat.ProofsBase Flat.ProofsStorage Flat.ProofsBasic Flat.ProofsRead Flat.ProofsCommit.

(* For every block of finalised per-transaction states that is in-order consistent (the snapshot each
   writer took is the in-order pre-state; revm attaches the code of a non-empty hash and a delegation
   is only cleared with a nonce bump: [consistent_from]), under the standing hypothesis that code is a
   function [cf] of its hash, every reading transaction index t and every non-beneficiary address: the
   flat account read (newest Basic version with the code stripped, code from the newest Code version
   or from the backing store by hash) returns the account of the structured in-order state after the
   first t transactions, code included - deployments, delegation set, re-pointed, cleared (no Code
   entry is published, the Basic entry carries the empty hash), set again to a previous target. *)
Theorem C09_basic_code_refines_struct :
  forall (cf : N -> N) (bm : N -> bool) (b : base) (effs : list txeff),
  base_ok cf b -> consistent_from cf bm (sstate_of b) effs ->
  forall (br : nat -> benres) t a, bm a = false ->
  exists r, ac_val (rd_basic (publish_all bm effs) (backing_of b) bm br t a) = Ok r /\
            option_map norm r = option_map norm (struct_basic b (apply_all (sstate_of b) (firstn t effs)) a).
Proof. exact basic_code_refines_struct_. Qed.

(* ... while storage follows in-order semantics whatever happens to the code (re-delegation keeps
   storage; CREATE resets it) *)
Theorem C09_storage_unaffected_by_code_changes :
  forall (cf : N -> N) (bm : N -> bool) (b : base) (effs : list txeff),
  consistent_from cf bm (sstate_of b) effs ->
  forall t a s,
  ac_val (rd_storage (publish_all bm effs) (backing_of b) t a s) =
  Ok (s_stor (apply_all (sstate_of b) (firstn t effs)) a s).
Proof. intros cf bm b effs H. exact (flat_refines_struct_storage bm b effs (consistent_nodup _ _ _ _ H)). Qed.

(* The account read is determined by the versions it recorded for Basic(a) AND Code(a): if both
   locations resolve to the recorded versions at validation time the validated memory yields the same
   account - even when the reader's two lookups saw different memories (a re-point published between
   them). *)
Theorem C09_readset_determines_basic :
  forall mb mc m' bk bm br t a r,
  bm a = false ->
  kinded mb -> kinded mc -> kinded m' -> version_determines mb m' -> version_determines mc m' ->
  ac_val (rd_basic2 mb mc bk bm br t a) = Ok r ->
  (forall l v, In (l, v) (ac_reads (rd_basic2 mb mc bk bm br t a)) -> resolve m' l t = v) ->
  ac_val (rd_basic m' bk bm br t a) = Ok r.
Proof. exact readset_determines_basic. Qed.

(* A Basic write is suppressed only when balance, nonce and code hash equal what was read; a Code write
   only when the hash that was read is the post-state hash. *)
Theorem C09_publish_minimal_sound :
  forall cf bm sn a acct i sl pre,
  (classify acct = Created i sl \/ classify acct = Updated i sl) ->
  bm a = false -> sn a = option_map abasic_of pre -> info_ok cf pre i ->
  (assoc_last (LBasic a) (writes_of_account bm sn a acct) = None ->
     exists p, pre = Some p /\ strip p = strip i) /\
  (assoc_last (LCode a) (writes_of_account bm sn a acct) = None -> empty_code_hash i = false ->
     exists p, pre = Some p /\ empty_code_hash p = false /\ i_hash p = i_hash i).
Proof. exact publish_minimal_sound_. Qed.

(* The nonce-bump clause of [info_ok] is necessary (a fact about the code, not reachable through revm,
   which bumps the authority's nonce on every applied authorisation): an account that loses its code
   with unchanged balance and nonce publishes nothing. *)
Theorem C09_publish_minimal_needs_nonce_bump :
  classify pm_acct = Updated pm_post [] /\
  writes_of_account (fun _ => false) (fun _ => Some (abasic_of pm_pre)) 1%N pm_acct = [] /\
  strip pm_pre <> strip pm_post.
Proof. exact publish_minimal_needs_nonce_bump. Qed.

(* ... and the same through a backing store into which ordered commit has already moved the first
   c <= t transactions (accounts written / deleted, code attached). *)
Theorem C09_basic_through_committed_prefix :
  forall (cf : N -> N) (bm : N -> bool) (b : base) (effs : list txeff),
  base_ok cf b -> consistent_from cf bm (sstate_of b) effs ->
  forall (br : nat -> benres) c t a, c <= t -> bm a = false ->
  exists r, ac_val (rd_basic (publish_all bm effs) (backing_of (committed_base b effs c)) bm br t a) = Ok r /\
            option_map norm r = option_map norm (struct_basic b (apply_all (sstate_of b) (firstn t effs)) a).
Proof. exact basic_committed_prefix. Qed.

Print Assumptions C09_basic_code_refines_struct.
Print Assumptions C09_basic_through_committed_prefix.
Print Assumptions C09_storage_unaffected_by_code_changes.
Print Assumptions C09_readset_determines_basic.
Print Assumptions C09_publish_minimal_sound.
Print Assumptions C09_publish_minimal_needs_nonce_bump.
