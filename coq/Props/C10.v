(* C10 - ParallelState is a faithful stand-in for revm State (bundle, reverts, reads).
   This file contains only property theorems (closed by [exact] / tiny glue), their assumption
   audit, and examples showing that the hypotheses are satisfiable / what fails without them.

   Models: Cache/Status.v (shared), Cache/Revm.v (revm State), Cache/Par.v (grevm ParallelState),
   Cache/Bundle.v (bundle builders; revm's per-account callees are Section variables, hence the
   quantified [BA RV present create_revert update_revert ba_size rv_size]), Cache/Conc.v (reader
   and committer as interleaved atomic groups). *)
From Grevm Require Import Base.Util Cache.Status Cache.Revm Cache.Par Cache.Bundle Cache.Conc
  Cache.SimProofs Cache.ReadProofs Cache.ReadHistory Cache.BundleProofs Cache.ConcProofs.
Open Scope N_scope.

(* ------------------------------------------------------------------------------------------
   par_simulates_revm.  For every operation history (commits of arbitrary finalised states,
   increments, drains, reads, merges; any number of blocks on the same state, with or without
   bundle update) on which grevm does not panic: revm's State produces the same outputs - the
   transitions of every commit / increment / drain, the drained balances, every value returned by
   basic / storage / code reads, the TransitionState handed to every merge - and afterwards every
   account, slot and code answer and the pending TransitionState are equal.
   Hypotheses on the input:
     db_wf0   the database has no storage for an address that has no account;
     code_ok  the code carried by a created account is what the database serves for its hash
              (see C10_created_code_needs_db below for what happens otherwise);
     no OutPanic: every touched account of a commit was loaded before (parallel_state.rs:291),
              drained balances fit u128 (a created account without code no longer panics: fix 31a4458, F10). *)
Theorem C10_par_simulates_revm :
  forall d bundle_update ops outs p',
    db_wf0 d -> Forall (code_ok d) ops ->
    p_run d (p_init bundle_update) ops = (outs, p') -> ~ In OutPanic outs ->
    exists r', r_run d (r_init bundle_update) ops = (outs, r') /\
      (forall a, p_basic_ans d p' a = r_basic_ans d r' a) /\
      (forall a k, p_storage_ans d p' a k = r_storage_ans d r' a k) /\
      (forall h, p_code_ans d p' h = r_code_ans d r' h) /\
      p_ts p' = r_ts r'.
Proof.
  intros d bu ops outs p' Hwf Hcode Hrun Hnp.
  destruct (run_sim d ops (p_init bu) (r_init bu) outs p' Hwf (R_init d bu) Hcode Hrun Hnp) as (r' & Hr & HR).
  exists r'. split; [exact Hr|]. destruct HR as [Ha Hc Hts]. repeat split.
  - intros a. apply R_basic_ans. apply Ha.
  - intros a k. apply R_storage_ans; [exact Hwf|apply Ha].
  - intros h. now apply R_code_ans.
  - exact Hts.
Qed.

(* the same from any pair of related states (e.g. caches pre-filled by earlier blocks) *)
Theorem C10_par_simulates_revm_from :
  forall d ops p r outs p',
    db_wf0 d -> R d p r -> Forall (code_ok d) ops ->
    p_run d p ops = (outs, p') -> ~ In OutPanic outs ->
    exists r', r_run d r ops = (outs, r') /\ R d p' r'.
Proof. intros d ops p r outs p' Hwf HR Hc Hrun Hnp. exact (run_sim d ops p r outs p' Hwf HR Hc Hrun Hnp). Qed.

(* ------------------------------------------------------------------------------------------
   bundle_builder_eq.  For an empty bundle grevm's two-phase builder equals revm's loop: state,
   contracts, reverts in transition order, state_size, reverts_size, either retention; for a
   non-empty bundle it is revm's merge.  (revm-database 15 has two retentions: PlainState, Reverts.) *)
Theorem C10_bundle_builder_eq :
  forall (BA RV : Type) (present : trans -> BA) (create_revert : trans -> option RV)
         (update_revert : BA -> trans -> BA * option RV) (ba_size : BA -> N) (rv_size : RV -> N)
         (b : bundle BA RV) (ts : tstate) (include_reverts : bool),
    bundle_wf BA RV b -> NoDup (map fst ts) ->
    par_apply BA RV present create_revert update_revert ba_size rv_size b ts include_reverts =
    revm_apply BA RV present create_revert update_revert ba_size rv_size b ts include_reverts.
Proof. exact bundle_builder_eq. Qed.

(* any sequence of merge_transitions / parallel_take_bundle / take_bundle / pre-populated bundles *)
Theorem C10_bundle_history_eq :
  forall (BA RV : Type) (present : trans -> BA) (create_revert : trans -> option RV)
         (update_revert : BA -> trans -> BA * option RV) (ba_size : BA -> N) (rv_size : RV -> N)
         (ops : list (bop BA RV)) (b : bundle BA RV),
    bundle_wf BA RV b -> Forall (bop_wf BA RV) ops ->
    brun BA RV (par_bstep BA RV present create_revert update_revert ba_size rv_size) b ops =
    brun BA RV (revm_bstep BA RV present create_revert update_revert ba_size rv_size) b ops.
Proof. exact bundle_history_eq. Qed.

(* the TransitionState both cache layers hand to the builders keeps its keys unique *)
Theorem C10_transition_keys_unique :
  forall new ts, NoDup (map fst ts) -> NoDup (map fst (add_transitions ts new)).
Proof. exact add_transitions_NoDup. Qed.

(* ------------------------------------------------------------------------------------------
   reads_do_not_change_answers (sequential).  Full strength: an extra cache-filling read
   (account, slot or code) inserted anywhere in a history changes no later output - no read value,
   no transition, no drained balance, no merged TransitionState - whatever commits, increments,
   drains and merges follow it, and leaves a state with the same answers.  [ext d p q]: q is p
   plus cache fills.  Hypotheses: [db_wf] (no storage in the database for absent / empty /
   code-less nonce-less accounts), [code_ok], no panic without the extra read. *)
Theorem C10_reads_do_not_change_answers :
  forall d bundle_update ops1 o ops2 outs1 p1 outs2 p2,
    db_wf d -> is_read o = true -> Forall (code_ok d) ops1 -> Forall (code_ok d) ops2 ->
    p_run d (p_init bundle_update) ops1 = (outs1, p1) -> ~ In OutPanic outs1 ->
    p_run d p1 ops2 = (outs2, p2) -> ~ In OutPanic outs2 ->
    exists q2, p_run d (fst (p_step d p1 o)) ops2 = (outs2, q2) /\
      (forall a, p_basic_ans d q2 a = p_basic_ans d p2 a) /\
      (forall a k, p_storage_ans d q2 a k = p_storage_ans d p2 a k) /\
      (forall h, p_code_ans d q2 h = p_code_ans d p2 h) /\ p_ts q2 = p_ts p2.
Proof.
  intros d b ops1 o ops2 outs1 p1 outs2 p2 Hwf Hr Hc1 Hc2 Hrun1 Hnp1 Hrun2 Hnp2.
  destruct (read_insertion_anywhere d b ops1 o ops2 outs1 p1 outs2 p2 Hwf Hr Hc1 Hc2 Hrun1 Hnp1 Hrun2 Hnp2) as (q2 & Hq & He).
  exists q2. split; [exact Hq|]. destruct (ext_answers d p2 q2 (db_wf_wf0 d Hwf) He) as (A & B & C).
  repeat split; auto. apply He.
Qed.

(* one read: it returns the pure answer and changes no account, slot or code answer
   (needs only [db_wf0]) *)
Theorem C10_read_returns_answer :
  forall d p o p' x,
    db_wf0 d -> is_read o = true -> p_step d p o = (p', x) ->
    x = p_answer d p o /\
    (forall a, p_basic_ans d p' a = p_basic_ans d p a) /\
    (forall a k, p_storage_ans d p' a k = p_storage_ans d p a k) /\
    (forall h, p_code_ans d p' h = p_code_ans d p h).
Proof. exact read_step. Qed.

(* any sequence of reads: every output is the answer in the state before the first of them *)
Theorem C10_read_sequences :
  forall d ops p outs p',
    db_wf0 d -> forallb is_read ops = true -> p_run d p ops = (outs, p') ->
    outs = map (p_answer d p) ops /\ same_answers d p p'.
Proof. exact reads_run. Qed.

(* ------------------------------------------------------------------------------------------
   Examples: the hypotheses are satisfiable by non-trivial histories. *)
Definition ex_db : db :=
  mkDb (fun a => if a =? 1 then Some (mkInfo 9 1 3 (Some 1)) else None)
       (fun a k => if (a =? 1) && (k =? 5) then 7 else 0)
       (fun h => if h =? 3 then 1 else if h =? 4 then 2 else 0).

Definition ex_destroyed : eaccount := mkEAcc (mkInfo 0 1 3 (Some 1)) (mkInfo 9 1 3 (Some 1)) true false true false [].
Definition ex_created : eaccount := mkEAcc (mkInfo 2 1 4 (Some 2)) default_info true true false true [(5, (0, 8)); (6, (0, 0))].
Definition ex_changed : eaccount := mkEAcc (mkInfo 3 2 4 (Some 2)) (mkInfo 2 1 4 (Some 2)) true false false false [(5, (8, 1))].

Definition ex_ops : list op :=
  [OBasic 1; OStorage 1 5; OCommit [(1, ex_destroyed)]; OStorage 1 5; OIncrement [(2, 4)];
   OMerge; OBasic 1; OCommit [(1, ex_created)]; OCommit [(1, ex_changed)]; ODrain [2]; OStorage 1 5; OCode 4; OMerge].

Lemma ex_db_wf0 : db_wf0 ex_db.
Proof.
  intros a Ha k. unfold ex_db in *. simpl in *. destruct (a =? 1); [discriminate|reflexivity].
Qed.

Lemma ex_code_ok : Forall (code_ok ex_db) ex_ops.
Proof.
  repeat constructor; unfold code_ok_e; simpl; intros; try discriminate;
    match goal with H : Some _ = Some _ |- _ => inversion H; reflexivity end.
Qed.

Example C10_sim_example :
  exists outs p', p_run ex_db (p_init true) ex_ops = (outs, p') /\ ~ In OutPanic outs /\
    nth_opt outs 1 = Some (OutWord 7) /\ nth_opt outs 3 = Some (OutWord 0) /\ nth_opt outs 10 = Some (OutWord 1).
Proof.
  eexists. eexists. split; [vm_compute; reflexivity|]. split; [|repeat split].
  simpl. intros H. repeat (destruct H as [H|H]; [discriminate|]). exact H.
Qed.

Lemma ex_db_wf : db_wf ex_db.
Proof.
  intros a Ha k. unfold bare, ex_db in *. simpl in *. destruct (a =? 1) eqn:E; [discriminate|reflexivity].
Qed.

Example C10_read_insertion_example :
  exists outs p' q', p_run ex_db (p_init true) ex_ops = (outs, p') /\
    p_run ex_db (fst (p_step ex_db (p_init true) (OStorage 1 6))) ex_ops = (outs, q') /\ ~ In OutPanic outs.
Proof.
  eexists. eexists. eexists. split; [vm_compute; reflexivity|]. split; [vm_compute; reflexivity|].
  simpl. intros H. repeat (destruct H as [H|H]; [discriminate|]). exact H.
Qed.

(* without [code_ok]: grevm serves the code of an account created in this history from its own
   cache (parallel_state.rs:333), revm's State asks the database for that hash *)
Example C10_created_code_needs_db :
  exists d ops outs_p p' outs_r r',
    db_wf0 d /\ p_run d (p_init true) ops = (outs_p, p') /\ ~ In OutPanic outs_p /\
    r_run d (r_init true) ops = (outs_r, r') /\
    nth_opt outs_p 2 = Some (OutCode 9) /\ nth_opt outs_r 2 = Some (OutCode 0).
Proof.
  exists (mkDb (fun _ => None) (fun _ _ => 0) (fun _ => 0)).
  exists [OBasic 1; OCommit [(1, mkEAcc (mkInfo 0 1 5 (Some 9)) default_info true true false true [])]; OCode 5].
  eexists. eexists. eexists. eexists.
  split; [intros a _ k; reflexivity|].
  split; [vm_compute; reflexivity|]. split; [|split; [vm_compute; reflexivity|split; reflexivity]].
  simpl. intros H. repeat (destruct H as [H|H]; [discriminate|]). exact H.
Qed.

(* without [db_wf0]: loading a non-existing account turns a slot the database holds into zero *)
Example C10_reads_need_db_wf0 :
  exists d p' x p'' y,
    p_step d (p_init true) (OStorage 1 5) = (p', x) /\ x = OutWord 7 /\
    p_step d (fst (p_step d (p_init true) (OBasic 1))) (OStorage 1 6) = (p'', y) /\ y = OutWord 0 /\
    p_storage_ans d (p_init true) 1 6 = 7.
Proof.
  exists (mkDb (fun _ => None) (fun _ _ => 7) (fun _ => 0)).
  eexists. eexists. eexists. eexists. repeat split.
Qed.

(* without [db_wf] (finding F9): an account the database holds with balance only (no nonce, no code) AND
   storage. One extra read - what a speculative worker does - before the commit of a balance change
   (which promotes the account to a status whose storage is "known") changes what the state serves
   afterwards: 0 without the read (as revm's State driven by the committed history), 9 with it. The
   hypothesis of [C10_reads_do_not_change_answers] is necessary; the real ParallelState shows the same
   (known_findings.json F9, harness: `cache promo`). *)
Definition f9_bare : info := mkInfo 1 0 KECCAK_EMPTY None.
Definition f9_db : db :=
  mkDb (fun a => if a =? 1 then Some f9_bare else None)
       (fun a k => if (a =? 1) && (k =? 3) then 9 else 0)
       (fun _ => 0).
Definition f9_credit : eaccount := mkEAcc (mkInfo 2 0 KECCAK_EMPTY None) f9_bare true false false false [].

Example C10_reads_change_answers_without_db_wf_refuted :
  exists outs1 p1 outs2 p2 outs2' q2,
    db_wf0 f9_db /\ ~ db_wf f9_db /\
    p_run f9_db (p_init true) [OBasic 1] = (outs1, p1) /\
    p_run f9_db p1 [OCommit [(1, f9_credit)]; OStorage 1 3] = (outs2, p2) /\
    p_run f9_db (fst (p_step f9_db p1 (OStorage 1 3))) [OCommit [(1, f9_credit)]; OStorage 1 3] = (outs2', q2) /\
    nth_opt outs2 1 = Some (OutWord 0) /\ nth_opt outs2' 1 = Some (OutWord 9) /\
    (exists r1 r2, r_run f9_db (r_init true) [OBasic 1] = (outs1, r1) /\
                   r_run f9_db r1 [OCommit [(1, f9_credit)]; OStorage 1 3] = (outs2, r2)).
Proof.
  eexists. eexists. eexists. eexists. eexists. eexists.
  split. { intros a Ha k. unfold f9_db in *. cbn in *. destruct (a =? 1); [discriminate|reflexivity]. }
  split. { intros H. specialize (H 1 eq_refl 3). vm_compute in H. discriminate. }
  split; [vm_compute; reflexivity|]. split; [vm_compute; reflexivity|]. split; [vm_compute; reflexivity|].
  split; [reflexivity|]. split; [reflexivity|].
  eexists. eexists. split; vm_compute; reflexivity.
Qed.

Example C10_bundle_example :
  NoDup (map fst (add_transitions [] [(1, mkTrans None Destroyed None Loaded [] true); (2, mkTrans None Destroyed None Loaded [] true)])).
Proof. apply add_transitions_NoDup. constructor. Qed.

(* ------------------------------------------------------------------------------------------
   cache_coherent (concurrent).  Readers fill the shared cache while the committer mutates it; any
   number of readers, any interleaving of their atomic groups (Cache/Conc.v).

   Full statement: whenever the committer is between two groups of no wiping commit - in
   particular when it has finished - every slot answer of the shared cache equals the answer of the
   cache as written by the committer alone ([c_ghost]), which is the commits applied atomically in
   order ([C10_ghost_is_committed]).

   It is FALSE for the ordering of the unchanged tree ([original]: storage.remove before the status
   update, insert-if-absent without re-check): C10_cache_coherent_refuted is finding F1.  It is
   proved for the repaired ordering of DESIGN section 7 ([repaired]: status update first, removal
   second, "storage known" re-evaluated under the storage-shard guard).  Each half of the repair
   alone is insufficient (C10_reorder_alone_refuted, C10_recheck_alone_refuted).
   Hypotheses: the initial account is well formed (no info => storage known) and, if its storage can
   become "known" without a wipe (not yet loaded and non-existing; LoadedEmptyEIP161; Loaded
   without code and nonce), the database holds no storage for it - both follow from a database
   satisfying [db_wf] for a state loaded from it (C10_flip_zero_of_db_wf). *)
Theorem C10_cache_coherent :
  forall (basic : pacct) (dbs : key -> word) acct slots cops keys sched,
    acct_wf basic ->
    (flippable acct basic = true -> forall k, dbs k = 0) ->
    (forall a, acct = Some a -> acct_wf a) ->
    let s := run repaired basic dbs (init acct slots cops keys) sched in
    wipe_pending s = false ->
    forall k, answer dbs (c_acct s) (c_slots s) k = answer dbs (c_acct s) (c_ghost s) k.
Proof. intros basic dbs acct slots cops keys sched Hb. exact (cache_coherent basic dbs Hb acct slots cops keys sched). Qed.

Theorem C10_ghost_is_committed :
  forall basic dbs a0 slots cops keys sched,
    let s := run repaired basic dbs (init (Some a0) slots cops keys) sched in
    committer_idle s = true ->
    exists a', c_acct s = Some a' /\ (a', c_ghost s) = fold_left commit_atomic cops (a0, slots).
Proof. exact ghost_is_committed. Qed.

Theorem C10_flip_zero_of_db_wf :
  forall d a, db_wf d -> acct_wf (load_pair d a) /\
    (flippable None (load_pair d a) = true -> forall k, db_storage d a k = 0) /\
    (flippable (Some (load_pair d a)) (load_pair d a) = true -> forall k, db_storage d a k = 0).
Proof.
  intros d a Hwf. specialize (Hwf a). unfold bare, load_pair, flippable, flippable_acct, acct_wf in *.
  destruct (db_basic d a) as [i|]; simpl in *.
  - destruct (info_is_empty i) eqn:Ee; simpl in *.
    + repeat split; try discriminate; intros _; now apply Hwf.
    + repeat split; try discriminate; intros H; apply Hwf; now rewrite H.
  - repeat split; try reflexivity; intros _; now apply Hwf.
Qed.

(* the F1 window on the unchanged ordering: V is Loaded with slot 5 = 7 in the database; a reader
   misses, finds the storage not known, fetches 7; the committer removes V's storage and marks V
   destroyed; the reader inserts 7.  The committer has finished, the cache serves 7, the committed
   value is 0. *)
Definition f1_acct : pacct := (Some (mkInfo 9 1 3 (Some 1)), Loaded).
Definition f1_dbs : key -> word := fun k => if k =? 5 then 7 else 0.
Definition f1_sched : list who :=
  [WReader 0; WReader 0; WReader 0; WCommit; WCommit; WReader 0; WReader 0].

Theorem C10_cache_coherent_refuted :
  exists basic dbs acct slots cops keys sched,
    acct_wf basic /\ (flippable acct basic = true -> forall k, dbs k = 0) /\
    (forall a, acct = Some a -> acct_wf a) /\
    let s := run original basic dbs (init acct slots cops keys) sched in
    committer_idle s = true /\ Forall (fun r => match r with RDone _ _ => True | _ => False end) (c_readers s) /\
    exists k, answer dbs (c_acct s) (c_slots s) k = 7 /\ answer dbs (c_acct s) (c_ghost s) k = 0.
Proof.
  exists f1_acct, f1_dbs, (Some f1_acct), fempty, [CDestroy], [5], f1_sched.
  split; [discriminate|]. split; [discriminate|].
  split; [intros a Ha; inversion Ha; discriminate|].
  split; [vm_compute; reflexivity|]. split; [vm_compute; repeat constructor|].
  exists 5. split; vm_compute; reflexivity.
Qed.

(* the same window for re-creation and for the EIP-161 clearing of an emptied account *)
Theorem C10_cache_coherent_refuted_create_touch :
  forall c, c = CCreate (mkInfo 9 1 4 (Some 2)) [] \/ c = CTouchEmpty ->
    let s := run original f1_acct f1_dbs (init (Some f1_acct) fempty [c] [5]) f1_sched in
    committer_idle s = true /\ answer f1_dbs (c_acct s) (c_slots s) 5 = 7 /\ answer f1_dbs (c_acct s) (c_ghost s) 5 = 0.
Proof. intros c [->| ->]; vm_compute; auto. Qed.

(* status first / removal second, but insert-if-absent without the re-check *)
Theorem C10_reorder_alone_refuted :
  let s := run (mkVariant true false) f1_acct f1_dbs (init (Some f1_acct) fempty [CDestroy] [5]) f1_sched in
  committer_idle s = true /\ answer f1_dbs (c_acct s) (c_slots s) 5 = 7 /\ answer f1_dbs (c_acct s) (c_ghost s) 5 = 0.
Proof. vm_compute. auto. Qed.

(* re-check under the guard, but removal before the status update *)
Theorem C10_recheck_alone_refuted :
  let s := run (mkVariant false true) f1_acct f1_dbs (init (Some f1_acct) fempty [CDestroy] [5])
             [WReader 0; WReader 0; WReader 0; WCommit; WReader 0; WReader 0; WCommit] in
  committer_idle s = true /\ answer f1_dbs (c_acct s) (c_slots s) 5 = 7 /\ answer f1_dbs (c_acct s) (c_ghost s) 5 = 0.
Proof. vm_compute. auto. Qed.

(* the witness schedule under the repaired ordering (and the hypotheses of C10_cache_coherent hold
   for a non-trivial state: an existing contract with a slot, two readers, destroy then re-create) *)
Example C10_cache_coherent_example :
  let s := run repaired f1_acct f1_dbs (init (Some f1_acct) fempty [CDestroy; CCreate (mkInfo 1 1 4 (Some 2)) [(5, 3)]] [5; 5])
             [WReader 0; WReader 0; WReader 0; WCommit; WReader 1; WCommit; WReader 0; WReader 0; WCommit; WReader 1; WCommit; WCommit; WReader 1] in
  committer_idle s = true /\ wipe_pending s = false /\
  answer f1_dbs (c_acct s) (c_slots s) 5 = 3 /\ answer f1_dbs (c_acct s) (c_ghost s) 5 = 3 /\
  nth_opt (c_readers s) 0 = Some (RDone 5 0).
Proof. vm_compute. auto. Qed.

Print Assumptions C10_par_simulates_revm.
Print Assumptions C10_par_simulates_revm_from.
Print Assumptions C10_bundle_builder_eq.
Print Assumptions C10_bundle_history_eq.
Print Assumptions C10_transition_keys_unique.
Print Assumptions C10_reads_do_not_change_answers.
Print Assumptions C10_read_returns_answer.
Print Assumptions C10_read_sequences.
Print Assumptions C10_cache_coherent.
Print Assumptions C10_ghost_is_committed.
Print Assumptions C10_flip_zero_of_db_wf.
Print Assumptions C10_cache_coherent_refuted.
Print Assumptions C10_cache_coherent_refuted_create_touch.
Print Assumptions C10_reorder_alone_refuted.
Print Assumptions C10_recheck_alone_refuted.
