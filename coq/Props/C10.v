(* C10 - ParallelState is a faithful stand-in for revm State (bundle, reverts, reads).
   This file contains only property theorems (closed by [exact] / tiny glue), their assumption
   audit, and examples showing that the hypotheses are satisfiable / what fails without them.

   Models: Cache/Status.v (shared), Cache/Revm.v (revm State), Cache/Par.v (grevm ParallelState),
   Cache/Bundle.v (bundle builders; revm's per-account callees are Section variables, hence the
   quantified [BA RV present create_revert update_revert ba_size rv_size]), Cache/Conc.v (reader
   and committer as interleaved atomic groups). *)
From Grevm Require Import Base.Util Cache.Status Cache.Revm Cache.Par Cache.Bundle
  Cache.SimProofs Cache.ReadProofs Cache.BundleProofs.
Open Scope N_scope.

(* ------------------------------------------------------------------------------------------
   par_simulates_revm.  For every operation history (commits of arbitrary finalised states,
   increments, drains, reads, merges; any number of blocks on the same state, with or without
   bundle update) on which grevm does not panic: revm's State produces the same outputs - the
   transitions of every commit / increment / drain, the drained balances, every value returned by
   basic / storage / code reads, the TransitionState handed to every merge - and afterwards every
   account, slot and code answer and the pending TransitionState are equal.
   Hypotheses on the input:
     db_wf0   the database has no storage for an address that has no account;
     code_ok  the code carried by a created account is what the database serves for its hash
              (see C10_created_code_needs_db below for what happens otherwise);
     no OutPanic: every touched account of a commit was loaded before (parallel_state.rs:291),
              a created account carries its code (:333), drained balances fit u128. *)
Theorem C10_par_simulates_revm :
  forall d bundle_update ops outs p',
    db_wf0 d -> Forall (code_ok d) ops ->
    p_run d (p_init bundle_update) ops = (outs, p') -> ~ In OutPanic outs ->
    exists r', r_run d (r_init bundle_update) ops = (outs, r') /\
      (forall a, p_basic_ans d p' a = r_basic_ans d r' a) /\
      (forall a k, p_storage_ans d p' a k = r_storage_ans d r' a k) /\
      (forall h, p_code_ans d p' h = r_code_ans d r' h) /\
      p_ts p' = r_ts r'.
Proof.
  intros d bu ops outs p' Hwf Hcode Hrun Hnp.
  destruct (run_sim d ops (p_init bu) (r_init bu) outs p' Hwf (R_init d bu) Hcode Hrun Hnp) as (r' & Hr & HR).
  exists r'. split; [exact Hr|]. destruct HR as [Ha Hc Hts]. repeat split.
  - intros a. apply R_basic_ans. apply Ha.
  - intros a k. apply R_storage_ans; [exact Hwf|apply Ha].
  - intros h. now apply R_code_ans.
  - exact Hts.
Qed.

(* the same from any pair of related states (e.g. caches pre-filled by earlier blocks) *)
Theorem C10_par_simulates_revm_from :
  forall d ops p r outs p',
    db_wf0 d -> R d p r -> Forall (code_ok d) ops ->
    p_run d p ops = (outs, p') -> ~ In OutPanic outs ->
    exists r', r_run d r ops = (outs, r') /\ R d p' r'.
Proof. intros d ops p r outs p' Hwf HR Hc Hrun Hnp. exact (run_sim d ops p r outs p' Hwf HR Hc Hrun Hnp). Qed.

(* ------------------------------------------------------------------------------------------
   bundle_builder_eq.  For an empty bundle grevm's two-phase builder equals revm's loop: state,
   contracts, reverts in transition order, state_size, reverts_size, either retention; for a
   non-empty bundle it is revm's merge.  (revm-database 15 has two retentions: PlainState, Reverts.) *)
Theorem C10_bundle_builder_eq :
  forall (BA RV : Type) (present : trans -> BA) (create_revert : trans -> option RV)
         (update_revert : BA -> trans -> BA * option RV) (ba_size : BA -> N) (rv_size : RV -> N)
         (b : bundle BA RV) (ts : tstate) (include_reverts : bool),
    bundle_wf BA RV b -> NoDup (map fst ts) ->
    par_apply BA RV present create_revert update_revert ba_size rv_size b ts include_reverts =
    revm_apply BA RV present create_revert update_revert ba_size rv_size b ts include_reverts.
Proof. exact bundle_builder_eq. Qed.

(* any sequence of merge_transitions / parallel_take_bundle / take_bundle / pre-populated bundles *)
Theorem C10_bundle_history_eq :
  forall (BA RV : Type) (present : trans -> BA) (create_revert : trans -> option RV)
         (update_revert : BA -> trans -> BA * option RV) (ba_size : BA -> N) (rv_size : RV -> N)
         (ops : list (bop BA RV)) (b : bundle BA RV),
    bundle_wf BA RV b -> Forall (bop_wf BA RV) ops ->
    brun BA RV (par_bstep BA RV present create_revert update_revert ba_size rv_size) b ops =
    brun BA RV (revm_bstep BA RV present create_revert update_revert ba_size rv_size) b ops.
Proof. exact bundle_history_eq. Qed.

(* the TransitionState both cache layers hand to the builders keeps its keys unique *)
Theorem C10_transition_keys_unique :
  forall new ts, NoDup (map fst ts) -> NoDup (map fst (add_transitions ts new)).
Proof. exact add_transitions_NoDup. Qed.

(* ------------------------------------------------------------------------------------------
   reads_do_not_change_answers (sequential).  A cache-filling read returns the pure answer and
   changes no account, slot or code answer; hence in any sequence of reads every output is the
   answer in the state before the first of them (order and repetition do not matter). *)
Theorem C10_reads_do_not_change_answers :
  forall d p o p' x,
    db_wf0 d -> is_read o = true -> p_step d p o = (p', x) ->
    x = p_answer d p o /\
    (forall a, p_basic_ans d p' a = p_basic_ans d p a) /\
    (forall a k, p_storage_ans d p' a k = p_storage_ans d p a k) /\
    (forall h, p_code_ans d p' h = p_code_ans d p h).
Proof. exact read_step. Qed.

Theorem C10_read_sequences :
  forall d ops p outs p',
    db_wf0 d -> forallb is_read ops = true -> p_run d p ops = (outs, p') ->
    outs = map (p_answer d p) ops /\ same_answers d p p'.
Proof. exact reads_run. Qed.

(* ------------------------------------------------------------------------------------------
   Examples: the hypotheses are satisfiable by non-trivial histories. *)
Definition ex_db : db :=
  mkDb (fun a => if a =? 1 then Some (mkInfo 9 1 3 (Some 1)) else None)
       (fun a k => if (a =? 1) && (k =? 5) then 7 else 0)
       (fun h => if h =? 3 then 1 else if h =? 4 then 2 else 0).

Definition ex_destroyed : eaccount := mkEAcc (mkInfo 0 1 3 (Some 1)) (mkInfo 9 1 3 (Some 1)) true false true false [].
Definition ex_created : eaccount := mkEAcc (mkInfo 2 1 4 (Some 2)) default_info true true false true [(5, (0, 8)); (6, (0, 0))].
Definition ex_changed : eaccount := mkEAcc (mkInfo 3 2 4 (Some 2)) (mkInfo 2 1 4 (Some 2)) true false false false [(5, (8, 1))].

Definition ex_ops : list op :=
  [OBasic 1; OStorage 1 5; OCommit [(1, ex_destroyed)]; OStorage 1 5; OIncrement [(2, 4)];
   OMerge; OBasic 1; OCommit [(1, ex_created)]; OCommit [(1, ex_changed)]; ODrain [2]; OStorage 1 5; OCode 4; OMerge].

Lemma ex_db_wf0 : db_wf0 ex_db.
Proof.
  intros a Ha k. unfold ex_db in *. simpl in *. destruct (a =? 1); [discriminate|reflexivity].
Qed.

Lemma ex_code_ok : Forall (code_ok ex_db) ex_ops.
Proof.
  repeat constructor; unfold code_ok_e; simpl; intros; try discriminate;
    match goal with H : Some _ = Some _ |- _ => inversion H; reflexivity end.
Qed.

Example C10_sim_example :
  exists outs p', p_run ex_db (p_init true) ex_ops = (outs, p') /\ ~ In OutPanic outs /\
    nth_opt outs 1 = Some (OutWord 7) /\ nth_opt outs 3 = Some (OutWord 0) /\ nth_opt outs 10 = Some (OutWord 1).
Proof.
  eexists. eexists. split; [vm_compute; reflexivity|]. split; [|repeat split].
  simpl. intros H. repeat (destruct H as [H|H]; [discriminate|]). exact H.
Qed.

(* without [code_ok]: grevm serves the code of an account created in this history from its own
   cache (parallel_state.rs:333), revm's State asks the database for that hash *)
Example C10_created_code_needs_db :
  exists d ops outs_p p' outs_r r',
    db_wf0 d /\ p_run d (p_init true) ops = (outs_p, p') /\ ~ In OutPanic outs_p /\
    r_run d (r_init true) ops = (outs_r, r') /\
    nth_opt outs_p 2 = Some (OutCode 9) /\ nth_opt outs_r 2 = Some (OutCode 0).
Proof.
  exists (mkDb (fun _ => None) (fun _ _ => 0) (fun _ => 0)).
  exists [OBasic 1; OCommit [(1, mkEAcc (mkInfo 0 1 5 (Some 9)) default_info true true false true [])]; OCode 5].
  eexists. eexists. eexists. eexists.
  split; [intros a _ k; reflexivity|].
  split; [vm_compute; reflexivity|]. split; [|split; [vm_compute; reflexivity|split; reflexivity]].
  simpl. intros H. repeat (destruct H as [H|H]; [discriminate|]). exact H.
Qed.

(* without [db_wf0]: loading a non-existing account turns a slot the database holds into zero *)
Example C10_reads_need_db_wf0 :
  exists d p' x p'' y,
    p_step d (p_init true) (OStorage 1 5) = (p', x) /\ x = OutWord 7 /\
    p_step d (fst (p_step d (p_init true) (OBasic 1))) (OStorage 1 6) = (p'', y) /\ y = OutWord 0 /\
    p_storage_ans d (p_init true) 1 6 = 7.
Proof.
  exists (mkDb (fun _ => None) (fun _ _ => 7) (fun _ => 0)).
  eexists. eexists. eexists. eexists. repeat split.
Qed.

Example C10_bundle_example :
  NoDup (map fst (add_transitions [] [(1, mkTrans None Destroyed None Loaded [] true); (2, mkTrans None Destroyed None Loaded [] true)])).
Proof. apply add_transitions_NoDup. constructor. Qed.

Print Assumptions C10_par_simulates_revm.
Print Assumptions C10_par_simulates_revm_from.
Print Assumptions C10_bundle_builder_eq.
Print Assumptions C10_bundle_history_eq.
Print Assumptions C10_transition_keys_unique.
Print Assumptions C10_reads_do_not_change_answers.
Print Assumptions C10_read_sequences.
