(* C11 - custom precompiles reach EVM state only through a journal facade with a sticky fault that
   the adapter enforces.
   This file contains only property theorems (closed by [exact]/tiny glue) and their assumption
   audit.  The theorems quantify over EVERY journal (the section variables below: journal state
   type, its four operations returning [JOk v | JErr e], payload types and projections - see the
   header of Facade/Model.v); after [End C11] they are universally quantified arguments.

   What these theorems do NOT say (DESIGN 6/C11 "Scope"): that a journal operation is a
   database-level access that takes part in conflict detection, follows frame reverts and is
   committed once - that is revm's journal plus C01's model of IncarnationDb; the block-level
   differential of checklib/props/C11.py observes it on real revm. *)
From Grevm Require Import Base.Util Facade.Model Facade.Proofs.

Section C11.
  Variable J : Type.
  Variable addr word : Type.
  Variable dberr : Type.
  Variable halt fatal out : Type.
  Variable acct_load bal_load sload_v sstore_v mut_load setbal_v : Type.
  Variable j_load_account : J -> addr -> J * jres acct_load dberr.
  Variable j_sload : J -> addr -> word -> J * jres sload_v dberr.
  Variable j_sstore : J -> addr -> word -> word -> J * jres sstore_v dberr.
  Variable j_load_account_mut : J -> addr -> J * jres mut_load dberr.
  Variable j_set_balance : J -> addr -> word -> J.
  Variable balance_of : acct_load -> bal_load.
  Variable setbal_of : mut_load -> setbal_v.
  Variable static_halt : halt.
  Variable fatal_of_db : dberr -> fatal.
  Variable halt_output : halt -> word -> out.

  Notation perr := (perr halt fatal).
  Notation pstate := (pstate halt fatal).
  Notation PHalt := (PHalt halt fatal).
  Notation PFatal := (PFatal halt fatal).
  Notation op := (op addr word).
  Notation fault := (fault halt fatal).
  Notation is_static := (is_static halt fatal).
  Notation balance := (balance J addr word dberr halt fatal acct_load bal_load j_load_account balance_of fatal_of_db).
  Notation sload := (sload J addr word dberr halt fatal sload_v j_sload fatal_of_db).
  Notation set_balance :=
    (set_balance J addr word dberr halt fatal mut_load setbal_v j_load_account_mut j_set_balance
       setbal_of static_halt fatal_of_db).
  Notation sstore := (sstore J addr word dberr halt fatal sstore_v j_sstore static_halt fatal_of_db).
  Notation exec_op :=
    (exec_op J addr word dberr halt fatal acct_load bal_load sload_v sstore_v mut_load setbal_v
       j_load_account j_sload j_sstore j_load_account_mut j_set_balance balance_of setbal_of
       static_halt fatal_of_db).
  Notation run_body :=
    (run_body J addr word dberr halt fatal acct_load bal_load sload_v sstore_v mut_load setbal_v
       j_load_account j_sload j_sstore j_load_account_mut j_set_balance balance_of setbal_of
       static_halt fatal_of_db).
  Notation adapter_call :=
    (adapter_call J addr word dberr halt fatal out acct_load bal_load sload_v sstore_v mut_load setbal_v
       j_load_account j_sload j_sstore j_load_account_mut j_set_balance balance_of setbal_of
       static_halt fatal_of_db halt_output).
  Notation adapter_finish := (adapter_finish word halt fatal out halt_output).
  Notation enforce := (enforce word halt fatal out halt_output).
  Notation br_state := (br_state J addr word halt fatal bal_load sload_v sstore_v setbal_v).
  Notation br_journal := (br_journal J addr word halt fatal bal_load sload_v sstore_v setbal_v).
  Notation br_calls := (br_calls J addr word halt fatal bal_load sload_v sstore_v setbal_v).
  Notation br_results := (br_results J addr word halt fatal bal_load sload_v sstore_v setbal_v).
  Notation br_early := (br_early J addr word halt fatal bal_load sload_v sstore_v setbal_v).
  Notation count_ok := (count_ok halt fatal bal_load sload_v sstore_v setbal_v).
  Notation mk st f := ({| Model.is_static := is_static st; Model.fault := f |} : pstate).

  (* after the first fault every operation returns it and performs NO journal call:
     (1) one operation on a faulted facade; (2) an operation that returns an error has recorded
     exactly that error; (3) a whole suffix of a body run from a faulted facade *)
  Theorem C11_fault_sticky :
    (forall st j (o : op) f, fault st = Some f -> exec_op st j o = (st, j, [], Err f)) /\
    (forall st j (o : op) st' j' c f, exec_op st j o = (st', j', c, Err f) -> fault st' = Some f) /\
    (forall ops st j f, fault st = Some f ->
       let b := run_body st j ops in
       br_state b = st /\ br_journal b = j /\ br_calls b = [] /\
       Forall (fun r => r = Err f) (br_results b) /\
       (br_early b = None \/ br_early b = Some f)).
  Proof.
    split; [|split].
    - exact (exec_op_faulted J addr word dberr halt fatal acct_load bal_load sload_v sstore_v mut_load
               setbal_v j_load_account j_sload j_sstore j_load_account_mut j_set_balance balance_of
               setbal_of static_halt fatal_of_db).
    - exact (exec_op_err_recorded J addr word dberr halt fatal acct_load bal_load sload_v sstore_v mut_load
               setbal_v j_load_account j_sload j_sstore j_load_account_mut j_set_balance balance_of
               setbal_of static_halt fatal_of_db).
    - exact (run_body_faulted J addr word dberr halt fatal acct_load bal_load sload_v sstore_v mut_load
               setbal_v j_load_account j_sload j_sstore j_load_account_mut j_set_balance balance_of
               setbal_of static_halt fatal_of_db).
  Qed.

  (* the same for a whole body: an ignored error at any position - the rest of the body never
     reaches the journal and keeps returning that error *)
  Theorem C11_fault_sticky_after_first_fault :
    forall st j pre (o : op) post st' j' c f,
    let b1 := run_body st j pre in
    br_early b1 = None ->
    exec_op (br_state b1) (br_journal b1) o = (st', j', c, Err f) ->
    let b := run_body st j (pre ++ (o, Ignore) :: post) in
    br_journal b = j' /\
    br_calls b = br_calls b1 ++ c /\
    (exists tail, br_results b = br_results b1 ++ Err f :: tail /\ Forall (fun r => r = Err f) tail) /\
    fault (br_state b) = Some f.
  Proof.
    exact (fault_sticky_after_first J addr word dberr halt fatal acct_load bal_load sload_v sstore_v mut_load
             setbal_v j_load_account j_sload j_sstore j_load_account_mut j_set_balance balance_of
             setbal_of static_halt fatal_of_db).
  Qed.

  (* in a static context set_balance / sstore perform no journal call, leave the journal as it is
     and record the static halt *)
  Theorem C11_static_refuses_before_change :
    forall st j (o : op),
    fault st = None -> is_static st = true -> is_mutator addr word o = true ->
    exec_op st j o = (mk st (Some (PHalt static_halt)), j, [], Err (PHalt static_halt)).
  Proof.
    exact (exec_op_static_mutator J addr word dberr halt fatal acct_load bal_load sload_v sstore_v mut_load
             setbal_v j_load_account j_sload j_sstore j_load_account_mut j_set_balance balance_of
             setbal_of static_halt fatal_of_db).
  Qed.

  (* the adapter's result is the recorded fault whatever the implementation returned: Halt becomes
     a halt output carrying the reservoir, Fatal becomes the fatal error; and any error any facade
     operation returned during the body IS the recorded fault *)
  Theorem C11_adapter_enforces_fault :
    (forall reservoir st impl f, fault st = Some f ->
       adapter_finish reservoir st impl
       = match f with Model.PHalt _ _ h => Ok (halt_output h reservoir) | Model.PFatal _ _ e => Err e end) /\
    (forall static reservoir ops impl j f,
       let '(b, a) := adapter_call static reservoir ops impl j in
       In (Err f) (br_results b) ->
       a = match f with Model.PHalt _ _ h => Ok (halt_output h reservoir) | Model.PFatal _ _ e => Err e end) /\
    (forall static reservoir ops impl j,
       let '(b, a) := adapter_call static reservoir ops impl j in
       fault (br_state b) = None ->
       br_early b = None /\
       a = match impl with
           | Ok o => Ok o
           | Err (Model.PHalt _ _ h) => Ok (halt_output h reservoir)
           | Err (Model.PFatal _ _ e) => Err e
           end).
  Proof.
    split; [|split].
    - exact (adapter_finish_fault word halt fatal out halt_output).
    - exact (adapter_call_enforces J addr word dberr halt fatal out acct_load bal_load sload_v sstore_v
               mut_load setbal_v j_load_account j_sload j_sstore j_load_account_mut j_set_balance
               balance_of setbal_of static_halt fatal_of_db halt_output).
    - intros static reservoir ops impl j.
      pose proof (adapter_call_healthy J addr word dberr halt fatal out acct_load bal_load sload_v sstore_v
                    mut_load setbal_v j_load_account j_sload j_sstore j_load_account_mut j_set_balance
                    balance_of setbal_of static_halt fatal_of_db halt_output static reservoir ops impl j) as H.
      destruct (adapter_call static reservoir ops impl j) as [b a]. intros Hn.
      destruct (H Hn) as [H1 H2]. split; [exact H1|]. rewrite H2.
      destruct impl as [o|[h|e]]; reflexivity.
  Qed.

  (* every successful operation is exactly one journal operation (and its result is the journal's,
     projected); a failing journal call is recorded as the fatal fault; over a body: one journal
     call per successful operation plus at most one failing call *)
  Theorem C11_facade_calls_are_journal_calls :
    (forall st j a, fault st = None ->
       balance st j a =
       match j_load_account j a with
       | (j', JOk l) => (st, j', [CLoadAccount _ _ a], Ok (balance_of l))
       | (j', JErr e) => (mk st (Some (PFatal (fatal_of_db e))), j', [CLoadAccount _ _ a], Err (PFatal (fatal_of_db e)))
       end) /\
    (forall st j a k, fault st = None ->
       sload st j a k =
       match j_sload j a k with
       | (j', JOk l) => (st, j', [CSload _ _ a k], Ok l)
       | (j', JErr e) => (mk st (Some (PFatal (fatal_of_db e))), j', [CSload _ _ a k], Err (PFatal (fatal_of_db e)))
       end) /\
    (forall st j a v, fault st = None -> is_static st = false ->
       set_balance st j a v =
       match j_load_account_mut j a with
       | (j', JOk l) => (st, j_set_balance j' a v, [CLoadAccountMutSetBalance _ _ a v], Ok (setbal_of l))
       | (j', JErr e) => (mk st (Some (PFatal (fatal_of_db e))), j', [CLoadAccountMut _ _ a], Err (PFatal (fatal_of_db e)))
       end) /\
    (forall st j a k v, fault st = None -> is_static st = false ->
       sstore st j a k v =
       match j_sstore j a k v with
       | (j', JOk l) => (st, j', [CSstore _ _ a k v], Ok l)
       | (j', JErr e) => (mk st (Some (PFatal (fatal_of_db e))), j', [CSstore _ _ a k v], Err (PFatal (fatal_of_db e)))
       end) /\
    (forall ops st j,
       let b := run_body st j ops in
       count_ok (br_results b) <= length (br_calls b) <= S (count_ok (br_results b)) /\
       (fault (br_state b) = None ->
          length (br_calls b) = count_ok (br_results b) /\ length (br_calls b) = length (br_results b))).
  Proof.
    split; [|split; [|split; [|split]]].
    - exact (balance_healthy J addr word dberr halt fatal acct_load bal_load j_load_account balance_of fatal_of_db).
    - exact (sload_healthy J addr word dberr halt fatal sload_v j_sload fatal_of_db).
    - exact (set_balance_healthy J addr word dberr halt fatal mut_load setbal_v j_load_account_mut j_set_balance setbal_of static_halt fatal_of_db).
    - exact (sstore_healthy J addr word dberr halt fatal sstore_v j_sstore static_halt fatal_of_db).
    - intros ops st j.
      pose proof (run_body_calls J addr word dberr halt fatal acct_load bal_load sload_v sstore_v mut_load
                    setbal_v j_load_account j_sload j_sstore j_load_account_mut j_set_balance balance_of
                    setbal_of static_halt fatal_of_db ops st j) as (H1 & H2 & H3).
      cbn. split; [split; assumption|exact H3].
  Qed.
End C11.

(* non-vacuity on the toy journal of Facade/Model.v: an ignored database fault (address 66) - the
   later write and set_balance never reach the journal and the adapter returns the fatal error; a
   static write is refused before any change and the halt carries the reservoir *)
Example C11_nonvacuous :
  (let '(b, a) := toy_call false
      [(OBalance _ _ 1, Ignore); (OSload _ _ 66 0, Ignore); (OSstore _ _ 1 2 77, Ignore); (OSetBalance _ _ 1 0, Ignore)]
      (Ok (1, 1)) tj0 in
   (br_calls _ _ _ _ _ _ _ _ _ b, tj_sto (br_journal _ _ _ _ _ _ _ _ _ b), a)
   = ([CLoadAccount _ _ 1; CSload _ _ 66 0], [(1, 2, 9)], Err 166)) /\
  (let '(b, a) := toy_call true [(OSload _ _ 1 2, Propagate); (OSstore _ _ 1 2 77, Ignore); (OBalance _ _ 1, Ignore)]
      (Ok (1, 1)) tj0 in
   (br_calls _ _ _ _ _ _ _ _ _ b, tj_sto (br_journal _ _ _ _ _ _ _ _ _ b), a)
   = ([CSload _ _ 1 2], [(1, 2, 9)], Ok (0, 7))).
Proof. vm_compute. split; reflexivity. Qed.

Print Assumptions C11_fault_sticky.
Print Assumptions C11_fault_sticky_after_first_fault.
Print Assumptions C11_static_refuses_before_change.
Print Assumptions C11_adapter_enforces_fault.
Print Assumptions C11_facade_calls_are_journal_calls.
