(* C12 - the delegated-CREATE guard halts exactly delegated-context creates, nothing else.
   This file contains only property theorems (closed by [exact]/tiny glue) and their assumption
   audit.  The theorems quantify over EVERY machine of the shape of revm's interpreter loop (the
   section variables below: state type, plumbing, host, stock instruction bodies - see the header
   of Guard/Model.v); after [End C12] they are universally quantified arguments, not assumptions.

   [own_load_unobservable] - "host.load_account_delegated on the running frame's own address
   returns the state unchanged when the account carries no designator" - is an explicit premise of
   the theorems that need it; the program differential measures it on real revm. *)
From Grevm Require Import Base.Util Guard.Model Guard.Proofs.

Section C12.
  Variable St : Type.
  Variable addr : Type.
  Variable is_static : St -> bool.
  Variable spec_of : St -> spec.
  Variable target_address : St -> addr.
  Variable fetch : St -> nat.
  Variable pending : St -> bool.
  Variable drive : St -> St.
  Variable advance : St -> St.
  Variable charge : nat -> St -> option St.
  Variable halt_err : iresult -> St -> St.
  Variable host_load_delegated : addr -> St -> St * load_result.
  Variable create_body : bool -> St -> St * res.
  Variable other_instr : spec -> nat -> St -> St * res.
  Variable other_gas : spec -> nat -> nat.

  Notation stock_create := (stock_create St is_static spec_of create_body).
  Notation guarded_create :=
    (guarded_create St addr is_static spec_of target_address host_load_delegated create_body).
  Notation stock_table := (stock_table St is_static spec_of create_body other_instr other_gas).
  Notation gravity_instructions :=
    (gravity_instructions St addr is_static spec_of target_address host_load_delegated create_body
       other_instr other_gas).
  Notation scheduler_table :=
    (scheduler_table St addr is_static spec_of target_address host_load_delegated create_body
       other_instr other_gas).
  Notation run := (run St fetch pending drive advance charge halt_err).
  Notation delegated_create_at :=
    (delegated_create_at St addr is_static spec_of target_address fetch pending advance charge
       host_load_delegated).
  Notation load s := (host_load_delegated (target_address s) s).

  Notation own_load_unobservable :=
    (own_load_unobservable St addr target_address host_load_delegated).

  (* the five outcomes of guarded_create, in the code's order, with the state each one returns
     (the host is not consulted in the first two) *)
  Theorem C12_guard_decision_table :
    forall c2 s,
    guarded_create c2 s =
    match guard_decision (is_static s) c2 (spec_of s) (snd (load s)) with
    | DStatic => (s, Err StateChangeDuringStaticCall)
    | DPrePetersburg => (s, Err NotActivated)
    | DFatal => (fst (load s), Err FatalExternalError)
    | DDelegated => (fst (load s), Err NotActivated)
    | DStock => stock_create c2 (fst (load s))
    end.
  Proof. exact (guarded_create_decision St addr is_static spec_of target_address host_load_delegated create_body). Qed.

  (* ... and when each of the five applies *)
  Theorem C12_guard_decision_order :
    forall static c2 sp ld,
    (guard_decision static c2 sp ld = DStatic <-> static = true) /\
    (guard_decision static c2 sp ld = DPrePetersburg <->
       static = false /\ c2 = true /\ sp < PETERSBURG) /\
    (guard_decision static c2 sp ld = DFatal <->
       static = false /\ (c2 = true -> PETERSBURG <= sp) /\ ld = LoadFailed) /\
    (guard_decision static c2 sp ld = DDelegated <->
       static = false /\ (c2 = true -> PETERSBURG <= sp) /\ exists cold, ld = Loaded (Some cold)) /\
    (guard_decision static c2 sp ld = DStock <->
       static = false /\ (c2 = true -> PETERSBURG <= sp) /\ ld = Loaded None).
  Proof. exact guard_decision_cases. Qed.

  (* for every input whose frame account carries no designator - and for every static frame and
     every pre-Petersburg CREATE2, delegated or not - the guarded instruction IS the stock one *)
  Theorem C12_guard_eq_stock_unless_delegated :
    own_load_unobservable ->
    forall c2 s,
    (is_static s = true \/ (c2 = true /\ spec_of s < PETERSBURG) \/ snd (load s) = Loaded None) ->
    guarded_create c2 s = stock_create c2 s.
  Proof.
    intros Hload c2 s [H|[[H1 H2]|H]].
    - exact (guarded_eq_stock_static St addr is_static spec_of target_address host_load_delegated create_body Hload c2 s H).
    - subst c2. exact (guarded_eq_stock_pre_petersburg St addr is_static spec_of target_address host_load_delegated create_body Hload s H2).
    - exact (guarded_eq_stock_plain St addr is_static spec_of target_address host_load_delegated create_body Hload c2 s H).
  Qed.

  (* in a delegated context (non-static, CREATE2 activated) it halts with NotActivated and no part
     of the stock instruction runs *)
  Theorem C12_guard_halts_delegated :
    forall c2 s cold,
    is_static s = false -> (c2 = true -> PETERSBURG <= spec_of s) ->
    snd (load s) = Loaded (Some cold) ->
    guarded_create c2 s = (fst (load s), Err NotActivated).
  Proof.
    intros c2 s cold Hs Hp Hl.
    apply (guarded_halts_delegated St addr is_static spec_of target_address host_load_delegated create_body c2 s cold Hs); [|exact Hl].
    unfold pre_petersburg_create2. destruct c2; [|reflexivity].
    specialize (Hp eq_refl). apply is_enabled_in_spec in Hp. now rewrite Hp.
  Qed.

  (* the guarded table is the stock table with exactly two entries replaced; static gas equal
     everywhere *)
  Theorem C12_table_differs_only_at_create :
    forall sp op,
    (op <> CREATE -> op <> CREATE2 -> gravity_instructions sp op = stock_table sp op) /\
    e_gas St (gravity_instructions sp op) = e_gas St (stock_table sp op) /\
    e_fn St (gravity_instructions sp CREATE) = guarded_create false /\
    e_fn St (gravity_instructions sp CREATE2) = guarded_create true.
  Proof.
    intros sp op. split; [|split; [|split; reflexivity]].
    - exact (gravity_other St addr is_static spec_of target_address host_load_delegated create_body other_instr other_gas sp op).
    - exact (gravity_gas St addr is_static spec_of target_address host_load_delegated create_body other_instr other_gas sp op).
  Qed.

  (* any two runs from the same state, one per table, coincide step for step until a
     CREATE/CREATE2 executes in a delegated context - all programs, all fuels *)
  Theorem C12_runs_equal_unless_delegated_create :
    own_load_unobservable ->
    forall sp s n,
    (forall k, k < n -> delegated_create_at (run (stock_table sp) k s) = false) ->
    forall k, k <= n -> run (gravity_instructions sp) k s = run (stock_table sp) k s.
  Proof.
    exact (runs_agree_prefix St addr is_static spec_of target_address fetch pending drive advance
             charge halt_err host_load_delegated create_body other_instr other_gas).
  Qed.

  (* ... and at that first delegated-context create the guarded run halts the frame *)
  Theorem C12_first_delegated_create_halts :
    own_load_unobservable ->
    forall sp s n s2 cold,
    (forall k, k < n -> delegated_create_at (run (stock_table sp) k s) = false) ->
    let sn := run (stock_table sp) n s in
    pending sn = false -> is_create_op (fetch sn) = true ->
    charge 0 (advance sn) = Some s2 ->
    is_static s2 = false ->
    pre_petersburg_create2 (Nat.eqb (fetch sn) CREATE2) (spec_of s2) = false ->
    snd (load s2) = Loaded (Some cold) ->
    run (gravity_instructions sp) (S n) s = halt_err NotActivated (fst (load s2)).
  Proof.
    exact (first_delegated_create_halts St addr is_static spec_of target_address fetch pending drive
             advance charge halt_err host_load_delegated create_body other_instr other_gas).
  Qed.

  (* before Prague, or with the switch off, the table the scheduler installs (both execution paths
     go through build_evm) is the stock one, hence every run is a stock run *)
  Theorem C12_inert_before_prague_or_disabled :
    forall c sp,
    sp < PRAGUE \/ forbid_delegated_create c = false ->
    scheduler_table c sp = stock_table sp /\
    forall fuel s, run (scheduler_table c sp) fuel s = run (stock_table sp) fuel s.
  Proof.
    intros c sp H. split.
    - exact (scheduler_table_stock St addr is_static spec_of target_address host_load_delegated create_body other_instr other_gas c sp H).
    - intros fuel s. exact (scheduler_runs_stock St addr is_static spec_of target_address fetch pending drive advance charge halt_err host_load_delegated create_body other_instr other_gas c sp fuel s H).
  Qed.

  (* and from Prague on with the switch on it is the guarded one *)
  Theorem C12_selected_from_prague :
    forall c sp,
    (guard_selected c sp = true <-> forbid_delegated_create c = true /\ PRAGUE <= sp) /\
    (PRAGUE <= sp -> forbid_delegated_create c = true -> scheduler_table c sp = gravity_instructions sp).
  Proof.
    intros c sp. split.
    - exact (guard_selected_spec c sp).
    - exact (scheduler_table_gravity St addr is_static spec_of target_address host_load_delegated create_body other_instr other_gas c sp).
  Qed.
End C12.

(* the premise [own_load_unobservable] and all hypotheses are jointly satisfiable: the toy machine of
   Guard/Model.v, a delegated frame running  1 ; CREATE ; 2  - the stock run advances the account's
   nonce, the guarded run halts at the CREATE with the nonce untouched *)
Example C12_nonvacuous :
  own_load_unobservable toy unit (fun _ => tt) toy_load /\
  t_nonce (toy_run (toy_stock PRAGUE) 5 (toy_init [1; CREATE; 2] false PRAGUE (Some false))) = 8 /\
  t_nonce (toy_run (toy_gravity PRAGUE) 5 (toy_init [1; CREATE; 2] false PRAGUE (Some false))) = 7 /\
  t_halt (toy_run (toy_gravity PRAGUE) 5 (toy_init [1; CREATE; 2] false PRAGUE (Some false))) = Some NotActivated /\
  toy_run (toy_gravity PRAGUE) 5 (toy_init [1; CREATE; 2] false PRAGUE None)
  = toy_run (toy_stock PRAGUE) 5 (toy_init [1; CREATE; 2] false PRAGUE None).
Proof. split; [exact toy_load_noop|]. vm_compute. repeat split; reflexivity. Qed.

Print Assumptions C12_guard_decision_table.
Print Assumptions C12_guard_decision_order.
Print Assumptions C12_guard_eq_stock_unless_delegated.
Print Assumptions C12_guard_halts_delegated.
Print Assumptions C12_table_differs_only_at_create.
Print Assumptions C12_runs_equal_unless_delegated_create.
Print Assumptions C12_first_delegated_create_halts.
Print Assumptions C12_inert_before_prague_or_disabled.
Print Assumptions C12_selected_from_prague.
