(* C13 - delegated-balance reserve keeps an account's later transactions fundable.
   This file contains only property theorems (closed by [exact]) and their assumption audit. *)
From Grevm Require Import Base.Util Reserve.Planner Reserve.PlannerProofs.
Open Scope N_scope.

(* required_after(txid, a) = saturating sum of max_balance_spending (U256::MAX when it is
   undefined) over a's transactions with index > txid - as a pure function of the block *)
Theorem C13_required_after_spec :
  forall txs txid a, required_after txs txid a = required_spec txs txid a.
Proof. exact required_after_eq_spec. Qed.

(* ... and the lazy, shared planner returns exactly that for every query of every query
   sequence (so the answer does not depend on query order, on which account was asked first, or
   on which execution path - parallel worker or sequential fallback - asks) *)
Theorem C13_required_after_order_independent :
  forall txs qs st vs, run_queries txs pinit qs = (st, vs) ->
  vs = map (fun q => required_spec txs (fst q) (snd q)) qs.
Proof.
  intros txs qs st vs H.
  destruct (run_queries_correct txs qs pinit st vs (pinv_init txs) H) as [_ ->].
  apply map_ext. intros q. apply required_after_eq_spec.
Qed.

Print Assumptions C13_required_after_spec.
Print Assumptions C13_required_after_order_independent.
