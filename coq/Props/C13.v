(* C13 - delegated-balance reserve keeps an account's later transactions fundable.
   This file contains only property theorems (closed by [exact] / tiny glue) and their assumption
   audit.  Models: Reserve/{Planner,Journal,Rule,Funding}.v; instances: Reserve/Examples.v. *)
From Grevm Require Import Base.Util Reserve.Planner Reserve.PlannerProofs Reserve.Journal
  Reserve.JournalProofs Reserve.Rule Reserve.RuleProofs Reserve.Funding Reserve.FundingProofs
  Reserve.Examples.
Open Scope N_scope.

(* ------------------------------------------------------------------ required_after *)

(* required_after(txid, a) = saturating sum of max_balance_spending (U256::MAX when it is
   undefined) over a's transactions with index > txid - as a pure function of the block *)
Theorem C13_required_after_spec :
  forall txs txid a, required_after txs txid a = required_spec txs txid a.
Proof. exact required_after_eq_spec. Qed.

(* ... and the lazy, shared planner returns exactly that for every query of every query
   sequence (so the answer does not depend on query order, on which account was asked first, or
   on which execution path - parallel worker or sequential fallback - asks) *)
Theorem C13_required_after_order_independent :
  forall txs qs st vs, run_queries txs pinit qs = (st, vs) ->
  vs = map (fun q => required_spec txs (fst q) (snd q)) qs.
Proof.
  intros txs qs st vs H.
  destruct (run_queries_correct txs qs pinit st vs (pinv_init txs) H) as [_ ->].
  apply map_ext. intros q. apply required_after_eq_spec.
Qed.

(* the slices partition_point is applied to are strictly increasing (its contract applies) *)
Theorem C13_sender_index_sorted :
  forall txs a l, lookup (sender_index txs) a = Some l -> incr_from 0 l.
Proof. exact sender_index_sorted. Qed.

(* ------------------------------------------------------------------ the journal *)

(* for every well-formed journal (any state trace revm's entry semantics allows) the reverse walk
   returns the balance immediately before entry i, for every account and every i *)
Theorem C13_balance_before_exact :
  forall es s tr i a, wf_trace s es tr -> bounded s -> (i <= length es)%nat ->
  balance_before_entry es i a (last tr s a) = nth i (s :: tr) s a.
Proof. exact balance_before_exact. Qed.

(* ... and none of its saturating operations saturates *)
Theorem C13_balance_before_never_saturates :
  forall es s tr i a, wf_trace s es tr -> bounded s -> (i <= length es)%nat ->
  walk_back_checked a (skipn i es) (last tr s a) = Some (nth i (s :: tr) s a).
Proof. exact balance_before_never_saturates. Qed.

(* revm's checkpoint_revert over a well-formed suffix restores every balance *)
Theorem C13_checkpoint_revert_exact :
  forall es s tr, wf_trace s es tr -> bounded s -> forall a, revert_all (last tr s) es a = s a.
Proof. exact revert_all_exact. Qed.

(* selected = delegated sources with a surviving debit other than the root value transfer, each
   at its first such entry *)
Theorem C13_candidates_exact :
  forall t st entries cp (a : N) (g : nat),
  In (a, g) (scan t st (skipn cp entries) cp (negb (value t =? 0)) []) <->
  exists j, g = (cp + j)%nat /\
    first_protected t st (skipn cp entries) (root_pos t (skipn cp entries) (negb (value t =? 0))) j a.
Proof. exact candidates_exact. Qed.

Theorem C13_candidates_unique :
  forall t st entries cp,
  NoDup (map fst (scan t st (skipn cp entries) cp (negb (value t =? 0)) [])).
Proof. intros. apply scan_nodup. constructor. Qed.

Theorem C13_delegated_debits_exact :
  forall t st entries cp a before final,
  In (a, before, final) (delegated_debits_since entries cp t st) <->
  exists g d, In (a, g) (scan t st (skipn cp entries) cp (negb (value t =? 0)) []) /\
              lookup st a = Some (final, d) /\
              before = balance_before_entry entries g a final.
Proof. exact delegated_debits_exact. Qed.

(* the balance of a delegated account at its first protected debit is at least its balance at the
   checkpoint, less the transaction's own top-level value when that root transfer precedes it
   (no BalanceChange of the account in between: fee deduction precedes the checkpoint,
   reimbursement follows execution) - the abstraction Funding.v makes of one transaction *)
Theorem C13_first_protected_lower_bound :
  forall t st es s tr root_pending j a,
  wf_trace s es tr ->
  first_protected t st es (root_pos t es root_pending) j a ->
  is_delegated st a = true ->
  (forall k e, (k < j)%nat -> nth_opt es k = Some e -> is_change_of a e = false) ->
  s a <= nth j (s :: tr) s a + (if root_pending then value t else 0).
Proof. exact first_protected_lower_bound. Qed.

(* ------------------------------------------------------------------ the rule *)

Theorem C13_violation_iff :
  forall cands required,
  has_reserve_violation cands required = true <->
  exists a before final, In (a, before, final) cands /\
    required a <> 0 /\ final < N.min before (required a).
Proof. exact violation_iff. Qed.

Theorem C13_violation_order_insensitive :
  forall l l' required, (forall c, In c l <-> In c l') ->
  has_reserve_violation l required = has_reserve_violation l' required.
Proof. exact violation_order_insensitive. Qed.

Theorem C13_reserve_violation_iff :
  forall txs txid t entries cp st, nth_opt txs txid = Some t ->
  (reserve_violation txs txid entries cp st = true <->
   exists a g final d,
     In (a, g) (scan t st (skipn cp entries) cp (negb (value t =? 0)) []) /\
     lookup st a = Some (final, d) /\
     required_after txs txid a <> 0 /\
     final < N.min (balance_before_entry entries g a final) (required_after txs txid a)).
Proof. exact reserve_violation_iff. Qed.

(* policy off (switch off, or any spec before Prague): revm's default lifecycle, no checkpoint,
   no scan - for every instantiation of the opaque revm stages *)
Theorem C13_policy_off_identical :
  forall world gas rgas pre_exec execute refund_fn result_gas_of floor_fn reimburse reward
         set_refund_zero bump_nonce journal_view flag spec txid txs t w,
  flag = false \/ spec < PRAGUE ->
  run_mode world gas rgas pre_exec execute refund_fn result_gas_of floor_fn reimburse reward
           set_refund_zero bump_nonce journal_view (mode_of flag spec txid) txs t w
  = run_off world gas rgas pre_exec execute refund_fn result_gas_of floor_fn reimburse reward t w.
Proof. exact policy_off_identical. Qed.

(* policy on, rule not violated: identical to the policy being off *)
Theorem C13_on_without_violation_is_off :
  forall world gas rgas pre_exec execute refund_fn result_gas_of floor_fn reimburse reward
         set_refund_zero bump_nonce journal_view txs txid t w,
  verdict world gas pre_exec execute refund_fn floor_fn reimburse journal_view txs txid t w = false ->
  run_on world gas rgas pre_exec execute refund_fn result_gas_of floor_fn reimburse reward
         set_refund_zero bump_nonce journal_view txs txid t w
  = run_off world gas rgas pre_exec execute refund_fn result_gas_of floor_fn reimburse reward t w.
Proof. exact on_without_violation_is_off. Qed.

(* policy on, rule violated: charged top-level REVERT on the checkpoint state (fee, nonce bump,
   authorisation effects), create-tx nonce re-bumped, authorisation refund only *)
Theorem C13_on_with_violation :
  forall world gas rgas pre_exec execute refund_fn result_gas_of floor_fn reimburse reward
         set_refund_zero bump_nonce journal_view txs txid t w w1 ar w2 c out g,
  pre_exec t w = Some (w1, ar) -> execute t w1 = (w2, (c, out, g)) ->
  verdict world gas pre_exec execute refund_fn floor_fn reimburse journal_view txs txid t w = true ->
  run_on world gas rgas pre_exec execute refund_fn result_gas_of floor_fn reimburse reward
         set_refund_zero bump_nonce journal_view txs txid t w =
  match (if is_create t then bump_nonce (caller t) w1 else Some w1) with
  | None => Invalid world rgas
  | Some w1' =>
      let gv := floor_fn (refund_fn (set_refund_zero g) ar) in
      Done world rgas (reward t (reimburse t w1' gv) gv) IRevert 0
           (result_gas_of false (refund_fn (set_refund_zero g) ar))
  end.
Proof. exact on_with_violation. Qed.

(* ------------------------------------------------------------------ funding *)

(* if at block start balance a >= sum of the max costs of a's transactions (and is a U256), then
   before each of a's transactions balance a >= its max cost + required_after, for every
   interleaving of credits, own spending bounded by the max cost, and delegated debits guarded by
   the rule - so none of them is skipped for lack of funds *)
Theorem C13_fundable_stays_fundable :
  forall blk b, Forall wf_tx blk -> b <= MAX256 -> sumN (own_costs blk) <= b -> all_funded true b blk.
Proof. exact fundable_stays_fundable. Qed.

(* the ledger's required_after is the planner's *)
Theorem C13_req_after_is_planner :
  forall a pre t rest bpre x brest,
  aligned a (pre ++ t :: rest) (bpre ++ x :: brest) -> length pre = length bpre ->
  required_after (pre ++ t :: rest) (length pre) a = req_after brest.
Proof. exact req_after_is_planner. Qed.

(* the rule is needed: with the policy off a fundable account can be skipped *)
Theorem C13_unguarded_not_fundable :
  exists blk b, Forall wf_tx blk /\ b <= MAX256 /\ sumN (own_costs blk) <= b /\ ~ all_funded false b blk.
Proof.
  exists [drain; later_own], 100. split; [exact funding_wf|].
  split; [vm_compute; discriminate|]. split; [vm_compute; discriminate|exact funding_without_policy].
Qed.

Print Assumptions C13_required_after_spec.
Print Assumptions C13_required_after_order_independent.
Print Assumptions C13_sender_index_sorted.
Print Assumptions C13_balance_before_exact.
Print Assumptions C13_balance_before_never_saturates.
Print Assumptions C13_checkpoint_revert_exact.
Print Assumptions C13_candidates_exact.
Print Assumptions C13_candidates_unique.
Print Assumptions C13_delegated_debits_exact.
Print Assumptions C13_first_protected_lower_bound.
Print Assumptions C13_violation_iff.
Print Assumptions C13_violation_order_insensitive.
Print Assumptions C13_reserve_violation_iff.
Print Assumptions C13_policy_off_identical.
Print Assumptions C13_on_without_violation_is_off.
Print Assumptions C13_on_with_violation.
Print Assumptions C13_fundable_stays_fundable.
Print Assumptions C13_req_after_is_planner.
Print Assumptions C13_unguarded_not_fundable.
