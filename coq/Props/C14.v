(* C14 - a scheduler executes its block at most once. *)
From Grevm Require Import Base.Util Once.Model Once.Proofs.

(* among any number of concurrent or successive calls, in any interleaving of their steps, at most
   one call runs the block, and it runs it once *)
Theorem C14_block_runs_at_most_once :
  forall (tr : list oevent) (s : ostate), orun oinit tr = Some s -> length (body_runs s) <= 1.
Proof.
  intros tr s H. pose proof (oinv_run _ _ _ oinv_init H) as [Iu _ Ib Ind _ _].
  destruct (body_runs s) as [|c [|d l]] eqn:E; simpl; try lia. exfalso.
  assert (Hc : calls s c = CRan) by (apply Ib; left; auto).
  assert (Hd : calls s d = CRan) by (apply Ib; right; left; auto).
  assert (c = d) by (apply Iu; [rewrite Hc|rewrite Hd]; reflexivity). subst.
  inversion Ind; subst. apply H2. left; auto.
Qed.

(* exactly one winner: two calls whose compare-exchange succeeded are the same call *)
Theorem C14_exactly_one_winner :
  forall (tr : list oevent) (s : ostate) (c d : nat),
    orun oinit tr = Some s -> is_winner (calls s c) = true -> is_winner (calls s d) = true -> c = d.
Proof. intros tr s c d H. apply (oi_unique _ (oinv_run _ _ _ oinv_init H)). Qed.

(* every other call returns the error without touching outcomes, state or cursors *)
Theorem C14_losers_touch_nothing :
  forall (tr : list oevent) (s : ostate) (c : nat),
    orun oinit tr = Some s -> calls s c = CLost -> ~ In c (state_touched s).
Proof.
  intros tr s c H Hl Hin. pose proof (oinv_run _ _ _ oinv_init H) as I.
  apply (oi_touch _ I) in Hin. apply (oi_body _ I) in Hin. congruence.
Qed.

(* before any execution nothing has been touched *)
Theorem C14_untouched_before_start :
  forall (tr : list oevent) (s : ostate),
    orun oinit tr = Some s -> started s = false -> body_runs s = [] /\ state_touched s = [].
Proof. intros tr s H. apply (oi_not_started _ (oinv_run _ _ _ oinv_init H)). Qed.

Example C14_race_example :
  exists s, orun oinit [OEnter 0; OEnter 1; OCas 1 true; OCas 0 false; OBody 1; OReturnErr 0] = Some s
            /\ body_runs s = [1] /\ calls s 0 = CLost.
Proof. eexists. split; [vm_compute; reflexivity|]. split; reflexivity. Qed.

Print Assumptions C14_block_runs_at_most_once.
Print Assumptions C14_exactly_one_winner.
Print Assumptions C14_losers_touch_nothing.
Print Assumptions C14_untouched_before_start.
