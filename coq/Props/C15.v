(* C15 - validation cursors never lose a pending validation or pass an unexecuted tx.
   This file contains only property theorems (closed by [exact]) and their assumption audit. *)
From Grevm Require Import Base.Util Cursor.Model Cursor.Proofs.

(* no index at or beyond the limit a claim was called with is ever handed out - any number of
   threads, any interleaving, loads as stale as coherence allows, spurious CAS failures *)
Theorem C15_claim_below_limit :
  forall v0 tr s, run (init v0) tr = Some s ->
  forall t i lim, In (t, i, lim) (handed s) -> i < lim.
Proof. intros v0 tr s H. exact (handed_below_limit_inv _ _ _ H (fun _ _ _ F => match F with end)). Qed.

(* whenever the cursor is at or below i (in particular after [Rewind _ i], claims concurrent with
   the rewind included) and later above i, index i was handed out in between *)
Theorem C15_no_index_skipped :
  forall s tr s' i, run s tr = Some s' -> cur s <= i -> i < cur s' ->
  exists new t lim, handed s' = new ++ handed s /\ In (t, i, lim) new.
Proof. exact no_index_skipped_gen. Qed.

Theorem C15_rewound_reoffered :
  forall s t v s1 tr s' i, step s (Rewind t v) = Some s1 -> run s1 tr = Some s' ->
  v <= i -> i < cur s' ->
  exists new t' lim, handed s' = new ++ handed s1 /\ In (t', i, lim) new.
Proof.
  intros s t v s1 tr s' i Hr Hrun Hvi Hi.
  exact (no_index_skipped_gen s1 tr s' i Hrun (Nat.le_trans _ _ _ (proj1 (rewind_lowers _ _ _ _ Hr)) Hvi) Hi).
Qed.

(* between rewinds every index is handed to exactly one claimer *)
Theorem C15_handed_once_between_rewinds :
  forall v0 tr s, run (init v0) tr = Some s ->
  forallb (fun e => negb (is_rewind e)) tr = true ->
  NoDup (map (fun x => snd (fst x)) (handed s)).
Proof.
  intros v0 tr s H Hnr. eapply sdf_NoDup. exact (handed_once_inv _ _ _ H Hnr I).
Qed.

Print Assumptions C15_claim_below_limit.
Print Assumptions C15_no_index_skipped.
Print Assumptions C15_rewound_reoffered.
Print Assumptions C15_handed_once_between_rewinds.
