(* C15 - validation cursors never lose a pending validation or pass an unexecuted tx.
   This file contains only property theorems (closed by [exact]) and their assumption audit. *)
From Grevm Require Import Base.Util Cursor.Model Cursor.Proofs Frontier.Model Frontier.Proofs.
From Grevm Require Stm.Spec Stm.Core Stm.Safety.

(* no index at or beyond the limit a claim was called with is ever handed out - any number of
   threads, any interleaving, loads as stale as coherence allows, spurious CAS failures *)
Theorem C15_claim_below_limit :
  forall v0 tr s, run (init v0) tr = Some s ->
  forall t i lim, In (t, i, lim) (handed s) -> i < lim.
Proof. intros v0 tr s H. exact (handed_below_limit_inv _ _ _ H (fun _ _ _ F => match F with end)). Qed.

(* whenever the cursor is at or below i (in particular after [Rewind _ i], claims concurrent with
   the rewind included) and later above i, index i was handed out in between *)
Theorem C15_no_index_skipped :
  forall s tr s' i, run s tr = Some s' -> cur s <= i -> i < cur s' ->
  exists new t lim, handed s' = new ++ handed s /\ In (t, i, lim) new.
Proof. exact no_index_skipped_gen. Qed.

Theorem C15_rewound_reoffered :
  forall s t v s1 tr s' i, step s (Rewind t v) = Some s1 -> run s1 tr = Some s' ->
  v <= i -> i < cur s' ->
  exists new t' lim, handed s' = new ++ handed s1 /\ In (t', i, lim) new.
Proof.
  intros s t v s1 tr s' i Hr Hrun Hvi Hi.
  exact (no_index_skipped_gen s1 tr s' i Hrun (Nat.le_trans _ _ _ (proj1 (rewind_lowers _ _ _ _ Hr)) Hvi) Hi).
Qed.

(* between rewinds every index is handed to exactly one claimer *)
Theorem C15_handed_once_between_rewinds :
  forall v0 tr s, run (init v0) tr = Some s ->
  forallb (fun e => negb (is_rewind e)) tr = true ->
  NoDup (map (fun x => snd (fst x)) (handed s)).
Proof.
  intros v0 tr s H Hnr. eapply sdf_NoDup. exact (handed_once_inv _ _ _ H Hnr I).
Qed.

(* ---- the first-unexecuted frontier (any number of publishers, advancers and readers; frontier
   loads as stale as coherence allows; flag loads may be stale-false) ---- *)

(* the frontier never passes a transaction that has not completed an execution: every value the
   frontier ever held, and every value current() returned, has all flags below it set *)
Theorem C15_frontier_never_passes_unexecuted :
  forall n tr s, frun (finit n) tr = Some s ->
    (forall v, In v (fhist s) -> v <= fn s /\ forall k, k < v -> flags s k = true) /\
    (forall t lo r, In (t, lo, r) (returned s) -> forall k, k < r -> flags s k = true).
Proof.
  intros n tr s H. pose proof (finv_run _ _ _ (finv_init n) H) as I. split.
  - intros v Hv. exact (fi_sound _ I v Hv).
  - intros t lo r Hr. exact (proj2 (proj1 (fi_ret _ I t lo r Hr))).
Qed.

Theorem C15_frontier_monotone :
  forall n tr s v, frun (finit n) tr = Some s -> In v (fhist s) -> v <= fcur s.
Proof. intros n tr s v H. apply (fi_mono _ (finv_run _ _ _ (finv_init n) H)). Qed.

(* a scan that found completed transactions publishes them: after its fetch_max the frontier is
   beyond where the scan started, whatever order the publishers completed in *)
Theorem C15_advance_makes_progress :
  forall s t v prev s' ret lo start e,
    finv s -> fpcs s t = FAdvMax ret lo start e -> fstep s (FetchMax t v prev) = Some s' ->
    start < fcur s' /\ e <= fcur s'.
Proof.
  intros s t v prev s' ret lo start e I E H. simpl in H. rewrite E in H.
  destruct (Nat.eqb v e && Nat.eqb prev (fcur s)) eqn:Eb; [|discriminate]. inversion H; subst; clear H.
  pose proof (fi_pcs _ I t) as P. rewrite E in P. simpl in P. destruct P as [Hlt _].
  unfold fcur. simpl. rewrite last_app1. split; lia.
Qed.

(* the frontier catches up with completed transactions whatever order they completed in and
   whether or not their publishers advanced it (under the declared orderings two publishers can
   miss each other): a current() call whose flag loads were not stale and whose last frontier load
   was fresh returns at least the first index that had not completed when the call started.
   [returned] records (thread, lo, value) for such calls; lo is that first index, or 0 if one of
   the call's flag loads was stale (Frontier/Model.v, FlagLoad and CurFlag). *)
Theorem C15_frontier_catches_up :
  forall n tr s, frun (finit n) tr = Some s ->
  forall t lo r, In (t, lo, r) (returned s) -> lo <= r.
Proof.
  intros n tr s H t lo r Hr.
  exact (proj2 (fi_ret _ (finv_run _ _ _ (finv_init n) H) t lo r Hr)).
Qed.

(* non-vacuity: transaction 1 completes before 0, both publishers miss each other (stale loads)
   and leave the frontier at 1 with nobody advancing; a reader then returns 2 = its lower bound *)
Definition stuck_then_helped : list fevent :=
  [PubLoad1 1 1 0; FlagStore 1 1; PubLoad2 1 1 0;
   PubLoad1 2 0 0; FlagStore 2 0; PubLoad2 2 0 0; FlagLoad 2 0 true; FlagLoad 2 1 false;
   FetchMax 2 1 0; FlagLoad 2 1 false;
   CurLoad 3 1; CurFlag 3 true; FlagLoad 3 1 true; ScanEnd 3; FetchMax 3 2 1; ScanEnd 3; CurRet 3 2].
Example C15_catch_up_witness :
  exists s, frun (finit 2) stuck_then_helped = Some s /\ returned s = [(3, 2, 2)] /\ fcur s = 2.
Proof. vm_compute. eexists; split; [reflexivity|split; reflexivity]. Qed.

(* ---- a validation that predates a rewind covering it never makes its transaction final
   (protocol level, Stm model: every interleaving of the scheduler's hook events) ---- *)
Theorem C15_stale_validation_never_final :
  forall (b : Stm.Spec.block) tr s j n eff s',
    Stm.Core.run_trace b Stm.Core.init tr = Some s ->
    Stm.Core.step b s (Stm.Core.Finalize j n eff) = Some s' ->
    Stm.Core.st s j = Stm.Core.Unconfirmed /\ forall i, i <= j -> Stm.Core.lower s i < Stm.Core.unconf s j.
Proof. exact Stm.Safety.finality_needs_validation_newer_than_rewinds. Qed.

Print Assumptions C15_frontier_never_passes_unexecuted.
Print Assumptions C15_frontier_monotone.
Print Assumptions C15_frontier_catches_up.
Print Assumptions C15_advance_makes_progress.
Print Assumptions C15_stale_validation_never_final.
Print Assumptions C15_claim_below_limit.
Print Assumptions C15_no_index_skipped.
Print Assumptions C15_rewound_reoffered.
Print Assumptions C15_handed_once_between_rewinds.
