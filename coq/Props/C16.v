(* C16 - a blocked transaction is always re-offered once its blocker resolves. *)
From Grevm Require Import Base.Util Dep.Model Dep.Proofs.

(* every accepted interleaving of add / remove / commit / key_tx / next by any number of threads
   (lock regions and cursor RMWs as atomic steps; cursor loads arbitrary): a blocked transaction
   always has someone who will release it - its blocker still lists it as a dependent, or it waits
   behind its own commit boundary, is on board, and the commit of its predecessor is still to come *)
Theorem C16_blocked_has_releaser :
  forall n tr s x d, drun (dinit n) tr = Some s -> dep s x = Some d ->
    (d <> x -> In x (affect s d)) /\ (d = x -> cdone s < x /\ onboard s x = true).
Proof.
  intros n tr s x d H Hd. pose proof (dinv_run _ _ _ (dinv_init n) H) as I. split.
  - intros Hne. apply (di_edge _ I); auto.
  - intros ->. apply (di_self _ I); auto.
Qed.

(* an unblocked transaction that is on board is within one sweep of the execution cursor, or a
   claimer that already fetched its index is about to look at it *)
Theorem C16_unblocked_is_claimable :
  forall n tr s x, drun (dinit n) tr = Some s -> x < ntxs s -> onboard s x = true -> dep s x = None ->
    index s <= x \/ pending_claimer s x.
Proof. intros n tr s x H. apply (di_claimable _ (dinv_run _ _ _ (dinv_init n) H)). Qed.

Lemma cons_neq (x : nat) l : l = x :: l -> False.
Proof. intros H. apply (f_equal (@length nat)) in H. simpl in H. lia. Qed.

Ltac noclaim := exfalso; eapply cons_neq; eassumption.

(* a hand-out (cursor claim or direct hand-off) takes the transaction off board: exactly one
   claimer gets it per time it was put on board *)
Theorem C16_claim_unique :
  forall s e s' x, dinv s -> dstep s e = Some s' -> claims s' = x :: claims s ->
    onboard s x = true /\ fresh s x = true /\ onboard s' x = false /\ fresh s' x = false.
Proof.
  intros s e s' x I H Hc. destruct e; simpl in H.
  - destruct (pcs s t); try discriminate. inversion H; subst. noclaim.
  - dcrunch H; subst; simpl in Hc. noclaim.
  - dcrunch H; subst; bools; subst. simpl in Hc.
    destruct (onboard s i0) eqn:Eo; destruct (is_none (dep s i0)) eqn:Ed; simpl in Hc;
      try (noclaim; fail).
    inversion Hc; subst. simpl. rewrite !upd_same. repeat split; auto. apply (di_fresh _ I); auto.
  - dcrunch H; subst; simpl in Hc; noclaim.
  - destruct (pcs s t) as [| |d' pop todo nxt]; try discriminate.
    destruct (Nat.eqb d d'); [|discriminate]. destruct (remove_one x0 todo); [|discriminate].
    destruct (opt_eqb (dep s x0) (Some d)).
    + destruct (onboard s x0) eqn:Eo.
      * destruct a as [|[|[|[|a]]]]; try discriminate.
        -- destruct (pop && Nat.eqb x0 (S d)); [|discriminate]. inversion H; subst. simpl in Hc. inversion Hc; subst.
           simpl. rewrite !upd_same. repeat split; auto. apply (di_fresh _ I); auto.
        -- inversion H; subst; simpl in Hc. noclaim.
      * destruct (Nat.eqb a 1); [|discriminate]. inversion H; subst; simpl in Hc. noclaim.
    + destruct (Nat.eqb a 0); [|discriminate]. inversion H; subst; simpl in Hc. noclaim.
  - dcrunch H; subst; simpl in Hc; noclaim.
  - dcrunch H; subst; simpl in Hc; noclaim.
  - dcrunch H; subst; simpl in Hc; noclaim.
  - dcrunch H; subst; simpl in Hc; noclaim.
  - dcrunch H; subst; simpl in Hc; noclaim.
  - dcrunch H; subst; simpl in Hc; noclaim.
Qed.

(* a stale reverse edge never releases a transaction that now waits for someone else *)
Theorem C16_stale_edge_harmless :
  forall s t d x a s', dstep s (Release t d x a) = Some s' -> dep s x <> Some d ->
    a = 0 /\ onboard s' = onboard s /\ dep s' = dep s /\ index s' = index s /\ claims s' = claims s.
Proof.
  intros s t d x a s' H Hne. simpl in H.
  destruct (pcs s t) as [| |d' pop todo nxt]; try discriminate.
  destruct (Nat.eqb d d'); [|discriminate]. destruct (remove_one x todo); [|discriminate].
  destruct (opt_eqb (dep s x) (Some d)) eqn:E; [apply opt_eqb_eq in E; contradiction|].
  destruct (Nat.eqb_spec a 0); [|discriminate]. inversion H; subst. simpl. auto.
Qed.

(* ... while a live edge is cleared, and the dependent is handed over or the cursor is rewound *)
Theorem C16_live_edge_released :
  forall s t d x a s', dstep s (Release t d x a) = Some s' -> dep s x = Some d ->
    dep s' x = None /\ (onboard s x = true -> (a = 2 /\ claims s' = x :: claims s) \/ (a = 3 /\ index s' <= x)).
Proof.
  intros s t d x a s' H Hd. simpl in H.
  destruct (pcs s t) as [| |d' pop todo nxt]; try discriminate.
  destruct (Nat.eqb d d'); [|discriminate]. destruct (remove_one x todo); [|discriminate].
  rewrite Hd in H. simpl in H. rewrite Nat.eqb_refl in H.
  destruct (onboard s x) eqn:Eo.
  - destruct a as [|[|[|[|a]]]]; try discriminate.
    + destruct (pop && Nat.eqb x (S d)); [|discriminate]. inversion H; subst. simpl. rewrite upd_same. split; auto.
    + inversion H; subst. simpl. rewrite upd_same. split; auto. intros _. right. split; auto. apply Nat.le_min_r.
  - destruct (Nat.eqb a 1); [|discriminate]. inversion H; subst. simpl. rewrite upd_same. split; auto. discriminate.
Qed.

(* when remove(d) completes, nobody is blocked on d any more *)
Theorem C16_release_on_remove :
  forall s t d nxt s', dinv s -> dstep s (RemoveEnd t d nxt) = Some s' ->
    forall x, x <> d -> dep s' x <> Some d.
Proof.
  intros s t d nxt s' I H x Hne Hd. simpl in H.
  destruct (pcs s t) as [| |d' pop todo nxt'] eqn:E; try discriminate.
  destruct todo; [|discriminate]. destruct (Nat.eqb_spec d d') as [<-|]; [|discriminate].
  destruct (opt_eqb nxt nxt'); [|discriminate]. simpl in H. inversion H; subst. simpl in Hd.
  destruct (di_removing _ I _ _ _ _ _ E) as [_ Hrem].
  destruct (Hrem x (di_edge _ I x d Hd (not_eq_sym Hne))) as [[]|Hn]. contradiction.
Qed.

(* committing t-1 after publishing the boundary t releases a transaction parked behind it *)
Theorem C16_release_on_commit :
  forall s t j s', dstep s (Commit t j true) = Some s' -> S j < ntxs s ->
    dep s' (S j) = None /\ index s' <= S j.
Proof.
  intros s t j s' H Hlt. simpl in H. dcrunch H; subst; bools; subst; simpl.
  - rewrite upd_same. split; auto. apply Nat.le_min_r.
  - lia.
Qed.

(* key_tx installs the barrier only while the committed prefix has not reached the transaction;
   otherwise the transaction is on board, unblocked unless it waits for a predecessor, and the
   cursor is at or before it *)
Theorem C16_key_tx_barrier_or_rewind :
  forall s t x c da s', dstep s (KeyTx t x c da) = Some s' ->
    onboard s' x = true /\
    ((cpub s < x /\ dep s' x = Some x) \/ (x <= cpub s /\ dep s' x = dep s x /\ (dep s x = None -> index s' <= x))).
Proof.
  intros s t x c da s' H. simpl in H. dcrunch H; subst; bools; subst; simpl. rewrite !upd_same. split; auto.
  destruct (Nat.ltb_spec (cpub s) x).
  - left. auto.
  - right. repeat split; auto. intros Hn. rewrite Hn. simpl. apply Nat.le_min_r.
Qed.

Example C16_interleaving_example :
  exists s, drun (dinit 3)
    [NextFetch 0 0; NextClaim 0 0 true; NextFetch 1 1; NextClaim 1 1 true;
     AddDep 1 1 0 None; RemoveBegin 0 0 true 1; KeyTx 1 1 0 (Some 1); Release 0 0 1 0; RemoveEnd 0 0 None;
     PublishCommit 1; Commit 2 0 true] = Some s /\ dep s 1 = None /\ onboard s 1 = true /\ index s <= 1.
Proof. eexists. split; [vm_compute; reflexivity|]. repeat split; auto. Qed.

Print Assumptions C16_blocked_has_releaser.
Print Assumptions C16_unblocked_is_claimable.
Print Assumptions C16_claim_unique.
Print Assumptions C16_stale_edge_harmless.
Print Assumptions C16_live_edge_released.
Print Assumptions C16_release_on_remove.
Print Assumptions C16_release_on_commit.
Print Assumptions C16_key_tx_barrier_or_rewind.
