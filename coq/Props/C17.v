(* C17 - coordinator notifications are never lost. *)
From Grevm Require Import Base.Util Wait.Model Wait.Proofs Wait.Progress.

(* one waiter, any number of producers, every interleaving of register / check / yield / check /
   park with unblock / notify, notifications before registration, between the checks, between the
   second check and park, and while parked; the predicate may flip back at any time:
   a waiter asleep in park without a token has a blocked predicate, or a notification is pending *)
Theorem C17_no_lost_wakeup :
  forall (b0 : bool) (tr : list wevent) (s : wstate),
    wrun (winit b0) tr = Some s ->
    wp s = WParked -> token s = false -> blocked s = true \/ pending s.
Proof.
  intros b0 tr s H Hp Ht. pose proof (winv_run _ _ _ (winv_init b0) H) as [_ Im].
  destruct (blocked s) eqn:Eb; auto. destruct (Im (or_intror Hp) eq_refl) as [X|X]; [congruence|auto].
Qed.

(* hence, once the producers are quiescent and the predicate is unblocked, the waiter is not
   asleep: the stall timeout is never what wakes it *)
Theorem C17_timeout_never_needed :
  forall (b0 : bool) (tr : list wevent) (s : wstate),
    wrun (winit b0) tr = Some s ->
    (forall p, pending_at (pp s p) = false) -> asleep_unblocked s = false.
Proof.
  intros b0 tr s H Hq. unfold asleep_unblocked. destruct (wp s) eqn:Ew; auto.
  destruct (token s) eqn:Et; auto. destruct (blocked s) eqn:Eb; auto.
  destruct (C17_no_lost_wakeup b0 tr s H Ew Et) as [X|(p & X)]; [congruence|].
  rewrite Hq in X. discriminate.
Qed.

(* the premises are satisfiable: a notification that lands between the second check and park *)
Example C17_window_between_check_and_park :
  exists s, wrun (winit true) [WRegister; WCheck1 true; WCheck2 true; PUnblock 0; PNotifyRead 0 true; PUnpark 0; WPark] = Some s
            /\ wp s = WIdle /\ blocked s = false.
Proof. eexists. split; [vm_compute; reflexivity|]. split; reflexivity. Qed.

Example C17_parked_then_woken :
  exists s, wrun (winit true) [WRegister; WCheck1 true; WCheck2 true; WPark; PUnblock 1; PNotifyRead 1 true] = Some s
            /\ wp s = WParked /\ token s = false /\ blocked s = false /\ pending_at (pp s 1) = true.
Proof. eexists. split; [vm_compute; reflexivity|]. repeat split; reflexivity. Qed.

(* progress half: in every reachable state in which the waiter is asleep in park and the predicate
   is unblocked, the notifications still in flight wake it - a path of at most three events, made
   only of the remaining steps of one pending notify() (read the slot, unpark) and the waiter's
   resumption on the token; no timeout, no spurious wake-up, no further unblock, no new producer
   round.  The waiter then evaluates the unblocked predicate and wait_while returns. *)
Theorem C17_parked_waiter_is_woken_by_notifications_in_flight :
  forall (b0 : bool) (tr : list wevent) (s : wstate),
    wrun (winit b0) tr = Some s ->
    wp s = WParked -> blocked s = false ->
    exists tr' s', length tr' <= 3 /\ forallb completes_notify tr' = true /\
                   wrun s tr' = Some s' /\ wp s' = WIdle /\ blocked s' = false /\
                   exists s'', wstep s' (WCheck1 false) = Some s'' /\ wp s'' = WIdle.
Proof.
  intros b0 tr s H Hp Hb.
  destruct (parked_unblocked_is_woken s (winv_run _ _ _ (winv_init b0) H) Hp Hb)
    as (tr' & s' & Hl & Hc & Hr & Hw & Hb').
  exists tr', s'. repeat split; auto. exact (idle_check_returns s' Hw Hb').
Qed.

(* non-vacuity of the progress theorem: the longest path (the producer has changed the predicate
   and not yet read the slot) is really needed and really works *)
Example C17_progress_path_of_three :
  exists s s', wrun (winit true) [WRegister; WCheck1 true; WCheck2 true; WPark; PUnblock 1] = Some s
            /\ wp s = WParked /\ token s = false /\ blocked s = false
            /\ wstep s WWake = None
            /\ wrun s [PNotifyRead 1 true; PUnpark 1; WWake] = Some s' /\ wp s' = WIdle.
Proof. eexists. eexists. split; [vm_compute; reflexivity|]. repeat split; vm_compute; reflexivity. Qed.


(* the premise the tie has to check besides the WaitSlot steps: the evaluated predicate is the
   published state.  For the variant whose evaluation may answer "blocked" on an unblocked
   predicate (seeded change C17-r5: try_lock on a busy mutex inside the finality predicate) the
   no-lost-wake-up statement is false: asleep, no token, unblocked, nothing pending *)
Theorem C17_unfaithful_predicate_refuted :
  exists s, wrun_unfaithful (winit true) unfaithful_witness = Some s /\
            asleep_unblocked s = true /\ forall p, pending_at (pp s p) = false.
Proof. exact unfaithful_predicate_loses_wakeup. Qed.

Print Assumptions C17_no_lost_wakeup.
Print Assumptions C17_timeout_never_needed.
Print Assumptions C17_parked_waiter_is_woken_by_notifications_in_flight.
Print Assumptions C17_unfaithful_predicate_refuted.
