(* Non-trivial instances showing that the hypotheses of the C13 theorems are satisfiable and that
   the models compute what the unit tests of reserve.rs expect. *)
From Grevm Require Import Base.Util Reserve.Planner Reserve.PlannerProofs Reserve.Journal
  Reserve.JournalProofs Reserve.Rule Reserve.RuleProofs Reserve.Funding Reserve.FundingProofs.
Open Scope N_scope.

Definition mk (c : N) (v gl gp : N) : tx :=
  {| caller := c; kind := KCall 0; value := v; gas_limit := gl; gas_price := gp;
     tx_type := 0; blob_count := 0; max_fee_per_blob_gas := 0 |}.

(* reserve.rs tests: planner_is_lazy..., suffix_accumulates..., queries_use_logical_txid...,
   planner_saturates_malformed_or_oversized_suffixes *)
Example planner_three : let txs := [mk 170 0 10 2; mk 187 0 20 3; mk 170 0 30 4] in
  required_after txs 0 170 = 120 /\ required_after txs 0 187 = 60 /\ required_after txs 2 170 = 0.
Proof. vm_compute. auto. Qed.

Example planner_query_order :
  let txs := [mk 170 0 1 1; mk 170 0 1 1; mk 170 0 1 1; mk 170 0 1 1; mk 170 0 1 1;
              mk 170 0 1 1; mk 170 0 1 1; mk 170 0 1 1; mk 170 0 1 1] in
  snd (run_queries txs pinit [(7%nat, 170); (2%nat, 170); (8%nat, 170)]) = [1; 6; 0].
Proof. vm_compute. reflexivity. Qed.

Example planner_saturates :
  let txs := [mk 0 0 1 1; mk 170 0 (2 ^ 64 - 1) (2 ^ 128 - 1); mk 170 0 1 1] in
  max_balance_spending (mk 170 0 (2 ^ 64 - 1) (2 ^ 128 - 1)) = None /\ required_after txs 0 170 = MAX256.
Proof. vm_compute. auto. Qed.

(* a well-formed journal: credit 1000, debit 1000, reimbursement-style BalanceChange *)
Definition s0 : bals := fun a => if a =? 1 then 100 else if a =? 2 then 5000 else 0.
Definition s1 : bals := bset (bset s0 2 (s0 2 - 1000)) 1 (s0 1 + 1000).
Definition s2 : bals := bset (bset s1 1 (s1 1 - 1000)) 3 (s1 3 + 1000).
Definition s3 : bals := bset s2 1 150.
Definition es3 := [BalanceTransfer 2 1 1000; BalanceTransfer 1 3 1000; BalanceChange 1 100].

Example s0_bounded : bounded s0.
Proof. intros a. unfold s0. destruct (a =? 1); [|destruct (a =? 2)]; vm_compute; discriminate. Qed.

Example journal_wf : wf_trace s0 es3 [s1; s2; s3].
Proof.
  simpl. repeat split.
  - apply FTransfer; [discriminate| |]; vm_compute; discriminate.
  - apply FTransfer; [discriminate| |]; vm_compute; discriminate.
  - apply (FChange s2 1 150). vm_compute; discriminate.
Qed.

(* credit_before_first_debit_is_included_in_the_protected_balance: before the debit at index 1
   the balance was 1100 *)
Example journal_before : balance_before_entry es3 1 1 (s3 1) = 1100 /\ nth 1 (s0 :: [s1; s2; s3]) s0 1 = 1100.
Proof. vm_compute. auto. Qed.

(* journal_selects_only_delegated_debits_and_excludes_root_value *)
Example scan_unit_test :
  let t := {| caller := 170; kind := KCall 187; value := 10; gas_limit := 0; gas_price := 0;
              tx_type := 0; blob_count := 0; max_fee_per_blob_gas := 0 |} in
  delegated_debits_since
    [BalanceTransfer 170 187 10; BalanceTransfer 187 204 20; BalanceTransfer 170 204 30] 0 t
    [(170, (60, true)); (187, (90, false)); (204, (50, false))] = [(170, 90, 60)].
Proof. vm_compute. reflexivity. Qed.

(* selfdestruct_and_later_credit_restore_the_pre_debit_balance *)
Example scan_selfdestruct :
  delegated_debits_since [AccountDestroyed 170 187 5; BalanceTransfer 187 170 2] 0 (mk 0 0 0 0)
    [(170, (2, true)); (187, (3, false))] = [(170, 5, 2)].
Proof. vm_compute. reflexivity. Qed.

(* the comparison is strict: final = min(before, required) is allowed, one less is a violation *)
Example rule_boundary :
  has_reserve_violation [(170, 90, 60)] (fun _ => 60) = false /\
  has_reserve_violation [(170, 90, 59)] (fun _ => 60) = true /\
  has_reserve_violation [(170, 50, 50)] (fun _ => 60) = false /\
  has_reserve_violation [(170, 90, 0)] (fun _ => 0) = false.
Proof. vm_compute. auto. Qed.

(* a delegated account with balance 100 and one later own transaction of max cost 60; a sponsor's
   transaction makes its delegated code send away 70 *)
Definition drain : txrec :=
  {| own := false; tcost := 0; prepay := 0; rootv := 0; evs := [Debit 70]; reimb := 0;
     reimb_viol := 0; reward := 0; skipped := false |}.
Definition later_own : txrec :=
  {| own := true; tcost := 60; prepay := 21; rootv := 39; evs := []; reimb := 0;
     reimb_viol := 0; reward := 0; skipped := false |}.

Example funding_wf : Forall wf_tx [drain; later_own].
Proof. repeat constructor; vm_compute; discriminate. Qed.

Example funding_with_policy : all_funded true 100 [drain; later_own].
Proof. apply fundable_stays_fundable; [exact funding_wf| |]; vm_compute; discriminate. Qed.

(* without the policy the same block skips the later transaction for lack of funds *)
Example funding_without_policy : ~ all_funded false 100 [drain; later_own].
Proof. vm_compute. tauto. Qed.
