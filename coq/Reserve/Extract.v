From Grevm Require Import Base.Util Reserve.Planner.
Require Extraction. Require ExtrOcamlBasic.
Extraction Language OCaml.
Extraction "extract/reserve.ml" max_balance_spending required_after required_spec pinit run_queries.
