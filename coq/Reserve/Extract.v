From Grevm Require Import Base.Util Reserve.Planner Reserve.Journal Reserve.Rule Reserve.Funding.
Require Extraction. Require ExtrOcamlBasic.
Extraction Language OCaml.
Extraction "extract/reserve.ml" max_balance_spending required_after required_spec pinit run_queries
  delegated_debits_since balance_before_entry walk_back_checked has_reserve_violation
  reserve_violation effective_reserve step req_after.
