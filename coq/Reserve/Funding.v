(* An abstract per-account balance ledger over one block, for one externally owned account [a]
   (possibly carrying an EIP-7702 designator), in block order - the order both execution paths
   commit in.  Each transaction of the block is summarised by what it does to [a]'s balance:

   own transaction (a is the caller):  validation requires  balance >= max cost  (else skipped with
     LackOfFundForMaxFee);  [prepay] (gas_limit * effective price + blob fee) is deducted before
     the execution checkpoint;  the root value transfer [rootv] (the transaction's own top-level
     value; excluded from the rule; 0 when absent, a self-transfer or reverted) precedes every
     other movement;  own spending is bounded by the max cost:  prepay + rootv <= cost.
   any transaction: the surviving journal moves [a]'s balance by credits and - only while [a]
     carries a designator, since an EOA without code has no other debits - protected delegated
     debits ([evs], journal order; a debit larger than the balance does not happen: revm's transfer
     fails).  Then the caller is reimbursed ([reimb], own only), the rule is evaluated
     (Rule.candidate_violates on (balance before the first protected debit, final balance,
     required_after)), on violation the state returns to the checkpoint (balance after [prepay])
     and the caller is reimbursed again ([reimb_viol]); finally the beneficiary reward
     ([reward], if [a] is the beneficiary) is credited on both paths (handler.rs:292).
   A transaction skipped for another reason (nonce) leaves the balance unchanged ([skipped]).

   Ledger balances are unbounded [N]; the theorem assumes the initial balance is a U256.
   This file contains definitions only (no proofs). *)
From Grevm Require Import Base.Util Reserve.Planner Reserve.Rule.
Open Scope N_scope.

Inductive aev := Credit (v : N) | Debit (v : N).

Record txrec := {
  own : bool;
  tcost : N;
  prepay : N;
  rootv : N;
  evs : list aev;
  reimb : N;
  reimb_viol : N;
  reward : N;
  skipped : bool;
}.

Definition wf_tx (x : txrec) : Prop :=
  if own x then prepay x + rootv x <= tcost x
  else prepay x = 0 /\ rootv x = 0 /\ reimb x = 0 /\ reimb_viol x = 0.

(* balance and "balance before the first protected debit" along the surviving movements *)
Fixpoint play (b : N) (before : option N) (l : list aev) : N * option N :=
  match l with
  | [] => (b, before)
  | Credit v :: r => play (b + v) before r
  | Debit v :: r =>
      if (v =? 0) || (b <? v) then play b before r       (* zero values are no candidates; an unaffordable transfer fails *)
      else play (b - v) (match before with None => Some b | Some x => Some x end) r
  end.

(* required_after for the account at this position: saturating sum of the later own max costs *)
Definition own_costs (l : list txrec) : list N := map tcost (filter own l).
Definition req_after (rest : list txrec) : N := N.min (sumN (own_costs rest)) MAX256.

Inductive result := LackOfFunds | Balance (b : N).

Definition step (policy : bool) (required : N) (b : N) (x : txrec) : result :=
  if own x && (b <? tcost x) then LackOfFunds
  else if skipped x then Balance b
  else
    let b1 := b - prepay x in
    let '(b3, before) := play (b1 - rootv x) None (evs x) in
    let final := b3 + reimb x in
    let violated :=
      policy && match before with
                | None => false
                | Some bf => candidate_violates (fun _ => required) (0, bf, final)
                end in
    if violated then Balance (b1 + reimb_viol x + reward x)
    else Balance (final + reward x).

(* every own transaction, when reached, finds  balance >= its max cost + required_after *)
Fixpoint all_funded (policy : bool) (b : N) (blk : list txrec) : Prop :=
  match blk with
  | [] => True
  | x :: rest =>
      (own x = true -> tcost x + req_after rest <= b) /\
      match step policy (req_after rest) b x with
      | LackOfFunds => False
      | Balance b' => all_funded policy b' rest
      end
  end.

(* the ledger view of account [a] agrees with the block the planner sees *)
Definition aligned (a : N) (txs : list tx) (blk : list txrec) : Prop :=
  Forall2 (fun t x => own x = (caller t =? a) /\ (own x = true -> tcost x = cost t)) txs blk.
