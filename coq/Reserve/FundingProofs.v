(* Proofs about Reserve/Funding.v: an account that can pay for all its block transactions at block
   start is never skipped for lack of funds, whatever delegated execution does in between. *)
From Grevm Require Import Base.Util Reserve.Planner Reserve.PlannerProofs Reserve.Rule Reserve.RuleProofs Reserve.Funding.
Open Scope N_scope.

Lemma play_lower l : forall b before b3 bf,
  play b before l = (b3, bf) ->
  match before with
  | Some x => bf = Some x
  | None => match bf with None => b <= b3 | Some y => b <= y end
  end.
Proof.
  induction l as [|[v|v] r IH]; intros b before b3 bf H; simpl in H.
  - inversion H; subst. destruct bf; [reflexivity|lia].
  - specialize (IH _ _ _ _ H). destruct before; [exact IH|]. destruct bf; lia.
  - destruct ((v =? 0) || (b <? v)) eqn:E.
    + exact (IH _ _ _ _ H).
    + specialize (IH _ _ _ _ H). destruct before as [x|]; [exact IH|]. subst bf. lia.
Qed.

Lemma sumN_app l1 l2 : sumN (l1 ++ l2) = sumN l1 + sumN l2.
Proof. induction l1; simpl; lia. Qed.

Lemma own_costs_cons x rest :
  sumN (own_costs (x :: rest)) = (if own x then tcost x else 0) + sumN (own_costs rest).
Proof. unfold own_costs. simpl. destruct (own x); simpl; lia. Qed.

(* one transaction preserves "balance covers all remaining own max costs" and is never a
   lack-of-funds skip *)
Lemma step_preserves x rest b :
  wf_tx x -> sumN (own_costs (x :: rest)) <= b -> sumN (own_costs (x :: rest)) <= MAX256 ->
  (own x = true -> tcost x + req_after rest <= b) /\
  exists b', step true (req_after rest) b x = Balance b' /\ sumN (own_costs rest) <= b'.
Proof.
  intros Hwf Hb Hmax. rewrite own_costs_cons in Hb, Hmax.
  assert (HR : req_after rest = sumN (own_costs rest)) by (unfold req_after; destruct (own x); lia).
  split; [intros Ho; rewrite Ho in Hb; lia|].
  unfold step. rewrite HR.
  set (S' := sumN (own_costs rest)) in *.
  assert (Hfund : own x && (b <? tcost x) = false).
  { destruct (own x); simpl; [|reflexivity]. apply N.ltb_ge. lia. }
  rewrite Hfund.
  destruct (skipped x); [exists b; split; [reflexivity|destruct (own x); lia]|].
  destruct (play (b - prepay x - rootv x) None (evs x)) as [b3 before] eqn:Ep.
  pose proof (play_lower _ _ _ _ _ Ep) as Hlow. simpl in Hlow.
  assert (Hb2 : S' <= b - prepay x - rootv x).
  { unfold wf_tx in Hwf. destruct (own x); [lia|]. destruct Hwf as (-> & -> & _). lia. }
  destruct before as [bf|]; cbn [andb].
  - destruct (candidate_violates (fun _ => S') (0, bf, b3 + reimb x)) eqn:Ev.
    + eexists; split; [reflexivity|]. lia.
    + eexists; split; [reflexivity|].
      destruct (N.eq_dec S' 0) as [E0|E0]; [lia|].
      assert (Hn : ~ (S' <> 0 /\ b3 + reimb x < N.min bf S')).
      { rewrite <- (candidate_violates_iff (fun _ => S') 0 bf (b3 + reimb x)). rewrite Ev. discriminate. }
      assert (N.min bf S' <= b3 + reimb x) by (destruct (N.le_gt_cases (N.min bf S') (b3 + reimb x)); [assumption|exfalso; apply Hn; split; assumption]).
      lia.
  - eexists; split; [reflexivity|]. lia.
Qed.

Theorem fundable_stays_fundable blk : forall b,
  Forall wf_tx blk -> b <= MAX256 -> sumN (own_costs blk) <= b -> all_funded true b blk.
Proof.
  assert (G : forall blk b, Forall wf_tx blk -> sumN (own_costs blk) <= MAX256 ->
              sumN (own_costs blk) <= b -> all_funded true b blk).
  { induction blk0 as [|x rest IH]; intros b Hwf Hmax Hb; simpl; [exact I|].
    inversion Hwf as [|? ? Hx Hrest]; subst.
    destruct (step_preserves x rest b Hx Hb Hmax) as [Hown (b' & Hs & Hb')].
    split; [exact Hown|]. rewrite Hs. apply IH; auto.
    rewrite own_costs_cons in Hmax. lia. }
  intros b Hwf Hmax Hb. apply G; auto. lia.
Qed.

(* the ledger's required_after is the planner's, for an aligned view *)
Lemma aligned_later_costs a txs blk : aligned a txs blk -> forall i txid, (txid < i)%nat ->
  later_costs_from txs i txid a = own_costs blk.
Proof.
  unfold aligned. induction 1 as [|t x txs blk [Ho Hc] HF IH]; intros i txid Hlt; simpl; [reflexivity|].
  unfold own_costs. simpl. destruct (Nat.ltb_spec txid i); [|lia]. simpl.
  rewrite <- Ho. destruct (own x) eqn:Eo; simpl.
  - rewrite Hc by reflexivity. f_equal. apply IH. lia.
  - apply IH. lia.
Qed.

Lemma later_costs_skip_prefix pre : forall rest i a,
  later_costs_from (pre ++ rest) i (i + length pre - 1)%nat a =
  later_costs_from rest (i + length pre)%nat (i + length pre - 1)%nat a.
Proof.
  induction pre as [|t pre IH]; intros rest i a; simpl.
  - f_equal. lia.
  - destruct (Nat.ltb_spec (i + S (length pre) - 1) i); [lia|]. simpl.
    replace (i + S (length pre) - 1)%nat with (S i + length pre - 1)%nat by lia.
    rewrite IH. f_equal. lia.
Qed.

Lemma aligned_drop_prefix a pre : forall bpre l bl,
  aligned a (pre ++ l) (bpre ++ bl) -> length pre = length bpre -> aligned a l bl.
Proof.
  unfold aligned. induction pre as [|t pre IH]; intros [|x bpre] l bl H Hlen; simpl in *; try discriminate; auto.
  inversion H; subst. eapply IH; eauto.
Qed.

(* required_after(txid, a) of the planner = req_after of the ledger's remaining block *)
Theorem req_after_is_planner a pre t rest bpre x brest :
  aligned a (pre ++ t :: rest) (bpre ++ x :: brest) -> length pre = length bpre ->
  required_after (pre ++ t :: rest) (length pre) a = req_after brest.
Proof.
  intros Hal Hlen. rewrite required_after_eq_spec. unfold required_spec, req_after. f_equal. f_equal.
  assert (Hal' : aligned a rest brest).
  { apply (aligned_drop_prefix a pre) in Hal; [|exact Hlen]. inversion Hal; subst. assumption. }
  replace (pre ++ t :: rest) with ((pre ++ [t]) ++ rest) by (rewrite <- app_assoc; reflexivity).
  pose proof (later_costs_skip_prefix (pre ++ [t]) rest 0 a) as Hs.
  rewrite app_length in Hs. simpl in Hs.
  replace (length pre + 1 - 1)%nat with (length pre) in Hs by lia.
  rewrite Hs. apply aligned_later_costs; [exact Hal'|lia].
Qed.
