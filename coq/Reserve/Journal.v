(* Model of the journal side of src/delegated_safety/reserve.rs:160-282:
   `delegated_debits_since` (scan of the surviving journal from the execution checkpoint with
   root-transfer exclusion and the designator test on the final state), `is_root_value_transfer`,
   and the reverse walk `balance_before_entry`; plus revm's forward / revert semantics of the
   balance-carrying journal entries (revm-context-interface-19.0.3 journaled_state/entry.rs:114-229,
   309-420; producers in revm-context-18.0.3 journal/inner.rs:432-478 transfer_loaded, 540-570
   create_account_checkpoint, 628-720 selfdestruct, account.rs set_balance/incr_balance/decr_balance).

   Entry kinds: BalanceTransfer | AccountDestroyed | BalanceChange | Other (every other kind; the
   code's `_ => {}` / `_ => None` arms).  Balances are U256 values as [N]; the reverse walk's
   saturating operations are modelled as such ([sat_add], [sat_sub]).

   The HashMap `first_debit` is modelled as an association list in first-insertion order; the
   code's result order is the HashMap's (unspecified) iteration order, so results are compared as
   sets (sorted by address) and the only consumer, `has_reserve_violation`, is an existential over
   the candidates (Rule.v), which is order-insensitive.

   This file contains definitions only (no proofs). *)
From Grevm Require Import Base.Util Reserve.Planner.
Open Scope N_scope.

Inductive entry :=
| BalanceTransfer (from to : N) (v : N)
| AccountDestroyed (addr target : N) (had : N)
| BalanceChange (addr : N) (old : N)
| Other.

(* what the scan reads of the final journaled state: address -> (info.balance, info.code is an
   EIP-7702 designator); an address absent from the list is not loaded (`state.get` = None) *)
Definition jstate := list (N * (N * bool)).

(* reserve.rs:226-239 *)
Definition is_root_value_transfer (e : entry) (t : tx) : bool :=
  match e with
  | BalanceTransfer f to v =>
      if negb (f =? caller t) || negb (v =? value t) then false
      else match kind t with KCall target => to =? target | KCreate => true end
  | _ => false
  end.

(* reserve.rs:180-192: the source of a real debit *)
Definition debit_source (e : entry) : option N :=
  match e with
  | BalanceTransfer f to v => if negb (f =? to) && negb (v =? 0) then Some f else None
  | AccountDestroyed a _ had => if negb (had =? 0) then Some a else None
  | _ => None
  end.

(* reserve.rs:196-201 *)
Definition is_delegated (st : jstate) (a : N) : bool :=
  match lookup st a with Some (_, d) => d | None => false end.

(* first_debit.entry(source).or_insert(entry_index) *)
Definition first_insert (first : list (N * nat)) (a : N) (i : nat) : list (N * nat) :=
  match lookup first a with Some _ => first | None => first ++ [(a, i)] end.

(* reserve.rs:171-205; [i] is the global index of the head of [es] *)
Fixpoint scan (t : tx) (st : jstate) (es : list entry) (i : nat) (root_pending : bool)
         (first : list (N * nat)) : list (N * nat) :=
  match es with
  | [] => first
  | e :: r =>
      if root_pending && is_root_value_transfer e t then scan t st r (S i) false first
      else
        match debit_source e with
        | Some src =>
            if is_delegated st src then scan t st r (S i) root_pending (first_insert first src i)
            else scan t st r (S i) root_pending first
        | None => scan t st r (S i) root_pending first
        end
  end.

(* reserve.rs:250-282: one step of the reverse walk for account [a] *)
Definition undo_entry (a : N) (bal : N) (e : entry) : N :=
  match e with
  | BalanceTransfer f to v =>
      if (f =? a) && negb (to =? a) then sat_add bal v
      else if (to =? a) && negb (f =? a) then sat_sub bal v
      else bal
  | AccountDestroyed d tg had =>
      if d =? a then sat_add bal had
      else if tg =? a then sat_sub bal had
      else bal
  | BalanceChange c old => if c =? a then old else bal
  | Other => bal
  end.

(* entries[entry_index..].iter().rev(): the last entry is undone first *)
Definition walk_back (a : N) (suffix : list entry) (final : N) : N :=
  fold_right (fun e b => undo_entry a b e) final suffix.

Definition balance_before_entry (entries : list entry) (i : nat) (a : N) (final : N) : N :=
  walk_back a (skipn i entries) final.

(* reserve.rs:161-223: (address, balance_before, final_balance) *)
Definition delegated_debits_since (entries : list entry) (cp : nat) (t : tx) (st : jstate)
  : list (N * N * N) :=
  let first := scan t st (skipn cp entries) cp (negb (value t =? 0)) [] in
  flat_map (fun ai : N * nat =>
    match lookup st (fst ai) with
    | None => []                                     (* filter_map: `state.get(&address)?` *)
    | Some (fb, _) => [(fst ai, balance_before_entry entries (snd ai) (fst ai) fb, fb)]
    end) first.

(* ---------------- revm's semantics of the balance-carrying entries ---------------- *)

Definition bals := N -> N.
Definition bset (s : bals) (a v : N) : bals := fun b => if b =? a then v else s b.
Definition bounded (s : bals) : Prop := forall a, s a <= MAX256.

(* [fwd s e s']: revm pushes entry [e] while moving the balances from [s] to [s'].
   FTransfer: transfer_loaded (from <> to, checked_sub / checked_add succeed; CALL value, the root
   value transfer), create_account_checkpoint (CREATE endowment), selfdestruct after Cancun of an
   account not created in this transaction (the value may be 0 there).  FTransferSelf is never
   pushed by revm; it is included because its revert and its reverse-walk step are both no-ops.
   FDestroy/FDestroySelf: selfdestruct (had_balance = the whole balance; target credited first).
   FChange: set_balance / incr_balance / decr_balance (fee deduction, reimbursement, beneficiary
   reward) - records the old balance, the new one is arbitrary. *)
Inductive fwd : bals -> entry -> bals -> Prop :=
| FTransfer s f t v : f <> t -> v <= s f -> s t + v <= MAX256 ->
    fwd s (BalanceTransfer f t v) (bset (bset s f (s f - v)) t (s t + v))
| FTransferSelf s f v : v <= MAX256 -> fwd s (BalanceTransfer f f v) s
| FDestroy s a t : a <> t -> s t + s a <= MAX256 ->
    fwd s (AccountDestroyed a t (s a)) (bset (bset s t (s t + s a)) a 0)
| FDestroySelf s a : fwd s (AccountDestroyed a a (s a)) (bset s a 0)
| FChange s a new : new <= MAX256 -> fwd s (BalanceChange a (s a)) (bset s a new)
| FOther s : fwd s Other s.

(* a well-formed journal together with the balances after each entry *)
Fixpoint wf_trace (s : bals) (es : list entry) (tr : list bals) : Prop :=
  match es, tr with
  | [], [] => True
  | e :: es', s1 :: tr' => fwd s e s1 /\ wf_trace s1 es' tr'
  | _, _ => False
  end.

(* JournalEntry::revert on the balances (entry.rs:340-372); U256 `+=` / `-=` wrap *)
Definition TWO256 : N := 2 ^ 256.
Definition wadd (a b : N) : N := (a + b) mod TWO256.
Definition wsub (a b : N) : N := (a + TWO256 - b mod TWO256) mod TWO256.

Definition revert_entry (s : bals) (e : entry) : bals :=
  match e with
  | BalanceTransfer f t v =>
      let s1 := bset s f (wadd (s f) v) in bset s1 t (wsub (s1 t) v)
  | AccountDestroyed a t had =>
      let s1 := bset s a (wadd (s a) had) in
      if a =? t then s1 else bset s1 t (wsub (s1 t) had)
  | BalanceChange a old => bset s a old
  | Other => s
  end.

(* checkpoint_revert: pop and revert the entries above the checkpoint, newest first *)
Definition revert_all (s : bals) (suffix : list entry) : bals :=
  fold_right (fun e acc => revert_entry acc e) s suffix.

(* the reverse walk with the saturating operations replaced by checked ones: None as soon as a
   saturating_add / saturating_sub of the code would actually saturate *)
Definition undo_entry_checked (a : N) (bal : N) (e : entry) : option N :=
  match e with
  | BalanceTransfer f to v =>
      if (f =? a) && negb (to =? a) then (if bal + v <=? MAX256 then Some (bal + v) else None)
      else if (to =? a) && negb (f =? a) then (if v <=? bal then Some (bal - v) else None)
      else Some bal
  | AccountDestroyed d tg had =>
      if d =? a then (if bal + had <=? MAX256 then Some (bal + had) else None)
      else if tg =? a then (if had <=? bal then Some (bal - had) else None)
      else Some bal
  | BalanceChange c old => if c =? a then Some old else Some bal
  | Other => Some bal
  end.

Definition walk_back_checked (a : N) (suffix : list entry) (final : N) : option N :=
  fold_right (fun e ob => match ob with Some b => undo_entry_checked a b e | None => None end)
             (Some final) suffix.

(* ---------------- specification of the candidate selection ---------------- *)

(* position (within [es]) of the entry skipped as the root value transfer *)
Fixpoint find_root (t : tx) (es : list entry) : option nat :=
  match es with
  | [] => None
  | e :: r => if is_root_value_transfer e t then Some 0%nat
              else match find_root t r with Some k => Some (S k) | None => None end
  end.

Definition root_pos (t : tx) (es : list entry) (pending : bool) : option nat :=
  if pending then find_root t es else None.

(* entry [j] of [es] is a surviving debit of the delegated account [a] that is not the root
   value transfer *)
Definition protected_at (t : tx) (st : jstate) (es : list entry) (root : option nat) (j : nat) (a : N) : Prop :=
  exists e, nth_opt es j = Some e /\ root <> Some j /\ debit_source e = Some a /\ is_delegated st a = true.

Definition first_protected (t : tx) (st : jstate) (es : list entry) (root : option nat) (j : nat) (a : N) : Prop :=
  protected_at t st es root j a /\ forall j', (j' < j)%nat -> ~ protected_at t st es root j' a.
