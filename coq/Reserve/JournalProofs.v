(* Proofs about Reserve/Journal.v: the reverse walk is exact on every well-formed journal (and never
   saturates), checkpoint_revert restores the balances, and the scan selects exactly the first
   protected debit of every delegated source. *)
From Grevm Require Import Base.Util Reserve.Planner Reserve.PlannerProofs Reserve.Journal.
Open Scope N_scope.

Ltac beq_cases :=
  repeat match goal with
  | |- context [?x =? ?y] => destruct (N.eqb_spec x y); subst; simpl
  | H : context [?x =? ?y] |- _ => destruct (N.eqb_spec x y); subst; simpl in H
  end.

Ltac leb_case :=
  match goal with |- context [?x <=? ?y] => destruct (N.leb_spec x y); [f_equal; lia | exfalso; lia] end.

(* ---------- forward steps keep balances within U256 ---------- *)

Lemma fwd_bounded s e s1 : fwd s e s1 -> bounded s -> bounded s1.
Proof.
  intros H Hb b. inversion H; subst; clear H; unfold bset; auto;
    pose proof (Hb b); try pose proof (Hb f); try pose proof (Hb a); beq_cases; lia.
Qed.

Lemma last_nonempty_indep {A} l : forall (y d d' : A), last (y :: l) d = last (y :: l) d'.
Proof. induction l as [|z l IH]; intros y d d'; [reflexivity|]. exact (IH z d d'). Qed.

Lemma last_cons_default {A} (x : A) l d : last (x :: l) d = last l x.
Proof. destruct l as [|y l]; [reflexivity|]. exact (last_nonempty_indep l y d x). Qed.

Lemma wf_trace_bounded es : forall s tr, wf_trace s es tr -> bounded s -> bounded (last tr s).
Proof.
  induction es as [|e es IH]; intros s [|s1 tr] H Hb; simpl in H; try contradiction; auto.
  destruct H as [Hf Hw]. rewrite last_cons_default.
  exact (IH s1 tr Hw (fwd_bounded _ _ _ Hf Hb)).
Qed.

(* ---------- one reverse-walk step undoes one forward step, without saturating ---------- *)

Lemma undo_fwd_checked s e s1 a : fwd s e s1 -> bounded s -> undo_entry_checked a (s1 a) e = Some (s a).
Proof.
  intros H Hb. inversion H; subst; clear H; unfold undo_entry_checked, bset; simpl;
    try pose proof (Hb f); try pose proof (Hb t); try pose proof (Hb a0); pose proof (Hb a).
  - beq_cases; try congruence; try reflexivity.
    + leb_case.
    + destruct (N.leb_spec v (s a + v)); [f_equal; lia | exfalso; lia].
  - beq_cases; try congruence; reflexivity.
  - beq_cases; try congruence; try reflexivity.
    + leb_case.
    + leb_case.
  - beq_cases; try congruence; try reflexivity.
    leb_case.
  - beq_cases; try congruence; reflexivity.
  - reflexivity.
Qed.

Lemma undo_checked_sound a bal e v : undo_entry_checked a bal e = Some v -> undo_entry a bal e = v.
Proof.
  unfold undo_entry_checked, undo_entry, sat_add, sat_sub. destruct e; simpl; intros H.
  - destruct ((from =? a) && negb (to =? a)).
    + destruct (N.leb_spec (bal + v0) MAX256); inversion H; lia.
    + destruct ((to =? a) && negb (from =? a)).
      * destruct (N.leb_spec v0 bal); inversion H; lia.
      * inversion H; reflexivity.
  - destruct (addr =? a).
    + destruct (N.leb_spec (bal + had) MAX256); inversion H; lia.
    + destruct (target =? a).
      * destruct (N.leb_spec had bal); inversion H; lia.
      * inversion H; reflexivity.
  - destruct (addr =? a); inversion H; reflexivity.
  - inversion H; reflexivity.
Qed.

Lemma undo_fwd s e s1 a : fwd s e s1 -> bounded s -> undo_entry a (s1 a) e = s a.
Proof. intros H Hb. apply undo_checked_sound. eapply undo_fwd_checked; eauto. Qed.

(* ---------- the whole walk ---------- *)

Lemma walk_back_checked_cons a e es final :
  walk_back_checked a (e :: es) final =
  match walk_back_checked a es final with Some b => undo_entry_checked a b e | None => None end.
Proof. reflexivity. Qed.

Lemma walk_back_cons a e es final : walk_back a (e :: es) final = undo_entry a (walk_back a es final) e.
Proof. reflexivity. Qed.

Lemma walk_back_checked_exact a es : forall s tr, wf_trace s es tr -> bounded s ->
  walk_back_checked a es (last tr s a) = Some (s a).
Proof.
  induction es as [|e es IH]; intros s [|s1 tr] H Hb; simpl in H; try contradiction; auto.
  destruct H as [Hf Hw]. rewrite last_cons_default, walk_back_checked_cons.
  rewrite (IH s1 tr Hw (fwd_bounded _ _ _ Hf Hb)).
  eapply undo_fwd_checked; eauto.
Qed.

Lemma walk_back_checked_sound a es final : forall v,
  walk_back_checked a es final = Some v -> walk_back a es final = v.
Proof.
  induction es as [|e es IH]; intros v H.
  - inversion H; reflexivity.
  - rewrite walk_back_checked_cons in H. rewrite walk_back_cons.
    destruct (walk_back_checked a es final) as [b|] eqn:E; [|discriminate].
    rewrite (IH b eq_refl). apply undo_checked_sound; exact H.
Qed.

Lemma walk_back_exact a es s tr : wf_trace s es tr -> bounded s -> walk_back a es (last tr s a) = s a.
Proof. intros. apply walk_back_checked_sound. eapply walk_back_checked_exact; eauto. Qed.

(* state before entry i of a trace, and the remaining trace *)
Lemma wf_trace_skipn es : forall i s tr, wf_trace s es tr -> bounded s -> (i <= length es)%nat ->
  exists si tri, wf_trace si (skipn i es) tri /\ bounded si /\
                 si = nth i (s :: tr) s /\ last tri si = last tr s.
Proof.
  induction es as [|e es IH]; intros i s tr H Hb Hi.
  - destruct tr; simpl in H; try contradiction. destruct i; simpl in Hi; [|lia].
    exists s, []. simpl. auto.
  - destruct tr as [|s1 tr]; simpl in H; try contradiction. destruct H as [Hf Hw].
    destruct i as [|i].
    + exists s, (s1 :: tr). simpl. repeat split; auto.
    + simpl in Hi. destruct (IH i s1 tr Hw (fwd_bounded _ _ _ Hf Hb) ltac:(lia)) as (si & tri & Hw' & Hb' & Hnth & Hlast).
      exists si, tri. repeat split; auto.
      * rewrite Hnth. destruct i; simpl; auto. apply nth_indep.
        assert (Hlen : length tr = length es).
        { clear -Hw. revert s1 tr Hw. induction es as [|e es IH]; intros s1 [|s2 tr] H; simpl in H; try contradiction; auto.
          destruct H as [_ H]. simpl. f_equal. eapply IH; eauto. }
        lia.
      * rewrite last_cons_default. exact Hlast.
Qed.

(* balance_before_entry returns the balance immediately before entry i *)
Theorem balance_before_exact es s tr i a :
  wf_trace s es tr -> bounded s -> (i <= length es)%nat ->
  balance_before_entry es i a (last tr s a) = nth i (s :: tr) s a.
Proof.
  intros Hw Hb Hi. unfold balance_before_entry.
  destruct (wf_trace_skipn es i s tr Hw Hb Hi) as (si & tri & Hw' & Hb' & Hnth & Hlast).
  rewrite <- Hlast, <- Hnth. apply walk_back_exact; auto.
Qed.

(* ... and no saturating operation of the walk saturates *)
Theorem balance_before_never_saturates es s tr i a :
  wf_trace s es tr -> bounded s -> (i <= length es)%nat ->
  walk_back_checked a (skipn i es) (last tr s a) = Some (nth i (s :: tr) s a).
Proof.
  intros Hw Hb Hi.
  destruct (wf_trace_skipn es i s tr Hw Hb Hi) as (si & tri & Hw' & Hb' & Hnth & Hlast).
  rewrite <- Hlast, <- Hnth. apply walk_back_checked_exact; auto.
Qed.

(* ---------- checkpoint_revert restores the balances ---------- *)

Lemma wadd_exact a b : a + b <= MAX256 -> wadd a b = a + b.
Proof. unfold wadd, TWO256. intros H. apply N.mod_small. unfold MAX256 in H. lia. Qed.

Lemma wsub_exact a b : b <= a -> a <= MAX256 -> wsub a b = a - b.
Proof.
  unfold wsub, TWO256, MAX256. intros H1 H2.
  rewrite (N.mod_small b) by lia.
  replace (a + 2 ^ 256 - b) with ((a - b) + 1 * 2 ^ 256) by lia.
  rewrite N.mod_add by (compute; discriminate). apply N.mod_small. lia.
Qed.

Lemma revert_entry_ext s s' e : (forall a, s a = s' a) -> forall a, revert_entry s e a = revert_entry s' e a.
Proof.
  intros H a. destruct e; simpl; unfold bset; auto.
  - rewrite !H. beq_cases; rewrite ?H; reflexivity.
  - rewrite !H. destruct (addr =? target); beq_cases; rewrite ?H; reflexivity.
  - beq_cases; auto.
Qed.

Lemma wsub_wadd x v : x <= MAX256 -> v <= MAX256 -> wsub (wadd x v) v = x.
Proof.
  intros Hx Hv. unfold wsub, wadd, TWO256, MAX256 in *.
  rewrite (N.mod_small v) by lia.
  destruct (N.lt_ge_cases (x + v) (2 ^ 256)) as [Hlt|Hge].
  - rewrite (N.mod_small (x + v)) by lia.
    replace (x + v + 2 ^ 256 - v) with (x + 1 * 2 ^ 256) by lia.
    rewrite N.mod_add by (compute; discriminate). apply N.mod_small. lia.
  - replace (x + v) with ((x + v - 2 ^ 256) + 1 * 2 ^ 256) at 1 by lia.
    rewrite N.mod_add by (compute; discriminate).
    rewrite (N.mod_small (x + v - 2 ^ 256)) by lia.
    replace (x + v - 2 ^ 256 + 2 ^ 256 - v) with x by lia. apply N.mod_small. lia.
Qed.

Ltac wrap_solve :=
  repeat (first [rewrite wadd_exact by lia | rewrite wsub_exact by lia]); try lia; try reflexivity.

Lemma revert_fwd s e s1 : fwd s e s1 -> bounded s -> forall a, revert_entry s1 e a = s a.
Proof.
  intros H Hb a. inversion H; subst; clear H; simpl; unfold bset;
    try pose proof (Hb f); try pose proof (Hb t); try pose proof (Hb a0); pose proof (Hb a).
  - beq_cases; try congruence; wrap_solve.
  - rewrite N.eqb_refl. beq_cases; [|reflexivity]. apply wsub_wadd; assumption.
  - destruct (N.eqb_spec a0 t); [congruence|]. beq_cases; try congruence; wrap_solve.
  - rewrite N.eqb_refl. beq_cases; wrap_solve.
  - beq_cases; reflexivity.
  - reflexivity.
Qed.

Theorem revert_all_exact es : forall s tr, wf_trace s es tr -> bounded s ->
  forall a, revert_all (last tr s) es a = s a.
Proof.
  induction es as [|e es IH]; intros s [|s1 tr] H Hb a; simpl in H; try contradiction; auto.
  destruct H as [Hf Hw]. rewrite last_cons_default. simpl.
  rewrite (revert_entry_ext _ s1 e (IH s1 tr Hw (fwd_bounded _ _ _ Hf Hb))).
  eapply revert_fwd; eauto.
Qed.

(* ---------- the scan selects the first protected debit of every delegated source ---------- *)

Section Scan.
Variable t : tx.
Variable st : jstate.

Lemma prot_cons_0 e r root a :
  protected_at t st (e :: r) root 0 a <->
  root <> Some 0%nat /\ debit_source e = Some a /\ is_delegated st a = true.
Proof.
  unfold protected_at; simpl. split.
  - intros (e' & E & Hr & Hd & Hdel). inversion E; subst. auto.
  - intros (Hr & Hd & Hdel). exists e. auto.
Qed.

Lemma prot_cons_S e r root root' j a :
  (root = Some (S j) <-> root' = Some j) ->
  (protected_at t st (e :: r) root (S j) a <-> protected_at t st r root' j a).
Proof.
  intros Hroot. unfold protected_at; simpl. split.
  - intros (e' & E & Hr & Hd & Hdel). exists e'. repeat split; auto. intros C. apply Hr. apply Hroot. exact C.
  - intros (e' & E & Hr & Hd & Hdel). exists e'. repeat split; auto. intros C. apply Hr. apply Hroot. exact C.
Qed.

Lemma fp_cons_skip e r root root' a :
  ~ protected_at t st (e :: r) root 0 a ->
  (forall j, protected_at t st (e :: r) root (S j) a <-> protected_at t st r root' j a) ->
  forall j', first_protected t st (e :: r) root j' a <->
             exists j, j' = S j /\ first_protected t st r root' j a.
Proof.
  intros H0 HS j'. unfold first_protected. split.
  - intros [Hp Hmin]. destruct j' as [|j]; [contradiction|].
    exists j. split; auto. split; [apply HS; exact Hp|].
    intros j2 Hlt C. apply (Hmin (S j2)); [lia|]. apply HS. exact C.
  - intros (j & -> & Hp & Hmin). split; [apply HS; exact Hp|].
    intros [|j2] Hlt C; [contradiction|]. apply (Hmin j2); [lia|]. apply HS. exact C.
Qed.

Lemma fp_cons_here e r root a :
  protected_at t st (e :: r) root 0 a ->
  forall j, first_protected t st (e :: r) root j a <-> j = 0%nat.
Proof.
  intros H0 j. unfold first_protected. split.
  - intros [_ Hmin]. destruct j; auto. exfalso. apply (Hmin 0%nat); [lia|exact H0].
  - intros ->. split; auto. intros j' Hlt; lia.
Qed.

Lemma lookup_app_single (first : list (N * nat)) b i a :
  lookup (first ++ [(b, i)]) a =
  match lookup first a with Some x => Some x | None => if a =? b then Some i else None end.
Proof.
  induction first as [|[c x] r IH]; simpl; auto.
  destruct (a =? c); auto.
Qed.

Definition scan_post (es : list entry) (i : nat) (rp : bool) (first : list (N * nat)) (a : N) (g : nat) : Prop :=
  In (a, g) first \/
  (lookup first a = None /\ exists j, g = (i + j)%nat /\ first_protected t st es (root_pos t es rp) j a).

Lemma scan_spec es : forall i rp first a g,
  In (a, g) (scan t st es i rp first) <-> scan_post es i rp first a g.
Proof.
  induction es as [|e r IH]; intros i rp first a g; unfold scan_post.
  - simpl. split; [auto|]. intros [H|(_ & j & _ & (e & E & _) & _)]; auto. destruct j; discriminate.
  - cbn [scan].
    destruct (rp && is_root_value_transfer e t) eqn:Eroot.
    + (* this entry is the root value transfer: skipped, flag cleared *)
      apply andb_true_iff in Eroot. destruct Eroot as [-> Hroot].
      rewrite IH. unfold scan_post.
      assert (Hrp : root_pos t (e :: r) true = Some 0%nat) by (unfold root_pos; simpl; rewrite Hroot; reflexivity).
      rewrite Hrp. change (root_pos t r false) with (@None nat).
      assert (H0 : ~ protected_at t st (e :: r) (Some 0%nat) 0 a)
        by (rewrite prot_cons_0; intros [C _]; congruence).
      assert (HS : forall j, protected_at t st (e :: r) (Some 0%nat) (S j) a <-> protected_at t st r None j a)
        by (intros j; apply prot_cons_S; split; discriminate).
      split; (intros [H|(Hl & j & -> & Hfp)]; [left; exact H|right; split; [exact Hl|]]).
      * exists (S j). split; [lia|]. apply (fp_cons_skip _ _ _ _ _ H0 HS). eauto.
      * apply (fp_cons_skip _ _ _ _ _ H0 HS) in Hfp. destruct Hfp as (j2 & -> & Hfp).
        exists j2. split; [lia|exact Hfp].
    + (* not skipped *)
      set (root' := root_pos t r rp).
      assert (Hrp : root_pos t (e :: r) rp = option_map S root').
      { unfold root', root_pos. destruct rp; simpl in *; [|reflexivity]. rewrite Eroot. destruct (find_root t r); reflexivity. }
      rewrite Hrp.
      assert (HS : forall b j, protected_at t st (e :: r) (option_map S root') (S j) b <-> protected_at t st r root' j b).
      { intros b j. apply prot_cons_S. destruct root' as [k|]; simpl; split; intros C; inversion C; subst; reflexivity. }
      assert (Hne0 : option_map S root' <> Some 0%nat) by (destruct root'; simpl; discriminate).
      (* the generic "entry contributes nothing for account a" step *)
      assert (Hskip : forall first',
        ~ protected_at t st (e :: r) (option_map S root') 0 a ->
        (In (a, g) first' <-> In (a, g) first) -> (lookup first' a = None <-> lookup first a = None) ->
        (scan_post r (S i) rp first' a g <->
         In (a, g) first \/ (lookup first a = None /\ exists j, g = (i + j)%nat /\
           first_protected t st (e :: r) (option_map S root') j a))).
      { intros first' H0 Hin Hlk. unfold scan_post. fold root'. rewrite Hin, Hlk.
        split; (intros [H|(Hl & j & -> & Hfp)]; [left; exact H|right; split; [exact Hl|]]).
        - exists (S j). split; [lia|]. apply (fp_cons_skip _ _ _ _ _ H0 (HS a)). eauto.
        - apply (fp_cons_skip _ _ _ _ _ H0 (HS a)) in Hfp. destruct Hfp as (j2 & -> & Hfp).
          exists j2. split; [lia|exact Hfp]. }
      destruct (debit_source e) as [src|] eqn:Esrc.
      * destruct (is_delegated st src) eqn:Edel.
        -- rewrite IH. unfold first_insert.
           destruct (lookup first src) as [x|] eqn:Els.
           ++ (* src already has a first debit *)
              destruct (N.eqb_spec a src) as [->|Hne].
              ** unfold scan_post. rewrite Els. split; (intros [H|[C _]]; [left; exact H|discriminate]).
              ** apply Hskip; [|tauto|tauto]. rewrite prot_cons_0. intros (_ & C & _). congruence.
           ++ destruct (N.eqb_spec a src) as [->|Hne].
              ** (* this is src's first protected debit *)
                 assert (H0 : protected_at t st (e :: r) (option_map S root') 0 src) by (apply prot_cons_0; auto).
                 unfold scan_post. rewrite lookup_app_single, Els, N.eqb_refl, in_app_iff. simpl.
                 split.
                 --- intros [[H|[H|[]]]|[C _]]; [left; exact H| |discriminate].
                     inversion H; subst. right. split; [reflexivity|]. exists 0%nat. split; [lia|].
                     apply (fp_cons_here _ _ _ _ H0). reflexivity.
                 --- intros [H|(_ & j & -> & Hfp)]; [left; left; exact H|].
                     apply (fp_cons_here _ _ _ _ H0) in Hfp. subst j. left. right. left. f_equal. lia.
              ** apply Hskip.
                 --- rewrite prot_cons_0. intros (_ & C & _). congruence.
                 --- rewrite in_app_iff. simpl. split; [intros [H|[H|[]]]; auto; inversion H; congruence|auto].
                 --- rewrite lookup_app_single. destruct (lookup first a); [tauto|].
                     destruct (N.eqb_spec a src); [contradiction|tauto].
        -- rewrite IH. apply Hskip; [|tauto|tauto]. rewrite prot_cons_0. intros (_ & C & D).
           inversion C; subst. congruence.
      * rewrite IH. apply Hskip; [|tauto|tauto]. rewrite prot_cons_0. intros (_ & C & _). congruence.
Qed.

End Scan.

(* keys of the candidate table are unique: every address is reported at most once *)
Lemma first_insert_keys first a i b :
  In b (map fst (first_insert first a i)) <-> In b (map fst first) \/ (b = a /\ lookup first a = None).
Proof.
  unfold first_insert. destruct (lookup first a) eqn:E.
  - split; [auto|]. intros [H|[_ C]]; [auto|discriminate].
  - rewrite map_app, in_app_iff. simpl. split; [intros [H|[H|[]]]; auto|intros [H|[-> _]]; auto].
Qed.

Lemma lookup_None_not_in {A} (m : list (N * A)) a : lookup m a = None <-> ~ In a (map fst m).
Proof.
  induction m as [|[b x] r IH]; simpl; [tauto|].
  destruct (N.eqb_spec a b) as [->|Hne].
  - split; [discriminate|]. intros H. exfalso. apply H. auto.
  - rewrite IH. split; [intros H [C|C]; [congruence|auto] | intros H C; apply H; auto].
Qed.

Lemma NoDup_app_single {A} (l : list A) x : NoDup l -> ~ In x l -> NoDup (l ++ [x]).
Proof.
  induction l as [|y l IH]; simpl; intros Hn Hx.
  - constructor; [intros []|constructor].
  - inversion Hn; subst. constructor.
    + rewrite in_app_iff. simpl. intros [C|[C|[]]]; [contradiction|]. apply Hx. auto.
    + apply IH; auto.
Qed.

Lemma first_insert_nodup first a i : NoDup (map fst first) -> NoDup (map fst (first_insert first a i)).
Proof.
  unfold first_insert. intros H. destruct (lookup first a) eqn:E; auto.
  rewrite map_app. simpl. apply NoDup_app_single; auto. apply lookup_None_not_in. exact E.
Qed.

Lemma scan_nodup t st es : forall i rp first,
  NoDup (map fst first) -> NoDup (map fst (scan t st es i rp first)).
Proof.
  induction es as [|e r IH]; intros i rp first H; cbn [scan]; auto.
  destruct (rp && is_root_value_transfer e t); [apply IH; exact H|].
  destruct (debit_source e) as [src|]; [|apply IH; exact H].
  destruct (is_delegated st src); apply IH; [apply first_insert_nodup|]; exact H.
Qed.

(* the selected candidates: exactly the delegated sources with a surviving debit other than the
   root value transfer, each at its first such entry (global index cp + j) *)
Theorem candidates_exact t st entries cp (a : N) (g : nat) :
  In (a, g) (scan t st (skipn cp entries) cp (negb (value t =? 0)) []) <->
  exists j, g = (cp + j)%nat /\
    first_protected t st (skipn cp entries) (root_pos t (skipn cp entries) (negb (value t =? 0))) j a.
Proof.
  rewrite scan_spec. unfold scan_post. simpl. split.
  - intros [[]|(_ & H)]. exact H.
  - intros H. right. split; [reflexivity|exact H].
Qed.

(* ... and what is reported for each of them *)
Theorem delegated_debits_exact t st entries cp a before final :
  In (a, before, final) (delegated_debits_since entries cp t st) <->
  exists g d, In (a, g) (scan t st (skipn cp entries) cp (negb (value t =? 0)) []) /\
              lookup st a = Some (final, d) /\
              before = balance_before_entry entries g a final.
Proof.
  unfold delegated_debits_since. rewrite in_flat_map. split.
  - intros ([a' g] & Hin & H). simpl in H.
    destruct (lookup st a') as [[fb d]|] eqn:El; [|contradiction].
    destruct H as [H|[]]. inversion H; subst. exists g, d. auto.
  - intros (g & d & Hin & El & ->). exists (a, g). split; [exact Hin|]. simpl. rewrite El. left. reflexivity.
Qed.

(* ---------- from the journal to the per-account ledger of Funding.v ---------- *)

(* an entry that is neither a debit of [a] nor a BalanceChange of [a] never lowers [a]'s balance *)
Definition is_change_of (a : N) (e : entry) : bool :=
  match e with BalanceChange c _ => c =? a | _ => false end.

Lemma fwd_nondecreasing s e s1 a :
  fwd s e s1 -> debit_source e <> Some a -> is_change_of a e = false -> s a <= s1 a.
Proof.
  intros H Hd Hc. inversion H; subst; clear H; unfold bset; simpl in *.
  - destruct (N.eqb_spec f t); [contradiction|]. simpl in Hd.
    destruct (N.eqb_spec v 0) as [->|Hv]; simpl in Hd; beq_cases; try lia; congruence.
  - lia.
  - destruct (N.eqb_spec (s a0) 0) as [E|E]; simpl in Hd; beq_cases; try lia; congruence.
  - destruct (N.eqb_spec (s a0) 0) as [E|E]; simpl in Hd; beq_cases; try lia; congruence.
  - beq_cases; try discriminate; try lia; congruence.
  - lia.
Qed.

(* the root value transfer lowers the caller's balance by exactly the transaction value *)
Lemma fwd_root_transfer s e s1 t a :
  fwd s e s1 -> is_root_value_transfer e t = true -> s a <= s1 a + value t.
Proof.
  intros H Hr. destruct e as [f to v| | |]; simpl in Hr; try discriminate.
  destruct (N.eqb_spec f (caller t)); simpl in Hr; [|discriminate].
  destruct (N.eqb_spec v (value t)); simpl in Hr; [|discriminate]. subst.
  inversion H; subst; clear H; unfold bset; [|lia].
  beq_cases; lia.
Qed.

(* Balance of a delegated account at its first protected debit: at least its balance at the
   checkpoint, minus the transaction's own top-level value if the root transfer precedes it -
   provided no BalanceChange of [a] (fee deduction happens before the checkpoint, reimbursement
   after execution) lies in between.  This is the abstraction Funding.v makes of one transaction. *)
Theorem first_protected_lower_bound t st es : forall s tr root_pending j a,
  wf_trace s es tr ->
  first_protected t st es (root_pos t es root_pending) j a ->
  is_delegated st a = true ->
  (forall k e, (k < j)%nat -> nth_opt es k = Some e -> is_change_of a e = false) ->
  s a <= nth j (s :: tr) s a + (if root_pending then value t else 0).
Proof.
  induction es as [|e r IH]; intros s tr rp j a Hw [Hp Hmin] Hdel Hnc.
  - destruct Hp as (e & E & _). destruct j; discriminate.
  - destruct tr as [|s1 tr]; simpl in Hw; [contradiction|]. destruct Hw as [Hf Hw].
    destruct j as [|j]; [simpl; lia|].
    assert (Hc0 : is_change_of a e = false) by (apply (Hnc 0%nat); [lia|reflexivity]).
    assert (Hnc' : forall k e', (k < j)%nat -> nth_opt r k = Some e' -> is_change_of a e' = false)
      by (intros k e' Hk He'; apply (Hnc (S k)); [lia|exact He']).
    change (nth (S j) (s :: s1 :: tr) s a) with (nth j (s1 :: tr) s a).
    assert (Hlen : (j < length (s1 :: tr))%nat).
    { destruct Hp as (e' & E & _). simpl in E.
      assert (length tr = length r).
      { clear -Hw. revert s1 tr Hw. induction r as [|x r IHr]; intros s1 [|s2 tr] H; simpl in H; try contradiction; auto.
        destruct H as [_ H]. simpl. f_equal. eapply IHr; eauto. }
      simpl. apply nth_opt_Some_lt in E. lia. }
    rewrite (nth_indep (s1 :: tr) s s1 Hlen).
    destruct (rp && is_root_value_transfer e t) eqn:Eroot.
    + (* e is the excluded root transfer *)
      apply andb_true_iff in Eroot. destruct Eroot as [-> Hroot].
      assert (Hrp : root_pos t (e :: r) true = Some 0%nat) by (unfold root_pos; simpl; rewrite Hroot; reflexivity).
      rewrite Hrp in *.
      assert (HS : forall k b, protected_at t st (e :: r) (Some 0%nat) (S k) b <-> protected_at t st r None k b)
        by (intros k b; apply prot_cons_S; split; discriminate).
      assert (Hfp : first_protected t st r (root_pos t r false) j a).
      { split; [apply HS; exact Hp|]. intros k Hk C. apply (Hmin (S k)); [lia|]. apply HS. exact C. }
      specialize (IH s1 tr false j a Hw Hfp Hdel Hnc').
      change (if false then value t else 0) with 0 in IH.
      pose proof (fwd_root_transfer _ _ _ t a Hf Hroot). lia.
    + set (root' := root_pos t r rp).
      assert (Hrp : root_pos t (e :: r) rp = option_map S root').
      { unfold root', root_pos. destruct rp; simpl in *; [|reflexivity]. rewrite Eroot. destruct (find_root t r); reflexivity. }
      rewrite Hrp in *.
      assert (HS : forall k b, protected_at t st (e :: r) (option_map S root') (S k) b <-> protected_at t st r root' k b).
      { intros k b. apply prot_cons_S. destruct root' as [x|]; simpl; split; intros C; inversion C; subst; reflexivity. }
      assert (Hfp : first_protected t st r root' j a).
      { split; [apply HS; exact Hp|]. intros k Hk C. apply (Hmin (S k)); [lia|]. apply HS. exact C. }
      specialize (IH s1 tr rp j a Hw Hfp Hdel Hnc').
      (* e is not a protected debit of a (j+1 is the first), hence not a debit of a at all *)
      assert (Hnd : debit_source e <> Some a).
      { intros C. apply (Hmin 0%nat); [lia|]. apply prot_cons_0. split; [destruct root'; simpl; discriminate|]. auto. }
      pose proof (fwd_nondecreasing _ _ _ a Hf Hnd Hc0). lia.
Qed.
