(* Model of src/delegated_safety/reserve.rs:19-129 (ReservePlanner, AccountReserveSchedule) and of the
   revm callee it depends on, Transaction::max_balance_spending
   (revm-context-interface-19.0.3/src/transaction.rs:165-180).

   Numbers: U256 / u128 / u64 values are [N] with explicit bounds; every checked / saturating
   operation of the code is modelled explicitly (no unbounded arithmetic is used where the code
   could overflow).  TxId is [nat].  Addresses are [N] (160-bit values; only equality is used).

   Laziness and sharing: the code initialises `sender_index` through a OnceLock and each account
   schedule through DashMap + OnceLock.  Both initialisers are deterministic functions of the
   immutable `txs`, and OnceLock publishes exactly one initialiser result to every reader, so a
   concurrent history is equivalent to some sequential order of the [query] steps below;
   [required_after_order_independent] (Props/C13.v) shows that no order changes any answer.

   `slice::partition_point` is modelled by its documented contract (index of the first element
   for which the predicate is false, on a partitioned slice); [sender_index_sorted] proves the
   slices it is applied to are strictly increasing, hence partitioned.

   This file contains definitions only (no proofs). *)
From Grevm Require Import Base.Util.
Open Scope N_scope.

Definition MAX256 : N := 2 ^ 256 - 1.
Definition MAX128 : N := 2 ^ 128 - 1.
Definition TWO64 : N := 2 ^ 64.

Definition sat_add (a b : N) : N := N.min (a + b) MAX256.            (* U256::saturating_add *)
Definition sat_sub (a b : N) : N := a - b.                            (* U256::saturating_sub; N.sub truncates at 0 *)
Definition checked_add256 (a b : N) : option N := if a + b <=? MAX256 then Some (a + b) else None.
Definition checked_mul128 (a b : N) : option N := if a * b <=? MAX128 then Some (a * b) else None.
Definition sat_mul128 (a b : N) : N := N.min (a * b) MAX128.

Inductive txkind := KCall (target : N) | KCreate.

(* the fields of TxEnv the reserve policy reads *)
Record tx := {
  caller : N;
  kind : txkind;
  value : N;                    (* U256 *)
  gas_limit : N;                (* u64  *)
  gas_price : N;                (* u128; TxEnv::max_fee_per_gas returns gas_price (revm-context tx.rs:215) *)
  tx_type : N;                  (* u8   *)
  blob_count : N;               (* blob_versioned_hashes.len() *)
  max_fee_per_blob_gas : N;     (* u128 *)
}.

Definition GAS_PER_BLOB : N := 131072.   (* revm-primitives eip4844.rs:9 *)

(* transaction.rs:165-180: gas_limit * max_fee (checked u128) + value (checked U256)
   [+ blob fee (u128 saturating mul, checked U256 add) for type 3] *)
Definition max_balance_spending (t : tx) : option N :=
  match checked_mul128 (gas_limit t) (gas_price t) with
  | None => None
  | Some g =>
      match checked_add256 g (value t) with
      | None => None
      | Some m =>
          if tx_type t =? 3
          then checked_add256 m (sat_mul128 ((GAS_PER_BLOB * blob_count t) mod TWO64) (max_fee_per_blob_gas t))
          else Some m
      end
  end.

(* reserve.rs:103  `.max_balance_spending().unwrap_or(U256::MAX)` *)
Definition cost (t : tx) : N :=
  match max_balance_spending t with Some c => c | None => MAX256 end.

(* ---- sender index (reserve.rs:82-93): caller -> ascending txids, one scan in block order ---- *)

Definition index := list (N * list nat).

Fixpoint lookup {A} (m : list (N * A)) (a : N) : option A :=
  match m with
  | [] => None
  | (b, x) :: r => if a =? b then Some x else lookup r a
  end.

(* index.entry(caller).or_insert_with(Vec::new).push(txid) *)
Fixpoint index_push (idx : index) (a : N) (i : nat) : index :=
  match idx with
  | [] => [(a, [i])]
  | (b, l) :: r => if a =? b then (b, l ++ [i]) :: r else (b, l) :: index_push r a i
  end.

Fixpoint build_index_from (txs : list tx) (i : nat) (idx : index) : index :=
  match txs with
  | [] => idx
  | t :: r => build_index_from r (S i) (index_push idx (caller t) i)
  end.

Definition sender_index (txs : list tx) : index := build_index_from txs 0%nat [].

(* ---- per-account schedule (reserve.rs:95-109) ---- *)

Record schedule := { s_txids : list nat; s_cost_from : list N }.

(* self.txs[txid]: always in range for txids taken from the index; out of range would panic *)
Definition cost_at (txs : list tx) (i : nat) : N :=
  match nth_opt txs i with Some t => cost t | None => 0 end.

(* the reverse loop: suffix := suffix.saturating_add(cost); cost_from[index] := suffix *)
Fixpoint suffix_costs (txs : list tx) (txids : list nat) : list N :=
  match txids with
  | [] => []
  | i :: r =>
      let rest := suffix_costs txs r in
      let suffix := match rest with [] => 0 | s :: _ => s end in
      sat_add suffix (cost_at txs i) :: rest
  end.

Definition build_schedule (txs : list tx) (txids : list nat) : schedule :=
  {| s_txids := txids; s_cost_from := suffix_costs txs txids |}.

(* contract of slice::partition_point on a partitioned slice *)
Fixpoint partition_point (p : nat -> bool) (l : list nat) : nat :=
  match l with
  | [] => 0%nat
  | x :: r => if p x then S (partition_point p r) else 0%nat
  end.

(* reserve.rs:122-128 *)
Definition sched_required_after (s : schedule) (txid : nat) : N :=
  match nth_opt (s_cost_from s) (partition_point (fun c => Nat.leb c txid) (s_txids s)) with
  | Some c => c
  | None => 0
  end.

(* reserve.rs:60-80 as a pure function of the block *)
Definition required_after (txs : list tx) (txid : nat) (a : N) : N :=
  match lookup (sender_index txs) a with
  | None => 0
  | Some txids =>
      if Nat.eqb (partition_point (fun c => Nat.leb c txid) txids) (length txids) then 0
      else sched_required_after (build_schedule txs txids) txid
  end.

(* ---- the lazy, shared planner as a state machine ---- *)

Record pstate := {
  p_index : option index;               (* OnceLock<HashMap<Address, Vec<TxId>>> *)
  p_scheds : list (N * schedule);       (* DashMap<Address, Arc<OnceLock<schedule>>> (initialised cells) *)
}.

Definition pinit : pstate := {| p_index := None; p_scheds := [] |}.

Definition query (txs : list tx) (st : pstate) (txid : nat) (a : N) : pstate * N :=
  let idx := match p_index st with Some i => i | None => sender_index txs end in
  let st1 := {| p_index := Some idx; p_scheds := p_scheds st |} in
  match lookup idx a with
  | None => (st1, 0)
  | Some txids =>
      if Nat.eqb (partition_point (fun c => Nat.leb c txid) txids) (length txids) then (st1, 0)
      else
        match lookup (p_scheds st) a with
        | Some s => (st1, sched_required_after s txid)
        | None =>
            let s := build_schedule txs txids in
            ({| p_index := Some idx; p_scheds := (a, s) :: p_scheds st |}, sched_required_after s txid)
        end
  end.

Fixpoint run_queries (txs : list tx) (st : pstate) (qs : list (nat * N)) : pstate * list N :=
  match qs with
  | [] => (st, [])
  | (txid, a) :: r =>
      let '(st1, v) := query txs st txid a in
      let '(st2, vs) := run_queries txs st1 r in
      (st2, v :: vs)
  end.

(* ---- specification: saturating sum of the maximum costs of a's transactions after txid ---- *)

Fixpoint later_costs_from (txs : list tx) (i : nat) (txid : nat) (a : N) : list N :=
  match txs with
  | [] => []
  | t :: r =>
      if Nat.ltb txid i && (caller t =? a)
      then cost t :: later_costs_from r (S i) txid a
      else later_costs_from r (S i) txid a
  end.

Definition sumN (l : list N) : N := fold_right N.add 0 l.

Definition required_spec (txs : list tx) (txid : nat) (a : N) : N :=
  N.min (sumN (later_costs_from txs 0%nat txid a)) MAX256.
