(* Proofs about Reserve/Planner.v: the lazy planner answers every query, in every order, with the
   saturating sum of the maximum costs of the account's transactions strictly after txid. *)
From Grevm Require Import Base.Util Reserve.Planner.
Open Scope N_scope.

(* ---------- arithmetic ---------- *)

Lemma MAX256_pos : 0 < MAX256.
Proof. reflexivity. Qed.

Lemma sat_add_min x c : sat_add (N.min x MAX256) c = N.min (x + c) MAX256.
Proof. unfold sat_add. lia. Qed.

Lemma sat_add_le a b : sat_add a b <= MAX256.
Proof. unfold sat_add. lia. Qed.

Lemma sat_add_exact a b : a + b <= MAX256 -> sat_add a b = a + b.
Proof. unfold sat_add. lia. Qed.

Lemma cost_le_MAX t : cost t <= MAX256.
Proof.
  unfold cost, max_balance_spending, checked_mul128, checked_add256.
  destruct (gas_limit t * gas_price t <=? MAX128) eqn:E1; [|lia].
  destruct (gas_limit t * gas_price t + value t <=? MAX256) eqn:E2; [|lia].
  destruct (tx_type t =? 3).
  - match goal with |- context [if ?c then _ else _] => destruct c eqn:E3 end; [apply N.leb_le in E3; lia | lia].
  - apply N.leb_le in E2; lia.
Qed.

(* ---------- list helpers ---------- *)

Definition head0 (l : list N) : N := match l with [] => 0 | s :: _ => s end.

Lemma nth_opt_head_skipn (l : list N) k :
  match nth_opt l k with Some c => c | None => 0 end = head0 (skipn k l).
Proof. revert k; induction l as [|x l IH]; intros [|k]; simpl; auto. Qed.

Lemma nth_opt_app_r {A} (pre l : list A) k : nth_opt (pre ++ l) (length pre + k) = nth_opt l k.
Proof. induction pre as [|x pre IH]; simpl; auto. Qed.

(* ---------- the sender index ---------- *)

Fixpoint positions_from (txs : list tx) (i : nat) (a : N) : list nat :=
  match txs with
  | [] => []
  | t :: r => if caller t =? a then i :: positions_from r (S i) a else positions_from r (S i) a
  end.

Lemma lookup_index_push idx b i a :
  lookup (index_push idx b i) a =
  if a =? b then Some (match lookup idx b with Some l => l ++ [i] | None => [i] end)
  else lookup idx a.
Proof.
  induction idx as [|[c l] r IH]; simpl.
  - destruct (a =? b); reflexivity.
  - destruct (b =? c) eqn:Ebc; simpl.
    + apply N.eqb_eq in Ebc; subst c. destruct (a =? b) eqn:Eab; reflexivity.
    + destruct (a =? c) eqn:Eac.
      * apply N.eqb_eq in Eac; subst c. destruct (a =? b) eqn:Eab; [|reflexivity].
        apply N.eqb_eq in Eab; subst b. rewrite N.eqb_refl in Ebc; discriminate.
      * rewrite IH. reflexivity.
Qed.

Lemma lookup_build_index txs : forall i idx a,
  lookup (build_index_from txs i idx) a =
  match lookup idx a, positions_from txs i a with
  | Some l, p => Some (l ++ p)
  | None, [] => None
  | None, p => Some p
  end.
Proof.
  induction txs as [|t r IH]; intros i idx a; simpl.
  - destruct (lookup idx a); [rewrite app_nil_r|]; reflexivity.
  - rewrite IH, lookup_index_push. rewrite (N.eqb_sym a (caller t)).
    destruct (caller t =? a) eqn:E.
    + apply N.eqb_eq in E; subst a.
      destruct (lookup idx (caller t)); [rewrite <- app_assoc|]; reflexivity.
    + reflexivity.
Qed.

Lemma lookup_sender_index txs a :
  lookup (sender_index txs) a =
  match positions_from txs 0%nat a with [] => None | p => Some p end.
Proof. unfold sender_index. rewrite lookup_build_index. simpl. destruct (positions_from txs 0 a); reflexivity. Qed.

(* strictly increasing, all >= i *)
Fixpoint incr_from (i : nat) (l : list nat) : Prop :=
  match l with
  | [] => True
  | x :: r => (i <= x)%nat /\ incr_from (S x) r
  end.

Lemma incr_from_weaken l : forall i j, (j <= i)%nat -> incr_from i l -> incr_from j l.
Proof. destruct l as [|x r]; simpl; intros; auto. split; [lia|tauto]. Qed.

Lemma positions_incr txs : forall i a, incr_from i (positions_from txs i a).
Proof.
  induction txs as [|t r IH]; intros i a; simpl; auto.
  destruct (caller t =? a); simpl.
  - split; [lia|apply IH].
  - eapply incr_from_weaken; [|apply IH]. lia.
Qed.

(* the slices `partition_point` is applied to are strictly increasing, hence partitioned *)
Lemma sender_index_sorted txs a l : lookup (sender_index txs) a = Some l -> incr_from 0 l.
Proof.
  rewrite lookup_sender_index. pose proof (positions_incr txs 0 a) as H.
  destruct (positions_from txs 0 a); intros E; inversion E; subst; exact H.
Qed.

Lemma filter_all_later l : forall i txid, (txid < i)%nat -> incr_from i l ->
  filter (fun c => Nat.ltb txid c) l = l.
Proof.
  induction l as [|x r IH]; intros i txid Hlt Hinc; simpl; auto.
  destruct Hinc as [Hx Hr].
  destruct (Nat.ltb_spec txid x); [|lia]. f_equal. apply (IH (S x)); auto; lia.
Qed.

Lemma skipn_partition_point l : forall i txid, incr_from i l ->
  skipn (partition_point (fun c => Nat.leb c txid) l) l = filter (fun c => Nat.ltb txid c) l.
Proof.
  induction l as [|x r IH]; intros i txid Hinc; simpl; auto.
  destruct Hinc as [Hx Hr].
  destruct (Nat.leb_spec x txid) as [Hle|Hgt].
  - destruct (Nat.ltb_spec txid x); [lia|]. simpl. eapply IH; eauto.
  - destruct (Nat.ltb_spec txid x); [|lia]. simpl. f_equal.
    symmetry. eapply filter_all_later; [|exact Hr]. lia.
Qed.

Lemma partition_point_le p l : (partition_point p l <= length l)%nat.
Proof. induction l as [|x r IH]; simpl; [lia|]. destruct (p x); simpl; lia. Qed.

(* ---------- suffix sums ---------- *)

Lemma head0_suffix_costs txs l :
  head0 (suffix_costs txs l) = N.min (sumN (map (cost_at txs) l)) MAX256.
Proof.
  induction l as [|i r IH]; simpl; [reflexivity|].
  change (match suffix_costs txs r with [] => 0 | s :: _ => s end) with (head0 (suffix_costs txs r)).
  rewrite IH, sat_add_min. f_equal. lia.
Qed.

Lemma skipn_suffix_costs txs l : forall k,
  skipn k (suffix_costs txs l) = suffix_costs txs (skipn k l).
Proof. induction l as [|i r IH]; intros [|k]; simpl; auto. Qed.

Lemma length_suffix_costs txs l : length (suffix_costs txs l) = length l.
Proof. induction l; simpl; auto. Qed.

Lemma sched_required_after_sum txs l i txid : incr_from i l ->
  sched_required_after (build_schedule txs l) txid =
  N.min (sumN (map (cost_at txs) (filter (fun c => Nat.ltb txid c) l))) MAX256.
Proof.
  intros Hinc. unfold sched_required_after, build_schedule; simpl.
  rewrite nth_opt_head_skipn, skipn_suffix_costs, head0_suffix_costs.
  erewrite skipn_partition_point; eauto.
Qed.

(* ---------- costs of the later positions = the specification's list ---------- *)

Lemma later_costs_positions txs : forall pre txid a,
  map (cost_at (pre ++ txs)) (filter (fun c => Nat.ltb txid c) (positions_from txs (length pre) a))
  = later_costs_from txs (length pre) txid a.
Proof.
  induction txs as [|t r IH]; intros pre txid a; simpl; auto.
  assert (Hshift : forall X : list tx, pre ++ t :: r = (pre ++ [t]) ++ r) by (intros; rewrite <- app_assoc; reflexivity).
  assert (Hlen : length (pre ++ [t]) = S (length pre)) by (rewrite app_length; simpl; lia).
  specialize (IH (pre ++ [t]) txid a). rewrite Hlen, <- Hshift in IH; auto.
  destruct (caller t =? a) eqn:Ea; simpl.
  - destruct (Nat.ltb txid (length pre)) eqn:El; simpl.
    + rewrite IH. f_equal. unfold cost_at.
      replace (length pre) with (length pre + 0)%nat at 1 by lia. rewrite nth_opt_app_r. reflexivity.
    + rewrite andb_false_r || idtac. exact IH.
  - rewrite andb_false_r. exact IH.
Qed.

(* ---------- main statements ---------- *)

Theorem required_after_eq_spec txs txid a : required_after txs txid a = required_spec txs txid a.
Proof.
  unfold required_after, required_spec.
  pose proof (later_costs_positions txs [] txid a) as HL. simpl in HL. rewrite <- HL. clear HL.
  rewrite lookup_sender_index.
  pose proof (positions_incr txs 0 a) as Hinc.
  destruct (positions_from txs 0 a) as [|x r] eqn:Ep.
  - reflexivity.
  - destruct (Nat.eqb_spec (partition_point (fun c => Nat.leb c txid) (x :: r)) (length (x :: r))) as [Heq|Hne].
    + rewrite <- (skipn_partition_point _ _ _ Hinc), Heq, skipn_all. reflexivity.
    + eapply sched_required_after_sum; eauto.
Qed.

(* planner state invariant: whatever has been initialised equals the deterministic initialiser *)
Definition pinv (txs : list tx) (st : pstate) : Prop :=
  (p_index st = None \/ p_index st = Some (sender_index txs)) /\
  forall a s, lookup (p_scheds st) a = Some s ->
    exists txids, lookup (sender_index txs) a = Some txids /\ s = build_schedule txs txids.

Lemma pinv_init txs : pinv txs pinit.
Proof. split; [left; reflexivity|]. intros a s H; discriminate. Qed.

Lemma query_correct txs st txid a st' v :
  pinv txs st -> query txs st txid a = (st', v) -> pinv txs st' /\ v = required_after txs txid a.
Proof.
  intros [Hidx Hs] Hq. unfold query in Hq.
  assert (Ei : match p_index st with Some i => i | None => sender_index txs end = sender_index txs)
    by (destruct Hidx as [-> | ->]; reflexivity).
  rewrite Ei in Hq. unfold required_after.
  destruct (lookup (sender_index txs) a) as [txids|] eqn:El.
  - destruct (Nat.eqb _ _) eqn:Epp.
    + inversion Hq; subst. split; [split; [right; reflexivity|exact Hs]|reflexivity].
    + destruct (lookup (p_scheds st) a) as [s|] eqn:Ec.
      * inversion Hq; subst. split; [split; [right; reflexivity|exact Hs]|].
        destruct (Hs _ _ Ec) as (t2 & E2 & ->). rewrite El in E2; inversion E2; subst. reflexivity.
      * inversion Hq; subst. split; [|reflexivity]. split; [right; reflexivity|].
        intros b s; simpl. destruct (b =? a) eqn:Eb.
        -- apply N.eqb_eq in Eb; subst b. intros E; inversion E; subst. eauto.
        -- apply Hs.
  - inversion Hq; subst. split; [split; [right; reflexivity|exact Hs]|reflexivity].
Qed.

Theorem run_queries_correct txs : forall qs st st' vs,
  pinv txs st -> run_queries txs st qs = (st', vs) ->
  pinv txs st' /\ vs = map (fun q => required_after txs (fst q) (snd q)) qs.
Proof.
  induction qs as [|[txid a] r IH]; intros st st' vs Hinv H; simpl in H.
  - inversion H; subst; auto.
  - destruct (query txs st txid a) as [st1 v] eqn:Eq.
    destruct (run_queries txs st1 r) as [st2 vs2] eqn:Er.
    inversion H; subst.
    destruct (query_correct _ _ _ _ _ _ Hinv Eq) as [Hinv1 ->].
    destruct (IH _ _ _ Hinv1 Er) as [Hinv2 ->]. auto.
Qed.

(* when the true sum fits in a U256, saturation never triggers *)
Lemma required_spec_exact txs txid a :
  sumN (later_costs_from txs 0%nat txid a) <= MAX256 ->
  required_spec txs txid a = sumN (later_costs_from txs 0%nat txid a).
Proof. unfold required_spec. lia. Qed.

(* the specification's list read as a filter over the positions 0..n-1 *)
Lemma later_costs_from_nil_after txs : forall i txid a,
  (length txs + i <= S txid)%nat -> later_costs_from txs i txid a = [].
Proof.
  induction txs as [|t r IH]; intros i txid a H; simpl in *; auto.
  destruct (Nat.ltb_spec txid i); [lia|]. simpl. apply IH. lia.
Qed.

Lemma required_after_last txs txid a : (length txs <= S txid)%nat -> required_after txs txid a = 0.
Proof.
  intros H. rewrite required_after_eq_spec. unfold required_spec.
  rewrite later_costs_from_nil_after by lia. reflexivity.
Qed.
