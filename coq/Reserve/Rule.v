(* Model of src/delegated_safety/handler.rs: `has_reserve_violation` (355-381), the reserve-aware
   lifecycle `WithReserveHandler::{pre_execution, post_execution, enforce_reserve}` (242-353),
   `reserve_violation_result` (384-393), `reapply_create_sender_nonce` (395-408), the dispatch
   `ReserveMode::from_planner` (64-72) / `GrevmHandler::run` (129-159), and of
   src/delegated_safety/config.rs `for_spec` (47-53) + src/scheduler.rs:213-219 (planner present
   iff the effective policy has the reserve switch on).

   The revm stages the handler calls are opaque callees and appear as Section variables:
   validation + fee deduction + CALL nonce bump + EIP-7702 authorisations (`pre_exec`), execution
   (`execute`), the pure gas rules (`refund_fn`, `floor_fn`, `result_gas_of`), caller reimbursement,
   the beneficiary policy, and the journaled nonce bump.  `checkpoint_revert` is modelled as
   "the state at the checkpoint" ([Journal.revert_all_exact] proves this for the balances from
   revm's entry-by-entry revert; for the other components it is revm's contract).
   `JournalInner::checkpoint` also increments `journal.depth`; the only reader of that field in
   revm-handler is EthPrecompileProvider (precompile_provider.rs:165), which grevm does not use
   (executor.rs:135 installs alloy's PrecompilesMap), and call-depth limits use the frame's own
   depth (frame.rs:175,287) - so the extra checkpoint is not observable by execution.

   Both execution paths (scheduler/executor.rs:107 parallel incarnations, scheduler/fallback.rs:91
   sequential replay) build the mode with `ReserveMode::from_planner(txid, planner)` where txid is
   the global block index, so one model covers both.

   This file contains definitions only (no proofs). *)
From Grevm Require Import Base.Util Reserve.Planner Reserve.Journal.
Open Scope N_scope.

(* ---------- the rule (handler.rs:367-380) ---------- *)

Definition candidate_violates (required : N -> N) (c : N * N * N) : bool :=
  let '(a, before, final) := c in
  let future_cost := required a in
  if future_cost =? 0 then false                       (* `continue` *)
  else final <? N.min before future_cost.              (* final_balance < balance_before.min(future_cost) *)

(* the `for` loop returning at the first hit *)
Definition has_reserve_violation (cands : list (N * N * N)) (required : N -> N) : bool :=
  existsb (candidate_violates required) cands.

(* the rule as the handler evaluates it for transaction [txid] of block [txs] on the surviving
   journal [entries] since checkpoint [cp] and the final journaled state [st] *)
Definition reserve_violation (txs : list tx) (txid : nat) (entries : list entry) (cp : nat) (st : jstate) : bool :=
  match nth_opt txs txid with
  | None => false
  | Some t => has_reserve_violation (delegated_debits_since entries cp t st) (required_after txs txid)
  end.

(* ---------- configuration (config.rs:47-53, scheduler.rs:213-219, handler.rs:64-72) ---------- *)

Definition PRAGUE : N := 20.     (* any total order on spec ids; only "is_enabled_in(PRAGUE)" is used *)

Definition effective_reserve (reserve_delegated_balance : bool) (spec : N) : bool :=
  if PRAGUE <=? spec then reserve_delegated_balance else false.

Inductive reserve_mode := NoReserve | WithReserve (txid : nat).

Definition mode_of (reserve_delegated_balance : bool) (spec : N) (txid : nat) : reserve_mode :=
  if effective_reserve reserve_delegated_balance spec then WithReserve txid else NoReserve.

(* ---------- the transaction lifecycle ---------- *)

Inductive iclass := ISuccess | IRevert | IHalt.

Section Lifecycle.
  Variable world : Type.        (* the journaled EVM state *)
  Variable gas : Type.          (* revm::interpreter::Gas *)
  Variable rgas : Type.         (* ResultGas *)

  (* validate_against_state_and_deduct_caller; load_accounts; apply_eip7702_auth_list:
     None = invalid transaction (Skipped); Some (state, eip7702 refund) *)
  Variable pre_exec : tx -> world -> option (world * N).
  (* first frame + run: state, instruction-result class, output, gas *)
  Variable execute : tx -> world -> world * (iclass * N * gas).
  Variable refund_fn : gas -> N -> gas.                 (* Handler::refund: execution refunds + authorisation refund, capped *)
  Variable result_gas_of : bool -> gas -> rgas.         (* post_execution::build_result_gas(is_halt, gas, init_and_floor) *)
  Variable floor_fn : gas -> gas.                       (* eip7623_check_gas_floor *)
  Variable reimburse : tx -> world -> gas -> world.     (* reimburse_caller *)
  Variable reward : tx -> world -> gas -> world.        (* BeneficiaryMode::apply (immediate write or deferred record) *)
  Variable set_refund_zero : gas -> gas.                (* gas.set_refund(0) *)
  Variable bump_nonce : N -> world -> option world.     (* journaled bump_nonce; None = nonce overflow *)
  (* the surviving journal, the checkpoint's journal index and the final-state view, after reimbursement *)
  Variable journal_view : tx -> world -> world -> list entry * nat * jstate.

  Definition EMPTY : N := 0.   (* Bytes::new() *)

  Definition is_create (t : tx) : bool := match kind t with KCreate => true | KCall _ => false end.

  Inductive outcome :=
  | Invalid                                             (* Err(EVMError::Transaction) -> Skipped *)
  | Fatal                                               (* any other error *)
  | Done (w : world) (c : iclass) (output : N) (g : rgas).

  (* revm's default Handler::run with only reward_beneficiary overridden (NoReserveHandler) *)
  Definition run_off (t : tx) (w : world) : outcome :=
    match pre_exec t w with
    | None => Invalid
    | Some (w1, auth_refund) =>
        let '(w2, (c, out, g)) := execute t w1 in
        let g1 := refund_fn g auth_refund in
        let rg := result_gas_of (match c with IHalt => true | _ => false end) g1 in
        let g2 := floor_fn g1 in
        let w3 := reimburse t w2 g2 in
        Done (reward t w3 g2) c out rg
    end.

  (* WithReserveHandler: checkpoint after pre-execution, reserve check after reimbursement *)
  Definition run_on (txs : list tx) (txid : nat) (t : tx) (w : world) : outcome :=
    match pre_exec t w with
    | None => Invalid
    | Some (w1, auth_refund) =>
        (* execution_checkpoint := journal.checkpoint()  -- the state is w1 *)
        let '(w2, (c, out, g)) := execute t w1 in
        let execution_gas := g in
        let g1 := refund_fn g auth_refund in
        let rg := result_gas_of (match c with IHalt => true | _ => false end) g1 in
        let g2 := floor_fn g1 in
        let w3 := reimburse t w2 g2 in
        let '(entries, cp, st) := journal_view t w1 w3 in
        if has_reserve_violation (delegated_debits_since entries cp t st) (required_after txs txid)
        then
          (* checkpoint_revert: back to w1; synthetic REVERT with the attempted execution's gas *)
          let gv := set_refund_zero execution_gas in
          match (if is_create t then bump_nonce (caller t) w1 else Some w1) with
          | None => Invalid                             (* NonceOverflowInTransaction *)
          | Some w1' =>
              let gv1 := refund_fn gv auth_refund in
              let rgv := result_gas_of false gv1 in
              let gv2 := floor_fn gv1 in
              let w3' := reimburse t w1' gv2 in
              Done (reward t w3' gv2) IRevert EMPTY rgv
          end
        else
          (* checkpoint_commit: no state change *)
          Done (reward t w3 g2) c out rg
    end.

  Definition run_mode (m : reserve_mode) (txs : list tx) (t : tx) (w : world) : outcome :=
    match m with
    | NoReserve => run_off t w
    | WithReserve txid => run_on txs txid t w
    end.
End Lifecycle.
