(* Proofs about Reserve/Rule.v. *)
From Grevm Require Import Base.Util Reserve.Planner Reserve.PlannerProofs Reserve.Journal Reserve.JournalProofs Reserve.Rule.
Open Scope N_scope.

Lemma candidate_violates_iff required a before final :
  candidate_violates required (a, before, final) = true <->
  required a <> 0 /\ final < N.min before (required a).
Proof.
  unfold candidate_violates. destruct (N.eqb_spec (required a) 0) as [E|E].
  - split; [discriminate|]. intros [C _]; contradiction.
  - rewrite N.ltb_lt. tauto.
Qed.

Theorem violation_iff cands required :
  has_reserve_violation cands required = true <->
  exists a before final, In (a, before, final) cands /\
    required a <> 0 /\ final < N.min before (required a).
Proof.
  unfold has_reserve_violation. rewrite existsb_exists. split.
  - intros ([[a before] final] & Hin & Hv). exists a, before, final. split; auto.
    apply candidate_violates_iff. exact Hv.
  - intros (a & before & final & Hin & Hv). exists (a, before, final). split; auto.
    apply candidate_violates_iff. exact Hv.
Qed.

(* the verdict depends only on the set of candidates, not on the HashMap iteration order *)
Theorem violation_order_insensitive l l' required :
  (forall c, In c l <-> In c l') ->
  has_reserve_violation l required = has_reserve_violation l' required.
Proof.
  intros H. apply eq_true_iff_eq. rewrite !violation_iff.
  split; intros (a & b & f & Hin & Hv); exists a, b, f; (split; [apply H; exact Hin|exact Hv]).
Qed.

(* the whole rule, read off the journal: some delegated account [a] has a first protected debit at
   journal index [g] such that its later transactions cost something and its final balance is
   below min(balance before that debit, that cost) *)
Theorem reserve_violation_iff txs txid t entries cp st :
  nth_opt txs txid = Some t ->
  (reserve_violation txs txid entries cp st = true <->
   exists a g final d,
     In (a, g) (scan t st (skipn cp entries) cp (negb (value t =? 0)) []) /\
     lookup st a = Some (final, d) /\
     required_after txs txid a <> 0 /\
     final < N.min (balance_before_entry entries g a final) (required_after txs txid a)).
Proof.
  intros Et. unfold reserve_violation. rewrite Et, violation_iff. split.
  - intros (a & before & final & Hin & Hr & Hlt).
    apply delegated_debits_exact in Hin. destruct Hin as (g & d & Hs & Hl & ->).
    exists a, g, final, d. auto.
  - intros (a & g & final & d & Hs & Hl & Hr & Hlt).
    exists a, (balance_before_entry entries g a final), final. repeat split; auto.
    apply delegated_debits_exact. exists g, d. auto.
Qed.

(* ---------- configuration ---------- *)

Lemma mode_off_flag spec txid : mode_of false spec txid = NoReserve.
Proof. unfold mode_of, effective_reserve. destruct (PRAGUE <=? spec); reflexivity. Qed.

Lemma mode_off_before_prague flag spec txid : spec < PRAGUE -> mode_of flag spec txid = NoReserve.
Proof. unfold mode_of, effective_reserve. intros H. destruct (N.leb_spec PRAGUE spec); [lia|reflexivity]. Qed.

Lemma mode_on spec txid : PRAGUE <= spec -> mode_of true spec txid = WithReserve txid.
Proof. unfold mode_of, effective_reserve. intros H. destruct (N.leb_spec PRAGUE spec); [reflexivity|lia]. Qed.

(* ---------- lifecycle ---------- *)

Section LifecycleProofs.
  Variables world gas rgas : Type.
  Variable pre_exec : tx -> world -> option (world * N).
  Variable execute : tx -> world -> world * (iclass * N * gas).
  Variable refund_fn : gas -> N -> gas.
  Variable result_gas_of : bool -> gas -> rgas.
  Variable floor_fn : gas -> gas.
  Variable reimburse : tx -> world -> gas -> world.
  Variable reward : tx -> world -> gas -> world.
  Variable set_refund_zero : gas -> gas.
  Variable bump_nonce : N -> world -> option world.
  Variable journal_view : tx -> world -> world -> list entry * nat * jstate.

  Let off := run_off world gas rgas pre_exec execute refund_fn result_gas_of floor_fn reimburse reward.
  Let on := run_on world gas rgas pre_exec execute refund_fn result_gas_of floor_fn reimburse reward
                   set_refund_zero bump_nonce journal_view.

  (* the rule's verdict for this transaction on this pre-state *)
  Definition verdict (txs : list tx) (txid : nat) (t : tx) (w : world) : bool :=
    match pre_exec t w with
    | None => false
    | Some (w1, auth_refund) =>
        let '(w2, (c, out, g)) := execute t w1 in
        let w3 := reimburse t w2 (floor_fn (refund_fn g auth_refund)) in
        let '(entries, cp, st) := journal_view t w1 w3 in
        has_reserve_violation (delegated_debits_since entries cp t st) (required_after txs txid)
    end.

  (* no violation: bit-identical to the policy being off *)
  Theorem on_without_violation_is_off txs txid t w :
    verdict txs txid t w = false -> on txs txid t w = off t w.
  Proof.
    unfold verdict, on, off, run_on, run_off.
    destruct (pre_exec t w) as [[w1 ar]|]; [|reflexivity].
    destruct (execute t w1) as [w2 [[c out] g]].
    destruct (journal_view t w1 _) as [[entries cp] st].
    intros ->. reflexivity.
  Qed.

  (* violation: a charged top-level REVERT built from the state at the checkpoint (fee deducted,
     CALL nonce bumped, authorisations applied), the create-tx nonce bump re-applied, only the
     authorisation refund re-applied (execution refund zeroed), reimbursement and beneficiary
     policy applied to that; nothing else of the execution's state survives *)
  Theorem on_with_violation txs txid t w w1 ar w2 c out g :
    pre_exec t w = Some (w1, ar) -> execute t w1 = (w2, (c, out, g)) ->
    verdict txs txid t w = true ->
    on txs txid t w =
    match (if is_create t then bump_nonce (caller t) w1 else Some w1) with
    | None => Invalid world rgas
    | Some w1' =>
        let gv := floor_fn (refund_fn (set_refund_zero g) ar) in
        Done world rgas (reward t (reimburse t w1' gv) gv) IRevert 0
             (result_gas_of false (refund_fn (set_refund_zero g) ar))
    end.
  Proof.
    unfold verdict, on, run_on. intros -> ->.
    destruct (journal_view t w1 _) as [[entries cp] st]. intros ->. reflexivity.
  Qed.

  (* the right-hand side mentions neither w2 nor c nor out: of the execution only its gas survives *)

  (* policy off (flag off, or any spec before Prague): no checkpoint, no scan - revm's default *)
  Theorem policy_off_identical flag spec txid txs t w :
    flag = false \/ spec < PRAGUE ->
    run_mode world gas rgas pre_exec execute refund_fn result_gas_of floor_fn reimburse reward
             set_refund_zero bump_nonce journal_view (mode_of flag spec txid) txs t w = off t w.
  Proof.
    intros [->|H]; [rewrite mode_off_flag|rewrite mode_off_before_prague by exact H]; reflexivity.
  Qed.

  (* invalid transactions are classified identically under both modes *)
  Theorem invalid_same txs txid t w : off t w = Invalid world rgas -> on txs txid t w = Invalid world rgas.
  Proof.
    unfold off, on, run_off, run_on. destruct (pre_exec t w) as [[w1 ar]|]; [|reflexivity].
    destruct (execute t w1) as [w2 [[c out] g]]. discriminate.
  Qed.
End LifecycleProofs.
