(* Stm/Core.v - the Block-STM protocol acceptor (definitions only; proofs are in Stm/Inv*.v).

   One event = one atomic group reported by a hook point of the real scheduler
   (src/scheduler.rs, src/incarnation_db.rs, src/scheduler/context.rs).  [step s e] checks that
   (a) the event is possible in the per-transaction critical section it belongs to,
   (b) everything the implementation *observed* equals what the model state holds, and
   (c) every guard the safety proofs rely on holds; then applies the effect.

   The per-transaction mutex (tx_states[j]) is modelled by [cs j]: an execution or a validation of
   j holds it from XBegin/VBegin to XEnd/VEnd; claims and the finality check take it momentarily
   (they require [cs j = None]).  Scheduling heuristics (validation cursor, execution cursor,
   dependency graph, wait slots, frontier) are not part of this model: the safety theorems do
   not depend on them. *)
From Grevm Require Import Base.Util Stm.Spec.

Inductive status := Initial | Executing | Executed | Validating | Unconfirmed | Conflict | Final.

Definition status_eqb (a b : status) : bool :=
  match a, b with
  | Initial, Initial | Executing, Executing | Executed, Executed | Validating, Validating
  | Unconfirmed, Unconfirmed | Conflict, Conflict | Final, Final => true
  | _, _ => false
  end.

Record entry := { einc : nat; eval : val; eest : bool }.

(* latest entry strictly below j: what `written_transactions.range(..txid).next_back()` returns *)
Fixpoint lb (f : nat -> option entry) (j : nat) : option (nat * entry) :=
  match j with
  | O => None
  | S j' => match f j' with Some e => Some (j', e) | None => lb f j' end
  end.

(* one database-level access of an attempt, in program order *)
Inductive readrec :=
| RMv (l : loc) (seen : option (nat * nat * val))      (* writer, incarnation, value; None = miss *)
| RB (l : loc) (v : val)
| RBen (o : option val).

(* the read set: location -> version, derived from the log (multi-version lookups only) *)
Definition mv_reads (log : list readrec) : list (loc * option (nat * nat)) :=
  flat_map (fun r => match r with
                     | RMv l (Some (k, n, _)) => [(l, Some (k, n))]
                     | RMv l None => [(l, None)]
                     | RB _ _ => []
                     | RBen _ => []
                     end) log.

Definition has_loc (l : loc) (ls : list loc) : bool := existsb (Nat.eqb l) ls.

Definition ver_eqb (a b : option (nat * nat)) : bool :=
  match a, b with
  | None, None => true
  | Some (k, n), Some (k', n') => Nat.eqb k k' && Nat.eqb n n'
  | _, _ => false
  end.

(* the read set is a hash map: a repeated lookup of a location overwrites its version, so the
   version validated is the one of the LAST lookup (src/incarnation_db.rs read_set.insert) *)
Fixpoint lookup_ver (l : loc) (rs : list (loc * option (nat * nat))) : option (option (nat * nat)) :=
  match rs with
  | [] => None
  | (l', v) :: rs' =>
      match lookup_ver l rs' with
      | Some v' => Some v'
      | None => if Nat.eqb l l' then Some v else None
      end
  end.

(* every lookup of a location in one attempt observed the same version (the storage-reset marker
   of an account is looked up once per storage read) *)
Fixpoint log_consistent (rs : list (loc * option (nat * nat))) : bool :=
  match rs with
  | [] => true
  | (l, v) :: rs' =>
      match lookup_ver l rs' with
      | Some v' => ver_eqb v v' && log_consistent rs'
      | None => log_consistent rs'
      end
  end.

(* pending validation-rewind obligation of a critical section *)
Inductive owes := Clean | DirtyAt (d : nat) | Ticked (ts : nat).

Inductive xphase := XReading | XPublishing | XReturned | XStatusSet.
Inductive vphase := VScanning | VScanDone | VStatusSet.

Record resrec := {
  rlog : list readrec;            (* reads of the incarnation (empty after a failed attempt)   *)
  rws : list loc;                 (* write set (locations this tx has entries at)              *)
  rres : result;
}.

Inductive crit :=
| CExec (n : nat) (cont : prog) (log : list readrec) (blocked : bool) (pub : list loc)
        (ph : xphase) (owe : owes) (wnew : bool)
| CVal (ts : nat) (scanned : list loc) (conf : bool) (ph : vphase) (owe : owes).

Record state := {
  mv : loc -> nat -> option entry;
  hist : loc -> nat -> nat -> option val;  (* ghost: value written at l by (tx, incarnation); append-only *)
  edom : nat -> list loc;                  (* ghost: locations at which tx j may have an entry *)
  st : nat -> status;
  inc : nat -> nat;
  cs : nat -> option crit;
  res : nat -> option resrec;
  clock : nat;
  lower : nat -> nat;
  unconf : nat -> nat;
  fidx : nat;
  carried : nat;
  fpub : nat;
  cidx : nat;
  ctaken : option nat;
  cpub : nat;
  outs : list outcome;
  aborted : option (nat * option nat);   (* first abort cause: kind, txid *)
  finished : bool;
}.

Definition init : state := {|
  mv := fun _ _ => None; hist := fun _ _ _ => None; edom := fun _ => []; st := fun _ => Initial; inc := fun _ => 0; cs := fun _ => None;
  res := fun _ => None; clock := 1; lower := fun _ => 0; unconf := fun _ => 0;
  fidx := 0; carried := 0; fpub := 0; cidx := 0; ctaken := None; cpub := 0; outs := [];
  aborted := None; finished := false |}.

(* record update helpers *)
Definition set_mv s f := {| mv := f; hist := hist s; edom := edom s; st := st s; inc := inc s; cs := cs s; res := res s; clock := clock s;
  lower := lower s; unconf := unconf s; fidx := fidx s; carried := carried s; fpub := fpub s; cidx := cidx s;
  ctaken := ctaken s; cpub := cpub s; outs := outs s; aborted := aborted s; finished := finished s |}.
Definition set_hist s h := {| mv := mv s; hist := h; edom := edom s; st := st s; inc := inc s; cs := cs s; res := res s; clock := clock s;
  lower := lower s; unconf := unconf s; fidx := fidx s; carried := carried s; fpub := fpub s; cidx := cidx s;
  ctaken := ctaken s; cpub := cpub s; outs := outs s; aborted := aborted s; finished := finished s |}.
Definition set_edom s d := {| mv := mv s; hist := hist s; edom := d; st := st s; inc := inc s; cs := cs s; res := res s; clock := clock s;
  lower := lower s; unconf := unconf s; fidx := fidx s; carried := carried s; fpub := fpub s; cidx := cidx s;
  ctaken := ctaken s; cpub := cpub s; outs := outs s; aborted := aborted s; finished := finished s |}.
Definition set_st s f := {| mv := mv s; hist := hist s; edom := edom s; st := f; inc := inc s; cs := cs s; res := res s; clock := clock s;
  lower := lower s; unconf := unconf s; fidx := fidx s; carried := carried s; fpub := fpub s; cidx := cidx s;
  ctaken := ctaken s; cpub := cpub s; outs := outs s; aborted := aborted s; finished := finished s |}.
Definition set_inc s f := {| mv := mv s; hist := hist s; edom := edom s; st := st s; inc := f; cs := cs s; res := res s; clock := clock s;
  lower := lower s; unconf := unconf s; fidx := fidx s; carried := carried s; fpub := fpub s; cidx := cidx s;
  ctaken := ctaken s; cpub := cpub s; outs := outs s; aborted := aborted s; finished := finished s |}.
Definition set_cs s f := {| mv := mv s; hist := hist s; edom := edom s; st := st s; inc := inc s; cs := f; res := res s; clock := clock s;
  lower := lower s; unconf := unconf s; fidx := fidx s; carried := carried s; fpub := fpub s; cidx := cidx s;
  ctaken := ctaken s; cpub := cpub s; outs := outs s; aborted := aborted s; finished := finished s |}.
Definition set_res s f := {| mv := mv s; hist := hist s; edom := edom s; st := st s; inc := inc s; cs := cs s; res := f; clock := clock s;
  lower := lower s; unconf := unconf s; fidx := fidx s; carried := carried s; fpub := fpub s; cidx := cidx s;
  ctaken := ctaken s; cpub := cpub s; outs := outs s; aborted := aborted s; finished := finished s |}.
Definition set_clock s c := {| mv := mv s; hist := hist s; edom := edom s; st := st s; inc := inc s; cs := cs s; res := res s; clock := c;
  lower := lower s; unconf := unconf s; fidx := fidx s; carried := carried s; fpub := fpub s; cidx := cidx s;
  ctaken := ctaken s; cpub := cpub s; outs := outs s; aborted := aborted s; finished := finished s |}.
Definition set_lower s f := {| mv := mv s; hist := hist s; edom := edom s; st := st s; inc := inc s; cs := cs s; res := res s; clock := clock s;
  lower := f; unconf := unconf s; fidx := fidx s; carried := carried s; fpub := fpub s; cidx := cidx s;
  ctaken := ctaken s; cpub := cpub s; outs := outs s; aborted := aborted s; finished := finished s |}.
Definition set_unconf s f := {| mv := mv s; hist := hist s; edom := edom s; st := st s; inc := inc s; cs := cs s; res := res s; clock := clock s;
  lower := lower s; unconf := f; fidx := fidx s; carried := carried s; fpub := fpub s; cidx := cidx s;
  ctaken := ctaken s; cpub := cpub s; outs := outs s; aborted := aborted s; finished := finished s |}.
Definition set_fin s fi ca := {| mv := mv s; hist := hist s; edom := edom s; st := st s; inc := inc s; cs := cs s; res := res s; clock := clock s;
  lower := lower s; unconf := unconf s; fidx := fi; carried := ca; fpub := fpub s; cidx := cidx s;
  ctaken := ctaken s; cpub := cpub s; outs := outs s; aborted := aborted s; finished := finished s |}.
Definition set_fpub s v := {| mv := mv s; hist := hist s; edom := edom s; st := st s; inc := inc s; cs := cs s; res := res s; clock := clock s;
  lower := lower s; unconf := unconf s; fidx := fidx s; carried := carried s; fpub := v; cidx := cidx s;
  ctaken := ctaken s; cpub := cpub s; outs := outs s; aborted := aborted s; finished := finished s |}.
Definition set_commit s ci tk o := {| mv := mv s; hist := hist s; edom := edom s; st := st s; inc := inc s; cs := cs s; res := res s; clock := clock s;
  lower := lower s; unconf := unconf s; fidx := fidx s; carried := carried s; fpub := fpub s; cidx := ci;
  ctaken := tk; cpub := cpub s; outs := o; aborted := aborted s; finished := finished s |}.
Definition set_cpub s v := {| mv := mv s; hist := hist s; edom := edom s; st := st s; inc := inc s; cs := cs s; res := res s; clock := clock s;
  lower := lower s; unconf := unconf s; fidx := fidx s; carried := carried s; fpub := fpub s; cidx := cidx s;
  ctaken := ctaken s; cpub := v; outs := outs s; aborted := aborted s; finished := finished s |}.
Definition set_aborted s a := {| mv := mv s; hist := hist s; edom := edom s; st := st s; inc := inc s; cs := cs s; res := res s; clock := clock s;
  lower := lower s; unconf := unconf s; fidx := fidx s; carried := carried s; fpub := fpub s; cidx := cidx s;
  ctaken := ctaken s; cpub := cpub s; outs := outs s; aborted := a; finished := finished s |}.
Definition set_finished s := {| mv := mv s; hist := hist s; edom := edom s; st := st s; inc := inc s; cs := cs s; res := res s; clock := clock s;
  lower := lower s; unconf := unconf s; fidx := fidx s; carried := carried s; fpub := fpub s; cidx := cidx s;
  ctaken := ctaken s; cpub := cpub s; outs := outs s; aborted := aborted s; finished := true |}.

Definition upd2 {A} (f : loc -> nat -> A) (l : loc) (j : nat) (x : A) : loc -> nat -> A :=
  fun l' j' => if Nat.eqb l' l && Nat.eqb j' j then x else f l' j'.

Definition guard (b : bool) (k : option state) : option state := if b then k else None.

(* the committed (backing) value of a location: latest committed writer, else the pre-state *)
Definition base (b : block) (s : state) (l : loc) : val :=
  if is_ben b l then ben_obs b (cidx s)
  else match lb (mv s l) (cidx s) with Some (_, e) => eval e | None => pre b l end.

(* no committed transaction has written [l] or reset the storage it belongs to *)
Definition clean_base (b : block) (s : state) (l : loc) : bool :=
  match lb (mv s l) (cidx s) with
  | Some _ => false
  | None => match marker b l with
            | Some m => match lb (mv s m) (cidx s) with Some _ => false | None => true end
            | None => true
            end
  end.

Definition resolves (s : state) (j : nat) (l : loc) (ver : option (nat * nat)) : bool :=
  match lb (mv s l) j, ver with
  | None, None => true
  | Some (k, e), Some (k', n') => Nat.eqb k k' && Nat.eqb (einc e) n' && negb (eest e)
  | _, _ => false
  end.

Definition dirty (s : state) (o : owes) : owes :=
  match o with
  | Clean => DirtyAt (clock s)
  | DirtyAt _ => DirtyAt (clock s)
  | Ticked _ => DirtyAt (clock s)
  end.

Definition ws_locs (ws : list (loc * val)) : list loc := map fst ws.

Definition old_ws (s : state) (j : nat) : list loc :=
  match res s j with Some r => rws r | None => [] end.

Definition owe_done (b : block) (j : nat) (o : owes) : bool :=
  match o with Clean => true | _ => Nat.leb (ntx b) (S j) end.

Inductive event :=
(* --- execution of j (src/scheduler.rs execute_task, src/incarnation_db.rs) --- *)
| XClaim (j : nat) (stc : status) (n : nat)          (* execution_task under the tx lock            *)
| XSkip (j : nat)                                    (* execute_task found status <> Executing      *)
| XBegin (j n : nat)
| XRead (j : nat) (l : loc) (seen : option (nat * nat)) (est : bool)
| XBase (j : nat) (l : loc) (v : val)
| XBen (j : nat) (o : option val)                    (* beneficiary.resolve_before: account or blocked *)
| XPublish (j : nat) (l : loc) (n : nat) (v : val) (est : bool)
| XRet (j n kind : nat) (blocked : bool)
| XUnpublish (j : nat) (l : loc)
| XMarkEst (j : nat) (l : loc) (wasest : bool)       (* also used by a failed validation            *)
| XStatus (j : nat) (conflict wnew : bool)
| Tick (j ts : nat)                                  (* logical_clock.fetch_add inside a cs of j    *)
| Lower (j i ts : nat)                               (* lower_timestamps[i].fetch_max(ts)           *)
| XEnd (j kind : nat)
(* --- validation of j (validate) --- *)
| VClaim (j : nat) (stc : status) (n : nat)
| VSkip (j : nat)
| VBegin (j n ts : nat)
| VCheck (j : nat) (l : loc) (ver : option (nat * nat)) (flip : bool)
| VBen (j : nat) (valid : bool)                       (* beneficiary.validate of the recorded origin chain *)
| VScanned (j : nat) (conflict : bool)
| VStatus (j : nat) (conflict : bool) (ts : nat)
| VEnd (j : nat)
(* --- finality and commit threads --- *)
| Finalize (j n eff : nat)
| FinPublish (v : nat)
| CTake (j : nat)
| CDone (j kind : nat)
| CPublish (v : nat)
(* --- abort / end --- *)
| Abort (kind : nat) (txid : option nat) (first : bool)
| PostExecute (c : nat) (reason : option nat).

Section Step.
Variable b : block.

Definition do_xclaim s j stc n : option state :=
  guard (Nat.ltb j (ntx b)) (
  guard (match cs s j with None => true | Some _ => false end) (
  guard (status_eqb stc (st s j) && Nat.eqb n (inc s j)) (
  match stc with
  | Initial | Conflict => Some (set_inc (set_st s (upd (st s) j Executing)) (upd (inc s) j (S (inc s j))))
  | _ => Some s
  end))).

Definition do_xbegin s j n : option state :=
  match cs s j, tx_at b j with
  | None, Some t =>
      guard (status_eqb (st s j) Executing && Nat.eqb n (inc s j)) (
      Some (set_cs s (upd (cs s) j (Some (CExec n (body t) [] false [] XReading Clean false)))))
  | _, _ => None
  end.

Definition do_xread s j l seen est : option state :=
  match cs s j with
  | Some (CExec n (Rd l' k) log blocked pub XReading owe wnew) =>
      guard (Nat.eqb l l') (
      match lb (mv s l) j, seen with
      | None, None =>
          Some (set_cs s (upd (cs s) j (Some (CExec n (k None) (log ++ [RMv l None]) blocked pub XReading owe wnew))))
      | Some (w, e), Some (w', n') =>
          guard (Nat.eqb w w' && Nat.eqb (einc e) n' && Bool.eqb (eest e) est) (
          Some (set_cs s (upd (cs s) j (Some (CExec n (k (Some (w, eval e))) (log ++ [RMv l (Some (w, einc e, eval e))])
                                                (blocked || eest e) pub XReading owe wnew)))))
      | _, _ => None
      end)
  | _ => None
  end.

Definition do_xbase s j l v : option state :=
  match cs s j with
  | Some (CExec n (RdBase l' k) log blocked pub XReading owe wnew) =>
      guard (Nat.eqb l l') (
      (* a backing read is only issued after the lookups of l (and of its reset marker) missed *)
      guard (match lookup_ver l (mv_reads log) with Some None => true | _ => false end) (
      guard (match marker b l with
             | Some m => match lookup_ver m (mv_reads log) with Some None => true | _ => false end
             | None => true end) (
      guard (if clean_base b s l then Nat.eqb v (pre b l) else true) (
      Some (set_cs s (upd (cs s) j (Some (CExec n (k v) (log ++ [RB l v]) blocked pub XReading owe wnew))))))))
  | _ => None
  end.

Definition do_xben s j o : option state :=
  match cs s j with
  | Some (CExec n (RdBen k) log blocked pub XReading owe wnew) =>
      Some (set_cs s (upd (cs s) j (Some (CExec n (k o) (log ++ [RBen o])
                                          (blocked || match o with None => true | Some _ => false end)
                                          pub XReading owe wnew))))
  | _ => None
  end.

Definition do_xpublish s j l n v est : option state :=
  match cs s j with
  | Some (CExec n' (Done (ROk ws out)) log blocked pub ph owe wnew) =>
      guard (match ph with XReading | XPublishing => true | _ => false end) (
      guard (Nat.eqb n n' && Bool.eqb est blocked && negb (has_loc l pub)) (
      match ws_find l ws with
      | Some v' =>
          guard (Nat.eqb v v' && match hist s l j n with None => true | Some _ => false end) (
          let fresh := match mv s l j with None => true | Some e => negb (eest e) end in
          let isnew := negb (has_loc l (old_ws s j)) in
          let owe' := if fresh then dirty s owe else owe in
          Some (set_cs (set_hist (set_mv (set_edom s (upd (edom s) j (l :: edom s j)))
                                         (upd2 (mv s) l j (Some {| einc := n; eval := v; eest := est |})))
                                 (fun l' j' n'' => if Nat.eqb l' l && Nat.eqb j' j && Nat.eqb n'' n then Some v
                                                   else hist s l' j' n''))
                       (upd (cs s) j (Some (CExec n' (Done (ROk ws out)) log blocked (l :: pub) XPublishing owe'
                                                  (wnew || isnew))))))
      | None => None
      end))
  | _ => None
  end.

Definition all_published (ws : list (loc * val)) (pub : list loc) : bool :=
  forallb (fun p => has_loc (fst p) pub) ws && Nat.eqb (length pub) (length ws).

Definition do_xret s j n kind blocked' : option state :=
  match cs s j with
  | Some (CExec n' (Done r) log blocked pub ph owe wnew) =>
      guard (Nat.eqb n n' && Bool.eqb blocked blocked') (
      guard (match ph with XReading | XPublishing => true | _ => false end) (
      guard (match r with
             | ROk ws _ => Nat.eqb kind 0 && all_published ws pub
             | RInvalid _ => Nat.eqb kind 1 && match pub with [] => true | _ => false end
             | RFatal _ => Nat.eqb kind 2 && match pub with [] => true | _ => false end
             end) (
      let wnew' := match res s j with None => true | Some _ => wnew end in
      Some (set_cs s (upd (cs s) j (Some (CExec n' (Done r) log blocked pub XReturned owe wnew')))))))
  | _ => None
  end.

Definition do_xunpublish s j l : option state :=
  match cs s j with
  | Some (CExec n (Done (ROk ws out)) log blocked pub XReturned owe wnew) =>
      guard (has_loc l (old_ws s j) && negb (has_loc l (ws_locs ws))) (
      match mv s l j with
      | Some e =>
          let owe' := if eest e then owe else dirty s owe in
          Some (set_cs (set_mv s (upd2 (mv s) l j None))
                       (upd (cs s) j (Some (CExec n (Done (ROk ws out)) log blocked pub XReturned owe' wnew))))
      | None => None
      end)
  | _ => None
  end.

Definition mark (s : state) (j : nat) (l : loc) : option (state * bool) :=
  match mv s l j with
  | Some e => Some (set_mv s (upd2 (mv s) l j (Some {| einc := einc e; eval := eval e; eest := true |})), eest e)
  | None => None
  end.

Definition do_xmarkest s j l wasest : option state :=
  match cs s j with
  | Some (CExec n (Done r) log blocked pub XReturned owe wnew) =>
      guard (match r with ROk _ _ => false | _ => true end && has_loc l (old_ws s j)) (
      match mark s j l with
      | Some (s', was) =>
          guard (Bool.eqb was wasest) (
          let owe' := if was then owe else dirty s owe in
          Some (set_cs s' (upd (cs s) j (Some (CExec n (Done r) log blocked pub XReturned owe' wnew)))))
      | None => None
      end)
  | Some (CVal ts scanned true VScanDone owe) =>
      guard (has_loc l (old_ws s j)) (
      match mark s j l with
      | Some (s', was) =>
          guard (Bool.eqb was wasest) (
          let owe' := if was then owe else dirty s owe in
          Some (set_cs s' (upd (cs s) j (Some (CVal ts scanned true VScanDone owe')))))
      | None => None
      end)
  | _ => None
  end.

Definition all_est (s : state) (j : nat) (ls : list loc) : bool :=
  forallb (fun l => match mv s l j with Some e => eest e | None => true end) ls.

Definition all_gone (s : state) (j : nat) (ls keep : list loc) : bool :=
  forallb (fun l => has_loc l keep || match mv s l j with None => true | Some _ => false end) ls.

(* the entries of j are exactly the write set [ws], written by incarnation n, none an estimate *)
Definition entries_match (s : state) (j n : nat) (ws : list (loc * val)) : bool :=
  forallb (fun l => match mv s l j, ws_find l ws with
                    | Some e, Some v => Nat.eqb (einc e) n && Nat.eqb (eval e) v && negb (eest e)
                    | None, None => true
                    | _, _ => false
                    end) (edom s j)
  && forallb (fun p => has_loc (fst p) (edom s j)) ws.

Definition do_xstatus s j conflict wnew' : option state :=
  match cs s j with
  | Some (CExec n (Done r) log blocked pub XReturned owe wnew) =>
      match r with
      | ROk ws out =>
          guard (Bool.eqb conflict blocked && Bool.eqb wnew wnew' && all_gone s j (old_ws s j) (ws_locs ws)) (
          guard (conflict || entries_match s j n ws) (
          Some (set_cs (set_st (set_res s (upd (res s) j (Some {| rlog := log; rws := ws_locs ws; rres := r |})))
                               (upd (st s) j (if conflict then Conflict else Executed)))
                       (upd (cs s) j (Some (CExec n (Done r) log blocked pub XStatusSet owe wnew))))))
      | _ =>
          guard (conflict && all_est s j (old_ws s j)) (
          Some (set_cs (set_st (set_res s (upd (res s) j (Some {| rlog := []; rws := old_ws s j; rres := r |})))
                               (upd (st s) j Conflict))
                       (upd (cs s) j (Some (CExec n (Done r) log blocked pub XStatusSet owe wnew)))))
      end
  | _ => None
  end.

Definition do_tick s j ts : option state :=
  guard (Nat.eqb ts (clock s)) (
  match cs s j with
  | Some (CExec n p log blocked pub XStatusSet owe wnew) =>
      Some (set_clock (set_cs s (upd (cs s) j (Some (CExec n p log blocked pub XStatusSet (Ticked ts) wnew)))) (S (clock s)))
  | Some (CVal vts scanned true VScanDone owe) =>
      Some (set_clock (set_cs s (upd (cs s) j (Some (CVal vts scanned true VScanDone (Ticked ts))))) (S (clock s)))
  | _ => None
  end).

Definition do_lower s j i ts : option state :=
  guard (Nat.eqb i j || Nat.eqb i (S j)) (
  match cs s j with
  | Some (CExec n p log blocked pub XStatusSet (Ticked ts') wnew) =>
      guard (Nat.eqb ts ts') (
      Some (set_lower (set_cs s (upd (cs s) j (Some (CExec n p log blocked pub XStatusSet Clean wnew))))
                      (upd (lower s) i (Nat.max (lower s i) ts))))
  | Some (CVal vts scanned true VScanDone (Ticked ts')) =>
      guard (Nat.eqb ts ts') (
      Some (set_lower (set_cs s (upd (cs s) j (Some (CVal vts scanned true VScanDone Clean))))
                      (upd (lower s) i (Nat.max (lower s i) ts))))
  | _ => None
  end).

Definition do_xend s j kind : option state :=
  match cs s j with
  | Some (CExec n p log blocked pub XStatusSet owe wnew) =>
      guard (owe_done b j owe) (
      if Nat.eqb kind 2 then
        guard (status_eqb (st s j) Executed && negb wnew) (
        Some (set_cs (set_st s (upd (st s) j Validating)) (upd (cs s) j None)))
      else Some (set_cs s (upd (cs s) j None)))
  | _ => None
  end.

Definition do_vclaim s j stc n : option state :=
  guard (Nat.ltb j (ntx b)) (
  guard (match cs s j with None => true | Some _ => false end) (
  guard (status_eqb stc (st s j) && Nat.eqb n (inc s j)) (
  match stc with
  | Executed | Unconfirmed => Some (set_st s (upd (st s) j Validating))
  | _ => Some s
  end))).

Definition res_ok (s : state) (j : nat) : bool :=
  match res s j with Some {| rres := ROk _ _ |} => true | _ => false end.

Definition do_vbegin s j n ts : option state :=
  guard (match cs s j with None => true | Some _ => false end) (
  guard (status_eqb (st s j) Validating && Nat.eqb n (inc s j) && res_ok s j && Nat.eqb ts (clock s)) (
  Some (set_clock (set_cs s (upd (cs s) j (Some (CVal ts [] false VScanning Clean)))) (S (clock s))))).

Definition do_vcheck s j l ver flip : option state :=
  match cs s j, res s j with
  | Some (CVal ts scanned conf VScanning owe), Some r =>
      guard (negb (has_loc l scanned)) (
      match lookup_ver l (mv_reads (rlog r)) with
      | Some ver' =>
          guard (ver_eqb ver ver') (
          let ok := resolves s j l ver' in
          guard (if conf then true else Bool.eqb flip (negb ok)) (
          Some (set_cs s (upd (cs s) j (Some (CVal ts (l :: scanned) (conf || negb ok) VScanning owe))))))
      | None => None
      end)
  | _, _ => None
  end.

(* the beneficiary origin chain is validated by the reward history (C07); its verdict is taken
   from the event, and [do_finalize] checks the value the finalised attempt saw *)
Definition do_vben s j (valid : bool) : option state :=
  match cs s j with
  | Some (CVal ts scanned conf VScanning owe) =>
      Some (set_cs s (upd (cs s) j (Some (CVal ts scanned (conf || negb valid) VScanning owe))))
  | _ => None
  end.

Definition do_vscanned s j conflict : option state :=
  match cs s j, res s j with
  | Some (CVal ts scanned conf VScanning owe), Some r =>
      guard (Bool.eqb conflict conf && forallb (fun p => has_loc (fst p) scanned) (mv_reads (rlog r))) (
      Some (set_cs s (upd (cs s) j (Some (CVal ts scanned conf VScanDone owe)))))
  | _, _ => None
  end.

Definition do_vstatus s j conflict ts' : option state :=
  match cs s j with
  | Some (CVal ts scanned conf VScanDone owe) =>
      guard (Bool.eqb conflict conf) (
      if conf then
        guard (all_est s j (old_ws s j)) (
        Some (set_cs (set_st s (upd (st s) j Conflict)) (upd (cs s) j (Some (CVal ts scanned conf VStatusSet owe)))))
      else
        (* an attempt whose repeated lookups of one location disagreed must never be trusted *)
        guard (Nat.eqb ts ts' && match res s j with
                                 | Some r => log_consistent (mv_reads (rlog r)) &&
                                             forallb (fun p => has_loc (fst p) scanned) (mv_reads (rlog r))
                                 | None => false end) (
        Some (set_cs (set_st (set_unconf s (upd (unconf s) j (Nat.max (unconf s j) ts))) (upd (st s) j Unconfirmed))
                     (upd (cs s) j (Some (CVal ts scanned conf VStatusSet owe))))))
  | _ => None
  end.

Definition do_vend s j : option state :=
  match cs s j with
  | Some (CVal ts scanned conf VStatusSet owe) =>
      guard (owe_done b j owe) (Some (set_cs s (upd (cs s) j None)))
  | _ => None
  end.

Definition ben_reads_exact (j : nat) (log : list readrec) : bool :=
  forallb (fun r => match r with
                    | RBen (Some v) => Nat.eqb v (ben_obs b j)
                    | RBen None => false
                    | _ => true
                    end) log.

Definition do_finalize s j n eff : option state :=
  guard (Nat.eqb j (fidx s) && Nat.ltb j (ntx b)) (
  guard (match cs s j with None => true | Some _ => false end) (
  guard (status_eqb (st s j) Unconfirmed && Nat.eqb n (inc s j)) (
  let e := Nat.max (carried s) (lower s j) in
  guard (Nat.eqb eff e && Nat.ltb e (unconf s j)) (
  Some (set_fin (set_st s (upd (st s) j Final)) (S j) e))))).

Definition do_finpublish s v : option state :=
  guard (Nat.eqb v (fidx s)) (Some (set_fpub s v)).

Definition do_ctake s j : option state :=
  guard (Nat.eqb j (cidx s) && Nat.ltb j (fpub s)) (
  guard (match ctaken s with None => true | Some _ => false end) (
  Some (set_commit s (cidx s) (Some j) (outs s)))).

Definition nonce_ok (s : state) (j : nat) : bool :=
  match tx_at b j with
  | Some t => if chk b then Nat.eqb (nonce_of b (base b s (nonce_loc t))) (tx_nonce t) else true
  | None => false
  end.

Definition do_cdone s j kind : option state :=
  match ctaken s with
  | Some j' =>
      guard (Nat.eqb j j') (
      match kind with
      | 0 => match res s j with
             | Some {| rlog := log; rres := ROk ws out |} =>
                 (* a committed attempt that read the fee recipient must have seen exactly the
                    credits of the committed prefix (finality is relative to nonce-check-off
                    execution, so this is checked here, where the prefix is in-order exact) *)
                 guard (nonce_ok s j && ben_reads_exact j log) (
                 Some (set_commit s (S j) None (outs s ++ [OExec out])))
             | _ => None
             end
      | 1 => guard (negb (nonce_ok s j)) (Some (set_commit s (cidx s) None (outs s)))
      | _ => Some (set_commit s (cidx s) None (outs s))
      end)
  | None => None
  end.

Definition do_cpublish s v : option state :=
  guard (Nat.eqb v (cidx s)) (Some (set_cpub s v)).

Definition do_abort s kind txid (first : bool) : option state :=
  guard (Bool.eqb first (match aborted s with None => true | Some _ => false end)) (
  Some (if first then set_aborted s (Some (kind, txid)) else s)).

Definition do_postexecute s c reason : option state :=
  guard (Nat.eqb c (cidx s) && negb (finished s)) (
  guard (match aborted s, reason with
         | None, None => true
         | Some (k, _), Some k' => Nat.eqb k k'
         | _, _ => false
         end) (Some (set_finished s))).

Definition step (s : state) (e : event) : option state :=
  if finished s then None else
  match e with
  | XClaim j stc n => do_xclaim s j stc n
  | XSkip j => guard (negb (status_eqb (st s j) Executing)) (Some s)
  | XBegin j n => do_xbegin s j n
  | XRead j l seen est => do_xread s j l seen est
  | XBase j l v => do_xbase s j l v
  | XBen j o => do_xben s j o
  | XPublish j l n v est => do_xpublish s j l n v est
  | XRet j n kind blocked => do_xret s j n kind blocked
  | XUnpublish j l => do_xunpublish s j l
  | XMarkEst j l was => do_xmarkest s j l was
  | XStatus j c w => do_xstatus s j c w
  | Tick j ts => do_tick s j ts
  | Lower j i ts => do_lower s j i ts
  | XEnd j kind => do_xend s j kind
  | VClaim j stc n => do_vclaim s j stc n
  | VSkip j => guard (negb (status_eqb (st s j) Validating)) (Some s)
  | VBegin j n ts => do_vbegin s j n ts
  | VCheck j l ver flip => do_vcheck s j l ver flip
  | VBen j valid => do_vben s j valid
  | VScanned j c => do_vscanned s j c
  | VStatus j c ts => do_vstatus s j c ts
  | VEnd j => do_vend s j
  | Finalize j n eff => do_finalize s j n eff
  | FinPublish v => do_finpublish s v
  | CTake j => do_ctake s j
  | CDone j kind => do_cdone s j kind
  | CPublish v => do_cpublish s v
  | Abort kind txid first => do_abort s kind txid first
  | PostExecute c reason => do_postexecute s c reason
  end.

Fixpoint run_trace (s : state) (tr : list event) : option state :=
  match tr with
  | [] => Some s
  | e :: tr' => match step s e with Some s' => run_trace s' tr' | None => None end
  end.

(* like [run_trace] but reports the index of the first rejected event *)
Fixpoint run_diag (s : state) (tr : list event) (i : nat) : state * option nat :=
  match tr with
  | [] => (s, None)
  | e :: tr' => match step s e with Some s' => run_diag s' tr' (S i) | None => (s, Some i) end
  end.

End Step.
