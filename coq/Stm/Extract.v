From Grevm Require Import Base.Util Stm.Spec Stm.Core.
Require Extraction. Require ExtrOcamlBasic.
Extraction Language OCaml.
Extraction "extract/stm.ml" init step run_trace run_diag seq_block base.
