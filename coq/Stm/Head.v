(* Stm/Head.v - the head transaction.  Once every predecessor of j is final, an attempt of j that
   starts then meets no estimate, and none of its multi-version reads can be invalidated any more:
   the entries below j are frozen.  This is the inductive step of the termination argument (each
   transaction needs at most one more attempt once its predecessors are final); the scheduling
   objects that make sure the attempt is offered at all are C15/C16/C17. *)
From Grevm Require Import Base.Util Stm.Spec Stm.Core Stm.Lemmas Stm.Inv
  Stm.InvProofs1 Stm.InvProofs2 Stm.InvProofs3 Stm.InvProofs4 Stm.InvProofs5 Stm.Safety.

Section P.
Variable b : block.

Ltac unfold_step H :=
  unfold step in H;
  match type of H with (if ?f then _ else _) = _ => destruct f; [discriminate|] end.

Ltac unfold_do H :=
  unfold do_xclaim, do_xbegin, do_xread, do_xbase, do_xben, do_xpublish, do_xret, do_xunpublish,
    do_xmarkest, do_xstatus, do_tick, do_lower, do_xend, do_vclaim, do_vbegin, do_vcheck, do_vben,
    do_vscanned, do_vstatus, do_vend, do_finalize, do_finpublish, do_ctake, do_cdone, do_cpublish,
    do_abort, do_postexecute in H.

Ltac mark_inv :=
  match goal with Hm : mark _ _ _ = Some _ |- _ =>
    destruct (mark_frame _ _ _ _ _ Hm) as (M1&M2&M3&M4&M5&M6&M7&M8&M9&M10&M11&M12&M13&M14);
    destruct (mark_mv _ _ _ _ _ Hm) as (e0 & Me & Mw & Mm & Md) end.

(* entries of final transactions never change *)
Lemma mv_frozen_step s e s' :
  inv1 b s -> step b s e = Some s' -> forall l k, k < fidx s -> mv s' l k = mv s l k.
Proof.
  intros I1 H l0 k0 Hk. unfold_step H.
  destruct e; unfold_do H; crunch H; subst; simpl; auto.
  all: try (destruct first; reflexivity).
  all: try mark_inv.
  all: try rewrite Mm.
  all: apply upd2_other_tx.
  all: assert (fidx s <= j) by (apply (ge_fidx_of_cs b); auto; congruence); lia.
Qed.

Lemma fidx_mono_step s e s' : step b s e = Some s' -> fidx s <= fidx s'.
Proof.
  intros H. unfold_step H.
  destruct e; unfold_do H; crunch H; subst; simpl; auto.
  all: try (destruct first; simpl; lia).
  all: try mark_inv; try lia.
  all: bool_hyps; subst; lia.
Qed.

Lemma inc_mono_step s e s' j : step b s e = Some s' -> inc s j <= inc s' j.
Proof.
  intros H. unfold_step H.
  destruct e; unfold_do H; crunch H; subst; simpl; auto.
  all: try (destruct first; simpl; lia).
  all: try mark_inv; try lia.
  all: try (rewrite M2; lia).
  all: destruct (Nat.eq_dec j j0) as [->|?]; [rewrite upd_same|rewrite upd_other by auto]; lia.
Qed.

Lemma resolves_frozen s s0 j l ver :
  (forall l k, k < j -> mv s l k = mv s0 l k) -> resolves s j l ver = resolves s0 j l ver.
Proof. intros H. unfold resolves. rewrite (lb_ext (mv s l) (mv s0 l) j); auto. Qed.

(* the read log of the execution critical section open on j, if any *)
Definition jlog (s : state) (j : nat) : option (list readrec) :=
  match cs s j with Some (CExec _ _ log _ _ _ _ _) => Some log | _ => None end.

(* [head j n s0 s]: s is reachable from the state s0 in which attempt n of j began with every
   predecessor of j final *)
Record head (j n : nat) (s0 s : state) : Prop := {
  h_fidx : j <= fidx s;
  h_inc : n <= inc s j;
  h_mv : forall l k, k < j -> mv s l k = mv s0 l k;
  h_noest : forall l k e, k < j -> mv s0 l k = Some e -> eest e = false;
  h_log : inc s j = n -> forall log, jlog s j = Some log ->
      forall l seen, In (RMv l seen) log -> resolves s0 j l (ver_of seen) = true;
  h_res : inc s j = n -> st s j <> Executing -> forall r, res s j = Some r ->
      forall l seen, In (RMv l seen) (rlog r) -> resolves s0 j l (ver_of seen) = true;
}.

Lemma head_begin s0 j n s1 :
  Inv b s0 -> j = fidx s0 -> step b s0 (XBegin j n) = Some s1 -> head j n s0 s1.
Proof.
  intros (I1 & I2 & I3 & I4 & I5 & I6) Hj H. unfold_step H. unfold_do H. crunch H; subst. bool_hyps. subst.
  constructor; simpl; auto.
  - intros l k e Hk He. destruct (I5 k Hk) as (r & ws & out & _ & _ & Hent & _).
    rewrite (Hent l) in He. destruct (ws_find l ws); inversion He; reflexivity.
  - intros _ log Hc. unfold jlog in Hc. simpl in Hc. rewrite upd_same in Hc. inversion Hc; subst. intros l seen [].
  - intros _ Hne. apply status_eqb_eq in H. congruence.
Qed.

(* a read the head attempt performs resolves against the frozen entries *)
Lemma head_read_resolves j n s0 s l :
  head j n s0 s ->
  match lb (mv s l) j with
  | Some (w, e) => eest e = false /\ resolves s0 j l (Some (w, einc e)) = true
  | None => resolves s0 j l None = true
  end.
Proof.
  intros Hh. assert (Hlb : lb (mv s l) j = lb (mv s0 l) j).
  { apply lb_ext. intros k Hk. apply (h_mv _ _ _ _ Hh); auto. }
  unfold resolves. rewrite <- Hlb. destruct (lb (mv s l) j) as [[w e]|] eqn:E; auto.
  destruct (lb_some _ _ _ _ E) as (Hw & He & _).
  assert (Hn : eest e = false).
  { apply (h_noest _ _ _ _ Hh l w e Hw). rewrite <- (h_mv _ _ _ _ Hh); auto. }
  split; auto. rewrite !Nat.eqb_refl, Hn. reflexivity.
Qed.

(* preservation: every read in j's open log / settled result after the step either was there
   before or resolves against the frozen entries *)
Lemma head_keep' j n s0 s s' :
  head j n s0 s ->
  fidx s <= fidx s' -> inc s j <= inc s' j ->
  (forall l k, k < j -> mv s' l k = mv s l k) ->
  (inc s j = n -> forall log, jlog s' j = Some log ->
     jlog s j = Some log \/ forall l seen, In (RMv l seen) log -> resolves s0 j l (ver_of seen) = true) ->
  (inc s j = n -> st s' j <> Executing -> forall r, res s' j = Some r ->
     (st s j <> Executing /\ res s j = Some r) \/
     forall l seen, In (RMv l seen) (rlog r) -> resolves s0 j l (ver_of seen) = true) ->
  head j n s0 s'.
Proof.
  intros Hh Hf Hi Hm Hc Hr.
  assert (Hn : inc s' j = n -> inc s j = n).
  { intros E. pose proof (h_inc _ _ _ _ Hh). lia. }
  constructor.
  - pose proof (h_fidx _ _ _ _ Hh). lia.
  - pose proof (h_inc _ _ _ _ Hh). lia.
  - intros l k Hk. rewrite Hm by auto. apply (h_mv _ _ _ _ Hh); auto.
  - apply (h_noest _ _ _ _ Hh).
  - intros E log Hcs l seen Hin.
    destruct (Hc (Hn E) log Hcs) as [Hold|Hnew]; [|apply Hnew; auto].
    apply (h_log _ _ _ _ Hh (Hn E) log Hold l seen Hin).
  - intros E Hne r Hres l seen Hin.
    destruct (Hr (Hn E) Hne r Hres) as [[Hne' Hres']|Hnew]; [|apply Hnew; auto].
    apply (h_res _ _ _ _ Hh (Hn E) Hne' r Hres' l seen Hin).
Qed.

Lemma head_keep j n s0 s s' :
  head j n s0 s ->
  fidx s <= fidx s' -> inc s j <= inc s' j ->
  (forall l k, k < j -> mv s' l k = mv s l k) ->
  (inc s' j = n -> forall log, jlog s' j = Some log -> jlog s j = Some log) ->
  (inc s' j = n -> st s' j <> Executing -> st s j <> Executing /\ res s' j = res s j) ->
  head j n s0 s'.
Proof.
  intros Hh Hf Hi Hm Hc Hr.
  destruct (Nat.eq_dec (inc s' j) n) as [E|E].
  - apply (head_keep' j n s0 s s' Hh Hf Hi Hm).
    + intros _ log HL. left. apply Hc; auto.
    + intros _ Hne r Hres. left. destruct (Hr E Hne) as [A B]. split; auto. congruence.
  - pose proof (h_inc _ _ _ _ Hh).
    constructor; try (intros; exfalso; apply E; assumption).
    + pose proof (h_fidx _ _ _ _ Hh). lia.
    + lia.
    + intros l k Hk. rewrite Hm by auto. apply (h_mv _ _ _ _ Hh); auto.
    + apply (h_noest _ _ _ _ Hh).
Qed.

Lemma in_app_one {A} (x y : A) l : In x (l ++ [y]) -> In x l \/ x = y.
Proof. intros H. apply in_app_or in H. destruct H as [H|[H|[]]]; auto. Qed.

(* the log premise of [head_keep]: j's open execution log is unchanged (or closed) *)
Ltac log_same j j0 :=
  let log0 := fresh "log0" in let HL := fresh "HL" in
  intros _ log0 HL; unfold jlog in *; simpl in *;
  destruct (Nat.eq_dec j j0) as [->|?];
  [ rewrite ?upd_same in HL; simpl in HL; try discriminate HL;
    repeat match goal with E : cs _ _ = Some _ |- _ => rewrite E end; simpl; try exact HL; try congruence
  | rewrite ?upd_other in HL by auto; try exact HL; try congruence ].

Ltac res_same j j0 :=
  let Hne := fresh "Hne" in
  intros _ Hne; simpl in *;
  destruct (Nat.eq_dec j j0) as [->|?];
  [ rewrite ?upd_same in *; try (split; [congruence|reflexivity]); try (split; [assumption|reflexivity])
  | rewrite ?upd_other in * by auto; split; [assumption|reflexivity] ].

Lemma cval_not_executing s j ts sc conf ph owe :
  inv1 b s -> cs s j = Some (CVal ts sc conf ph owe) -> st s j <> Executing.
Proof.
  intros I1 E. pose proof (i1_cs b s I1 j) as C. unfold cs_ok in C. rewrite E in C.
  destruct C as (_ & _ & _ & C). destruct ph; try (rewrite C; discriminate).
  destruct C as [[_ C]|[_ [C _]]]; rewrite C; discriminate.
Qed.

Lemma cexec_status_set s j m p log bl pub owe w :
  inv1 b s -> cs s j = Some (CExec m p log bl pub XStatusSet owe w) -> st s j <> Executing.
Proof.
  intros I1 E. pose proof (i1_cs b s I1 j) as C. unfold cs_ok in C. rewrite E in C.
  destruct C as (_ & _ & [C|C]); rewrite C; discriminate.
Qed.

Lemma cexec_inc s j m p log bl pub ph owe w :
  inv1 b s -> cs s j = Some (CExec m p log bl pub ph owe w) -> m = inc s j.
Proof.
  intros I1 E. pose proof (i1_cs b s I1 j) as C. unfold cs_ok in C. rewrite E in C. tauto.
Qed.

Ltac st_ne :=
  first [ eapply cval_not_executing; eauto; fail
        | eapply cexec_status_set; eauto; fail
        | bool_hyps; repeat match goal with Hs : status_eqb _ _ = true |- _ => apply status_eqb_eq in Hs end;
          congruence
        | let Hst := fresh "Hst" in intro Hst; rewrite Hst in *; simpl in *; discriminate ].

Theorem head_step j n s0 s e s' :
  Inv b s -> head j n s0 s -> step b s e = Some s' -> head j n s0 s'.
Proof.
  intros I Hh H. pose proof I as (I1 & I2 & I3 & I4 & I5 & I6).
  pose proof (fidx_mono_step _ _ _ H) as Hf.
  pose proof (inc_mono_step _ _ _ j H) as Hi.
  assert (Hm : forall l k, k < j -> mv s' l k = mv s l k).
  { intros l k Hk. apply (mv_frozen_step _ _ _ I1 H). pose proof (h_fidx _ _ _ _ Hh). lia. }
  assert (Hkeep0 : forall s1, fidx s <= fidx s1 -> inc s j <= inc s1 j ->
            (forall l k, k < j -> mv s1 l k = mv s l k) ->
            cs s1 = cs s -> st s1 = st s -> res s1 = res s -> head j n s0 s1).
  { intros s1 A1 A2 A3 A4 A5 A6. apply (head_keep j n s0 s s1 Hh A1 A2 A3).
    - intros _ log HL. unfold jlog in *. rewrite A4 in HL. exact HL.
    - intros _ Hne. rewrite A5 in Hne. rewrite A6. auto. }
  unfold_step H.
  destruct e; unfold_do H; crunch H; subst; try exact Hh; try mark_inv.
  all: try (apply (head_keep j n s0 s _ Hh Hf Hi Hm); [log_same j j0 | res_same j j0]; fail).
  all: try (apply Hkeep0; auto; fail).
  (* status changes of j0 between non-executing statuses; marks *)
  all: try (apply (head_keep j n s0 s _ Hh Hf Hi Hm);
            [ log_same j j0
            | intros _ Hne; simpl in *; rewrite ?M1, ?M12 in *;
              destruct (Nat.eq_dec j j0) as [->|?];
              [ rewrite ?upd_same in *; split; [ st_ne | reflexivity ]
              | rewrite ?upd_other in * by auto; split; [assumption|reflexivity] ] ]; fail).
  - (* XBegin *) apply (head_keep' j n s0 s _ Hh Hf Hi Hm).
    + intros EI log0 HL. unfold jlog in *. simpl in HL.
      destruct (Nat.eq_dec j j0) as [->|?]; [rewrite upd_same in HL|rewrite upd_other in HL by auto; auto].
      injection HL as HL; subst log0. right. intros l seen [].
    + intros EI Hne r Hres. simpl in *. left. split; auto.
  - (* XRead, hit *) apply (head_keep' j n s0 s _ Hh Hf Hi Hm).
    + intros EI log0 HL. unfold jlog in *. simpl in HL.
      destruct (Nat.eq_dec j j0) as [->|?]; [rewrite upd_same in HL|rewrite upd_other in HL by auto; auto].
      injection HL as HL; subst log0. right. intros l1 seen Hin. apply in_app_one in Hin. destruct Hin as [Hin|Heq].
      * apply (h_log _ _ _ _ Hh EI log); auto. unfold jlog. rewrite E. reflexivity.
      * injection Heq as -> ->. simpl. pose proof (head_read_resolves _ _ _ _ l Hh) as R. rewrite E3 in R. apply R.
    + intros EI Hne r Hres. simpl in *. left. split; auto.
  - (* XRead, miss *) apply (head_keep' j n s0 s _ Hh Hf Hi Hm).
    + intros EI log0 HL. unfold jlog in *. simpl in HL.
      destruct (Nat.eq_dec j j0) as [->|?]; [rewrite upd_same in HL|rewrite upd_other in HL by auto; auto].
      injection HL as HL; subst log0. right. intros l1 seen Hin. apply in_app_one in Hin. destruct Hin as [Hin|Heq].
      * apply (h_log _ _ _ _ Hh EI log); auto. unfold jlog. rewrite E. reflexivity.
      * injection Heq as -> ->. simpl. pose proof (head_read_resolves _ _ _ _ l Hh) as R. rewrite E3 in R. apply R.
    + intros EI Hne r Hres. simpl in *. left. split; auto.
  - (* XBase *) apply (head_keep' j n s0 s _ Hh Hf Hi Hm).
    + intros EI log0 HL. unfold jlog in *. simpl in HL.
      destruct (Nat.eq_dec j j0) as [->|?]; [rewrite upd_same in HL|rewrite upd_other in HL by auto; auto].
      injection HL as HL; subst log0. right. intros l1 seen Hin. apply in_app_one in Hin. destruct Hin as [Hin|Heq]; [|discriminate].
      apply (h_log _ _ _ _ Hh EI log); auto. unfold jlog. rewrite E. reflexivity.
    + intros EI Hne r Hres. simpl in *. left. split; auto.
  - (* XBen *) apply (head_keep' j n s0 s _ Hh Hf Hi Hm).
    + intros EI log0 HL. unfold jlog in *. simpl in HL.
      destruct (Nat.eq_dec j j0) as [->|?]; [rewrite upd_same in HL|rewrite upd_other in HL by auto; auto].
      injection HL as HL; subst log0. right. intros l1 seen Hin. apply in_app_one in Hin. destruct Hin as [Hin|Heq]; [|discriminate].
      apply (h_log _ _ _ _ Hh EI log); auto. unfold jlog. rewrite E. reflexivity.
    + intros EI Hne r Hres. simpl in *. left. split; auto.
  - (* XStatus, executed *) apply (head_keep' j n s0 s _ Hh Hf Hi Hm).
    + intros EI log0 HL. unfold jlog in *. simpl in HL.
      destruct (Nat.eq_dec j j0) as [->|?]; [rewrite upd_same in HL|rewrite upd_other in HL by auto; auto].
      left. rewrite E. exact HL.
    + intros EI Hne r Hres. simpl in *.
      destruct (Nat.eq_dec j j0) as [->|?]; [rewrite upd_same in *|rewrite upd_other in Hne by auto; rewrite upd_other in Hres by auto; left; split; auto].
      injection Hres as Hres; subst r. right. simpl. intros l1 seen Hin.
      apply (h_log _ _ _ _ Hh EI log); auto. unfold jlog. rewrite E. reflexivity.
  - (* XStatus, invalid *) apply (head_keep' j n s0 s _ Hh Hf Hi Hm).
    + intros EI log0 HL. unfold jlog in *. simpl in HL.
      destruct (Nat.eq_dec j j0) as [->|?]; [rewrite upd_same in HL|rewrite upd_other in HL by auto; auto].
      left. rewrite E. exact HL.
    + intros EI Hne r Hres. simpl in *.
      destruct (Nat.eq_dec j j0) as [->|?]; [rewrite upd_same in *|rewrite upd_other in Hne by auto; rewrite upd_other in Hres by auto; left; split; auto].
      injection Hres as Hres; subst r. right. simpl. intros l1 seen [].
  - (* XStatus, fatal *) apply (head_keep' j n s0 s _ Hh Hf Hi Hm).
    + intros EI log0 HL. unfold jlog in *. simpl in HL.
      destruct (Nat.eq_dec j j0) as [->|?]; [rewrite upd_same in HL|rewrite upd_other in HL by auto; auto].
      left. rewrite E. exact HL.
    + intros EI Hne r Hres. simpl in *.
      destruct (Nat.eq_dec j j0) as [->|?]; [rewrite upd_same in *|rewrite upd_other in Hne by auto; rewrite upd_other in Hres by auto; left; split; auto].
      injection Hres as Hres; subst r. right. simpl. intros l1 seen [].
  - (* Abort *) destruct first; [apply Hkeep0; auto|exact Hh].
Qed.

Theorem head_run j n s0 s tr s' :
  Inv b s -> head j n s0 s -> run_trace b s tr = Some s' -> head j n s0 s' /\ Inv b s'.
Proof.
  revert s; induction tr as [|e tr IH]; simpl; intros s I Hh H.
  - inversion H; subst; auto.
  - destruct (step b s e) as [s1|] eqn:E; [|discriminate].
    apply (IH s1); auto. + eapply Inv_step; eauto. + eapply head_step; eauto.
Qed.

(* every entry the head attempt can read is a settled value, and every multi-version read its
   settled result recorded still resolves *)
Theorem head_attempt_stable tr1 s0 j n s1 tr2 s :
  run_trace b init tr1 = Some s0 -> j = fidx s0 -> step b s0 (XBegin j n) = Some s1 ->
  run_trace b s1 tr2 = Some s -> inc s j = n ->
  (forall l w e, lb (mv s l) j = Some (w, e) -> eest e = false) /\
  (st s j <> Executing -> forall r l ver, res s j = Some r ->
     lookup_ver l (mv_reads (rlog r)) = Some ver -> resolves s j l ver = true).
Proof.
  intros H0 Hj Hb H2 Hn.
  pose proof (Inv_reachable b tr1 s0 H0) as I0.
  pose proof (head_begin s0 j n s1 I0 Hj Hb) as Hh1.
  assert (I1 : Inv b s1) by (eapply Inv_step; eauto).
  destruct (head_run j n s0 s1 tr2 s I1 Hh1 H2) as [Hh I].
  split.
  - intros l w e Hl. pose proof (head_read_resolves _ _ _ _ l Hh) as R. rewrite Hl in R. tauto.
  - intros Hne r l ver Hr Hl.
    rewrite (resolves_frozen s s0 j l ver (h_mv _ _ _ _ Hh)).
    apply lookup_in in Hl.
    assert (exists seen, In (RMv l seen) (rlog r) /\ ver_of seen = ver) as (seen & Hin & <-).
    { clear - Hl. induction (rlog r) as [|x log IH]; simpl in Hl; [contradiction|].
      apply in_app_or in Hl. destruct Hl as [Hl|Hl].
      - destruct x as [l' [[[k n0] v]|]|l' v|o]; simpl in Hl; try contradiction.
        + destruct Hl as [Hl|[]]. inversion Hl; subst. exists (Some (k, n0, v)). split; [left; reflexivity|reflexivity].
        + destruct Hl as [Hl|[]]. inversion Hl; subst. exists None. split; [left; reflexivity|reflexivity].
      - destruct (IH Hl) as (seen & A & B). exists seen. split; [right; exact A|exact B]. }
    apply (h_res _ _ _ _ Hh Hn Hne r Hr l seen Hin).
Qed.

(* ------------------------------------------------------------------------------------------
   The finality guard never refuses the head: a validation of j that begins while every
   predecessor of j is final and ends without conflict leaves j finalisable (its timestamp is
   newer than every rewind that can still cover j), whatever the other threads do meanwhile. *)

Definition gate_ts (s : state) (j : nat) : nat := Nat.max (carried s) (lower s j).

Definition gate (j : nat) (s : state) : Prop :=
  fidx s = j ->
  (forall ts sc ph owe, cs s j = Some (CVal ts sc false ph owe) -> gate_ts s j < ts) /\
  (st s j = Unconfirmed -> gate_ts s j < unconf s j).

Lemma clock_mono_step s e s' : step b s e = Some s' -> clock s <= clock s'.
Proof.
  intros H. unfold_step H.
  destruct e; unfold_do H; crunch H; subst; simpl; auto.
  all: try (destruct first; simpl; lia).
  all: try mark_inv; try lia.
  all: try (rewrite M4; lia).
Qed.

Lemma carried_clock_step s e s' :
  inv1 b s -> carried s < clock s -> step b s e = Some s' -> carried s' < clock s'.
Proof.
  intros I1 Hc H. pose proof (clock_mono_step _ _ _ H) as Hm. unfold_step H.
  destruct e; unfold_do H; crunch H; subst; simpl in *; auto; try lia.
  all: try (destruct first; simpl; lia).
  all: try mark_inv; try (rewrite ?M8, ?M4 in *; lia).
  all: bool_hyps; subst.
  all: pose proof (i1_lower b s I1 (fidx s)); lia.
Qed.

Lemma carried_clock_reachable tr s : run_trace b init tr = Some s -> carried s < clock s.
Proof.
  assert (G : forall tr s0 s, Inv b s0 -> carried s0 < clock s0 -> run_trace b s0 tr = Some s -> carried s < clock s).
  { clear tr s. induction tr as [|e tr IH]; simpl; intros s0 s I Hc H.
    - inversion H; subst; auto.
    - destruct (step b s0 e) as [s1|] eqn:E; [|discriminate].
      apply (IH s1 s); auto; [eapply Inv_step; eauto|].
      destruct I as (I1 & _). eapply carried_clock_step; eauto. }
  intros H. apply (G tr init s (Inv_init b)); [simpl; lia|exact H].
Qed.

Lemma gate_keep j s s' :
  gate j s -> fidx s' = fidx s -> cs s' j = cs s j -> st s' j = st s j -> lower s' j = lower s j ->
  carried s' = carried s -> unconf s' j = unconf s j -> gate j s'.
Proof.
  intros G Hf Hc Hs Hl Hca Hu Hj. unfold gate_ts. rewrite Hc, Hs, Hl, Hca, Hu.
  apply G. congruence.
Qed.

Lemma cexec_not_unconfirmed s j m p log bl pub ph owe w :
  inv1 b s -> cs s j = Some (CExec m p log bl pub ph owe w) -> st s j <> Unconfirmed.
Proof.
  intros I1 E. pose proof (i1_cs b s I1 j) as C. unfold cs_ok in C. rewrite E in C.
  destruct C as (_ & _ & C). destruct ph; try (rewrite C; discriminate).
  destruct C as [C|C]; rewrite C; discriminate.
Qed.

Lemma cval_status s j ts sc conf ph owe :
  inv1 b s -> cs s j = Some (CVal ts sc conf ph owe) ->
  ts < clock s /\ unconf s j <= ts /\
  (ph <> VStatusSet -> st s j = Validating) /\
  (ph = VStatusSet -> conf = true -> st s j = Conflict).
Proof.
  intros I1 E. pose proof (i1_cs b s I1 j) as C. unfold cs_ok in C. rewrite E in C.
  destruct C as (A & B & _ & C). repeat split; auto.
  - intros Hp. destruct ph; auto. congruence.
  - intros -> ->. destruct C as [[_ C]|[C _]]; [exact C|discriminate].
Qed.

(* the transaction below the head holds no critical section *)
Lemma no_cs_below_head s k : inv1 b s -> k < fidx s -> cs s k = None.
Proof.
  intros I1 Hk. destruct (cs s k) eqn:E; auto. exfalso.
  apply (cs_not_final b s k I1); [congruence|]. apply (i1_final b s I1). exact Hk.
Qed.

Ltac rw_frames :=
  repeat match goal with H : ?f ?x = ?f ?y |- _ => rewrite H end.

Ltac other_tx j s G :=
  apply (gate_keep j s _ G); simpl; rw_frames; rewrite ?upd_other by auto; auto.

(* the new critical section of j is an execution: nothing to show for the first clause; j is not
   Unconfirmed *)
Ltac same_exec I1 :=
  let Hf := fresh "Hf" in intros Hf; split;
  [ let Hc := fresh "Hc" in intros ? ? ? ? Hc; simpl in Hc; rewrite ?upd_same in Hc; discriminate Hc
  | let Hst := fresh "Hst" in intros Hst; simpl in Hst;
    repeat match goal with H : ?f ?x = ?f ?y |- _ => rewrite H in Hst end; rewrite ?upd_same in Hst;
    try discriminate Hst;
    try (exfalso; eapply cexec_not_unconfirmed; eauto; fail) ].

Ltac open_gate Hf Hc Hst :=
  intros Hf; split; [intros ? ? ? ? Hc | intros Hst]; simpl in *; rewrite ?upd_same in *.

Theorem gate_step j s e s' :
  Inv b s -> carried s < clock s -> j <= fidx s -> gate j s -> step b s e = Some s' -> gate j s'.
Proof.
  intros I Hcc Hjf G H. pose proof I as (I1 & I2 & I3 & I4 & I5 & I6).
  unfold_step H.
  destruct e; unfold_do H; crunch H; subst; try exact G; try mark_inv.
  all: try (apply (gate_keep j s _ G); reflexivity).
  all: try (destruct first; [apply (gate_keep j s _ G); reflexivity|exact G]).
  all: destruct (Nat.eq_dec j j0) as [<-|Hne].
  all: try (other_tx j s G; fail).
  all: try (same_exec I1; fail).
  - (* XClaim, Initial *) open_gate Hf Hc Hst; [|discriminate]. rewrite Hc in Hg0. discriminate.
  - (* XClaim, Conflict *) open_gate Hf Hc Hst; [|discriminate]. rewrite Hc in Hg0. discriminate.
  - (* XBegin *) open_gate Hf Hc Hst; [discriminate|].
    apply andb_prop in Hg. destruct Hg as [Hs _]. apply status_eqb_eq in Hs. congruence.
  - (* XMarkEst in a failed validation *) open_gate Hf Hc Hst; [discriminate|].
    rewrite M1 in Hst. destruct (cval_status _ _ _ _ _ _ _ I1 E) as (_ & _ & Hv & _).
    rewrite Hv in Hst; [discriminate|discriminate].
  - (* XStatus *) open_gate Hf Hc Hst; [discriminate|]. destruct conflict; discriminate.
  - (* Tick in a failed validation *) open_gate Hf Hc Hst; [discriminate|].
    destruct (cval_status _ _ _ _ _ _ _ I1 E) as (_ & _ & Hv & _). rewrite Hv in Hst; discriminate.
  - (* Lower from an execution of another transaction *)
    destruct (Nat.eq_dec i j) as [->|Hi].
    + intros Hf. exfalso. simpl in Hf. apply orb_prop in Hg. destruct Hg as [Hg|Hg]; apply Nat.eqb_eq in Hg; [congruence|].
      subst j. rewrite (no_cs_below_head s j0 I1) in E; [discriminate|lia].
    + apply (gate_keep j s _ G); simpl; rewrite ?upd_other by auto; auto.
  - (* Lower from a failed validation of j *) open_gate Hf Hc Hst; [discriminate|].
    destruct (cval_status _ _ _ _ _ _ _ I1 E) as (_ & _ & Hv & _). rewrite Hv in Hst; discriminate.
  - (* Lower from a failed validation of another transaction *)
    destruct (Nat.eq_dec i j) as [->|Hi].
    + intros Hf. exfalso. simpl in Hf. apply orb_prop in Hg. destruct Hg as [Hg|Hg]; apply Nat.eqb_eq in Hg; [congruence|].
      subst j. rewrite (no_cs_below_head s j0 I1) in E; [discriminate|lia].
    + apply (gate_keep j s _ G); simpl; rewrite ?upd_other by auto; auto.
  - (* VClaim, Executed *) open_gate Hf Hc Hst; [|discriminate]. rewrite Hc in Hg0. discriminate.
  - (* VClaim, Unconfirmed *) open_gate Hf Hc Hst; [|discriminate]. rewrite Hc in Hg0. discriminate.
  - (* VBegin *) open_gate Hf Hc Hst.
    + injection Hc as <- _ _ _. bool_hyps. unfold gate_ts. simpl.
      pose proof (i1_lower b s I1 j). lia.
    + bool_hyps. match goal with Hs : status_eqb _ _ = true |- _ => apply status_eqb_eq in Hs; congruence end.
  - (* VCheck *) open_gate Hf Hc Hst.
    + injection Hc as <- _ Hcf _ _. apply orb_false_iff in Hcf. destruct Hcf as [-> _].
      destruct (G Hf) as [G1 _]. apply (G1 _ _ _ _ E).
    + destruct (cval_status _ _ _ _ _ _ _ I1 E) as (_ & _ & Hv & _). rewrite Hv in Hst; discriminate.
  - (* VBen *) open_gate Hf Hc Hst.
    + injection Hc as <- _ Hcf _ _. apply orb_false_iff in Hcf. destruct Hcf as [-> _].
      destruct (G Hf) as [G1 _]. apply (G1 _ _ _ _ E).
    + destruct (cval_status _ _ _ _ _ _ _ I1 E) as (_ & _ & Hv & _). rewrite Hv in Hst; discriminate.
  - (* VScanned *) open_gate Hf Hc Hst.
    + injection Hc as <- _ Hcf _ _. subst conf. destruct (G Hf) as [G1 _]. apply (G1 _ _ _ _ E).
    + destruct (cval_status _ _ _ _ _ _ _ I1 E) as (_ & _ & Hv & _). rewrite Hv in Hst; discriminate.
  - (* VStatus, no conflict *) open_gate Hf Hc Hst.
    + injection Hc as <- _ _ _. destruct (G Hf) as [G1 _]. apply (G1 _ _ _ _ E).
    + destruct (G Hf) as [G1 _]. pose proof (G1 _ _ _ _ E) as Hlt. unfold gate_ts in *. simpl. lia.
  - (* VEnd *) open_gate Hf Hc Hst; [discriminate|].
    destruct (G Hf) as [_ G2]. apply G2. exact Hst.
  - (* Finalize j *) intros Hf. simpl in Hf. lia.
  - (* Finalize of another transaction: it is the head, so it is j *)
    intros Hf. simpl in Hf. bool_hyps. lia.
Qed.

Theorem gate_run j s tr s' :
  Inv b s -> carried s < clock s -> j <= fidx s -> gate j s -> run_trace b s tr = Some s' -> gate j s'.
Proof.
  revert s; induction tr as [|e tr IH]; simpl; intros s I Hc Hj G H.
  - inversion H; subst; auto.
  - destruct (step b s e) as [s1|] eqn:E; [|discriminate].
    apply (IH s1); auto.
    + eapply Inv_step; eauto.
    + destruct I as (I1 & _). eapply carried_clock_step; eauto.
    + pose proof (fidx_mono_step _ _ _ E). lia.
    + eapply gate_step; eauto.
Qed.

(* a validation of the head transaction that begins at the head and finds no conflict makes the
   finality step enabled: the guard holds in every later state in which j is still the head,
   Unconfirmed and unlocked *)
Theorem head_validation_is_finalisable tr1 s0 j n ts s1 tr2 s :
  run_trace b init tr1 = Some s0 -> j = fidx s0 -> step b s0 (VBegin j n ts) = Some s1 ->
  run_trace b s1 tr2 = Some s ->
  fidx s = j -> st s j = Unconfirmed -> cs s j = None -> finished s = false ->
  exists s', step b s (Finalize j (inc s j) (Nat.max (carried s) (lower s j))) = Some s'.
Proof.
  intros H0 Hj Hb H2 Hf Hst Hcs Hfin.
  pose proof (Inv_reachable b tr1 s0 H0) as I0. pose proof I0 as (I01 & _).
  pose proof (carried_clock_reachable tr1 s0 H0) as Hc0.
  assert (I1 : Inv b s1) by (eapply Inv_step; eauto).
  assert (Hc1 : carried s1 < clock s1) by (eapply carried_clock_step; eauto).
  assert (Hf1 : j <= fidx s1) by (pose proof (fidx_mono_step _ _ _ Hb); lia).
  (* the gate holds right after VBegin *)
  assert (G1 : gate j s1).
  { clear H2. unfold_step Hb. unfold_do Hb. crunch Hb; subst. bool_hyps. subst.
    intros _. split.
    - intros ts1 sc ph owe Hc. simpl in Hc. rewrite upd_same in Hc. injection Hc as <- _ _ _.
      unfold gate_ts. simpl. pose proof (i1_lower b s0 I01 (fidx s0)). lia.
    - simpl. intros Hs. match goal with Hx : status_eqb _ _ = true |- _ => apply status_eqb_eq in Hx; congruence end. }
  pose proof (gate_run j s1 tr2 s I1 Hc1 Hf1 G1 H2) as G.
  destruct (G Hf) as [_ G2]. specialize (G2 Hst). unfold gate_ts in G2.
  assert (Is : Inv b s) by (eapply Inv_run; eauto). destruct Is as (Is1 & _).
  assert (Hjn : j < ntx b).
  { destruct (Nat.lt_ge_cases j (ntx b)) as [|Hge]; auto.
    destruct (i1_range b s Is1 j Hge) as [Hi _]. congruence. }
  unfold step. rewrite Hfin. unfold do_finalize. rewrite Hf, Hcs, Hst, !Nat.eqb_refl. simpl.
  apply Nat.ltb_lt in Hjn. rewrite Hjn. simpl.
  apply Nat.ltb_lt in G2. rewrite G2. simpl. eauto.
Qed.

End P.
