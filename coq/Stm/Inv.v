(* Stm/Inv.v - the invariants of the protocol acceptor (definitions; proofs in InvProofs*.v).

   Layer 1  structure: clock bounds, critical sections vs. status, finality index.
   Layer 2  values: the ghost [hist] names the value of every (location, tx, incarnation);
            logs follow the transaction's program.
   Layer 3  multi-version entries of a transaction with a settled result are exactly its write set.
   Layer 4  freshness: a certified read still resolves, unless a rewind covering it is owed or has
            been published with a newer timestamp.
   Layer 5  every final transaction read exactly the entries of its (final) predecessors.
   Layer 6  the committed prefix is the in-order execution. *)
From Grevm Require Import Base.Util Stm.Spec Stm.Core Stm.Lemmas.

Section Inv.
Variable b : block.

(* ------------------------------------------------------------------------------ layer 1 *)
Definition owe_ts_ok (s : state) (o : owes) : Prop :=
  match o with Clean => True | DirtyAt d => d <= clock s | Ticked ts => ts < clock s end.

Definition cs_ok (s : state) (j : nat) : Prop :=
  match cs s j with
  | None => True
  | Some (CExec n p log blocked pub ph owe wnew) =>
      n = inc s j /\ owe_ts_ok s owe /\
      match ph with
      | XStatusSet => st s j = Conflict \/ st s j = Executed
      | _ => st s j = Executing
      end
  | Some (CVal ts scanned conf ph owe) =>
      ts < clock s /\ unconf s j <= ts /\ owe_ts_ok s owe /\
      match ph with
      | VStatusSet => (conf = true /\ st s j = Conflict) \/ (conf = false /\ st s j = Unconfirmed /\ unconf s j = ts)
      | _ => st s j = Validating
      end
  end.

Record inv1 (s : state) : Prop := {
  i1_lower : forall i, lower s i < clock s;
  i1_unconf : forall j, unconf s j < clock s;
  i1_cs : forall j, cs_ok s j;
  i1_final : forall j, st s j = Final <-> j < fidx s;
  i1_carried : forall i, i < fidx s -> lower s i <= carried s;
  i1_range : forall j, ntx b <= j -> st s j = Initial /\ cs s j = None;
  i1_fidx : fidx s <= ntx b;
  i1_commit : cidx s <= fpub s /\ fpub s <= fidx s /\
              match ctaken s with Some j => j = cidx s /\ j < fpub s | None => True end;
}.

(* ------------------------------------------------------------------------------ layer 2 *)
Definition log_hist (s : state) (log : list readrec) : Prop :=
  forall l k n v, In (RMv l (Some (k, n, v))) log -> hist s l k n = Some v.

Definition obs_of (seen : option (nat * nat * val)) : obs :=
  match seen with Some (k, _, v) => Some (k, v) | None => None end.

(* consume a read log along a program *)
Fixpoint follows (p : prog) (log : list readrec) {struct log} : option prog :=
  match log with
  | [] => Some p
  | r :: log' =>
      match p, r with
      | Rd l k, RMv l' seen => if Nat.eqb l l' then follows (k (obs_of seen)) log' else None
      | RdBase l k, RB l' v => if Nat.eqb l l' then follows (k v) log' else None
      | RdBen k, RBen o => follows (k o) log'
      | _, _ => None
      end
  end.

Definition body_of (j : nat) : prog :=
  match tx_at b j with Some t => body t | None => Done (RFatal 0) end.

(* a backing read logged by a transaction either returned the pre-state value, or a committed
   transaction had already written the location (or reset the storage it belongs to) *)
Definition base_logged_ok (s : state) (log : list readrec) : Prop :=
  forall l v, In (RB l v) log -> v = pre b l \/ clean_base b s l = false.

(* a backing read is only issued after the multi-version lookups of the location and of its reset
   marker missed; with consistent re-reads the recorded version of both is "none" *)
Definition base_after_miss (log : list readrec) : Prop :=
  forall l v, In (RB l v) log ->
    (exists pre_log, exists post_log, log = pre_log ++ RB l v :: post_log /\
       lookup_ver l (mv_reads pre_log) = Some None /\
       match marker b l with Some m => lookup_ver m (mv_reads pre_log) = Some None | None => True end).

Record inv2 (s : state) : Prop := {
  i2_mv_hist : forall l k e, mv s l k = Some e -> hist s l k (einc e) = Some (eval e);
  i2_mv_inc : forall l k e, mv s l k = Some e -> einc e <= inc s k;
  i2_cs_log : forall j n p log bl pub ph owe w,
      cs s j = Some (CExec n p log bl pub ph owe w) ->
      log_hist s log /\ follows (body_of j) log = Some p /\ base_logged_ok s log /\ base_after_miss log;
  i2_res_log : forall j r, res s j = Some r ->
      log_hist s (rlog r) /\ base_logged_ok s (rlog r) /\ base_after_miss (rlog r) /\
      match rres r with
      | ROk _ _ => follows (body_of j) (rlog r) = Some (Done (rres r))
      | _ => rlog r = []
      end;
}.

(* ------------------------------------------------------------------------------ layer 3 *)
Definition settled (s : state) (j : nat) : Prop :=
  match st s j with
  | Executed | Unconfirmed | Final => True
  | Validating =>
      match cs s j with
      | None => True
      | Some (CVal _ _ conf ph _) => conf = false \/ ph = VScanning
      | Some (CExec _ _ _ _ _ _ _ _) => False
      end
  | _ => False
  end.

Definition entries_are (s : state) (j : nat) (ws : list (loc * val)) : Prop :=
  forall l, mv s l j = match ws_find l ws with
                       | Some v => Some {| einc := inc s j; eval := v; eest := false |}
                       | None => None
                       end.

Record inv3 (s : state) : Prop := {
  i3_edom : forall l j e, mv s l j = Some e -> In l (edom s j);
  i3_settled : forall j, settled s j ->
      exists r ws out, res s j = Some r /\ rres r = ROk ws out /\ entries_are s j ws;
  i3_consistent : forall j r, st s j = Unconfirmed -> res s j = Some r ->
      log_consistent (mv_reads (rlog r)) = true;
}.

(* ------------------------------------------------------------------------------ layer 4 *)
Definition cert_read (s : state) (j : nat) (c : nat) (l : loc) (ver : option (nat * nat)) : Prop :=
  exists r, res s j = Some r /\ lookup_ver l (mv_reads (rlog r)) = Some ver /\
  ((st s j = Unconfirmed /\ c = unconf s j) \/
   (exists ts scanned ph owe, cs s j = Some (CVal ts scanned false ph owe) /\ ph <> VStatusSet /\
                             In l scanned /\ c = ts)).

Definition owe_covers (o : owes) (c : nat) : Prop :=
  match o with Clean => False | DirtyAt d => c < d | Ticked ts => c < ts end.

Definition cs_owe (x : option crit) : owes :=
  match x with
  | Some (CExec _ _ _ _ _ _ owe _) => owe
  | Some (CVal _ _ _ _ owe) => owe
  | None => Clean
  end.

Definition covered (s : state) (j c : nat) : Prop :=
  (exists i, i <= j /\ c < lower s i) \/ (exists k, k < j /\ owe_covers (cs_owe (cs s k)) c).

Definition inv4 (s : state) : Prop :=
  forall j c l ver, cert_read s j c l ver -> resolves s j l ver = true \/ covered s j c.

(* ------------------------------------------------------------------------------ layer 5 *)
Definition rec_exact (s : state) (j : nat) (r : readrec) : Prop :=
  match r with
  | RMv l None => lb (mv s l) j = None
  | RMv l (Some (k, n, v)) =>
      exists e, lb (mv s l) j = Some (k, e) /\ einc e = n /\ eval e = v /\ eest e = false
  | RB l v => lb (mv s l) j = None /\ v = pre b l
  | RBen _ => True
  end.

Definition final_ok (s : state) (j : nat) : Prop :=
  exists r ws out, res s j = Some r /\ rres r = ROk ws out /\ entries_are s j ws /\
                   (forall x, In x (rlog r) -> rec_exact s j x).

Definition inv5 (s : state) : Prop := forall j, j < fidx s -> final_ok s j.

(* ------------------------------------------------------------------------------ layer 6 *)
Definition mvstore (s : state) (c : nat) : vstore :=
  fun l k => if Nat.ltb k c then option_map eval (mv s l k) else None.

Definition inv6 (s : state) : Prop :=
  exists os S,
    seq_from b vempty 0 (firstn (cidx s) (txs b)) = (os, S, None) /\ os = outs s /\
    (forall l k, S l k = mvstore s (cidx s) l k).

Definition Inv (s : state) : Prop := inv1 s /\ inv2 s /\ inv3 s /\ inv4 s /\ inv5 s /\ inv6 s.

End Inv.
