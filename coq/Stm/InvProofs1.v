(* Stm/InvProofs1.v - layer 1 (structure) is preserved by every accepted event. *)
From Grevm Require Import Base.Util Stm.Spec Stm.Core Stm.Lemmas Stm.Inv.

Ltac crunch H :=
  repeat first
   [ progress (apply guard_some in H; let Hg := fresh "Hg" in destruct H as [Hg H])
   | match type of H with
     | match ?x with _ => _ end = Some _ => let E := fresh "E" in destruct x eqn:E; try discriminate H
     | Some _ = Some _ => inversion H; clear H
     end ].

Ltac upd_cases j0 j :=
  destruct (Nat.eq_dec j0 j) as [->|?]; [rewrite ?upd_same in * | rewrite ?upd_other in * by auto].

Section P.
Variable b : block.

Lemma cs_in_range s j : inv1 b s -> cs s j <> None -> j < ntx b.
Proof.
  intros I H. destruct (Nat.lt_ge_cases j (ntx b)) as [|Hge]; auto.
  destruct (i1_range b s I j Hge) as [_ Hn]. congruence.
Qed.

Lemma cs_not_final s j : inv1 b s -> cs s j <> None -> st s j <> Final.
Proof.
  intros I H F. pose proof (i1_cs b s I j) as C. unfold cs_ok in C.
  destruct (cs s j) as [[n p log bl pub ph owe w|ts sc conf ph owe]|]; try congruence.
  - destruct C as (_ & _ & C). destruct ph; rewrite F in C; try discriminate; destruct C; discriminate.
  - destruct C as (_ & _ & _ & C). destruct ph; rewrite F in C; try discriminate.
    destruct C as [[_ C]|[_ [C _]]]; discriminate.
Qed.

Lemma cs_ok_other s s' k :
  cs s' k = cs s k -> inc s' k = inc s k -> st s' k = st s k -> unconf s' k = unconf s k ->
  clock s <= clock s' -> cs_ok s k -> cs_ok s' k.
Proof.
  unfold cs_ok. intros Hc Hi Hs Hu Hk. rewrite Hc, Hi, Hs, Hu.
  destruct (cs s k) as [[n p log bl pub ph owe w|ts sc conf ph owe]|]; auto.
  - intros (H1 & H2 & H3). repeat split; auto. destruct owe; simpl in *; auto; lia.
  - intros (H1 & H2 & H3 & H4). repeat split; auto; try lia. destruct owe; simpl in *; auto; lia.
Qed.

(* an event that only touches transaction j (status, incarnation, critical section, unconf) *)
Lemma inv1_local s s' j :
  inv1 b s ->
  (forall i, lower s' i = lower s i) -> (forall i, unconf s' i < clock s') -> clock s <= clock s' ->
  fidx s' = fidx s -> carried s' = carried s -> fpub s' = fpub s -> cidx s' = cidx s -> ctaken s' = ctaken s ->
  (forall k, k <> j -> cs s' k = cs s k /\ st s' k = st s k /\ inc s' k = inc s k /\ unconf s' k = unconf s k) ->
  cs_ok s' j -> st s j <> Final -> st s' j <> Final -> j < ntx b -> inv1 b s'.
Proof.
  intros I Hl Hu Hk Hf Hca Hfp Hci Hct Hoth Hcs Hnf Hnf' Hj.
  destruct I as [Il Iu Ic If Ica Ir Ifi Ico]. constructor.
  - intros i. rewrite Hl. specialize (Il i). lia.
  - exact Hu.
  - intros k. destruct (Nat.eq_dec k j) as [->|Hne]; auto.
    destruct (Hoth k Hne) as (H1 & H2 & H3 & H4). eapply cs_ok_other; eauto.
  - intros k. rewrite Hf. destruct (Nat.eq_dec k j) as [->|Hne].
    + split; intros H; [contradiction|]. apply If in H. contradiction.
    + destruct (Hoth k Hne) as (_ & H2 & _). rewrite H2. apply If.
  - intros i Hi. rewrite Hl, Hca. apply Ica. congruence.
  - intros k Hk'. destruct (Nat.eq_dec k j) as [->|Hne]; [lia|].
    destruct (Hoth k Hne) as (H1 & H2 & _). rewrite H1, H2. auto.
  - congruence.
  - rewrite Hci, Hfp, Hf, Hct. exact Ico.
Qed.

Lemma final_lt s j : inv1 b s -> st s j = Final -> j < fidx s.
Proof. intros I. apply (i1_final b s I). Qed.

(* ------------------------------------------------------------------ per-event preservation *)

Lemma inv1_xclaim s j stc n s' : inv1 b s -> do_xclaim b s j stc n = Some s' -> inv1 b s'.
Proof.
  intros I H. unfold do_xclaim in H. crunch H; subst; auto; bool_hyps.
  all: match goal with Hs : status_eqb _ _ = true |- _ => apply status_eqb_eq in Hs end.
  all: eapply (inv1_local s _ j); eauto; simpl; try congruence; try (apply (i1_unconf b s I)).
  all: try (intros k Hk; rewrite !upd_other by auto; auto).
  all: try (unfold cs_ok; simpl; destruct (cs s j); [congruence|exact Logic.I]).
  all: try (rewrite upd_same; discriminate).
Qed.

Lemma inv1_xbegin s j n s' : inv1 b s -> do_xbegin b s j n = Some s' -> inv1 b s'.
Proof.
  intros I H. unfold do_xbegin in H. crunch H; subst; bool_hyps.
  match goal with Hs : status_eqb _ _ = true |- _ => apply status_eqb_eq in Hs end.
  assert (Hj : j < ntx b).
  { unfold tx_at in E0. apply nth_opt_Some_lt in E0. exact E0. }
  eapply (inv1_local s _ j); eauto; simpl; try congruence; try (apply (i1_unconf b s I)).
  - intros k Hk; rewrite !upd_other by auto; auto.
  - unfold cs_ok; simpl. rewrite upd_same. repeat split; auto.
Qed.

(* events inside an execution critical section that keep status/incarnation and the phase class *)
Lemma inv1_exec_same s s' j n p log bl pub ph owe w n' p' log' bl' pub' ph' owe' w' :
  inv1 b s ->
  cs s j = Some (CExec n p log bl pub ph owe w) ->
  cs s' = upd (cs s) j (Some (CExec n' p' log' bl' pub' ph' owe' w')) ->
  n' = n -> st s' = st s -> inc s' = inc s -> clock s' = clock s ->
  lower s' = lower s -> unconf s' = unconf s ->
  fidx s' = fidx s -> carried s' = carried s -> fpub s' = fpub s -> cidx s' = cidx s -> ctaken s' = ctaken s ->
  owe_ts_ok s owe' ->
  (match ph' with XStatusSet => ph = XStatusSet | _ => ph <> XStatusSet end) ->
  inv1 b s'.
Proof.
  intros I Hc Hc' Hn Hst Hinc Hck Hlo Hun Hf Hca Hfp Hci Hct Howe Hph.
  assert (Hne : cs s j <> None) by congruence.
  pose proof (cs_in_range s j I Hne) as Hj. pose proof (cs_not_final s j I Hne) as Hnf.
  pose proof (i1_cs b s I j) as C. unfold cs_ok in C. rewrite Hc in C. destruct C as (C1 & C2 & C3).
  eapply (inv1_local s s' j); eauto; try congruence.
  - intros i. rewrite Hun, Hck. apply (i1_unconf b s I).
  - lia.
  - intros k Hk. rewrite Hc', Hst, Hinc, Hun, upd_other by auto. auto.
  - unfold cs_ok. rewrite Hc', upd_same, Hst, Hinc. subst n'. repeat split; auto.
    + destruct owe'; simpl in *; auto; lia.
    + destruct ph'; destruct ph; try congruence; auto; try (exfalso; apply Hph; reflexivity).
Qed.

Lemma dirty_ok s o : owe_ts_ok s (dirty s o).
Proof. destruct o; simpl; lia. Qed.

Lemma inv1_xread s j l seen est s' : inv1 b s -> do_xread s j l seen est = Some s' -> inv1 b s'.
Proof.
  intros I H. unfold do_xread in H. crunch H; subst.
  all: eapply inv1_exec_same; eauto; simpl; auto; try discriminate.
  all: pose proof (i1_cs b s I j) as C; unfold cs_ok in C; rewrite E in C; tauto.
Qed.

Lemma inv1_xbase s j l v s' : inv1 b s -> do_xbase b s j l v = Some s' -> inv1 b s'.
Proof.
  intros I H. unfold do_xbase in H. crunch H; subst.
  all: eapply inv1_exec_same; eauto; simpl; auto; try discriminate.
  all: pose proof (i1_cs b s I j) as C; unfold cs_ok in C; rewrite E in C; tauto.
Qed.

Lemma inv1_xben s j o s' : inv1 b s -> do_xben s j o = Some s' -> inv1 b s'.
Proof.
  intros I H. unfold do_xben in H. crunch H; subst.
  all: eapply inv1_exec_same; eauto; simpl; auto; try discriminate.
  all: pose proof (i1_cs b s I j) as C; unfold cs_ok in C; rewrite E in C; tauto.
Qed.

Lemma inv1_xpublish s j l n v est s' : inv1 b s -> do_xpublish s j l n v est = Some s' -> inv1 b s'.
Proof.
  intros I H. unfold do_xpublish in H. crunch H; subst.
  all: eapply inv1_exec_same; eauto; simpl; auto; try discriminate.
  all: try (destruct (match mv s l j with Some e => negb (eest e) | None => true end); [apply dirty_ok|]).
  all: pose proof (i1_cs b s I j) as C; unfold cs_ok in C; rewrite E in C; try tauto.
  all: simpl; intro Hx; subst; simpl in *; congruence.
Qed.

Lemma inv1_xret s j n kind bl s' : inv1 b s -> do_xret s j n kind bl = Some s' -> inv1 b s'.
Proof.
  intros I H. unfold do_xret in H. crunch H; subst.
  all: eapply inv1_exec_same; eauto; simpl; auto; try discriminate.
  all: pose proof (i1_cs b s I j) as C; unfold cs_ok in C; rewrite E in C; try tauto.
  all: simpl; intro Hx; subst; simpl in *; congruence.
Qed.

Lemma inv1_xunpublish s j l s' : inv1 b s -> do_xunpublish s j l = Some s' -> inv1 b s'.
Proof.
  intros I H. unfold do_xunpublish in H. crunch H; subst.
  all: eapply inv1_exec_same; eauto; simpl; auto; try discriminate.
  all: pose proof (i1_cs b s I j) as C; unfold cs_ok in C; rewrite E in C.
  all: destruct (eest e); [tauto|apply dirty_ok].
Qed.

(* events inside a validation critical section that keep status and the phase class *)
Lemma inv1_val_same s s' j ts sc conf ph owe sc' conf' ph' owe' :
  inv1 b s ->
  cs s j = Some (CVal ts sc conf ph owe) ->
  cs s' = upd (cs s) j (Some (CVal ts sc' conf' ph' owe')) ->
  st s' = st s -> inc s' = inc s -> clock s' = clock s ->
  lower s' = lower s -> unconf s' = unconf s ->
  fidx s' = fidx s -> carried s' = carried s -> fpub s' = fpub s -> cidx s' = cidx s -> ctaken s' = ctaken s ->
  owe_ts_ok s owe' ->
  ph <> VStatusSet -> ph' <> VStatusSet ->
  inv1 b s'.
Proof.
  intros I Hc Hc' Hst Hinc Hck Hlo Hun Hf Hca Hfp Hci Hct Howe Hph Hph'.
  assert (Hne : cs s j <> None) by congruence.
  pose proof (cs_in_range s j I Hne) as Hj. pose proof (cs_not_final s j I Hne) as Hnf.
  pose proof (i1_cs b s I j) as C. unfold cs_ok in C. rewrite Hc in C. destruct C as (C1 & C2 & C3 & C4).
  eapply (inv1_local s s' j); eauto; try congruence.
  - intros i. rewrite Hun, Hck. apply (i1_unconf b s I).
  - lia.
  - intros k Hk. rewrite Hc', Hst, Hinc, Hun, upd_other by auto. auto.
  - unfold cs_ok. rewrite Hc', upd_same, Hst, Hun, Hck. repeat split; auto.
    + destruct owe'; simpl in *; auto; lia.
    + destruct ph'; destruct ph; try congruence; auto.
Qed.

Lemma mark_frame s j l s' was :
  mark s j l = Some (s', was) ->
  st s' = st s /\ inc s' = inc s /\ cs s' = cs s /\ clock s' = clock s /\ lower s' = lower s /\
  unconf s' = unconf s /\ fidx s' = fidx s /\ carried s' = carried s /\ fpub s' = fpub s /\
  cidx s' = cidx s /\ ctaken s' = ctaken s /\ res s' = res s /\ hist s' = hist s /\ outs s' = outs s.
Proof. unfold mark. destruct (mv s l j); intros H; inversion H; subst; simpl; repeat split; auto. Qed.

Lemma inv1_xmarkest s j l was s' : inv1 b s -> do_xmarkest s j l was = Some s' -> inv1 b s'.
Proof.
  intros I H. unfold do_xmarkest in H. crunch H; subst.
  all: match goal with Hm : mark _ _ _ = Some _ |- _ => destruct (mark_frame _ _ _ _ _ Hm) as (M1&M2&M3&M4&M5&M6&M7&M8&M9&M10&M11&_) end.
  all: pose proof (i1_cs b s I j) as C; unfold cs_ok in C; rewrite E in C.
  all: [> eapply inv1_exec_same; eauto; simpl; try reflexivity; try congruence; try discriminate
        | eapply inv1_val_same; eauto; simpl; try reflexivity; try congruence; try discriminate ].
  all: match goal with |- owe_ts_ok _ (if ?c then _ else _) => destruct c; [tauto|apply dirty_ok] end.
Qed.

Ltac get_cs I E :=
  match type of E with cs ?s ?j = _ =>
    let C := fresh "C" in pose proof (i1_cs b s I j) as C; unfold cs_ok in C; rewrite E in C
  end.

Lemma inv1_xstatus s j c w s' : inv1 b s -> do_xstatus s j c w = Some s' -> inv1 b s'.
Proof.
  intros I H. unfold do_xstatus in H. crunch H; subst.
  all: get_cs I E; destruct C as (C1 & C2 & C3).
  all: assert (Hne : cs s j <> None) by congruence.
  all: pose proof (cs_in_range s j I Hne) as Hj; pose proof (cs_not_final s j I Hne) as Hnf.
  all: eapply (inv1_local s _ j); eauto; simpl; try congruence; try (apply (i1_unconf b s I)).
  all: try (intros k Hk; rewrite !upd_other by auto; auto).
  all: try (rewrite upd_same; destruct c; discriminate).
  all: try (rewrite upd_same; discriminate).
  all: unfold cs_ok; simpl; rewrite !upd_same; repeat split; auto.
  all: destruct c; auto.
Qed.

Lemma inv1_tick s j ts s' : inv1 b s -> do_tick s j ts = Some s' -> inv1 b s'.
Proof.
  intros I H. unfold do_tick in H. crunch H; subst; bool_hyps; subst.
  all: get_cs I E.
  all: assert (Hne : cs s j <> None) by congruence.
  all: pose proof (cs_in_range s j I Hne) as Hj; pose proof (cs_not_final s j I Hne) as Hnf.
  all: eapply (inv1_local s _ j); eauto; simpl; try congruence.
  all: try (intros i; pose proof (i1_unconf b s I i); lia).
  all: try lia.
  all: try (intros k Hk; rewrite !upd_other by auto; auto).
  all: unfold cs_ok; simpl; rewrite !upd_same; simpl.
  - destruct C as (C1 & C2 & C3). repeat split; auto.
  - destruct C as (C1 & C2 & C3 & C4). repeat split; auto; lia.
Qed.

Lemma inv1_lower s j i ts s' : inv1 b s -> do_lower s j i ts = Some s' -> inv1 b s'.
Proof.
  intros I H. unfold do_lower in H. crunch H; subst; bool_hyps; subst.
  all: get_cs I E.
  all: assert (Hne : cs s j <> None) by congruence.
  all: pose proof (cs_in_range s j I Hne) as Hj; pose proof (cs_not_final s j I Hne) as Hnf.
  all: assert (Hfj : fidx s <= j) by (destruct (Nat.lt_ge_cases j (fidx s)) as [Hlt|]; auto; apply (i1_final b s I) in Hlt; contradiction).
  all: simpl in C; decompose [and] C; clear C.
  all: destruct I as [Il Iu Ic If Ica Ir Ifi Ico]; constructor; simpl; auto.
  all: try (intros i0; upd_cases i0 i; [pose proof (Il i); lia | apply Il]).
  all: try (intros k; destruct (Nat.eq_dec k j) as [->|Hk];
            [ unfold cs_ok; simpl; rewrite upd_same; simpl in *; repeat split; auto
            | eapply cs_ok_other; [| | | | | apply Ic]; simpl; auto; rewrite upd_other; auto ]).
  all: try (intros i0 Hi0; rewrite upd_other; [apply Ica; auto|];
            match goal with Hor : (_ =? _) || (_ =? _) = true |- _ =>
              apply orb_prop in Hor; destruct Hor as [Hor|Hor]; apply Nat.eqb_eq in Hor; lia end).
  all: try (intros k Hk; destruct (Nat.eq_dec k j) as [->|Hne']; [lia|rewrite upd_other by auto; apply Ir; auto]).
Qed.

Lemma inv1_xend s j kind s' : inv1 b s -> do_xend b s j kind = Some s' -> inv1 b s'.
Proof.
  intros I H. unfold do_xend in H. crunch H; subst; bool_hyps.
  all: get_cs I E; destruct C as (C1 & C2 & C3).
  all: assert (Hne : cs s j <> None) by congruence.
  all: pose proof (cs_in_range s j I Hne) as Hj; pose proof (cs_not_final s j I Hne) as Hnf.
  all: eapply (inv1_local s _ j); eauto; simpl; try congruence; try (apply (i1_unconf b s I)).
  all: try (intros k Hk; rewrite !upd_other by auto; auto).
  all: try (unfold cs_ok; simpl; rewrite !upd_same; exact Logic.I).
  all: try (rewrite upd_same; discriminate).
Qed.

Lemma inv1_vclaim s j stc n s' : inv1 b s -> do_vclaim b s j stc n = Some s' -> inv1 b s'.
Proof.
  intros I H. unfold do_vclaim in H. crunch H; subst; auto; bool_hyps.
  all: match goal with Hs : status_eqb _ _ = true |- _ => apply status_eqb_eq in Hs end.
  all: eapply (inv1_local s _ j); eauto; simpl; try congruence; try (apply (i1_unconf b s I)).
  all: try (intros k Hk; rewrite !upd_other by auto; auto).
  all: try (unfold cs_ok; simpl; destruct (cs s j); [congruence|exact Logic.I]).
  all: try (rewrite upd_same; discriminate).
Qed.

Lemma inv1_vbegin s j n ts s' : inv1 b s -> do_vbegin s j n ts = Some s' -> inv1 b s'.
Proof.
  intros I H. unfold do_vbegin in H. crunch H; subst; bool_hyps; subst.
  match goal with Hs : status_eqb _ _ = true |- _ => apply status_eqb_eq in Hs end.
  assert (Hj : j < ntx b).
  { destruct (Nat.lt_ge_cases j (ntx b)) as [|Hge]; auto.
    destruct (i1_range b s I j Hge) as [Hi _]. congruence. }
  eapply (inv1_local s _ j); eauto; simpl; try congruence.
  - intros i; pose proof (i1_unconf b s I i); lia.
  - lia.
  - intros k Hk; rewrite !upd_other by auto; auto.
  - unfold cs_ok; simpl. rewrite upd_same. pose proof (i1_unconf b s I j). repeat split; auto; lia.
Qed.

Lemma inv1_vcheck s j l ver flip s' : inv1 b s -> do_vcheck s j l ver flip = Some s' -> inv1 b s'.
Proof.
  intros I H. unfold do_vcheck in H. crunch H; subst.
  all: get_cs I E.
  all: eapply inv1_val_same; eauto; simpl; try reflexivity; try congruence; try discriminate; tauto.
Qed.

Lemma inv1_vben s j valid s' : inv1 b s -> do_vben s j valid = Some s' -> inv1 b s'.
Proof.
  intros I H. unfold do_vben in H. crunch H; subst.
  all: get_cs I E.
  all: eapply inv1_val_same; eauto; simpl; try reflexivity; try congruence; try discriminate; tauto.
Qed.

Lemma inv1_vscanned s j c s' : inv1 b s -> do_vscanned s j c = Some s' -> inv1 b s'.
Proof.
  intros I H. unfold do_vscanned in H. crunch H; subst.
  all: get_cs I E.
  all: eapply inv1_val_same; eauto; simpl; try reflexivity; try congruence; try discriminate; tauto.
Qed.

Lemma inv1_vstatus s j c ts s' : inv1 b s -> do_vstatus s j c ts = Some s' -> inv1 b s'.
Proof.
  intros I H. unfold do_vstatus in H. crunch H; subst; bool_hyps; subst.
  all: get_cs I E; destruct C as (C1 & C2 & C3 & C4).
  all: assert (Hne : cs s j <> None) by congruence.
  all: pose proof (cs_in_range s j I Hne) as Hj; pose proof (cs_not_final s j I Hne) as Hnf.
  all: eapply (inv1_local s _ j); eauto; simpl; try congruence.
  all: try (apply (i1_unconf b s I)).
  all: try (intros i; upd_cases i j; [pose proof (i1_unconf b s I j); lia | apply (i1_unconf b s I)]).
  all: try (intros k Hk; rewrite !upd_other by auto; auto).
  all: try (rewrite upd_same; discriminate).
  all: unfold cs_ok; simpl; rewrite !upd_same; repeat split; auto; try lia.
  all: try (left; split; reflexivity).
  all: right; repeat split; auto; lia.
Qed.

Lemma inv1_vend s j s' : inv1 b s -> do_vend b s j = Some s' -> inv1 b s'.
Proof.
  intros I H. unfold do_vend in H. crunch H; subst.
  all: get_cs I E; destruct C as (C1 & C2 & C3 & C4).
  all: assert (Hne : cs s j <> None) by congruence.
  all: pose proof (cs_in_range s j I Hne) as Hj; pose proof (cs_not_final s j I Hne) as Hnf.
  all: eapply (inv1_local s _ j); eauto; simpl; try congruence; try (apply (i1_unconf b s I)).
  all: try (intros k Hk; rewrite !upd_other by auto; auto).
  all: unfold cs_ok; simpl; rewrite !upd_same; exact Logic.I.
Qed.

Lemma inv1_finalize s j n eff s' : inv1 b s -> do_finalize b s j n eff = Some s' -> inv1 b s'.
Proof.
  intros I H. unfold do_finalize in H. crunch H; subst; bool_hyps; subst.
  match goal with Hs : status_eqb _ _ = true |- _ => apply status_eqb_eq in Hs end.
  destruct I as [Il Iu Ic If Ica Ir Ifi Ico]; constructor; simpl; auto.
  - intros k. destruct (Nat.eq_dec k (fidx s)) as [->|Hk].
    + unfold cs_ok; simpl. destruct (cs s (fidx s)); [congruence|exact Logic.I].
    + eapply cs_ok_other; [| | | | | apply Ic]; simpl; auto. rewrite upd_other; auto.
  - intros k. upd_cases k (fidx s).
    + split; auto; lia.
    + rewrite If. lia.
  - intros i Hi. destruct (Nat.eq_dec i (fidx s)) as [->|Hne]; [lia|].
    assert (i < fidx s) by lia. pose proof (Ica i H). lia.
  - intros k Hk. rewrite upd_other by lia. apply Ir; auto.
  - destruct Ico as (A & B & C). repeat split; auto; try lia.
Qed.

Lemma inv1_finpublish s v s' : inv1 b s -> do_finpublish s v = Some s' -> inv1 b s'.
Proof.
  intros I H. unfold do_finpublish in H. crunch H; subst; bool_hyps; subst.
  destruct I as [Il Iu Ic If Ica Ir Ifi Ico]; constructor; simpl; auto.
  destruct Ico as (A & B & C). repeat split; try lia.
  destruct (ctaken s); auto. destruct C; split; auto; lia.
Qed.

Lemma inv1_ctake s j s' : inv1 b s -> do_ctake s j = Some s' -> inv1 b s'.
Proof.
  intros I H. unfold do_ctake in H. crunch H; subst; bool_hyps; subst.
  destruct I as [Il Iu Ic If Ica Ir Ifi Ico]; constructor; simpl; auto.
  destruct Ico as (A & B & C). repeat split; auto.
Qed.

Lemma inv1_cdone s j kind s' : inv1 b s -> do_cdone b s j kind = Some s' -> inv1 b s'.
Proof.
  intros I H. unfold do_cdone in H. crunch H; subst; bool_hyps; subst.
  all: destruct I as [Il Iu Ic If Ica Ir Ifi Ico]; constructor; simpl; auto.
  all: rewrite E in Ico; destruct Ico as (A & B & (C1 & C2)); repeat split; auto; lia.
Qed.

Lemma inv1_simple s s' :
  inv1 b s -> lower s' = lower s -> unconf s' = unconf s -> clock s' = clock s -> cs s' = cs s ->
  st s' = st s -> inc s' = inc s -> fidx s' = fidx s -> carried s' = carried s -> fpub s' = fpub s ->
  cidx s' = cidx s -> ctaken s' = ctaken s -> inv1 b s'.
Proof.
  intros [Il Iu Ic If Ica Ir Ifi Ico] H1 H2 H3 H4 H5 H6 H7 H8 H9 H10 H11. constructor.
  - intros; rewrite H1, H3; auto.
  - intros; rewrite H2, H3; auto.
  - intros k. eapply cs_ok_other; [| | | | | apply Ic]; try congruence. lia.
  - intros; rewrite H5, H7; auto.
  - intros; rewrite H1, H8; apply Ica; congruence.
  - intros; rewrite H5, H4; auto.
  - congruence.
  - rewrite H10, H9, H7, H11; auto.
Qed.

Theorem inv1_step s e s' : inv1 b s -> step b s e = Some s' -> inv1 b s'.
Proof.
  intros I H. unfold step in H. destruct (finished s); [discriminate|].
  destruct e.
  - eapply inv1_xclaim; eauto.
  - crunch H; subst; auto.
  - eapply inv1_xbegin; eauto.
  - eapply inv1_xread; eauto.
  - eapply inv1_xbase; eauto.
  - eapply inv1_xben; eauto.
  - eapply inv1_xpublish; eauto.
  - eapply inv1_xret; eauto.
  - eapply inv1_xunpublish; eauto.
  - eapply inv1_xmarkest; eauto.
  - eapply inv1_xstatus; eauto.
  - eapply inv1_tick; eauto.
  - eapply inv1_lower; eauto.
  - eapply inv1_xend; eauto.
  - eapply inv1_vclaim; eauto.
  - crunch H; subst; auto.
  - eapply inv1_vbegin; eauto.
  - eapply inv1_vcheck; eauto.
  - eapply inv1_vben; eauto.
  - eapply inv1_vscanned; eauto.
  - eapply inv1_vstatus; eauto.
  - eapply inv1_vend; eauto.
  - eapply inv1_finalize; eauto.
  - eapply inv1_finpublish; eauto.
  - eapply inv1_ctake; eauto.
  - eapply inv1_cdone; eauto.
  - unfold do_cpublish in H; crunch H; subst. eapply inv1_simple; eauto.
  - unfold do_abort in H; crunch H; subst; auto. destruct first; auto. eapply inv1_simple; eauto.
  - unfold do_postexecute in H; crunch H; subst. eapply inv1_simple; eauto.
Qed.

End P.
